#!/bin/sh
# ./check.sh <property id> [--tier quick|thorough]
# Verifies the property on /repo's current working tree. Exit 0: held; exit 1: VIOLATION lines; exit 2: engine fault.
cd "$(dirname "$0")"
export GOFLAGS=-mod=mod GOPROXY=off GOSUMDB=off GOTOOLCHAIN=local CGO_ENABLED=0
[ -x bin/govc ] && [ -z "$(find govc spec -newer bin/govc -name '*.go' 2>/dev/null | head -1)" ] || ./setup.sh >&2 || exit 2
# result cache of the unwinding families (keyed by the hash of /repo's sources): drop entries of
# trees not seen for a day
find build/cache -type f -mtime +0 -delete 2>/dev/null
id=$1; shift
exec ./bin/govc check "$@" "$id"
