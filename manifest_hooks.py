#!/usr/bin/env python3
# refreshes MANIFEST.hooks.source_commits from /repo's "verif hook" commits
import json,subprocess
p='/verif/MANIFEST.json'
m=json.load(open(p))
m['hooks']['source_commits']=subprocess.check_output("git -C /repo log --reverse --format='%h %s' | grep -i 'verif hook' | cut -d' ' -f1",shell=True).decode().split()
json.dump(m,open(p,'w'),indent=2,ensure_ascii=False)
print(len(m['hooks']['source_commits']),'hook commits')
