#!/usr/bin/env python3
# merges design8.md (section 8, "As built") and the seeded table into DESIGN.md
import subprocess
p='/verif/DESIGN.md'
s=open(p).read()
if '## 8. As built' in s:
    s=s[:s.index('## 8. As built')]
note='''> **Status note.** Sections 0–7 and the appendices are the plan written before the code. Section 8
> (“As built”, at the end) records what the machinery in /verif actually does today, where it
> deviates from the plan, the defects found, the false alarms corrected, and which check catches
> which seeded change. Where the plan promises more than §8 reports, §8 is right.

'''
if 'Status note.' not in s:
    i=s.index('## 0. Decisions in one table')
    s=s[:i]+note+s[i:]
s=s.rstrip('\n')+'\n\n\n'
sec=open('/verif/design8.md').read()
tab=subprocess.check_output(['/verif/seeded_table.sh']).decode()
a=sec.index('<!-- SEEDED-TABLE-BEGIN -->')+len('<!-- SEEDED-TABLE-BEGIN -->')
b=sec.index('<!-- SEEDED-TABLE-END -->')
sec=sec[:a]+'\n'+tab+sec[b:]
open(p,'w').write(s+sec)
