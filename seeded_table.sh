#!/bin/bash
# prints the markdown table "which check catches which seeded change" from seeded/*/meta.json
echo "| change | breaks | what it does | failed obligations (first) | deductive | bounded |"
echo "|---|---|---|---|---|---|"
for d in /verif/seeded/C*/; do
  n=$(basename $d)
  jq -r --arg n "$n" '[$n, .property, (.title|gsub("\\|";"/")|.[0:150]), ((.outcome.first_failed_obligations // [])[0:2]|map(.[0:80])|join("<br>")), (.outcome.deductive_violations // "?"|tostring), (.outcome.bounded_violations // "?"|tostring)] | "| " + join(" | ") + " |"' $d/meta.json
done
