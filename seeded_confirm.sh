#!/bin/bash
# usage: seeded_confirm.sh <out-dir e.g. /tmp/wt/out/C01-1>
# Confirms a sub-agent's mutant in its scratch worktree (tests pass with the change, demo fails with it,
# demo passes without it) and files it under /verif/seeded/<name>/.
export GOFLAGS=-mod=mod GOPROXY=off GOSUMDB=off GOTOOLCHAIN=local
src=$1; name=$(basename $src); id=${name%-*}; wt=/tmp/wt/$id
[ -f $src/patch.diff ] || { echo "$name: no patch"; exit 1; }
demodir=$(python3 -c "import json;print(json.load(open('$src/meta.json')).get('demo_dir','.'))")
demo=$(ls $src/*_test.go | head -1)
git -C $wt checkout -q -- . && git -C $wt clean -fdq
cp $demo $wt/$demodir/zz_demo_test.go
( cd $wt && go test -vet=off -count=1 ./$demodir/ >/tmp/seed_clean.log 2>&1 ); clean=$?
git -C $wt apply $src/patch.diff || { echo "$name: patch does not apply"; exit 1; }
( cd $wt && go test -vet=off -count=1 ./$demodir/ >/tmp/seed_mut.log 2>&1 ); mut=$?
rm $wt/$demodir/zz_demo_test.go
( cd $wt && go build ./... && go test -vet=off -count=1 ./... >/tmp/seed_suite.log 2>&1 ); suite=$?
git -C $wt checkout -q -- . && git -C $wt clean -fdq
echo "$name: demo on clean tree exit=$clean (want 0), demo with change exit=$mut (want !=0), existing suite with change exit=$suite (want 0)"
if [ $clean -eq 0 ] && [ $mut -ne 0 ] && [ $suite -eq 0 ]; then
  mkdir -p /verif/seeded/$name && cp $src/patch.diff $src/meta.json /verif/seeded/$name/ && cp $demo /verif/seeded/$name/demo_test.go
  echo "confirmed" > /verif/seeded/$name/CONFIRMED
else
  echo "$name: NOT CONFIRMED"
fi
