#!/bin/bash
# Must-fail corpus for the engine (run after every engine change): each line is a property-breaking
# sed edit of one file of /repo; the named function must NOT verify any more on a scratch copy.
# A mutation that still verifies is an engine/contract hole (vacuity, too weak a contract).
# usage: selftest/run.sh            (about 15 minutes; needs bin/govc)
# The 55 confirmed agent-written changes under /verif/seeded are the second half of the corpus
# (seeded_run.sh <name>).
cd /verif
fail=0
run() { # file sed-expr function
  d=/root/scratch/selftest.$$; mkdir -p /root/scratch; rsync -a --delete --exclude .git /repo/ $d/
  sed -i "$2" $d/$1
  if diff -q /repo/$1 $d/$1 >/dev/null; then echo "SKIP (edit did not apply) $1 $2"; rm -rf $d; fail=1; return; fi
  out=$(timeout 900 ./bin/govc verify -timeout 5 -repo $d "$3" 2>&1)
  rm -rf $d
  if echo "$out" | grep -q ", 0 not proved" && ! echo "$out" | grep -q "[1-9][0-9]* not proved\|ENGINE"; then
    echo "HOLE  $3 still verifies after: $2"; fail=1
  else
    echo "ok    $3 rejects: $2"
  fi
}
run twooffive/encoder.go 's/even := len(content)%2 == 1/even := len(content)%2 == 0/' twooffive.AddCheckSum
run twooffive/encoder.go 's/(10-sum%10)%10/10-sum%10/' twooffive.AddCheckSum
run twooffive/encoder.go 's/true:  3,/true:  2,/' twooffive.EncodeWithColor
run codabar/encoder.go 's/if i > 0 {/if i > 1 {/' codabar.EncodeWithColor
run code39/encoder.go 's/sum = sum % 43/sum = sum % 42/' code39.getChecksum
run code39/encoder.go 's/27: `%A`/27: `%B`/' code39.prepare
run datamatrix/encoder.go 's/result = append(result, c+1)/result = append(result, c)/' datamatrix.encodeText
run datamatrix/encoder.go 's/tmp > 254/tmp >= 254/' datamatrix.addPadding
run pdf417/errorcorrection.go 's/(add + 929 - (temp\*factors\[i\])%929) % 929/(add + 929 - (temp*factors[i])%929) % 928/' 'pdf417.(securitylevel).Compute'
run qr/encoder.go 's/bl.AddByte(236)/bl.AddByte(235)/' qr.addPaddingAndTerminator
run qr/numeric.go 's/bitCnt = 7/bitCnt = 8/' qr.encodeNumeric
run qr/alphanumeric.go 's/res.AddBits(c1\*45+c2, 11)/res.AddBits(c1*44+c2, 11)/' qr.encodeAlphaNumeric
run qr/unicode.go 's/res.AddByte(b)$/res.AddByte(b ^ 1)/' qr.encodeUnicode
run utils/bitlist.go 's/for c > 0 {/for c > 7 {/' 'utils.(*BitList).IterateBytes$1'
run aztec/encoder.go 's/modeMessage.AddBits(layers-1, 2)/modeMessage.AddBits(layers, 2)/' aztec.generateModeMessage
run utils/galoisfield.go 's/} else if a == 0 {/} else if a == 1 {/' 'utils.(*GaloisField).Divide'
run qr/encoder.go 's/return encodeUnicode$/return nil/' 'qr.(Encoding).getEncoder'
run code93/encoder.go 's/if info.value == total {/if info.value == total && r < 0x80 {/' code93.getChecksum
exit $fail
