#!/bin/sh
# usage: mut.sh <file> <sed-expr> <func>...   — apply a sed edit to a scratch copy of /repo and run govc verify
set -e
d=/root/scratch/mut.$$
mkdir -p /root/scratch
rsync -a --delete --exclude .git /repo/ $d/
f=$1; e=$2; shift 2
sed -i "$e" $d/$f
if diff -q /repo/$f $d/$f >/dev/null; then echo "MUTATION DID NOT APPLY"; rm -rf $d; exit 3; fi
diff /repo/$f $d/$f | head -6
(cd $d && GOFLAGS=-mod=mod go build ./... ) || { echo "DOES NOT COMPILE"; rm -rf $d; exit 3; }
/verif/bin/govc verify -repo $d "$@" || true
rm -rf $d
