#!/bin/sh
# Offline build of the verifier from files on disk only.
set -e
cd "$(dirname "$0")"
export GOFLAGS=-mod=mod GOPROXY=off GOSUMDB=off GOTOOLCHAIN=local CGO_ENABLED=0
mkdir -p bin
go build -o bin/govc ./govc
