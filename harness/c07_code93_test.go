package code93

// Bounded stand-in / replay search for the Code 93 half of C07 (round trip through the reference decoder in
// all four (includeChecksum, fullASCII) configurations) with the Code 93 clause of C10 (alphabet).
// Injected with go test -overlay; never written into /repo.
//
// With includeChecksum=false the symbol must carry the text alone (fixed defect F12: check character C
// used to be emitted although none was requested).

import (
	"fmt"
	"math/rand"
	"strconv"
	"strings"
	"testing"

	"github.com/boombuler/barcode"

	"verif/harness/hlib"
	"verif/spec/onedspec"
)

const v93Basic = "0123456789ABCDEFGHIJKLMNOPQRSTUVWXYZ-. $/+%"

// v93Rune maps a symbol value to the rune the library uses for it in Content() and in basic-mode input.
func v93Rune(v int) rune {
	switch {
	case v >= 0 && v < 43:
		return rune(v93Basic[v])
	case v == 43:
		return FNC1
	case v == 44:
		return FNC2
	case v == 45:
		return FNC3
	case v == 46:
		return FNC4
	}
	return -1
}

func v93Check(content string) (fails []hlib.Failure) {
	for cfg := 0; cfg < 4; cfg++ {
		withCS, full := cfg&1 == 1, cfg&2 == 2
		input := fmt.Sprintf("code93.Encode(%s, %v, %v)", strconv.QuoteToASCII(content), withCS, full)
		fail := func(check, detail string) {
			fails = append(fails, hlib.Failure{Check: check, Input: input, Detail: detail})
		}
		valid, why := true, ""
		for _, r := range content {
			if full && r > 127 {
				valid, why = false, fmt.Sprintf("%U is not ASCII", r)
			}
			if !full && !(r <= 127 && strings.ContainsRune(v93Basic, r)) && r != FNC1 && r != FNC2 && r != FNC3 && r != FNC4 {
				valid, why = false, fmt.Sprintf("%U is not a Code 93 character", r)
			}
		}
		var bc barcode.Barcode
		var err error
		var panicked interface{}
		func() {
			defer func() {
				if p := recover(); p != nil {
					panicked = p
				}
			}()
			bc, err = Encode(content, withCS, full)
		}()
		if panicked != nil {
			fail("panic", fmt.Sprint(panicked))
			continue
		}
		if (bc == nil) == (err == nil) {
			fail("result-shape", fmt.Sprintf("barcode nil=%v err=%v", bc == nil, err))
			continue
		}
		if err != nil {
			if valid && content != "" {
				fail("rejects-representable", err.Error())
			}
			continue
		}
		if !valid {
			fail("accepts-unrepresentable", "succeeded although "+why)
			continue
		}
		bd := bc.Bounds()
		if bd.Min.X != 0 || bd.Min.Y != 0 || bd.Dy() != 1 {
			fail("bounds", fmt.Sprint(bd))
			continue
		}
		bars, clean := hlib.Bars(bc, 0)
		if !clean {
			fail("colours", "a pixel is neither black nor white")
		}
		values, derr := onedspec.C93Decode(bars)
		if derr != nil {
			fail("reference-decoder", derr.Error()+" bars="+hlib.BarString(bars))
			continue
		}
		// the text as symbol values
		matches := func(data []int) (bool, string) {
			if full {
				txt, ferr := onedspec.C93FullASCIIDecode(data)
				if ferr != nil {
					return false, fmt.Sprintf("values %v: %v", data, ferr)
				}
				if string(txt) != content {
					return false, fmt.Sprintf("values %v stand for %s", data, strconv.QuoteToASCII(string(txt)))
				}
				return true, ""
			}
			var rs []rune
			for _, v := range data {
				rs = append(rs, v93Rune(v))
			}
			if string(rs) != content {
				return false, fmt.Sprintf("values %v stand for %s", data, strconv.QuoteToASCII(string(rs)))
			}
			return true, ""
		}
		var data []int
		if withCS {
			if len(values) < 2 {
				fail("check-characters", fmt.Sprintf("symbol has %d characters, two check characters requested", len(values)))
				continue
			}
			data = values[:len(values)-2]
			c, k := onedspec.C93Checks(data)
			if values[len(values)-2] != c || values[len(values)-1] != k {
				fail("check-characters", fmt.Sprintf("symbol values %v end with %d %d, correct C and K are %d %d", values, values[len(values)-2], values[len(values)-1], c, k))
			}
			if ok, msg := matches(data); !ok {
				fail("text", msg)
			}
		} else {
			// no check characters requested: the symbol carries the text alone
			ok, msg := matches(values)
			data = values
			if !ok {
				fail("text", msg+" (no check characters were requested)")
			}
		}
		var rs []rune
		for _, v := range data {
			rs = append(rs, v93Rune(v))
		}
		if bc.Content() != string(rs) {
			fail("content", fmt.Sprintf("Content()=%s, symbol characters %s", strconv.QuoteToASCII(bc.Content()), strconv.QuoteToASCII(string(rs))))
		}
		if md := bc.Metadata(); md.CodeKind != barcode.TypeCode93 || md.Dimensions != 1 {
			fail("metadata", fmt.Sprint(md))
		}
	}
	return
}

func v93Main(t *testing.T, id string, only ...string) {
	r := hlib.New(id)
	r.Only = only
	defer r.Done(t)
	rng := rand.New(rand.NewSource(r.Seed))
	thorough := r.Tier == "thorough"
	var cases []string
	flush := func() {
		r.ParallelN(len(cases), func(i int) (int, []hlib.Failure) { return 4, v93Check(cases[i]) })
		cases = cases[:0]
	}
	f1, f2, f3, f4 := string(FNC1), string(FNC2), string(FNC3), string(FNC4)
	cases = append(cases, "", "A", "AB", "0", "*", "**", "A*B", "a", "ab", "Hello, World!", "CODE 93", "CODE-93.", "$/+%", "$", "/", "+", "%", f1, f2, f3, f4, f1+"A", f2+"U", f3+"Z", f4+"A", f1+f1, "A"+f1,
		"\x00", "\x1f", "\x7f", "\x80", "\xff", "é", "Aé", "ñ", "õ", "ð", "日本", "A\nB", " ", "@", "`", "~", "[\\]^_", "{|}", ":;<=>?", "!\"#&'()", ",", "12345678901234567890", "123456789012345678901", "1234567890123456", "123456789012345",
		v93Basic, v93Basic+v93Basic, strings.Repeat("%", 14), strings.Repeat("%", 15), strings.Repeat("%", 16), strings.Repeat("%", 19), strings.Repeat("%", 20), strings.Repeat("%", 21), strings.Repeat("%", 41), strings.Repeat("z", 25))
	for c := rune(0); c < 0x180; c++ {
		cases = append(cases, string(c), "A"+string(c)+"Z", string(c)+string(c))
	}
	for _, a := range v93Basic + f1 + f2 + f3 + f4 {
		for _, b := range v93Basic + f1 + f2 + f3 + f4 {
			cases = append(cases, string(a)+string(b))
		}
	}
	for a := 0; a < 128; a++ {
		for b := 0; b < 128; b++ {
			if thorough || (a+b)%4 == 0 {
				cases = append(cases, string([]byte{byte(a), byte(b)}))
			}
		}
	}
	// every length 0..64 (weights wrap at 20 and 15)
	for n := 0; n <= 64; n++ {
		cases = append(cases, strings.Repeat("%", n), strings.Repeat("Z", n), hlib.RandFrom(rng, v93Basic, n), strings.Repeat("z", n))
	}
	flush()
	n := 100000
	if thorough {
		n = 1500000
	}
	for i := 0; i < n; i++ {
		l := 1 + rng.Intn(30)
		if rng.Intn(10) == 0 {
			l = 1 + rng.Intn(200)
		}
		var s string
		switch rng.Intn(4) {
		case 0:
			s = hlib.RandFrom(rng, v93Basic, l)
		case 1:
			b := make([]byte, l)
			for j := range b {
				b[j] = byte(rng.Intn(128))
			}
			s = string(b)
		case 2:
			rs := []rune(v93Basic + f1 + f2 + f3 + f4 + f1 + f2 + f3 + f4)
			var sb strings.Builder
			for j := 0; j < l; j++ {
				sb.WriteRune(rs[rng.Intn(len(rs))])
			}
			s = sb.String()
		default:
			s = hlib.RandFrom(rng, v93Basic+"abz*,\x00\x7f", l)
			if rng.Intn(50) == 0 {
				s += []string{"é", "\xff", "€", "\u0080", "õ"}[rng.Intn(5)]
			}
		}
		cases = append(cases, s)
		if len(cases) > 50000 {
			flush()
		}
	}
	flush()
}

func TestVerifC07Code93(t *testing.T) { v93Main(t, "C07") }

// The same cases reported under the other properties they serve (only the named checks count).
func TestVerifC10Code93(t *testing.T) {
	v93Main(t, "C10", "panic", "result-shape", "rejects-representable", "accepts-unrepresentable")
}
