package codabar

// Bounded stand-in / replay search for the Codabar half of C08 (round trip through the reference decoder)
// with the Codabar clause of C10 (accepted exactly: start letter A-D, any number of 0-9 - $ : / . +, stop
// letter A-D). Injected with go test -overlay; never written into /repo.

import (
	"fmt"
	"math/rand"
	"strconv"
	"strings"
	"testing"

	"github.com/boombuler/barcode"

	"verif/harness/hlib"
	"verif/spec/onedspec"
)

const vcbInner = "0123456789-$:/.+"

func vcbValid(s string) bool {
	if len(s) < 2 {
		return false
	}
	if !strings.ContainsRune("ABCD", rune(s[0])) || !strings.ContainsRune("ABCD", rune(s[len(s)-1])) {
		return false
	}
	for i := 1; i < len(s)-1; i++ {
		if strings.IndexByte(vcbInner, s[i]) < 0 {
			return false
		}
	}
	return true
}

func vcbCheck(content string) (fails []hlib.Failure) {
	input := fmt.Sprintf("codabar.Encode(%s)", strconv.QuoteToASCII(content))
	fail := func(check, detail string) {
		fails = append(fails, hlib.Failure{Check: check, Input: input, Detail: detail})
	}
	valid := vcbValid(content)
	var bc barcode.Barcode
	var err error
	var panicked interface{}
	func() {
		defer func() {
			if p := recover(); p != nil {
				panicked = p
			}
		}()
		bc, err = Encode(content)
	}()
	if panicked != nil {
		fail("panic", fmt.Sprint(panicked))
		return
	}
	if (bc == nil) == (err == nil) {
		fail("result-shape", fmt.Sprintf("barcode nil=%v err=%v", bc == nil, err))
		return
	}
	if err != nil {
		if valid {
			fail("rejects-representable", err.Error())
		}
		return
	}
	if !valid {
		fail("accepts-unrepresentable", "succeeded although the text is not [ABCD][0-9-$:/.+]*[ABCD]")
		return
	}
	bd := bc.Bounds()
	if bd.Min.X != 0 || bd.Min.Y != 0 || bd.Dy() != 1 {
		fail("bounds", fmt.Sprint(bd))
		return
	}
	bars, clean := hlib.Bars(bc, 0)
	if !clean {
		fail("colours", "a pixel is neither black nor white")
	}
	txt, derr := onedspec.CodabarDecode(bars)
	if derr != nil {
		fail("reference-decoder", derr.Error()+" bars="+hlib.BarString(bars))
		return
	}
	if txt != content {
		fail("text", fmt.Sprintf("symbol decodes to %q", txt))
	}
	if bc.Content() != content {
		fail("content", "Content()="+strconv.QuoteToASCII(bc.Content()))
	}
	if md := bc.Metadata(); md.CodeKind != barcode.TypeCodabar || md.Dimensions != 1 {
		fail("metadata", fmt.Sprint(md))
	}
	return
}

func vcbMain(t *testing.T, id string, only ...string) {
	r := hlib.New(id)
	r.Only = only
	defer r.Done(t)
	rng := rand.New(rand.NewSource(r.Seed))
	thorough := r.Tier == "thorough"
	var cases []string
	flush := func() {
		r.Parallel(len(cases), func(i int) []hlib.Failure { return vcbCheck(cases[i]) })
		cases = cases[:0]
	}
	cases = append(cases, "", "A", "AB", "AA", "A1B", "A1234567890B", "A-$:/.+B", "!", "!!", "A!B", "a1b", "A1b", "a1B", "E1E", "A1E", "1", "12", "A12", "12B", "A1B\n", "\nA1B", "A1\nB", "A\n1B", "A1B\r\n", "A1B ", " A1B",
		"A1BA2B", "A1B!", "!A1B", "xA1B", "A1Bx", "AéB", "éA1B", "A1Bé", "é", "A1B\x00", "\x00A1B", "A\x001B", "A1B\xff", "\xffA1B", "A\xffB", "A1B ", "ABCD", "AABB", "A1A1A", "A B", "A,B", "A*B", "T1N", "A1N", "*1*", "A１B", "A١B", "A1B\v", "A1B\f",
		"A"+strings.Repeat("0123456789-$:/.+", 20)+"D")
	// every rune 0..0x17f in every position of a three character text
	for c := rune(0); c < 0x180; c++ {
		cases = append(cases, string(c), string(c)+"1B", "A"+string(c)+"B", "A1"+string(c), "A1B"+string(c), string(c)+"A1B", string(c)+string(c))
	}
	// exhaustive short texts over a small alphabet
	alpha := []string{"A", "D", "0", "9", "-", "+", "a", "\n", "!", "E"}
	maxLen := 4
	if thorough {
		maxLen = 6
	}
	var rec func(p string, d int)
	rec = func(p string, d int) {
		if d > 0 {
			cases = append(cases, p)
		}
		if d == maxLen {
			return
		}
		for _, a := range alpha {
			rec(p+a, d+1)
		}
	}
	rec("", 0)
	// every pair / triple of inner characters between every start/stop pair
	for _, s := range "ABCD" {
		for _, e := range "ABCD" {
			cases = append(cases, string(s)+string(e))
			for _, a := range vcbInner {
				cases = append(cases, string(s)+string(a)+string(e))
				for _, b := range vcbInner {
					cases = append(cases, string(s)+string(a)+string(b)+string(e))
				}
			}
		}
	}
	flush()
	n := 300000
	if thorough {
		n = 10000000
	}
	for i := 0; i < n; i++ {
		l := rng.Intn(30)
		if rng.Intn(10) == 0 {
			l = rng.Intn(300)
		}
		s := hlib.RandFrom(rng, "ABCD", 1) + hlib.RandFrom(rng, vcbInner, l) + hlib.RandFrom(rng, "ABCD", 1)
		switch rng.Intn(6) {
		case 0: // damage one position
			b := []byte(s)
			const bad = "abcdEN*T \n!,_\x00\xff"
			b[rng.Intn(len(b))] = bad[rng.Intn(len(bad))]
			s = string(b)
		case 1:
			s = hlib.RandFrom(rng, "ABCD"+vcbInner, 2+l)
		}
		cases = append(cases, s)
		if len(cases) > 100000 {
			flush()
		}
	}
	flush()
}

func TestVerifC08Codabar(t *testing.T) { vcbMain(t, "C08") }

// The same cases reported under the other properties they serve (only the named checks count).
func TestVerifC10Codabar(t *testing.T) {
	vcbMain(t, "C10", "panic", "result-shape", "rejects-representable", "accepts-unrepresentable")
}
