package qr

// Bounded stand-in / replay search for C01 (QR round trip through the reference reader), with the QR
// clauses of C10 (rejection exactness), C12 (level declared) and C13 (smallest version) as separate
// tests over the same case generator. Injected with go test -overlay; never written into /repo.

import (
	"fmt"
	"math/rand"
	"strconv"
	"strings"
	"testing"
	"time"

	"verif/harness/hlib"
	"verif/spec/qrspec"
)

const (
	vqrDigits = "0123456789"
	vqrAlnum  = qrspec.AlphanumericCharset
)

var vqrLevels = []ErrorCorrectionLevel{L, M, Q, H}
var vqrSpecLevels = []qrspec.Level{qrspec.L, qrspec.M, qrspec.Q, qrspec.H}
var vqrModes = []Encoding{Auto, Numeric, AlphaNumeric, Unicode}

func vqrAll(s, set string) bool {
	for i := 0; i < len(s); i++ {
		if strings.IndexByte(set, s[i]) < 0 {
			return false
		}
	}
	return true
}

// vqrExpect says what the specification demands for (content, level, mode): the segment mode that
// has to be used and whether the content is representable at all.
func vqrExpect(content string, lvl int, mode Encoding) (segMode qrspec.Mode, ok bool, why string) {
	switch mode {
	case Numeric:
		if !vqrAll(content, vqrDigits) {
			return 0, false, "not all digits"
		}
		segMode = qrspec.ModeNumeric
	case AlphaNumeric:
		if !vqrAll(content, vqrAlnum) {
			return 0, false, "not in the alphanumeric set"
		}
		segMode = qrspec.ModeAlpha
	case Unicode:
		segMode = qrspec.ModeByte
	case Auto:
		switch {
		case vqrAll(content, vqrDigits):
			segMode = qrspec.ModeNumeric
		case vqrAll(content, vqrAlnum):
			segMode = qrspec.ModeAlpha
		default:
			segMode = qrspec.ModeByte
		}
	}
	if len(content) > qrspec.MaxChars(40, vqrSpecLevels[lvl], segMode) {
		return segMode, false, "longer than version 40 holds"
	}
	return segMode, true, ""
}

func vqrMinVersion(n int, lvl int, m qrspec.Mode) int {
	for v := 1; v <= 40; v++ {
		if qrspec.MaxChars(v, vqrSpecLevels[lvl], m) >= n {
			return v
		}
	}
	return 41
}

type vqrCase struct {
	content, expr string
	lvl           int
	mode          Encoding
}

// vqrCheck runs one case. which selects the clauses that are reported: "C01", "C10", "C12", "C13".
func vqrCheck(which string, c vqrCase) (fails []hlib.Failure) {
	fail := func(check, input, detail string) {
		fails = append(fails, hlib.Failure{Check: check, Input: input, Detail: detail})
	}
	input := fmt.Sprintf("qr.Encode(%s, qr.%v, qr.%v)", c.expr, vqrLevels[c.lvl], c.mode)
	segMode, wantOK, why := vqrExpect(c.content, c.lvl, c.mode)
	var panicked interface{}
	res, encErr := func() (res *qrcodeView, e error) {
		defer func() {
			if p := recover(); p != nil {
				panicked = p
			}
		}()
		b, e := Encode(c.content, vqrLevels[c.lvl], c.mode)
		if e != nil {
			if b != nil {
				return &qrcodeView{both: true}, e
			}
			return nil, e
		}
		if b == nil {
			return &qrcodeView{neither: true}, nil
		}
		bd := b.Bounds()
		v := &qrcodeView{minX: bd.Min.X, minY: bd.Min.Y, w: bd.Dx(), h: bd.Dy(), content: b.Content()}
		v.at = func(x, y int) bool { return hlib.IsDark(b.At(x, y)) }
		return v, nil
	}()
	if panicked != nil {
		if which == "C10" {
			fail("panic", input, fmt.Sprint(panicked))
		}
		return
	}
	if res != nil && (res.both || res.neither) {
		if which == "C10" {
			fail("result-shape", input, fmt.Sprintf("barcode and error both set or both nil (err=%v)", encErr))
		}
		return
	}
	if encErr != nil {
		if wantOK && which == "C10" {
			fail("rejects-representable", input, fmt.Sprintf("error %q although the content (%d bytes) fits %v mode at this level", encErr.Error(), len(c.content), segMode))
		}
		return
	}
	if !wantOK {
		if which == "C10" || which == "C01" {
			fail("accepts-unrepresentable", input, "Encode succeeded although content is "+why)
		}
		return
	}
	if which == "C10" {
		return
	}
	if res.minX != 0 || res.minY != 0 || res.w != res.h {
		if which == "C01" {
			fail("bounds", input, fmt.Sprintf("bounds (%d,%d)+%dx%d", res.minX, res.minY, res.w, res.h))
		}
		return
	}
	dec, derr := qrspec.Decode(res.w, res.at)
	if derr != nil {
		if which == "C01" {
			fail("reference-reader", input, derr.Error())
		}
		return
	}
	switch which {
	case "C01":
		if string(dec.Payload) != c.content {
			fail("payload", input, fmt.Sprintf("decoded %s", strconv.Quote(vqrShort(string(dec.Payload)))))
		}
		if res.content != c.content {
			fail("content", input, fmt.Sprintf("Content()=%s", strconv.Quote(vqrShort(res.content))))
		}
	case "C12":
		if dec.Level != vqrSpecLevels[c.lvl] {
			fail("level", input, fmt.Sprintf("format information names level %v", dec.Level))
		}
		// Decode has already verified every block against ISO table 9 for (version, declared level).
	case "C13":
		want := vqrMinVersion(len(c.content), c.lvl, segMode)
		if dec.Version > want {
			fail("version", input, fmt.Sprintf("version %d, but version %d holds %d %v characters at level %v", dec.Version, want, len(c.content), segMode, vqrSpecLevels[c.lvl]))
		}
		if dec.Version < want && len(dec.Segments) == 1 && dec.Segments[0].Mode == segMode {
			fail("version-below-capacity", input, fmt.Sprintf("version %d < %d: oracle capacity table disagrees", dec.Version, want))
		}
	}
	return
}

type qrcodeView struct {
	both, neither    bool
	minX, minY, w, h int
	content          string
	at               func(x, y int) bool
}

func vqrShort(s string) string {
	if len(s) > 120 {
		return s[:120] + fmt.Sprintf("...(%d bytes)", len(s))
	}
	return s
}

// vqrRun generates the cases. budget bounds the wall time of the random tail.
func vqrRun(t *testing.T, id, which string) {
	r := hlib.New(id)
	defer r.Done(t)
	rng := rand.New(rand.NewSource(r.Seed))
	thorough := r.Tier == "thorough"
	start := time.Now()
	lit := func(s string) (string, string) { return s, strconv.Quote(s) }
	var cases []vqrCase
	add := func(c vqrCase) { cases = append(cases, c) }
	flush := func() {
		r.Parallel(len(cases), func(i int) []hlib.Failure { return vqrCheck(which, cases[i]) })
		cases = cases[:0]
	}
	all := func(content, expr string) {
		for lvl := range vqrLevels {
			for _, m := range vqrModes {
				add(vqrCase{content, expr, lvl, m})
			}
		}
	}

	// 1. fixed corner cases, every level x mode
	fixed := []string{"", "0", "7", "00", "000", "0000", "012", "999", "1000", "0123456789", "A", "AB", "ABC", " ", ":", "$%*+-./:",
		"+", "-", "+1", "-1", "+12", "-12", "-0", "+0", "1+2", "1-2", "12+", "12-", "123+45", "123-45", "123+4", "123 45", " 12", "12 ", "1 2",
		"0x1", "1e2", "1_2", "1.5", "٣", "１２３", "१२३", "a", "ab", "aB", "Hello, world!", "hello", "HELLO WORLD", "http://example.com/?q=1",
		"\x00", "\x00\x00", "\xff", "\xc3", "\xc3\x28", "\xe2\x82", "A\x80", "1\xff", "é", "日本語", "éA", "Aé", "€", "\U0001F600", "12\n", "AB\r\n", "\t",
		"000000000000000000000000000000000000000001", "AAAAAAAAAAAAAAAAAAAAAAAAA", "123456789012345678901234567890123456789A", "A1234567890123456789012345678901234567890"}
	for _, s := range fixed {
		all(lit(s))
	}

	// 2. exhaustive short strings over an alphabet that mixes digits, signs and other number syntax
	alpha := []string{"0", "9", "5", "+", "-", " ", "_", "x", "e", ".", "A", "\xff"}
	maxLen := 3
	if thorough {
		maxLen = 4
	}
	var rec func(prefix string, depth int)
	rec = func(prefix string, depth int) {
		if depth > 0 {
			s, e := lit(prefix)
			lvl := rng.Intn(4)
			add(vqrCase{s, e, lvl, Numeric})
			add(vqrCase{s, e, lvl, Auto})
			if thorough || depth <= 2 {
				add(vqrCase{s, e, lvl, AlphaNumeric})
				add(vqrCase{s, e, lvl, Unicode})
			}
		}
		if depth == maxLen {
			return
		}
		for _, a := range alpha {
			rec(prefix+a, depth+1)
		}
	}
	rec("", 0)
	// every single byte value
	for b := 0; b < 256; b++ {
		s, e := lit(string([]byte{byte(b)}))
		lvl := rng.Intn(4)
		for _, m := range vqrModes {
			add(vqrCase{s, e, lvl, m})
		}
		s, e = lit("1" + string([]byte{byte(b)}) + "2")
		add(vqrCase{s, e, lvl, Numeric})
		add(vqrCase{s, e, lvl, AlphaNumeric})
	}

	// 3. capacity boundaries of every version, level and mode: n-1, n, n+1 characters.
	// quick: the explicit mode for every (version, level, mode) at n and n+1, Auto and n-1 for a rotating subset;
	// thorough: everything.
	type bm struct {
		m     qrspec.Mode
		mode  Encoding
		alpha string
	}
	bms := []bm{{qrspec.ModeNumeric, Numeric, vqrDigits}, {qrspec.ModeAlpha, AlphaNumeric, vqrAlnum}, {qrspec.ModeByte, Unicode, ""}}
	gen := func(b bm, n int) (string, string) {
		if b.alpha == "" {
			if n <= 300 {
				return lit(hlib.RandBytes(rng, n))
			}
			return hlib.Rep(hlib.RandBytes(rng, 1+rng.Intn(23)), n)
		}
		s, e := hlib.Long(rng, b.alpha, n)
		if b.mode == AlphaNumeric && vqrAll(s, vqrDigits) && n > 0 {
			s = "A" + s[1:] // keep it a genuine alphanumeric content for Auto
			e = `"A"+(` + e + `)[1:]`
		}
		return s, e
	}
	k := 0
	for v := 1; v <= 40; v++ {
		for lvl := range vqrLevels {
			for _, b := range bms {
				n := qrspec.MaxChars(v, vqrSpecLevels[lvl], b.m)
				for _, d := range []int{-1, 0, 1} {
					k++
					if !thorough && d == -1 && k%4 != 0 {
						continue
					}
					s, e := gen(b, n+d)
					add(vqrCase{s, e, lvl, b.mode})
					if thorough || k%3 == 0 || v == 40 {
						add(vqrCase{s, e, lvl, Auto})
					}
				}
			}
		}
	}
	// character count indicator boundaries (versions 9/10 and 26/27) and far too long inputs
	for _, n := range []int{255, 256, 257, 511, 512, 1023, 1024, 2047, 2048, 4095, 4096, 7089, 7090, 8191, 8192, 16383, 16384, 65535, 65536, 70000} {
		for _, b := range bms {
			s, e := gen(b, n)
			lvl := rng.Intn(4)
			add(vqrCase{s, e, lvl, b.mode})
			add(vqrCase{s, e, lvl, Auto})
		}
	}

	flush()

	// 4. random contents: a fixed number of cases (a wall clock cap only protects very slow machines)
	nRandom, limit := 1200, 90*time.Second
	if thorough {
		nRandom, limit = 150000, 1000*time.Second
	}
	for i := 0; i < nRandom; i++ {
		if i%512 == 511 {
			flush()
			if time.Since(start) > limit {
				break
			}
		}
		var n int
		switch rng.Intn(10) {
		case 0, 1, 2, 3, 4:
			n = rng.Intn(40)
		case 5, 6, 7:
			n = rng.Intn(300)
		case 8:
			n = rng.Intn(1500)
		default:
			n = rng.Intn(7200)
		}
		var s, e string
		switch rng.Intn(7) {
		case 0:
			s, e = hlib.Long(rng, vqrDigits, n)
		case 1:
			s, e = hlib.Long(rng, vqrAlnum, n)
		case 2:
			if n > 2953 {
				n %= 2954
			}
			s, e = gen(bms[2], n)
		case 3: // digits with one foreign character somewhere
			s, e = hlib.Long(rng, vqrDigits, n+1)
			pos := rng.Intn(len(s))
			ch := []string{"+", "-", " ", "A", "a", "\xff", ".", "é"}[rng.Intn(8)]
			s = s[:pos] + ch + s[pos+1:]
			e = fmt.Sprintf("func(s string)string{return s[:%d]+%q+s[%d:]}(%s)", pos, ch, pos+1, e)
		case 4: // alphanumeric with one foreign character
			s, e = hlib.Long(rng, vqrAlnum, n+1)
			pos := rng.Intn(len(s))
			ch := []string{"a", "z", "#", "\x00", "\xff", "é", "_", "\n"}[rng.Intn(8)]
			s = s[:pos] + ch + s[pos+1:]
			e = fmt.Sprintf("func(s string)string{return s[:%d]+%q+s[%d:]}(%s)", pos, ch, pos+1, e)
		case 5: // valid UTF-8 text
			if n > 600 {
				n %= 600
			}
			runes := []rune("abcXYZ 09-éßЖ日本€\U0001F600\n")
			var sb strings.Builder
			for sb.Len() < n {
				sb.WriteRune(runes[rng.Intn(len(runes))])
			}
			s, e = lit(sb.String())
		default: // printable ASCII
			if n > 2953 {
				n %= 2954
			}
			var a []byte
			for c := byte(32); c < 127; c++ {
				a = append(a, c)
			}
			s, e = hlib.Long(rng, string(a), n)
		}
		add(vqrCase{s, e, rng.Intn(4), vqrModes[rng.Intn(4)]})
	}
	flush()
}

func TestVerifC01(t *testing.T)   { vqrRun(t, "C01", "C01") }
func TestVerifC10QR(t *testing.T) { vqrRun(t, "C10", "C10") }
func TestVerifC12QR(t *testing.T) { vqrRun(t, "C12", "C12") }
func TestVerifC13QR(t *testing.T) { vqrRun(t, "C13", "C13") }
