package datamatrix

// Bounded stand-in / replay search for C02 (DataMatrix round trip through the reference reader),
// including the DataMatrix clauses of C10 (error iff more than 1558 codewords), C12 (ECC 200 check
// codeword count, verified by the reader) and C13 (smallest size). Injected with go test -overlay.

import (
	"fmt"
	"math/rand"
	"strconv"
	"testing"

	"github.com/boombuler/barcode"

	"verif/harness/hlib"
	"verif/spec/dmspec"
)

const vdmSingles = "ABCMXYZabz !\"#/:;?@[\\]^_{|}~\x00\x01\x1f\x7f\r\n\t"

type vdmCase struct{ content, expr string }

func vdmShort(s string) string {
	if len(s) > 120 {
		return strconv.Quote(s[:120]) + fmt.Sprintf("...(%d bytes)", len(s))
	}
	return strconv.Quote(s)
}

func vdmCheck(c vdmCase) (fails []hlib.Failure) {
	input := "datamatrix.Encode(" + c.expr + ")"
	fail := func(check, detail string) {
		fails = append(fails, hlib.Failure{Check: check, Input: input, Detail: detail})
	}
	k := len(dmspec.EncodeASCII([]byte(c.content)))
	sizes := dmspec.Sizes()
	maxCW := sizes[len(sizes)-1].DataCodewords
	var panicked interface{}
	code, err := func() (b barcode.Barcode, e error) {
		defer func() {
			if p := recover(); p != nil {
				panicked = p
			}
		}()
		return Encode(c.content)
	}()
	if panicked != nil {
		fail("panic", fmt.Sprint(panicked))
		return
	}
	if (code == nil) == (err == nil) {
		fail("result-shape", fmt.Sprintf("barcode nil=%v, err=%v", code == nil, err))
		return
	}
	if err != nil {
		if k <= maxCW {
			fail("rejects-representable", fmt.Sprintf("error %q although the ASCII encodation has only %d codewords", err.Error(), k))
		}
		return
	}
	if k > maxCW {
		fail("accepts-unrepresentable", fmt.Sprintf("succeeded although the ASCII encodation needs %d > %d codewords", k, maxCW))
		return
	}
	bd := code.Bounds()
	if bd.Min.X != 0 || bd.Min.Y != 0 || bd.Dx() != bd.Dy() {
		fail("bounds", fmt.Sprint(bd))
		return
	}
	res, derr := dmspec.Decode(bd.Dx(), func(x, y int) bool { return hlib.IsDark(code.At(x, y)) })
	if derr != nil {
		fail("reference-reader", derr.Error())
		return
	}
	if string(res.Payload) != c.content {
		fail("payload", "decoded "+vdmShort(string(res.Payload)))
	}
	if code.Content() != c.content {
		fail("content", "Content()="+vdmShort(code.Content()))
	}
	for _, s := range sizes {
		if s.DataCodewords >= k {
			if s.Rows != bd.Dx() {
				fail("smallest-size", fmt.Sprintf("%dx%d chosen, %dx%d holds the %d codewords", bd.Dx(), bd.Dy(), s.Rows, s.Cols, k))
			}
			break
		}
	}
	if res.Size.ECCodewords != len(res.Codewords)-res.Size.DataCodewords {
		fail("ecc-count", fmt.Sprintf("%d check codewords, ECC 200 prescribes %d", len(res.Codewords)-res.Size.DataCodewords, res.Size.ECCodewords))
	}
	return
}

// vdmGen builds a content whose canonical ASCII encodation has exactly k codewords.
// kind 0: mixed, 1: letters only, 2: digit pairs only, 3: upper-shift bytes (+1 letter if k is odd), 4: random bytes (approximate, then adjusted).
func vdmGen(rng *rand.Rand, k, kind int) (string, string) {
	if k > 300 {
		// long contents: a repeated unit keeps the reproducer short
		var unit string
		var per int // codewords per unit
		switch kind {
		case 1:
			unit, per = hlib.RandFrom(rng, "ABCxyz \x00\x7f!", 1+rng.Intn(13)), 0
			per = len(unit)
		case 2:
			unit = hlib.RandFrom(rng, "0123456789", 2*(1+rng.Intn(7)))
			per = len(unit) / 2
		case 3:
			unit = string([]byte{byte(128 + rng.Intn(128))})
			per = 2
		default:
			unit = "A" + string([]byte{byte(128 + rng.Intn(128))}) + hlib.RandFrom(rng, "0123456789", 2) + "z" // 1+2+1+1
			per = 5
		}
		n := k / per
		rest := k - n*per
		s, e := hlib.Rep(unit, n*len(unit))
		tail := ""
		for i := 0; i < rest; i++ {
			tail += "Q"
		}
		if tail != "" {
			s += tail
			e += "+" + strconv.Quote(tail)
		}
		return s, e
	}
	var b []byte
	left := k
	for left > 0 {
		t := kind
		if kind == 0 || kind == 4 {
			t = 1 + rng.Intn(3)
		}
		switch {
		case t == 3 && left >= 2:
			b = append(b, byte(128+rng.Intn(128)))
			left -= 2
		case t == 2:
			b = append(b, byte('0'+rng.Intn(10)), byte('0'+rng.Intn(10)))
			left--
		default:
			b = append(b, vdmSingles[rng.Intn(len(vdmSingles))])
			left--
		}
	}
	return string(b), strconv.Quote(string(b))
}

func vdmMain(t *testing.T, id string, only ...string) {
	r := hlib.New(id)
	r.Only = only
	defer r.Done(t)
	rng := rand.New(rand.NewSource(r.Seed))
	thorough := r.Tier == "thorough"
	var cases []vdmCase
	add := func(s, e string) { cases = append(cases, vdmCase{s, e}) }
	lit := func(s string) { add(s, strconv.Quote(s)) }
	flush := func() {
		r.Parallel(len(cases), func(i int) []hlib.Failure { return vdmCheck(cases[i]) })
		cases = cases[:0]
	}

	// 1. fixed corner cases
	for _, s := range []string{"", "0", "00", "000", "0000", "1", "12", "123", "1234", "12345", "123456", "A", "AB", "ABC", "A1", "1A", "1A2", "12A", "A12", "1A23", "0A0",
		"\x00", "\x7f", "\x80", "\xff", "\x80\x80", "\xff0", "0\xff", "\xff00", "00\xff", "é", "日本語", "Hello, World!", "\x81\x82", "09", "90", "99", "9", "/0", ":0", "0/", "0:", "/", ":"} {
		lit(s)
	}
	// every single byte, and every byte between two digits
	for b := 0; b < 256; b++ {
		lit(string([]byte{byte(b)}))
		lit("1" + string([]byte{byte(b)}) + "2")
		lit(string([]byte{byte(b), byte(b)}))
	}
	// all two-digit numbers and three-digit combinations around them
	for i := 0; i < 100; i++ {
		lit(fmt.Sprintf("%02d", i))
		lit(fmt.Sprintf("%02d%d", i, i%10))
	}

	// 2. exhaustive short strings over a small alphabet covering digits (pairing), ASCII, and upper shift
	alpha := []byte{'0', '5', '9', 'A', ' ', 0x00, 0x7f, 0x80, 0xff}
	maxLen := 4
	if thorough {
		maxLen = 6
	}
	var rec func(p []byte)
	rec = func(p []byte) {
		if len(p) > 0 {
			lit(string(p))
		}
		if len(p) == maxLen {
			return
		}
		for _, a := range alpha {
			rec(append(p[:len(p):len(p)], a))
		}
	}
	rec(nil)
	flush()

	// 3. every codeword count 0..1561 (all 24 capacity boundaries included) in several compositions
	reps := 1
	if thorough {
		reps = 10
	}
	for k := 0; k <= 1561; k++ {
		for i := 0; i < reps; i++ {
			add(vdmGen(rng, k, (k+i)%4))
		}
	}
	// capacity boundaries of each size once more with every composition: cap-1, cap, cap+1
	for _, s := range dmspec.Sizes() {
		for d := -2; d <= 2; d++ {
			for kind := 0; kind < 4; kind++ {
				if s.DataCodewords+d >= 0 {
					add(vdmGen(rng, s.DataCodewords+d, kind))
				}
			}
		}
	}
	// odd digit runs at the end of full symbols: "…1" needs a codeword of its own
	for _, s := range dmspec.Sizes() {
		c, e := hlib.Rep("4711", 2*s.DataCodewords)
		add(c, e)
		add(c+"1", e+`+"1"`)
		add(c[1:], "("+e+")[1:]")
		add("A"+c[2:], `"A"+(`+e+")[2:]")
		add(c[2:]+"\xff", "("+e+`)[2:]+"\xff"`)
		add(c[4:]+"\xff", "("+e+`)[4:]+"\xff"`)
	}
	// far too long
	for _, n := range []int{1559, 1560, 3116, 3117, 3118, 5000, 100000} {
		add(hlib.Rep("7", n))
		add(hlib.Rep("x", n))
		add(hlib.Rep("\xfe", n))
	}
	flush()

	// 4. random contents
	nRandom := 2500
	if thorough {
		nRandom = 600000
	}
	for i := 0; i < nRandom; i++ {
		var n int
		switch rng.Intn(10) {
		case 0, 1, 2, 3, 4:
			n = rng.Intn(60)
		case 5, 6, 7:
			n = rng.Intn(300)
		default:
			n = rng.Intn(1700)
		}
		switch rng.Intn(5) {
		case 0:
			if n > 450 {
				n %= 450
			}
			lit(hlib.RandBytes(rng, n))
		case 1:
			add(hlib.Long(rng, "0123456789", n))
		case 2:
			add(hlib.Long(rng, "0123456789AB", n))
		case 3:
			add(hlib.Long(rng, "01\x80\xff a", n))
		default:
			var a []byte
			for c := byte(0); c < 128; c++ {
				a = append(a, c)
			}
			if n > 600 {
				n %= 600
			}
			lit(hlib.RandFrom(rng, string(a), n))
		}
		if len(cases) >= 4096 {
			flush()
		}
	}
	flush()
}

func TestVerifC02(t *testing.T) { vdmMain(t, "C02") }

// The same cases reported under the other properties they serve (only the named checks count).
func TestVerifC10DM(t *testing.T) {
	vdmMain(t, "C10", "panic", "result-shape", "rejects-representable", "accepts-unrepresentable")
}
func TestVerifC12DM(t *testing.T) {
	vdmMain(t, "C12", "ecc-count", "reference-reader")
}
func TestVerifC13DM(t *testing.T) {
	vdmMain(t, "C13", "smallest-size")
}
