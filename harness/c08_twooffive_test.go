package twooffive

// Bounded stand-in / replay search for the 2 of 5 half of C08 (standard and interleaved symbols through the
// reference decoder, AddCheckSum) with the 2 of 5 clause of C10 (digits only, non-empty, even digit count
// when interleaved). Injected with go test -overlay; never written into /repo.
//
// Accepted, not a finding: the library draws start/stop with 2-module wide bars and data with 3-module wide
// elements, hence the lenient oracle (every element of 2 or 3 modules is wide).

import (
	"fmt"
	"math/rand"
	"strconv"
	"strings"
	"testing"

	"github.com/boombuler/barcode"

	"verif/harness/hlib"
	"verif/spec/onedspec"
)

func v25Digits(s string) bool {
	for i := 0; i < len(s); i++ {
		if s[i] < '0' || s[i] > '9' {
			return false
		}
	}
	return true
}

func v25Check(content string) (fails []hlib.Failure) {
	for _, interleaved := range []bool{false, true} {
		input := fmt.Sprintf("twooffive.Encode(%s, %v)", strconv.QuoteToASCII(content), interleaved)
		fail := func(check, detail string) {
			fails = append(fails, hlib.Failure{Check: check, Input: input, Detail: detail})
		}
		valid, why := true, ""
		switch {
		case content == "":
			valid, why = false, "the content is empty"
		case !v25Digits(content):
			valid, why = false, "the content is not all digits"
		case interleaved && len(content)%2 == 1:
			valid, why = false, "the digit count is odd"
		}
		var bc barcode.Barcode
		var err error
		var panicked interface{}
		func() {
			defer func() {
				if p := recover(); p != nil {
					panicked = p
				}
			}()
			bc, err = Encode(content, interleaved)
		}()
		if panicked != nil {
			fail("panic", fmt.Sprint(panicked))
			continue
		}
		if (bc == nil) == (err == nil) {
			fail("result-shape", fmt.Sprintf("barcode nil=%v err=%v", bc == nil, err))
			continue
		}
		if err != nil {
			if valid {
				fail("rejects-representable", err.Error())
			}
			continue
		}
		if !valid {
			fail("accepts-unrepresentable", "succeeded although "+why)
			continue
		}
		bd := bc.Bounds()
		if bd.Min.X != 0 || bd.Min.Y != 0 || bd.Dy() != 1 {
			fail("bounds", fmt.Sprint(bd))
			continue
		}
		bars, clean := hlib.Bars(bc, 0)
		if !clean {
			fail("colours", "a pixel is neither black nor white")
		}
		txt, derr := onedspec.TwoOfFiveDecodeLenient(bars, interleaved)
		if derr != nil {
			fail("reference-decoder", derr.Error()+" bars="+hlib.BarString(bars))
			continue
		}
		if txt != content {
			fail("text", fmt.Sprintf("symbol decodes to %q", txt))
		}
		if bc.Content() != content {
			fail("content", "Content()="+strconv.QuoteToASCII(bc.Content()))
		}
		wantKind := barcode.Type2of5
		if interleaved {
			wantKind = barcode.Type2of5Interleaved
		}
		if md := bc.Metadata(); md.CodeKind != wantKind || md.Dimensions != 1 {
			fail("metadata", fmt.Sprint(md))
		}
	}
	// AddCheckSum
	input := fmt.Sprintf("twooffive.AddCheckSum(%s)", strconv.QuoteToASCII(content))
	fail := func(check, detail string) {
		fails = append(fails, hlib.Failure{Check: check, Input: input, Detail: detail})
	}
	var got string
	var err error
	var panicked interface{}
	func() {
		defer func() {
			if p := recover(); p != nil {
				panicked = p
			}
		}()
		got, err = AddCheckSum(content)
	}()
	switch {
	case panicked != nil:
		fail("panic", fmt.Sprint(panicked))
	case content == "" || !v25Digits(content):
		if err == nil {
			fail("accepts-unrepresentable", fmt.Sprintf("returned %q for a text that is not a digit string", got))
		}
	case err != nil:
		fail("rejects-representable", err.Error())
	default:
		cd, oerr := onedspec.TwoOfFiveCheckDigit(content)
		if oerr != nil {
			fail("oracle", oerr.Error())
		} else if got != content+string(cd) {
			fail("check-digit", fmt.Sprintf("returned %q, want %q", got, content+string(cd)))
		}
		// the definition itself: 3-1 weighted sum from the right is a multiple of ten
		sum := 0
		for i := 0; i < len(got); i++ {
			w := 1
			if (len(got)-1-i)%2 == 1 {
				w = 3
			}
			sum += w * int(got[i]-'0')
		}
		if len(got) != len(content)+1 || sum%10 != 0 {
			fail("check-digit", fmt.Sprintf("returned %q: weighted sum %d is not a multiple of ten", got, sum))
		}
	}
	return
}

func v25Main(t *testing.T, id string, only ...string) {
	r := hlib.New(id)
	r.Only = only
	defer r.Done(t)
	rng := rand.New(rand.NewSource(r.Seed))
	thorough := r.Tier == "thorough"
	var cases []string
	flush := func() {
		r.ParallelN(len(cases), func(i int) (int, []hlib.Failure) { return 3, v25Check(cases[i]) })
		cases = cases[:0]
	}
	cases = append(cases, "", "0", "1", "9", "00", "12", "123", "1234", "12345", "0123456789", "01234567890", "é", "12é", "1é", "é1", "1é2", "éé", "12éé", "1éé", "a", "ab", "1a", "a1", "12a", "12ab", "1 ", " 1", "1\n", "12\n", "\n",
		"１２", "١٢", "1١", "\xff", "1\xff", "\xff\xff", "12\xff\xff", "\xc3", "1\xc3", "+1", "-1", "1.", "1e1", "0x", "\x00", "\x00\x00", "00000000000000", "99999999999999", "999999999999999", strings.Repeat("1234567890", 30))
	for c := rune(0); c < 0x180; c++ {
		cases = append(cases, string(c), "1"+string(c), string(c)+"1", "12"+string(c), "1"+string(c)+"2", string(c)+string(c), "12"+string(c)+string(c))
	}
	// all digit strings up to length 4 (6 thorough): every digit pair is an interleaved character pair
	maxLen := 5
	if thorough {
		maxLen = 6
	}
	for l := 1; l <= maxLen; l++ {
		lim := 1
		for i := 0; i < l; i++ {
			lim *= 10
		}
		for v := 0; v < lim; v++ {
			cases = append(cases, fmt.Sprintf("%0*d", l, v))
		}
		if len(cases) > 100000 {
			flush()
		}
	}
	flush()
	n := 200000
	if thorough {
		n = 8000000
	}
	for i := 0; i < n; i++ {
		l := 1 + rng.Intn(24)
		if rng.Intn(10) == 0 {
			l = 1 + rng.Intn(200)
		}
		s := hlib.RandFrom(rng, "0123456789", l)
		if rng.Intn(8) == 0 {
			pos := rng.Intn(len(s))
			s = s[:pos] + []string{"a", " ", "é", "\xff", "-", "\x00", "٣", "B"}[rng.Intn(8)] + s[pos+1:]
		}
		cases = append(cases, s)
		if len(cases) > 100000 {
			flush()
		}
	}
	flush()
}

func TestVerifC08TwoOfFive(t *testing.T) { v25Main(t, "C08") }

// The same cases reported under the other properties they serve (only the named checks count).
func TestVerifC10TwoOfFive(t *testing.T) {
	v25Main(t, "C10", "panic", "result-shape", "rejects-representable", "accepts-unrepresentable")
}
