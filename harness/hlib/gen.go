package hlib

// Helpers shared by the harnesses: reproducible long inputs and pixel classification.

import (
	"fmt"
	"hash/fnv"
	"image"
	"image/color"
	"math/rand"
	"os"
	"runtime"
	"strconv"
	"strings"
	"sync"
	"sync/atomic"
)

// Rep returns unit repeated and cut to exactly n bytes together with a Go expression that evaluates
// to the same string, so that even very long inputs have a short, precise reproducer.
func Rep(unit string, n int) (s string, expr string) {
	if n <= 0 || unit == "" {
		return "", `""`
	}
	k := (n + len(unit) - 1) / len(unit)
	s = strings.Repeat(unit, k)[:n]
	if k == 1 {
		return s, strconv.Quote(s)
	}
	return s, fmt.Sprintf("strings.Repeat(%q, %d)[:%d]", unit, k, n)
}

// RandFrom returns n characters drawn uniformly from the bytes of alphabet.
func RandFrom(rng *rand.Rand, alphabet string, n int) string {
	b := make([]byte, n)
	for i := range b {
		b[i] = alphabet[rng.Intn(len(alphabet))]
	}
	return string(b)
}

// RandBytes returns n uniformly random bytes as a string (usually invalid UTF-8).
func RandBytes(rng *rand.Rand, n int) string {
	b := make([]byte, n)
	for i := range b {
		b[i] = byte(rng.Intn(256))
	}
	return string(b)
}

// Long returns a string of n bytes over alphabet that is random for short lengths (quoted literally
// in the reproducer) and a repeated random unit of 1..23 bytes for long ones.
func Long(rng *rand.Rand, alphabet string, n int) (s, expr string) {
	if n <= 300 {
		s = RandFrom(rng, alphabet, n)
		return s, strconv.Quote(s)
	}
	return Rep(RandFrom(rng, alphabet, 1+rng.Intn(23)), n)
}

// IsDark reports whether c is exactly black (all colour channels zero, opaque).
func IsDark(c color.Color) bool {
	r, g, b, a := c.RGBA()
	return r == 0 && g == 0 && b == 0 && a == 0xffff
}

// IsLight reports whether c is exactly opaque white.
func IsLight(c color.Color) bool {
	r, g, b, a := c.RGBA()
	return r == 0xffff && g == 0xffff && b == 0xffff && a == 0xffff
}

// Bars returns row y of img as a module string (true = dark) and whether every pixel of the row
// was exactly black or exactly white.
func Bars(img image.Image, y int) (bars []bool, clean bool) {
	b := img.Bounds()
	clean = true
	for x := b.Min.X; x < b.Max.X; x++ {
		c := img.At(x, y)
		d := IsDark(c)
		if !d && !IsLight(c) {
			clean = false
		}
		bars = append(bars, d)
	}
	return
}

// BarString renders a module string as '1'/'0' characters.
func BarString(bars []bool) string {
	b := make([]byte, len(bars))
	for i, v := range bars {
		b[i] = '0'
		if v {
			b[i] = '1'
		}
	}
	return string(b)
}

// PixelHash hashes bounds and the RGBA value of every pixel of img.
func PixelHash(img image.Image) uint64 {
	h := fnv.New64a()
	b := img.Bounds()
	fmt.Fprintf(h, "%v|", b)
	var buf [8]byte
	for y := b.Min.Y; y < b.Max.Y; y++ {
		for x := b.Min.X; x < b.Max.X; x++ {
			r, g, bb, a := img.At(x, y).RGBA()
			buf[0], buf[1], buf[2], buf[3] = byte(r>>8), byte(r), byte(g>>8), byte(g)
			buf[4], buf[5], buf[6], buf[7] = byte(bb>>8), byte(bb), byte(a>>8), byte(a)
			h.Write(buf[:])
		}
	}
	return h.Sum64()
}

// Workers is the number of goroutines Parallel uses: min(NumCPU, 8), or VERIF_WORKERS if set.
func Workers() int {
	if s, err := strconv.Atoi(os.Getenv("VERIF_WORKERS")); err == nil && s > 0 {
		return s
	}
	w := runtime.NumCPU()
	if w > 8 {
		w = 8
	}
	return w
}

// Parallel evaluates fn(0..n-1) on Workers() goroutines. Every index counts as one case; the
// failures are recorded in index order, so the report does not depend on the scheduling. A panic
// inside fn is turned into a failure named "harness-panic".
func (r *Run) Parallel(n int, fn func(i int) []Failure) {
	out := make([][]Failure, n)
	var next int64 = -1
	var wg sync.WaitGroup
	for w := 0; w < Workers(); w++ {
		wg.Add(1)
		go func() {
			defer wg.Done()
			for {
				i := int(atomic.AddInt64(&next, 1))
				if i >= n {
					return
				}
				func() {
					defer func() {
						if p := recover(); p != nil {
							out[i] = append(out[i], Failure{"harness-panic", fmt.Sprintf("case #%d", i), fmt.Sprint(p)})
						}
					}()
					out[i] = fn(i)
				}()
			}
		}()
	}
	wg.Wait()
	r.Cases += n
	for _, fs := range out {
		for _, f := range fs {
			r.Fail(f.Check, f.Input, f.Detail)
		}
	}
}

// ParallelN is Parallel for jobs that consist of several cases: fn returns the number of cases it ran.
func (r *Run) ParallelN(n int, fn func(i int) (cases int, fails []Failure)) {
	counts := make([]int, n)
	r.Parallel(n, func(i int) []Failure {
		c, f := fn(i)
		counts[i] = c
		return f
	})
	r.Cases -= n
	for _, c := range counts {
		r.Cases += c
	}
}

// Do runs fn(0..n-1) on Workers() goroutines without counting cases (preparatory work such as
// bisections for capacity boundaries).
func Do(n int, fn func(i int)) {
	var next int64 = -1
	var wg sync.WaitGroup
	for w := 0; w < Workers(); w++ {
		wg.Add(1)
		go func() {
			defer wg.Done()
			for {
				i := int(atomic.AddInt64(&next, 1))
				if i >= n {
					return
				}
				fn(i)
			}
		}()
	}
	wg.Wait()
}
