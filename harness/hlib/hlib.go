// Package hlib is the tiny reporting library shared by the bounded stand-ins / replay searches.
package hlib

import (
	"encoding/json"
	"os"
	"strconv"
	"testing"
)

type Failure struct {
	Check  string `json:"check"`
	Input  string `json:"input"`
	Detail string `json:"detail"`
}

type Run struct {
	ID       string
	Seed     int64
	Tier     string
	Cases    int
	Failures []Failure
	// Only, if non-empty, restricts the report to the named checks (a check matches if its name is listed or
	// starts with a listed name followed by '/'). It lets one case generator serve several properties.
	Only []string
}

func New(id string) *Run {
	r := &Run{ID: id, Seed: 1, Tier: os.Getenv("VERIF_TIER")}
	if s, err := strconv.ParseInt(os.Getenv("VERIF_SEED"), 10, 64); err == nil {
		r.Seed = s
	}
	if r.Tier == "" {
		r.Tier = "quick"
	}
	return r
}

func (r *Run) Fail(check, input, detail string) {
	if len(r.Only) > 0 {
		keep := false
		for _, o := range r.Only {
			if check == o || (len(check) > len(o) && check[:len(o)+1] == o+"/") {
				keep = true
			}
		}
		if !keep {
			return
		}
	}
	if len(r.Failures) < 20 {
		if len(input) > 2000 {
			input = input[:2000] + "..."
		}
		r.Failures = append(r.Failures, Failure{check, input, detail})
	}
}

// Done writes the report (VERIF_OUT) and fails the test if anything failed.
func (r *Run) Done(t *testing.T) {
	if out := os.Getenv("VERIF_OUT"); out != "" {
		data, _ := json.MarshalIndent(map[string]interface{}{"cases": r.Cases, "failures": r.Failures}, "", " ")
		os.WriteFile(out, data, 0o644)
	}
	for _, f := range r.Failures {
		t.Errorf("%s: %s: input=%q %s", r.ID, f.Check, f.Input, f.Detail)
	}
}
