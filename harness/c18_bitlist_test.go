package utils

// Bounded stand-in and replay search for C18 (injected with go test -overlay; never written into /repo).

import (
	"fmt"
	"math/rand"
	"testing"

	"verif/harness/hlib"
)

func TestVerifC18(t *testing.T) {
	r := hlib.New("C18")
	defer r.Done(t)
	rng := rand.New(rand.NewSource(r.Seed))
	maxLen := 4200
	if r.Tier == "thorough" {
		maxLen = 40000
	}
	check := func(name string, bl *BitList, model []bool) bool {
		r.Cases++
		if bl.Len() != len(model) {
			r.Fail("len", name, fmt.Sprintf("Len()=%d want %d", bl.Len(), len(model)))
			return false
		}
		want := make([]byte, (len(model)+7)/8)
		for i, b := range model {
			if b {
				want[i/8] |= 1 << uint(7-i%8)
			}
		}
		got := bl.GetBytes()
		if string(got) != string(want) {
			r.Fail("GetBytes", name, fmt.Sprintf("got %x want %x", got, want))
			return false
		}
		var it []byte
		for b := range bl.IterateBytes() {
			it = append(it, b)
		}
		if string(it) != string(want) {
			r.Fail("IterateBytes", name, fmt.Sprintf("got %x want %x", it, want))
			return false
		}
		for k := 0; k < 16 && len(model) > 0; k++ {
			i := rng.Intn(len(model))
			if bl.GetBit(i) != model[i] {
				r.Fail("GetBit", name, fmt.Sprintf("bit %d", i))
				return false
			}
		}
		return true
	}
	// every length: NewBitList + SetBit pattern, and append-built lists
	step := 1
	if maxLen > 5000 {
		step = 7
	}
	for n := 0; n <= maxLen; n += step {
		bl := NewBitList(n)
		model := make([]bool, n)
		if !check(fmt.Sprintf("new(%d)", n), bl, model) {
			return
		}
		for k := 0; k < 8 && n > 0; k++ {
			i := rng.Intn(n)
			v := rng.Intn(2) == 0
			bl.SetBit(i, v)
			model[i] = v
		}
		if n > 0 {
			bl.SetBit(n-1, true)
			model[n-1] = true
		}
		if !check(fmt.Sprintf("new(%d)+set", n), bl, model) {
			return
		}
	}
	// random operation sequences across growth boundaries (128 words = 4096 bits, 1024-word steps later)
	rounds := 60
	if r.Tier == "thorough" {
		rounds = 600
	}
	for round := 0; round < rounds; round++ {
		bl := new(BitList)
		var model []bool
		target := rng.Intn(3*4096) + 1
		if round%10 == 0 {
			target = 40000 + rng.Intn(5000)
		}
		var ops string
		for len(model) < target {
			switch rng.Intn(4) {
			case 0:
				n := rng.Intn(5)
				bits := make([]bool, n)
				for i := range bits {
					bits[i] = rng.Intn(2) == 0
				}
				bl.AddBit(bits...)
				model = append(model, bits...)
				ops += fmt.Sprintf("AddBit(%v);", bits)
			case 1:
				b := byte(rng.Intn(256))
				bl.AddByte(b)
				for i := 7; i >= 0; i-- {
					model = append(model, (b>>uint(i))&1 == 1)
				}
				ops += fmt.Sprintf("AddByte(%d);", b)
			case 2:
				c := rng.Intn(33)
				v := rng.Int()
				bl.AddBits(v, byte(c))
				for i := c - 1; i >= 0; i-- {
					model = append(model, (v>>uint(i))&1 == 1)
				}
				ops += fmt.Sprintf("AddBits(%d,%d);", v, c)
			case 3:
				if len(model) > 0 {
					i := rng.Intn(len(model))
					v := rng.Intn(2) == 0
					bl.SetBit(i, v)
					model[i] = v
					ops += fmt.Sprintf("SetBit(%d,%v);", i, v)
				}
			}
			if len(ops) > 400 {
				ops = "..." + ops[len(ops)-300:]
			}
		}
		if !check("ops:"+ops, bl, model) {
			return
		}
	}
}
