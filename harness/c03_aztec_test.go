package aztec

// Bounded stand-in / replay search for C03 (Aztec round trip through the reference reader, explicit
// layer requests honoured), with the Aztec clauses of C10 (panic freedom, result shape, small payloads
// accepted), C12 (check words >= requested percentage of the data bits) and C13 (an automatically
// sized symbol cannot be had smaller). Injected with go test -overlay; never written into /repo.
//
// SKIPPED, recorded known finding: the empty payload (len(data) == 0).

import (
	"bytes"
	"fmt"
	"math/rand"
	"runtime/debug"
	"strconv"
	"testing"
	"time"

	"github.com/boombuler/barcode"

	"verif/harness/hlib"
	"verif/spec/aztecspec"
)

type vazFormat struct {
	compact bool
	layers  int
}

func (f vazFormat) request() int {
	if f.compact {
		return -f.layers
	}
	return f.layers
}

func (f vazFormat) String() string {
	if f.compact {
		return fmt.Sprintf("compact-%d", f.layers)
	}
	return fmt.Sprintf("full-%d", f.layers)
}

func vazFormats() []vazFormat {
	var fs []vazFormat
	for l := 1; l <= 4; l++ {
		fs = append(fs, vazFormat{true, l})
	}
	for l := 1; l <= 32; l++ {
		fs = append(fs, vazFormat{false, l})
	}
	return fs
}

type vazJob struct {
	data  []byte
	expr  string
	pct   int
	sweep int // 0: automatic size + every smaller size + the same size explicitly; 1: additionally every larger full-range size; 2: exactly the requests in reqs
	reqs  []int
}

type vazEnc struct {
	bc       barcode.Barcode
	err      error
	panicked interface{}
}

func vazEncode(data []byte, pct, layers int) (e vazEnc) {
	defer func() {
		if p := recover(); p != nil {
			e.panicked = p
		}
	}()
	e.bc, e.err = Encode(data, pct, layers)
	return
}

// vazVerify checks one returned symbol against the reference reader.
func vazVerify(fail func(check, detail string), bc barcode.Barcode, data []byte, pct int, want *vazFormat) (res *aztecspec.Result) {
	bd := bc.Bounds()
	if bd.Min.X != 0 || bd.Min.Y != 0 || bd.Dx() != bd.Dy() {
		fail("bounds", fmt.Sprint(bd))
		return nil
	}
	res, err := aztecspec.Decode(bd.Dx(), func(x, y int) bool { return hlib.IsDark(bc.At(x, y)) })
	if err != nil {
		fail("reference-reader", err.Error())
		return nil
	}
	if !bytes.Equal(res.Payload, data) {
		fail("payload", "decoded "+vazShort(res.Payload))
	}
	if bc.Content() != string(data) {
		fail("content", "Content()="+vazShort([]byte(bc.Content())))
	}
	if want != nil && (res.Compact != want.compact || res.Layers != want.layers) {
		fail("layers-honoured", fmt.Sprintf("symbol is %v", vazFormat{res.Compact, res.Layers}))
	}
	// C12: check words amount to at least pct percent of the data bits. The data bits are the un-stuffed
	// bits of the data words minus the padding; the padding is a run of up to WordBits-1 one bits at the
	// end which the reader cannot always tell from data (11111 is also the B/S code), so the largest
	// possible padding is assumed: the bound below is necessary for every conforming symbol.
	ones := 0
	for i := len(res.DataBits) - 1; i >= 0 && res.DataBits[i] && ones < res.WordBits-1; i-- {
		ones++
	}
	if res.PadBits > ones {
		ones = res.PadBits
	}
	dataBits := len(res.DataBits) - ones
	checkBits := res.CheckWords() * res.WordBits
	if checkBits*100 < pct*dataBits {
		fail("ecc-percentage", fmt.Sprintf("%d check words of %d bits = %d bits < %d%% of at least %d data bits (%v, %d data words)", res.CheckWords(), res.WordBits, checkBits, pct, dataBits, vazFormat{res.Compact, res.Layers}, res.DataWords))
	}
	if res.CheckWords() < 1 {
		fail("ecc-none", "symbol without check words")
	}
	return res
}

func vazAbs(x int) int {
	if x < 0 {
		return -x
	}
	return x
}

func vazShort(b []byte) string {
	if len(b) > 100 {
		return strconv.Quote(string(b[:100])) + fmt.Sprintf("...(%d bytes)", len(b))
	}
	return strconv.Quote(string(b))
}

func vazRun(j vazJob) (cases int, fails []hlib.Failure) {
	if j.sweep == 3 {
		// bisection for the longest repetition of the unit j.expr that the explicit request accepts
		unit, req := j.expr, j.reqs[0]
		cases++
		if e := vazEncode([]byte(unit[:1]), j.pct, req); e.err != nil || e.panicked != nil {
			fails = append(fails, hlib.Failure{Check: "rejects-representable", Input: fmt.Sprintf("aztec.Encode([]byte(%q), %d, %d)", unit[:1], j.pct, req), Detail: fmt.Sprint(e.err, e.panicked)})
			return
		}
		lo, hi := 1, aztecspec.TotalBits(req < 0, vazAbs(req))/3+5 // lo fits, hi does not (no character takes less than 3.3 bits)
		for hi-lo > 1 {
			mid := (lo + hi) / 2
			s, _ := hlib.Rep(unit, mid)
			if e := vazEncode([]byte(s), j.pct, req); e.err == nil && e.panicked == nil {
				lo = mid
			} else {
				hi = mid
			}
		}
		for _, n := range []int{lo - 1, lo, lo + 1, lo + 2} {
			if n < 1 {
				continue
			}
			s, e := hlib.Rep(unit, n)
			c, f := vazRun(vazJob{data: []byte(s), expr: e, pct: j.pct, sweep: 2, reqs: j.reqs})
			cases, fails = cases+c, append(fails, f...)
			if n == lo || n == lo+1 {
				c, f = vazRun(vazJob{data: []byte(s), expr: e, pct: j.pct})
				cases, fails = cases+c, append(fails, f...)
			}
		}
		return
	}
	mk := func(layers int) func(check, detail string) {
		input := fmt.Sprintf("aztec.Encode([]byte(%s), %d, %d)", j.expr, j.pct, layers)
		return func(check, detail string) {
			fails = append(fails, hlib.Failure{Check: check, Input: input, Detail: detail})
		}
	}
	orig := append([]byte(nil), j.data...)
	// shape returns true when the call produced a barcode
	shape := func(e vazEnc, fail func(check, detail string)) (ok, bad bool) {
		cases++
		if e.panicked != nil {
			fail("panic", fmt.Sprint(e.panicked))
			return false, true
		}
		if (e.bc == nil) == (e.err == nil) {
			fail("result-shape", fmt.Sprintf("barcode nil=%v err=%v", e.bc == nil, e.err))
			return false, true
		}
		if !bytes.Equal(orig, j.data) {
			fail("input-modified", "the data slice was changed by Encode")
			return false, true
		}
		return e.err == nil, false
	}
	if j.sweep == 2 {
		for _, l := range j.reqs {
			fail := mk(l)
			e := vazEncode(j.data, j.pct, l)
			ok, bad := shape(e, fail)
			if bad || !ok {
				if !bad && l >= -4 && l <= 32 && len(j.data) <= 1 && j.pct <= 100 {
					fail("rejects-representable", "one byte does not fit: "+e.err.Error())
				}
				if !bad && (l < -4 || l > 32) {
					continue // illegal layer count: error is the required answer
				}
				continue
			}
			if l < -4 || l > 32 {
				fail("accepts-illegal-layers", "succeeded")
				continue
			}
			var want *vazFormat
			if l != 0 {
				want = &vazFormat{l < 0, l}
				if l < 0 {
					want.layers = -l
				}
			}
			vazVerify(fail, e.bc, j.data, j.pct, want)
		}
		return
	}

	failAuto := mk(0)
	auto := vazEncode(j.data, j.pct, 0)
	ok, bad := shape(auto, failAuto)
	if bad {
		return
	}
	formats := vazFormats()
	if !ok {
		// Too large for any symbol.  Independent (loose) sufficient condition for fitting into 32 layers:
		// everything in binary shift (8n + 21 bits per 2078 bytes), worst case bit stuffing 12/11.
		// (+6%: the library's encoder is observed to need up to 3% more than that for random bytes.)
		ub := 8*len(j.data) + 21*(len(j.data)/2078+1)
		ub += ub/16 + 40
		if ub*12/11+12+ub*j.pct/100+11 <= aztecspec.TotalBits(false, 32)-12 {
			failAuto("rejects-representable", fmt.Sprintf("error %q although even plain binary shift encodation (%d bits) fits 32 layers", auto.err.Error(), ub))
		}
		// then no explicit size may succeed either
		for _, f := range formats {
			if j.sweep == 0 && !(f.layers == 32 || f.layers == 4) {
				continue
			}
			fail := mk(f.request())
			e := vazEncode(j.data, j.pct, f.request())
			if ok, bad := shape(e, fail); ok && !bad {
				fail("explicit-fits-auto-fails", "explicit request succeeds although automatic sizing reports too much data")
			}
		}
		return
	}
	res := vazVerify(failAuto, auto.bc, j.data, j.pct, nil)
	if res == nil {
		return
	}
	got := vazFormat{res.Compact, res.Layers}
	dim := aztecspec.SymbolSize(got.compact, got.layers)
	autoHash := hlib.PixelHash(auto.bc)
	for _, f := range formats {
		fdim := aztecspec.SymbolSize(f.compact, f.layers)
		fail := mk(f.request())
		switch {
		case fdim < dim:
			// C13: no smaller symbol is available
			e := vazEncode(j.data, j.pct, f.request())
			if ok, bad := shape(e, fail); ok && !bad {
				fail("smaller-size-available", fmt.Sprintf("automatic sizing chose %v (%dx%d) but the explicit request for %v (%dx%d) succeeds", got, dim, dim, f, fdim, fdim))
				vazVerify(fail, e.bc, j.data, j.pct, &f)
			}
		case f == got:
			e := vazEncode(j.data, j.pct, f.request())
			ok, bad := shape(e, fail)
			if bad {
				continue
			}
			if !ok {
				fail("explicit-same-rejected", fmt.Sprintf("automatic sizing produced %v but the explicit request fails: %v", got, e.err))
				continue
			}
			if hlib.PixelHash(e.bc) != autoHash {
				fail("explicit-same-differs", "pixels differ from the automatically sized symbol of the same format")
			}
		case j.sweep == 1 && !f.compact && fdim > dim:
			e := vazEncode(j.data, j.pct, f.request())
			ok, bad := shape(e, fail)
			if bad {
				continue
			}
			if !ok {
				fail("larger-size-rejected", fmt.Sprintf("fits %v but the larger %v is refused: %v", got, f, e.err))
				continue
			}
			vazVerify(fail, e.bc, j.data, j.pct, &f)
		}
	}
	return
}

// character classes of the five code tables and binary
var vazClasses = []string{
	"ABCDEFGHIJKLMNOPQRSTUVWXYZ ",
	"abcdefghijklmnopqrstuvwxyz ",
	"\x01\x02\x03\x04\x05\x06\x07\x08\x09\x0a\x0b\x0c\x0d\x1b\x1c\x1d\x1e\x1f@\\^_`|~\x7f",
	"\r!\"#$%&'()*+,-./:;<=>?[]{}",
	"0123456789,. ",
	"\x00\x80\x81\xfe\xff\xc3\xa9\x0e\x1a",
}
var vazPairs = []string{"\r\n", ". ", ", ", ": "}

func vazRandom(rng *rand.Rand, n int) []byte {
	var b []byte
	for len(b) < n {
		c := rng.Intn(len(vazClasses) + 1)
		run := 1 + rng.Intn(6)
		if rng.Intn(4) == 0 {
			run = 1
		}
		for i := 0; i < run && len(b) < n; i++ {
			if c == len(vazClasses) {
				b = append(b, vazPairs[rng.Intn(4)]...)
			} else {
				b = append(b, vazClasses[c][rng.Intn(len(vazClasses[c]))])
			}
		}
	}
	return b[:n]
}

func vazMain(t *testing.T, id string, only ...string) {
	r := hlib.New(id)
	r.Only = only
	defer r.Done(t)
	rng := rand.New(rand.NewSource(r.Seed))
	thorough := r.Tier == "thorough"
	pcts := []int{0, 5, 23, 33, 50, 90}
	var jobs []vazJob
	start := time.Now()
	defer debug.SetGCPercent(debug.SetGCPercent(400))
	flush := func() {
		n := len(jobs)
		r.ParallelN(len(jobs), func(i int) (int, []hlib.Failure) { return vazRun(jobs[i]) })
		jobs = jobs[:0]
		t.Logf("%d jobs done, %d cases so far, %v", n, r.Cases, time.Since(start))
	}
	lit := func(s string) ([]byte, string) { return []byte(s), strconv.Quote(s) }
	allReq := []int{-6, -5, 33, 34, 100, -100}
	for l := -4; l <= 32; l++ {
		allReq = append(allReq, l)
	}

	// 1. fixed corner cases: every percentage, automatic size (+ smaller sizes refused, same size reproduced)
	fixed := []string{"A", "a", "0", " ", "\x00", "\xff", "\r", "\r\n", ". ", ", ", ": ", ".", ",", ":", "@", "\x7f", "\x80", "AB", "Ab", "aB", "A1", "1A", "a1", "1a", "A.", ".A", "A. ", "1. ", "1.2", "1,2", "1, 2",
		"Hello, World!", "hello world", "HELLO WORLD", "12345", "3.14159", "A\xffB", "a\xffb", "1\xff2", "\xff\xfe", "A\r\nB", "a\r\nb", "1\r\n2", "\r\n\r\n", ". . . ", ",,,", "A@B", "a@b", "1@2", "@@@", "@A@a@1@.",
		"ABC abc 123 .,: \r\n @\\^ \x80\x81", "Code 2D!", "http://example.com/?q=1&r=2", "é", "日本語テキスト", "\x1b[0m", "A\x00B", "\x00\x00\x00",
		"AAAAAAAAAAAAAAAAAAAAAAAAAAAAAAAAAAAAAAAAAAAAAAAAAAAAAAAAAAAAAAAAAAAAAAAAAAAAAAAA", "                                        ", "????????????????????????????????", "0000000000000000000000000000000000000000000000000000",
		"\xff\xff\xff\xff\xff\xff\xff\xff\xff\xff\xff\xff\xff\xff\xff\xff\xff\xff\xff\xff", "\x00\x00\x00\x00\x00\x00\x00\x00\x00\x00\x00\x00\x00\x00\x00\x00\x00\x00\x00\x00"}
	for _, s := range fixed {
		d, e := lit(s)
		for _, p := range pcts {
			jobs = append(jobs, vazJob{data: d, expr: e, pct: p})
		}
	}
	// every single byte value and every byte after a letter / a digit
	for b := 0; b < 256; b++ {
		for _, s := range []string{string([]byte{byte(b)}), "A" + string([]byte{byte(b)}), "1" + string([]byte{byte(b)}) + "a"} {
			d, e := lit(s)
			jobs = append(jobs, vazJob{data: d, expr: e, pct: pcts[b%len(pcts)]})
		}
	}
	// one byte: every legal and some illegal layer requests, every percentage (plus large ones)
	for _, p := range append([]int{100, 300, 1000}, pcts...) {
		for _, s := range []string{"A", "\xff", "7"} {
			d, e := lit(s)
			jobs = append(jobs, vazJob{data: d, expr: e, pct: p, sweep: 2, reqs: allReq})
		}
	}
	flush()

	// 2. exhaustive short strings over representatives of every code table (mode transitions)
	reps := []byte{'A', 'b', '5', ' ', '.', ',', ':', '\r', '\n', '@', '!', 0x00, 0xff}
	maxLen := 3
	if thorough {
		maxLen = 4
	}
	var rec func(p []byte)
	rec = func(p []byte) {
		if len(p) >= 2 {
			jobs = append(jobs, vazJob{data: append([]byte(nil), p...), expr: strconv.Quote(string(p)), pct: pcts[rng.Intn(len(pcts))]})
		}
		if len(p) == maxLen {
			return
		}
		for _, a := range reps {
			rec(append(p[:len(p):len(p)], a))
		}
	}
	rec(nil)
	flush()
	if thorough {
		// all pairs of bytes
		for a := 0; a < 256; a++ {
			for b := 0; b < 256; b++ {
				s := string([]byte{byte(a), byte(b)})
				jobs = append(jobs, vazJob{data: []byte(s), expr: strconv.Quote(s), pct: pcts[(a+b)%len(pcts)]})
			}
		}
		flush()
	}

	// 3. binary shift length boundaries (31/32, 62/63 and the 2078 byte limit of one B/S run)
	for _, n := range []int{1, 2, 30, 31, 32, 33, 61, 62, 63, 64, 93, 94, 2077, 2078, 2079, 2080} {
		for _, wrap := range []string{"", "A", "a", "1"} {
			s, e := hlib.Rep("\x81\xfe\x00\x9c\xe5", n)
			if wrap != "" {
				s, e = wrap+s+wrap, strconv.Quote(wrap)+"+"+e+"+"+strconv.Quote(wrap)
			}
			jobs = append(jobs, vazJob{data: []byte(s), expr: e, pct: 0}, vazJob{data: []byte(s), expr: e, pct: 5})
		}
	}
	flush()

	// 4. capacity boundary of every format: longest content of a family that the explicit request accepts
	// (found by bisection on the library's own answer), then n (must decode) and n+1 (must be refused)
	// and the automatic choice for both.
	type family struct {
		unit string
	}
	families := []family{{"8350174629"}, {"HELLO WORLD "}, {"\x81\xfe\x9c"}, {"a. B, 7: \r\n@"}}
	bpcts := []int{23}
	if thorough {
		bpcts = []int{0, 23, 90}
	}
	for _, f := range vazFormats() {
		for fi, fam := range families {
			for _, p := range bpcts {
				if !thorough && fi == 3 && f.layers%2 == 0 {
					continue
				}
				jobs = append(jobs, vazJob{expr: fam.unit, pct: p, sweep: 3, reqs: []int{f.request()}})
			}
		}
	}
	flush()
	// the largest symbol: contents around and beyond the capacity of 32 layers
	for _, n := range []int{1500, 1900, 2000, 2200, 2400, 3000, 3500, 4000, 5000, 8000} {
		for fi, fam := range families {
			s, e := hlib.Rep(fam.unit, n)
			jobs = append(jobs, vazJob{data: []byte(s), expr: e, pct: pcts[(n/100+fi)%len(pcts)]})
		}
	}
	flush()

	// 5. random contents; a share of them with the sweep over every larger full-range size
	nRandom, nSweep := 1200, 40
	if thorough {
		nRandom, nSweep = 60000, 2500
	}
	for i := 0; i < nRandom; i++ {
		var n int
		switch rng.Intn(10) {
		case 0, 1, 2, 3, 4, 5:
			n = 1 + rng.Intn(40)
		case 6, 7, 8:
			n = 1 + rng.Intn(300)
		default:
			n = 1 + rng.Intn(2000)
		}
		var d []byte
		var e string
		switch rng.Intn(4) {
		case 0:
			if n > 400 {
				n = 1 + n%400
			}
			d = []byte(hlib.RandBytes(rng, n))
			e = strconv.Quote(string(d))
		case 1:
			s, ex := hlib.Long(rng, vazClasses[rng.Intn(len(vazClasses))], n)
			d, e = []byte(s), ex
		default:
			if n > 400 {
				n = 1 + n%400
			}
			d = vazRandom(rng, n)
			e = strconv.Quote(string(d))
		}
		p := pcts[rng.Intn(len(pcts))]
		if rng.Intn(20) == 0 {
			p = []int{1, 10, 25, 99, 100, 150, 300, 1000}[rng.Intn(8)]
		}
		j := vazJob{data: d, expr: e, pct: p}
		if i < nSweep {
			j.sweep = 1
		}
		jobs = append(jobs, j)
		if len(jobs) >= 2048 {
			flush()
		}
	}
	flush()
}

func TestVerifC03(t *testing.T) { vazMain(t, "C03") }

// The same cases reported under the other properties they serve (only the named checks count).
func TestVerifC10Aztec(t *testing.T) {
	vazMain(t, "C10", "panic", "result-shape", "rejects-representable", "accepts-illegal-layers", "explicit-fits-auto-fails", "explicit-same-rejected", "larger-size-rejected", "input-modified")
}
func TestVerifC12Aztec(t *testing.T) {
	vazMain(t, "C12", "ecc-percentage", "ecc-none", "reference-reader")
}
func TestVerifC13Aztec(t *testing.T) {
	vazMain(t, "C13", "smaller-size-available")
}
