package ean

// Smoke check for C16 (concurrency): many goroutines call every encoder and barcode.Scale at the same
// time - in this process and, re-executing the test binary (os.Args[0] -test.run ^TestVerifHelperC16$), as
// the very first calls of a fresh process. Every call must return what the sequential run returns, nothing
// may panic or dead-lock (watchdog), and runtime.NumGoroutine() must return to its baseline (polled for up
// to 2 s). This is a bounded stand-in only: it cannot show the absence of data races (the race detector
// needs cgo, which the offline tool chain does not have).
// It lives in package ean only because a harness must be injected into some package of the module.
// Injected with go test -overlay; never written into /repo.

import (
	"bufio"
	"bytes"
	"fmt"
	"math/rand"
	"os"
	"os/exec"
	"runtime"
	"strconv"
	"strings"
	"sync"
	"testing"
	"time"

	"github.com/boombuler/barcode"
	"github.com/boombuler/barcode/aztec"
	"github.com/boombuler/barcode/codabar"
	"github.com/boombuler/barcode/code128"
	"github.com/boombuler/barcode/code39"
	"github.com/boombuler/barcode/code93"
	"github.com/boombuler/barcode/datamatrix"
	"github.com/boombuler/barcode/pdf417"
	"github.com/boombuler/barcode/qr"
	"github.com/boombuler/barcode/twooffive"

	"verif/harness/hlib"
)

type vccJob struct {
	desc string
	run  func() (barcode.Barcode, error)
}

func vccNil(b barcode.BarcodeIntCS, err error) (barcode.Barcode, error) {
	if b == nil {
		return nil, err
	}
	return b, err
}

func vccCatalogue(seed int64, thorough bool) []vccJob {
	rng := rand.New(rand.NewSource(seed ^ 0x16))
	var jobs []vccJob
	q := func(s string) string {
		if len(s) > 40 {
			return fmt.Sprintf("%s...(%d bytes, catalogue seed %d)", strconv.QuoteToASCII(s[:40]), len(s), seed)
		}
		return strconv.QuoteToASCII(s)
	}
	// every job also exists in a scaled form
	add := func(desc string, f func() (barcode.Barcode, error)) {
		jobs = append(jobs, vccJob{desc, f})
		k := 2 + len(jobs)%3
		jobs = append(jobs, vccJob{fmt.Sprintf("barcode.Scale(%s, %dx+3, %dx+1)", desc, k, k), func() (barcode.Barcode, error) {
			b, err := f()
			if err != nil {
				return nil, err
			}
			return barcode.Scale(b, b.Bounds().Dx()*k+3, b.Bounds().Dy()*k+1)
		}})
	}
	qrLens := []int{0, 14, 60, 150, 400, 900, 1600, 2900}
	if thorough {
		qrLens = []int{0, 14, 30, 60, 100, 150, 250, 400, 600, 900, 1200, 1600, 2000, 2500, 2900}
	}
	for i, n := range qrLens {
		lvl := []qr.ErrorCorrectionLevel{qr.L, qr.M, qr.Q, qr.H}[i%4]
		if n > 1200 {
			lvl = qr.L
		}
		s := hlib.RandFrom(rng, "abcdefgh 0123456789\xff", n)
		add(fmt.Sprintf("qr.Encode(%s, qr.%v, qr.Unicode)", q(s), lvl), func() (barcode.Barcode, error) { return qr.Encode(s, lvl, qr.Unicode) })
		a := hlib.RandFrom(rng, "ABCDEF 0123456789$%", n/2)
		add(fmt.Sprintf("qr.Encode(%s, qr.%v, qr.Auto)", q(a), lvl), func() (barcode.Barcode, error) { return qr.Encode(a, lvl, qr.Auto) })
	}
	add(`qr.Encode("12a", qr.L, qr.Numeric)`, func() (barcode.Barcode, error) { return qr.Encode("12a", qr.L, qr.Numeric) })
	add(`qr.Encode("ab", qr.L, qr.AlphaNumeric)`, func() (barcode.Barcode, error) { return qr.Encode("ab", qr.L, qr.AlphaNumeric) })
	add(`qr.Encode("aBCDEFGHIJKLMNOP", qr.L, qr.AlphaNumeric)`, func() (barcode.Barcode, error) { return qr.Encode("aBCDEFGHIJKLMNOP", qr.L, qr.AlphaNumeric) })
	add(`qr.Encode("ABCDEFGHIJKLMNOPaQRSTUVWXYZ 0123456789", qr.Q, qr.Auto)`, func() (barcode.Barcode, error) {
		return qr.Encode("ABCDEFGHIJKLMNOPaQRSTUVWXYZ 0123456789", qr.Q, qr.Auto)
	})
	add(`qr.Encode("Aé", qr.L, qr.AlphaNumeric)`, func() (barcode.Barcode, error) { return qr.Encode("Aé", qr.L, qr.AlphaNumeric) })
	for _, n := range []int{1, 7, 29, 85, 203, 455, 815, 1557} {
		s := hlib.RandFrom(rng, "ABCDEFGH abcdefgh", n)
		add(fmt.Sprintf("datamatrix.Encode(%s)", q(s)), func() (barcode.Barcode, error) { return datamatrix.Encode(s) })
	}
	for i, l := range []int{-1, -4, 2, 8, 12, 22, 27, 32, 0, 0, 0} {
		n := 1 + rng.Intn(8)
		if l == 0 {
			n = 1 + rng.Intn(500)
		}
		s := hlib.RandFrom(rng, "Aztec code 0123.,\xff", n)
		pct := []int{0, 23, 33, 50}[i%4]
		l := l
		add(fmt.Sprintf("aztec.Encode([]byte(%s), %d, %d)", q(s), pct, l), func() (barcode.Barcode, error) { return aztec.Encode([]byte(s), pct, l) })
	}
	for _, lvl := range []byte{0, 2, 5, 8} {
		s := hlib.RandFrom(rng, "PDF417 text; 0123456789\xff", 1+rng.Intn(200))
		lvl := lvl
		add(fmt.Sprintf("pdf417.Encode(%s, %d)", q(s), lvl), func() (barcode.Barcode, error) { return pdf417.Encode(s, lvl) })
	}
	s := hlib.RandFrom(rng, "0123456789abcXYZ \x01", 1+rng.Intn(60))
	add(fmt.Sprintf("code128.Encode(%s)", q(s)), func() (barcode.Barcode, error) { return vccNil(code128.Encode(s)) })
	add(fmt.Sprintf("code128.EncodeWithoutChecksum(%s)", q(s)), func() (barcode.Barcode, error) { return code128.EncodeWithoutChecksum(s) })
	t := hlib.RandFrom(rng, "0123456789ABCXYZ-. $/+%", 1+rng.Intn(30))
	u := hlib.RandFrom(rng, "abc{}~\x00\x7f,ABC12", 1+rng.Intn(30))
	add(fmt.Sprintf("code39.Encode(%s, true, false)", q(t)), func() (barcode.Barcode, error) { return vccNil(code39.Encode(t, true, false)) })
	add(fmt.Sprintf("code39.Encode(%s, false, true)", q(u)), func() (barcode.Barcode, error) { return vccNil(code39.Encode(u, false, true)) })
	add(fmt.Sprintf("code93.Encode(%s, true, false)", q(t)), func() (barcode.Barcode, error) { return code93.Encode(t, true, false) })
	add(fmt.Sprintf("code93.Encode(%s, true, true)", q(u)), func() (barcode.Barcode, error) { return code93.Encode(u, true, true) })
	c := "A" + hlib.RandFrom(rng, "0123456789-$:/.+", rng.Intn(30)) + "D"
	add(fmt.Sprintf("codabar.Encode(%s)", q(c)), func() (barcode.Barcode, error) { return codabar.Encode(c) })
	e7, e12 := hlib.RandFrom(rng, "0123456789", 7), hlib.RandFrom(rng, "0123456789", 12)
	add(fmt.Sprintf("ean.Encode(%s)", q(e7)), func() (barcode.Barcode, error) { return vccNil(Encode(e7)) })
	add(fmt.Sprintf("ean.Encode(%s)", q(e12)), func() (barcode.Barcode, error) { return vccNil(Encode(e12)) })
	d := hlib.RandFrom(rng, "0123456789", 2*(1+rng.Intn(12)))
	add(fmt.Sprintf("twooffive.Encode(%s, true)", q(d)), func() (barcode.Barcode, error) { return twooffive.Encode(d, true) })
	add(fmt.Sprintf("twooffive.Encode(%s, false)", q(d)), func() (barcode.Barcode, error) { return twooffive.Encode(d, false) })
	return jobs
}

func vccHash(bc barcode.Barcode, err error) string {
	if err != nil || bc == nil {
		return fmt.Sprintf("error:%v/nil=%v", err, bc == nil)
	}
	cs := -1
	if c, ok := bc.(barcode.BarcodeIntCS); ok {
		cs = c.CheckSum()
	}
	md := bc.Metadata()
	return fmt.Sprintf("%016x|%v|%q|%d|%d|%x", hlib.PixelHash(bc), bc.Bounds(), md.CodeKind, md.Dimensions, cs, bc.Content())
}

func vccRunJob(j vccJob) (h string) {
	defer func() {
		if p := recover(); p != nil {
			h = fmt.Sprint("panic:", p)
		}
	}()
	return vccHash(j.run())
}

// vccStorm starts g goroutines behind a barrier; each runs all jobs once in its own shuffled order.
// It returns, per job, the set of distinct hashes seen, the goroutine baseline / final counts and whether
// the watchdog fired.
func vccStorm(jobs []vccJob, g int, seed int64, timeout time.Duration) (seen []map[string]int, base, final int, hung bool) {
	seen = make([]map[string]int, len(jobs))
	for i := range seen {
		seen[i] = make(map[string]int)
	}
	base = runtime.NumGoroutine()
	var mu sync.Mutex
	var wg sync.WaitGroup
	start := make(chan struct{})
	for w := 0; w < g; w++ {
		wg.Add(1)
		order := rand.New(rand.NewSource(seed + int64(w))).Perm(len(jobs))
		go func() {
			defer wg.Done()
			<-start
			for _, i := range order {
				h := vccRunJob(jobs[i])
				mu.Lock()
				seen[i][h]++
				mu.Unlock()
			}
		}()
	}
	done := make(chan struct{})
	go func() { wg.Wait(); close(done) }()
	close(start)
	select {
	case <-done:
	case <-time.After(timeout):
		return seen, base, runtime.NumGoroutine(), true
	}
	deadline := time.Now().Add(2 * time.Second)
	for {
		final = runtime.NumGoroutine()
		if final <= base || time.Now().After(deadline) {
			break
		}
		time.Sleep(10 * time.Millisecond)
	}
	return seen, base, final, false
}

// TestVerifHelperC16 is the body of the fresh process: the storm is the first use of the library.
func TestVerifHelperC16(t *testing.T) {
	spec := os.Getenv("VERIF_C16_CHILD")
	if spec == "" {
		return
	}
	g, _ := strconv.Atoi(spec)
	r := hlib.New("C16")
	jobs := vccCatalogue(r.Seed, r.Tier == "thorough")
	seen, base, final, hung := vccStorm(jobs, g, r.Seed, 120*time.Second)
	if hung {
		fmt.Printf("VCC hung goroutines=%d\n", final)
		buf := make([]byte, 1<<16)
		fmt.Printf("VCC stacks %q\n", buf[:runtime.Stack(buf, true)])
		return
	}
	fmt.Printf("VCC goroutines %d %d\n", base, final)
	for i, m := range seen {
		var hs []string
		for h, n := range m {
			hs = append(hs, fmt.Sprintf("%dx %s", n, h))
		}
		fmt.Printf("VCC job %d %d %s\n", i, len(m), strings.Join(hs, " ;; "))
	}
}

func TestVerifC16(t *testing.T) {
	if os.Getenv("VERIF_C16_CHILD") != "" {
		return
	}
	r := hlib.New("C16")
	defer r.Done(t)
	thorough := r.Tier == "thorough"
	jobs := vccCatalogue(r.Seed, thorough)
	g := 12
	children := 2
	if thorough {
		g = 32
		children = 10
	}

	// 1. fresh processes first (they run while nothing else loads the machine); the expected values are
	// computed sequentially here afterwards
	type child struct {
		out string
		err error
	}
	cs := make([]child, children)
	for k := range cs {
		cmd := exec.Command(os.Args[0], "-test.run", "^TestVerifHelperC16$", "-test.count=1", "-test.timeout=200s")
		cmd.Env = append(os.Environ(), fmt.Sprintf("VERIF_C16_CHILD=%d", g+k), "VERIF_OUT=")
		var out bytes.Buffer
		cmd.Stdout, cmd.Stderr = &out, &out
		cs[k].err = cmd.Run()
		cs[k].out = out.String()
	}
	want := make([]string, len(jobs))
	for i, j := range jobs {
		want[i] = vccRunJob(j)
		r.Cases++
		if strings.HasPrefix(want[i], "panic:") {
			r.Fail("panic", j.desc, want[i])
		}
	}
	for k, c := range cs {
		name := fmt.Sprintf("fresh process #%d with %d goroutines x %d jobs (seed %d)", k, g+k, len(jobs), r.Seed)
		r.Cases++
		if c.err != nil {
			r.Fail("fresh-process", name, fmt.Sprintf("%v: %s", c.err, c.out))
			continue
		}
		reported := 0
		sc := bufio.NewScanner(strings.NewReader(c.out))
		sc.Buffer(make([]byte, 1<<20), 1<<26)
		for sc.Scan() {
			f := strings.SplitN(sc.Text(), " ", 5)
			if len(f) < 2 || f[0] != "VCC" {
				continue
			}
			switch f[1] {
			case "hung":
				r.Fail("deadlock", name, "the goroutines did not finish within 120 s: "+c.out)
			case "goroutines":
				if len(f) >= 4 {
					b, _ := strconv.Atoi(f[2])
					e, _ := strconv.Atoi(f[3])
					if e > b {
						r.Fail("goroutine-leak", name, fmt.Sprintf("%d goroutines before, %d two seconds after the calls returned", b, e))
					}
				}
			case "job":
				if len(f) == 5 {
					i, _ := strconv.Atoi(f[2])
					reported++
					r.Cases++
					if f[3] != "1" || !strings.HasSuffix(f[4], " "+want[i]) {
						r.Fail("concurrent-result", name+": "+jobs[i].desc, fmt.Sprintf("sequential %s, concurrent %s", want[i], f[4]))
					}
				}
			}
		}
		if reported != len(jobs) {
			r.Fail("fresh-process", name, fmt.Sprintf("reported %d of %d jobs: %s", reported, len(jobs), c.out))
		}
	}

	// 2. the same in this process (tables are initialised by now)
	rounds := 2
	if thorough {
		rounds = 8
	}
	for round := 0; round < rounds; round++ {
		seen, base, final, hung := vccStorm(jobs, g, r.Seed+int64(1000*round), 120*time.Second)
		name := fmt.Sprintf("in-process round %d with %d goroutines x %d jobs (seed %d)", round, g, len(jobs), r.Seed)
		r.Cases++
		if hung {
			r.Fail("deadlock", name, "the goroutines did not finish within 120 s")
			return
		}
		if final > base {
			r.Fail("goroutine-leak", name, fmt.Sprintf("%d goroutines before, %d two seconds after the calls returned", base, final))
		}
		for i, m := range seen {
			r.Cases++
			if len(m) != 1 || m[want[i]] != g {
				r.Fail("concurrent-result", name+": "+jobs[i].desc, fmt.Sprintf("sequential %s, concurrent %v", want[i], m))
			}
		}
	}
}
