package utils

// Bounded stand-in / replay search for C17 (Galois field arithmetic, polynomial division, Reed-Solomon
// encoder) against an independent implementation: carry-less multiplication modulo the primitive
// polynomial and schoolbook polynomial arithmetic on coefficient slices - none of the library's tables.
// Injected with go test -overlay; never written into /repo.

import (
	"fmt"
	"math/rand"
	"testing"

	"verif/harness/hlib"
)

// vgfZeroEccIsKnown: set to true to skip ReedSolomonEncoder.Encode(data, 0). (Finding of this harness: it used
// to panic with "slice bounds out of range [-1:]"; repaired in /repo, so the check is enabled.)
const vgfZeroEccIsKnown = false

type vgfField struct {
	pp, size, base int
}

var vgfFields = []vgfField{{285, 256, 0}, {301, 256, 1}, {0x13, 16, 1}, {0x43, 64, 1}, {0x12D, 256, 1}, {0x409, 1024, 1}, {0x1069, 4096, 1}}

func (f vgfField) String() string {
	return fmt.Sprintf("NewGaloisField(%#x, %d, %d)", f.pp, f.size, f.base)
}

// mul is the reference multiplication: shift-and-add with reduction by the primitive polynomial.
func (f vgfField) mul(a, b int) int {
	r := 0
	for b > 0 {
		if b&1 == 1 {
			r ^= a
		}
		b >>= 1
		a <<= 1
		if a >= f.size {
			a ^= f.pp
		}
	}
	return r
}

func (f vgfField) pow(a, n int) int {
	r := 1
	for ; n > 0; n-- {
		r = f.mul(r, a)
	}
	return r
}

// reference polynomial arithmetic; coefficient slices, highest power first, no leading zeros except "0" = [0]
func vgfNorm(p []int) []int {
	for len(p) > 1 && p[0] == 0 {
		p = p[1:]
	}
	if len(p) == 0 {
		return []int{0}
	}
	return p
}

func vgfAdd(a, b []int) []int {
	if len(a) < len(b) {
		a, b = b, a
	}
	r := append([]int(nil), a...)
	for i := range b {
		r[len(a)-len(b)+i] ^= b[i]
	}
	return vgfNorm(r)
}

func (f vgfField) polyMul(a, b []int) []int {
	r := make([]int, len(a)+len(b)-1)
	for i, x := range a {
		for j, y := range b {
			r[i+j] ^= f.mul(x, y)
		}
	}
	return vgfNorm(r)
}

func (f vgfField) eval(p []int, x int) int {
	r := 0
	for _, c := range p {
		r = f.mul(r, x) ^ c
	}
	return r
}

func vgfEq(a, b []int) bool {
	a, b = vgfNorm(a), vgfNorm(b)
	if len(a) != len(b) {
		return false
	}
	for i := range a {
		if a[i] != b[i] {
			return false
		}
	}
	return true
}

type vgfRun struct {
	fails []hlib.Failure
	cases int
}

func (v *vgfRun) fail(check, input, detail string) {
	if len(v.fails) < 20 {
		v.fails = append(v.fails, hlib.Failure{Check: check, Input: input, Detail: detail})
	}
}

// guard runs fn and reports a panic as a failure of the given check.
func (v *vgfRun) guard(check string, input func() string, fn func()) {
	defer func() {
		if p := recover(); p != nil {
			v.fail(check+"/panic", input(), fmt.Sprint(p))
		}
	}()
	fn()
}

func vgfFieldLaws(f vgfField, seed int64, thorough bool) *vgfRun {
	v := &vgfRun{}
	rng := rand.New(rand.NewSource(seed))
	var gf *GaloisField
	v.guard("construct", f.String, func() { gf = NewGaloisField(f.pp, f.size, f.base) })
	if gf == nil {
		return v
	}
	name := f.String()
	pair := func(a, b int) {
		v.cases++
		in := func() string { return fmt.Sprintf("%s: a=%d b=%d", name, a, b) }
		v.guard("multiply", in, func() {
			want := f.mul(a, b)
			if got := gf.Multiply(a, b); got != want {
				v.fail("multiply", in(), fmt.Sprintf("Multiply=%d, carry-less product mod polynomial=%d", got, want))
			}
			if gf.Multiply(a, b) != gf.Multiply(b, a) {
				v.fail("commutative", in(), fmt.Sprintf("a*b=%d b*a=%d", gf.Multiply(a, b), gf.Multiply(b, a)))
			}
			if gf.AddOrSub(a, b) != a^b {
				v.fail("add", in(), fmt.Sprintf("AddOrSub=%d want %d", gf.AddOrSub(a, b), a^b))
			}
		})
		if b != 0 {
			v.guard("divide", in, func() {
				q := gf.Divide(a, b)
				if q < 0 || q >= f.size || f.mul(q, b) != a {
					v.fail("divide", in(), fmt.Sprintf("Divide(a,b)=%d but %d*b=%d != a", q, q, f.mul(q, b)))
				}
				if gf.Multiply(q, b) != a {
					v.fail("divide-undoes-multiply", in(), fmt.Sprintf("Multiply(Divide(a,b),b)=%d", gf.Multiply(q, b)))
				}
				if p := gf.Multiply(a, b); gf.Divide(p, b) != a {
					v.fail("divide-undoes-multiply", in(), fmt.Sprintf("Divide(Multiply(a,b),b)=%d", gf.Divide(p, b)))
				}
			})
		}
	}
	// inverses of every non-zero element
	for a := 1; a < f.size; a++ {
		v.cases++
		in := func() string { return fmt.Sprintf("%s: a=%d", name, a) }
		v.guard("inverse", in, func() {
			inv := gf.Invers(a)
			if inv <= 0 || inv >= f.size || f.mul(a, inv) != 1 || gf.Multiply(a, inv) != 1 {
				v.fail("inverse", in(), fmt.Sprintf("Invers(a)=%d, a*Invers(a)=%d", inv, f.mul(a, inv)))
			}
		})
	}
	if f.size <= 1024 || thorough {
		for a := 0; a < f.size; a++ {
			for b := 0; b < f.size; b++ {
				pair(a, b)
			}
		}
	} else {
		for a := 0; a < f.size; a++ {
			for _, b := range []int{0, 1, 2, 3, f.size - 1, f.size / 2, a, rng.Intn(f.size), rng.Intn(f.size), rng.Intn(f.size)} {
				pair(a, b)
				pair(b, a)
			}
		}
		for i := 0; i < 1000000; i++ {
			pair(rng.Intn(f.size), rng.Intn(f.size))
		}
	}
	// associativity and distributivity
	triple := func(a, b, c int) {
		v.cases++
		in := func() string { return fmt.Sprintf("%s: a=%d b=%d c=%d", name, a, b, c) }
		v.guard("associative", in, func() {
			if l, r := gf.Multiply(gf.Multiply(a, b), c), gf.Multiply(a, gf.Multiply(b, c)); l != r {
				v.fail("associative", in(), fmt.Sprintf("(a*b)*c=%d a*(b*c)=%d", l, r))
			}
			if l, r := gf.Multiply(a, gf.AddOrSub(b, c)), gf.AddOrSub(gf.Multiply(a, b), gf.Multiply(a, c)); l != r {
				v.fail("distributive", in(), fmt.Sprintf("a*(b+c)=%d a*b+a*c=%d", l, r))
			}
		})
	}
	if f.size <= 64 {
		for a := 0; a < f.size; a++ {
			for b := 0; b < f.size; b++ {
				for c := 0; c < f.size; c++ {
					triple(a, b, c)
				}
			}
		}
	} else {
		n := 300000
		if thorough {
			n = 10000000
		}
		for i := 0; i < n; i++ {
			triple(rng.Intn(f.size), rng.Intn(f.size), rng.Intn(f.size))
		}
	}
	// the field structure itself is what the encoders rely on
	v.cases++
	if gf.Size != f.size || gf.Base != f.base {
		v.fail("construct", name, fmt.Sprintf("Size=%d Base=%d", gf.Size, gf.Base))
	}
	return v
}

func vgfPolyDivide(f vgfField, seed int64, thorough bool) *vgfRun {
	v := &vgfRun{}
	rng := rand.New(rand.NewSource(seed))
	gf := NewGaloisField(f.pp, f.size, f.base)
	name := f.String()
	one := func(dividend, divisor []int) {
		v.cases++
		in := func() string { return fmt.Sprintf("%s: NewGFPoly(%v).Divide(NewGFPoly(%v))", name, dividend, divisor) }
		v.guard("poly-divide", in, func() {
			a := NewGFPoly(gf, append([]int(nil), dividend...))
			b := NewGFPoly(gf, append([]int(nil), divisor...))
			a0, b0 := append([]int(nil), a.Coefficients...), append([]int(nil), b.Coefficients...)
			q, r := a.Divide(b)
			if q == nil || r == nil || len(q.Coefficients) == 0 || len(r.Coefficients) == 0 {
				v.fail("poly-divide", in(), "nil or empty quotient / remainder")
				return
			}
			for _, c := range append(append([]int(nil), q.Coefficients...), r.Coefficients...) {
				if c < 0 || c >= f.size {
					v.fail("poly-divide", in(), fmt.Sprintf("coefficient %d outside the field", c))
					return
				}
			}
			back := vgfAdd(f.polyMul(vgfNorm(q.Coefficients), vgfNorm(divisor)), vgfNorm(r.Coefficients))
			if !vgfEq(back, dividend) {
				v.fail("poly-divide", in(), fmt.Sprintf("quotient %v remainder %v: quotient*divisor+remainder = %v", q.Coefficients, r.Coefficients, back))
			}
			rn, dn := vgfNorm(r.Coefficients), vgfNorm(divisor)
			if !(len(rn) < len(dn) || (len(rn) == 1 && rn[0] == 0)) {
				v.fail("poly-divide-degree", in(), fmt.Sprintf("remainder %v has degree >= divisor degree", r.Coefficients))
			}
			if !vgfEq(a.Coefficients, a0) || !vgfEq(b.Coefficients, b0) || len(a.Coefficients) != len(a0) || len(b.Coefficients) != len(b0) {
				v.fail("poly-divide-pure", in(), "Divide modified an operand")
			}
		})
	}
	if f.size == 16 {
		// all polynomials of degree <= 2 (as coefficient triples, leading zeros included) by all non-zero divisors of degree <= 2
		for d := 1; d < 4096; d++ {
			divisor := []int{d >> 8, d >> 4 & 15, d & 15}
			if !thorough && d>>8 != 0 && d%7 != 0 {
				continue // quick: all divisors of degree <= 1, every 7th of degree 2
			}
			for a := 0; a < 4096; a++ {
				one([]int{a >> 8, a >> 4 & 15, a & 15}, divisor)
			}
		}
	}
	n := 40000
	if thorough {
		n = 1500000
	}
	randPoly := func(maxDeg int, allowZero bool) []int {
		deg := rng.Intn(maxDeg + 1)
		p := make([]int, deg+1)
		for i := range p {
			p[i] = rng.Intn(f.size)
			if rng.Intn(6) == 0 {
				p[i] = []int{0, 1, f.size - 1}[rng.Intn(3)]
			}
		}
		if !allowZero {
			zero := true
			for _, c := range p {
				if c != 0 {
					zero = false
				}
			}
			if zero {
				p[len(p)-1] = 1 + rng.Intn(f.size-1)
			}
		}
		return p
	}
	for i := 0; i < n; i++ {
		maxA, maxB := 12, 6
		if i%10 == 0 {
			maxA, maxB = 80, 40
		}
		one(randPoly(maxA, true), randPoly(maxB, false))
	}
	return v
}

func vgfReedSolomon(f vgfField, seed int64, thorough bool) *vgfRun {
	v := &vgfRun{}
	rng := rand.New(rand.NewSource(seed))
	gf := NewGaloisField(f.pp, f.size, f.base)
	name := f.String()
	shared := NewReedSolomonEncoder(gf)
	maxEcc := f.size - 2
	if maxEcc > 260 && !thorough {
		maxEcc = 260
	}
	if maxEcc > 1700 {
		maxEcc = 1700
	}
	// the evaluation points alpha^(base+i) by independent arithmetic
	points := make([]int, maxEcc+1)
	points[0] = f.pow(2, f.base)
	for i := 1; i <= maxEcc; i++ {
		points[i] = f.mul(points[i-1], 2)
	}
	check := func(enc *ReedSolomonEncoder, which string, data []int, ecc int) []int {
		v.cases++
		in := func() string { return fmt.Sprintf("%s: %s.Encode(%v, %d)", name, which, vgfAbbrev(data), ecc) }
		var res []int
		v.guard("rs-encode", in, func() {
			orig := append([]int(nil), data...)
			res = enc.Encode(data, ecc)
			if !vgfEq(orig, data) || len(orig) != len(data) {
				v.fail("rs-encode-pure", in(), "Encode modified the data slice")
			}
			if len(res) != ecc {
				v.fail("rs-encode", in(), fmt.Sprintf("%d check symbols returned", len(res)))
				return
			}
			for _, c := range res {
				if c < 0 || c >= f.size {
					v.fail("rs-encode", in(), fmt.Sprintf("check symbol %d outside the field", c))
					return
				}
			}
			cw := append(append([]int(nil), data...), res...)
			for i := 0; i < ecc; i++ {
				if e := f.eval(cw, points[i]); e != 0 {
					v.fail("rs-encode", in(), fmt.Sprintf("data||check evaluates to %d at alpha^%d (check symbols %v)", e, f.base+i, vgfAbbrev(res)))
					return
				}
			}
		})
		return res
	}
	randData := func(n int) []int {
		d := make([]int, n)
		for i := range d {
			d[i] = rng.Intn(f.size)
		}
		switch rng.Intn(8) {
		case 0:
			for i := range d {
				d[i] = 0
			}
		case 1:
			if n > 0 {
				d[0] = 0
			}
		case 2:
			for i := 0; i < n/2; i++ {
				d[i] = 0
			}
		}
		return d
	}
	// every ecc count 1..maxEcc in shuffled order on the shared encoder, compared with a fresh encoder
	rounds := 2
	if thorough {
		rounds = 6
		if f.size > 256 {
			rounds = 3
		}
	}
	for round := 0; round < rounds; round++ {
		order := rng.Perm(maxEcc)
		if f.size > 256 && !thorough {
			order = order[:120]
		}
		for _, k := range order {
			ecc := k + 1
			n := 1 + rng.Intn(40)
			if rng.Intn(4) == 0 {
				n = 1 + rng.Intn(300)
			}
			data := randData(n)
			a := check(shared, "shared encoder", data, ecc)
			if ecc <= 300 || rng.Intn(20) == 0 {
				b := check(NewReedSolomonEncoder(gf), "fresh encoder", data, ecc)
				if a != nil && b != nil && !vgfEq(a, b) && len(a) == len(b) {
					v.fail("rs-cache", fmt.Sprintf("%s: Encode(%v, %d)", name, vgfAbbrev(data), ecc), "the encoder that served other degrees before returns different check symbols than a fresh one")
				}
			}
		}
	}
	// zero check symbols: the degenerate code; the only sensible answer is the empty slice
	if !vgfZeroEccIsKnown {
		v.cases++
		in := func() string { return fmt.Sprintf("%s: NewReedSolomonEncoder(gf).Encode([]int{1, 2, 3}, 0)", name) }
		v.guard("rs-encode-zero-ecc", in, func() {
			if res := NewReedSolomonEncoder(gf).Encode([]int{1, 2, 3}, 0); len(res) != 0 {
				v.fail("rs-encode-zero-ecc", in(), fmt.Sprintf("returned %v", res))
			}
		})
		for _, data := range [][]int{{0}, {}, {0, 0, 5}, randData(10), randData(300)} {
			check(shared, "shared encoder", data, 0)
		}
	}
	// empty data
	for _, ecc := range []int{1, 2, 7} {
		if ecc <= maxEcc {
			check(shared, "shared encoder", []int{}, ecc)
			check(shared, "shared encoder", nil, ecc)
		}
	}
	// many small cases
	n := 20000
	if thorough {
		n = 600000
	}
	for i := 0; i < n; i++ {
		ecc := 1 + rng.Intn(30)
		if ecc > maxEcc {
			ecc = maxEcc
		}
		check(shared, "shared encoder", randData(1+rng.Intn(20)), ecc)
	}
	return v
}

func vgfAbbrev(d []int) string {
	if len(d) > 48 {
		return fmt.Sprintf("%v...(%d symbols)", d[:48], len(d))
	}
	return fmt.Sprint(d)
}

func TestVerifC17(t *testing.T) {
	r := hlib.New("C17")
	defer r.Done(t)
	thorough := r.Tier == "thorough"
	type part struct {
		f    vgfField
		kind int
		res  *vgfRun
	}
	var parts []*part
	for _, f := range vgfFields {
		for kind := 0; kind < 3; kind++ {
			parts = append(parts, &part{f: f, kind: kind})
		}
	}
	hlib.Do(len(parts), func(i int) {
		p := parts[i]
		seed := r.Seed*100 + int64(i)
		defer func() {
			if x := recover(); x != nil {
				p.res = &vgfRun{cases: 1, fails: []hlib.Failure{{Check: "harness-panic", Input: p.f.String(), Detail: fmt.Sprint(x)}}}
			}
		}()
		switch p.kind {
		case 0:
			p.res = vgfFieldLaws(p.f, seed, thorough)
		case 1:
			p.res = vgfPolyDivide(p.f, seed, thorough)
		default:
			p.res = vgfReedSolomon(p.f, seed, thorough)
		}
	})
	for _, p := range parts {
		r.Cases += p.res.cases
		for _, f := range p.res.fails {
			r.Fail(f.Check, f.Input, f.Detail)
		}
	}
}
