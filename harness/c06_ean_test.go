package ean

// Bounded stand-in / replay search for C06 (EAN-8 / EAN-13 check digit handling and round trip through the
// reference decoder) with the EAN clauses of C10 (rejection exactness) and C14 (CheckSum() is the final
// check digit). Injected with go test -overlay; never written into /repo.

import (
	"fmt"
	"math/rand"
	"strconv"
	"strings"
	"testing"

	"github.com/boombuler/barcode"

	"verif/harness/hlib"
	"verif/spec/onedspec"
)

func veanDigits(s string) bool {
	for i := 0; i < len(s); i++ {
		if s[i] < '0' || s[i] > '9' {
			return false
		}
	}
	return true
}

// veanExpect returns the full number the encoder has to produce, or ok=false if the input must be refused.
func veanExpect(code string) (full string, ok bool, why string) {
	if !veanDigits(code) {
		return "", false, "not all digits"
	}
	switch len(code) {
	case 7, 12:
		cd, err := onedspec.EANCheckDigit(code)
		if err != nil {
			return "", false, "oracle: " + err.Error()
		}
		return code + string(cd), true, ""
	case 8, 13:
		cd, err := onedspec.EANCheckDigit(code[:len(code)-1])
		if err != nil {
			return "", false, "oracle: " + err.Error()
		}
		if cd != code[len(code)-1] {
			return "", false, fmt.Sprintf("check digit must be %c", cd)
		}
		return code, true, ""
	}
	return "", false, fmt.Sprintf("%d digits", len(code))
}

func veanCheck(code string) (fails []hlib.Failure) {
	input := fmt.Sprintf("ean.Encode(%s)", strconv.QuoteToASCII(code))
	fail := func(check, detail string) {
		fails = append(fails, hlib.Failure{Check: check, Input: input, Detail: detail})
	}
	full, valid, why := veanExpect(code)
	var bc barcode.BarcodeIntCS
	var err error
	var panicked interface{}
	func() {
		defer func() {
			if p := recover(); p != nil {
				panicked = p
			}
		}()
		bc, err = Encode(code)
	}()
	if panicked != nil {
		fail("panic", fmt.Sprint(panicked))
		return
	}
	if (bc == nil) == (err == nil) {
		fail("result-shape", fmt.Sprintf("barcode nil=%v err=%v", bc == nil, err))
		return
	}
	if err != nil {
		if valid {
			fail("rejects-representable", err.Error())
		}
		return
	}
	if !valid {
		fail("accepts-unrepresentable", "succeeded although "+why)
		return
	}
	wantKind, wantLen := barcode.TypeEAN8, 67
	if len(full) == 13 {
		wantKind, wantLen = barcode.TypeEAN13, 95
	}
	bd := bc.Bounds()
	if bd.Min.X != 0 || bd.Min.Y != 0 || bd.Dy() != 1 || bd.Dx() != wantLen {
		fail("bounds", fmt.Sprintf("%v, want %d modules", bd, wantLen))
		return
	}
	bars, clean := hlib.Bars(bc, 0)
	if !clean {
		fail("colours", "a pixel is neither black nor white")
	}
	dec, derr := onedspec.EANDecode(bars)
	if derr != nil {
		fail("reference-decoder", derr.Error()+" bars="+hlib.BarString(bars))
		return
	}
	if dec != full {
		fail("digits", fmt.Sprintf("symbol decodes to %s, want %s", dec, full))
	}
	if bc.Content() != full {
		fail("content", fmt.Sprintf("Content()=%q, want %q", bc.Content(), full))
	}
	if md := bc.Metadata(); md.CodeKind != wantKind || md.Dimensions != 1 {
		fail("metadata", fmt.Sprintf("%v, want kind %q", md, wantKind))
	}
	if cs := bc.CheckSum(); cs != int(full[len(full)-1]-'0') {
		fail("checksum", fmt.Sprintf("CheckSum()=%d, the check digit is %c", cs, full[len(full)-1]))
	}
	// C14: the value is unchanged by scaling
	if sc, serr := barcode.Scale(bc, 2*bd.Dx()+1, 5); serr != nil {
		fail("checksum-scaled", "Scale failed: "+serr.Error())
	} else if scs, ok := sc.(barcode.BarcodeIntCS); !ok || scs.CheckSum() != bc.CheckSum() {
		fail("checksum-scaled", "the scaled barcode reports a different CheckSum() or none")
	}
	return
}

func veanMain(t *testing.T, id string, only ...string) {
	r := hlib.New(id)
	r.Only = only
	defer r.Done(t)
	rng := rand.New(rand.NewSource(r.Seed))
	thorough := r.Tier == "thorough"
	var cases []string
	flush := func() {
		r.Parallel(len(cases), func(i int) []hlib.Failure { return veanCheck(cases[i]) })
		cases = cases[:0]
	}
	digits := func(n int) string { return hlib.RandFrom(rng, "0123456789", n) }

	// 1. fixed cases: lengths 0..20 of digits, non-digits of the four lengths
	cases = append(cases, "", "5901234123457", "590123412345", "96385074", "9638507", "0000000", "00000000", "000000000000", "0000000000000", "9999999", "999999999999",
		"4006381333931", "73513537", "abcdefg", "abcdefgh", "abcdefghijkl", "abcdefghijklm", "123456é", "12345é", "1234567é", "12345678901é", "1234567890é", "123456789012é",
		" 1234567", "1234567 ", "+1234567", "-1234567", "12345.67", "１２３４５６７", "١٢٣٤٥٦٧", "\x00\x00\x00\x00\x00\x00\x00", "\xff\xff\xff\xff\xff\xff\xff\xff", "1234567\n", "123456\n", "12345678901\n", "1234567B", "123456B", "123456789012B", "12345678901B")
	for n := 0; n <= 20; n++ {
		for k := 0; k < 5; k++ {
			cases = append(cases, digits(n))
		}
		cases = append(cases, strings.Repeat("0", n), strings.Repeat("9", n))
	}
	// every first digit (EAN-13 parity patterns) x every digit in every position
	for first := 0; first < 10; first++ {
		for pos := 1; pos < 12; pos++ {
			for d := 0; d < 10; d++ {
				b := []byte(fmt.Sprintf("%d00000000000", first))
				b[pos] = byte('0' + d)
				cases = append(cases, string(b))
			}
		}
	}
	for pos := 0; pos < 7; pos++ {
		for d := 0; d < 10; d++ {
			b := []byte("0000000")
			b[pos] = byte('0' + d)
			cases = append(cases, string(b))
		}
	}
	flush()

	// 2. random numbers of the four lengths; for 8 and 13 digits all ten last digits (one right, nine wrong)
	n := 20000
	if thorough {
		n = 1000000
	}
	for i := 0; i < n; i++ {
		for _, l := range []int{7, 12} {
			d := digits(l)
			cases = append(cases, d)
			for c := 0; c < 10; c++ {
				cases = append(cases, d+string(rune('0'+c)))
			}
		}
		// one non-digit somewhere
		l := []int{7, 8, 12, 13}[rng.Intn(4)]
		b := []byte(digits(l))
		b[rng.Intn(l)] = "aB /:-+.\x00\xff\n"[rng.Intn(11)]
		cases = append(cases, string(b))
		if len(cases) > 100000 {
			flush()
		}
	}
	flush()
	if thorough {
		// all 10^7 EAN-8 data values
		for v := 0; v < 10000000; v++ {
			cases = append(cases, fmt.Sprintf("%07d", v))
			if len(cases) > 100000 {
				flush()
			}
		}
		flush()
	}
}

func TestVerifC06(t *testing.T) { veanMain(t, "C06") }

// The same cases reported under the other properties they serve (only the named checks count).
func TestVerifC10EAN(t *testing.T) {
	veanMain(t, "C10", "panic", "result-shape", "rejects-representable", "accepts-unrepresentable")
}
func TestVerifC14EAN(t *testing.T) {
	veanMain(t, "C14", "checksum", "checksum-scaled")
}
