package code39

// Bounded stand-in / replay search for the Code 39 half of C07 (round trip through the reference decoder in
// all four (includeChecksum, fullASCII) configurations) with the Code 39 clauses of C10 (alphabet) and C14
// (CheckSum() is the modulo-43 value of the encoded characters in every configuration).
// Injected with go test -overlay; never written into /repo.

import (
	"fmt"
	"math/rand"
	"strconv"
	"strings"
	"testing"

	"github.com/boombuler/barcode"

	"verif/harness/hlib"
	"verif/spec/onedspec"
)

const v39Basic = "0123456789ABCDEFGHIJKLMNOPQRSTUVWXYZ-. $/+%"

func v39Check(content string) (fails []hlib.Failure) {
	for cfg := 0; cfg < 4; cfg++ {
		withCS, full := cfg&1 == 1, cfg&2 == 2
		input := fmt.Sprintf("code39.Encode(%s, %v, %v)", strconv.QuoteToASCII(content), withCS, full)
		fail := func(check, detail string) {
			fails = append(fails, hlib.Failure{Check: check, Input: input, Detail: detail})
		}
		valid, why := true, ""
		for _, r := range content {
			if full && r > 127 {
				valid, why = false, fmt.Sprintf("%U is not ASCII", r)
			}
			if !full && (r > 127 || !strings.ContainsRune(v39Basic, r)) {
				valid, why = false, fmt.Sprintf("%U is not a Code 39 character", r)
			}
		}
		var bc barcode.BarcodeIntCS
		var err error
		var panicked interface{}
		func() {
			defer func() {
				if p := recover(); p != nil {
					panicked = p
				}
			}()
			bc, err = Encode(content, withCS, full)
		}()
		if panicked != nil {
			fail("panic", fmt.Sprint(panicked))
			continue
		}
		if (bc == nil) == (err == nil) {
			fail("result-shape", fmt.Sprintf("barcode nil=%v err=%v", bc == nil, err))
			continue
		}
		if err != nil {
			if valid && content != "" {
				fail("rejects-representable", err.Error())
			}
			continue
		}
		if !valid {
			fail("accepts-unrepresentable", "succeeded although "+why)
			continue
		}
		bd := bc.Bounds()
		if bd.Min.X != 0 || bd.Min.Y != 0 || bd.Dy() != 1 {
			fail("bounds", fmt.Sprint(bd))
			continue
		}
		bars, clean := hlib.Bars(bc, 0)
		if !clean {
			fail("colours", "a pixel is neither black nor white")
		}
		chars, derr := onedspec.C39Decode(bars)
		if derr != nil {
			fail("reference-decoder", derr.Error()+" bars="+hlib.BarString(bars))
			continue
		}
		data := chars
		if withCS {
			if len(chars) == 0 {
				fail("check-character", "no check character in the symbol")
				continue
			}
			data = chars[:len(chars)-1]
			want, cerr := onedspec.C39CheckChar(data)
			if cerr != nil {
				fail("check-character", cerr.Error())
				continue
			}
			if rune(chars[len(chars)-1]) != want {
				fail("check-character", fmt.Sprintf("symbol %q ends with %q, the modulo-43 check character of %q is %q", chars, chars[len(chars)-1], data, want))
			}
		}
		if full {
			txt, ferr := onedspec.C39FullASCIIDecode(data)
			if ferr != nil {
				fail("full-ascii", fmt.Sprintf("symbol characters %q: %v", data, ferr))
			} else if string(txt) != content {
				fail("text", fmt.Sprintf("symbol characters %q stand for %s", data, strconv.QuoteToASCII(string(txt))))
			}
		} else if data != content {
			fail("text", fmt.Sprintf("symbol decodes to %q", data))
		}
		if bc.Content() != data {
			fail("content", fmt.Sprintf("Content()=%s, symbol characters %q", strconv.QuoteToASCII(bc.Content()), data))
		}
		if md := bc.Metadata(); md.CodeKind != barcode.TypeCode39 || md.Dimensions != 1 {
			fail("metadata", fmt.Sprint(md))
		}
		// C14: the value is unchanged by scaling
		if sc, serr := barcode.Scale(bc, 2*bd.Dx()+1, 5); serr != nil {
			fail("checksum-scaled", "Scale failed: "+serr.Error())
		} else if scs, ok := sc.(barcode.BarcodeIntCS); !ok || scs.CheckSum() != bc.CheckSum() {
			fail("checksum-scaled", "the scaled barcode reports a different CheckSum() or none")
		}
		// C14: the checksum value, also when no check character is drawn
		if cc, cerr := onedspec.C39CheckChar(data); cerr == nil {
			v, _ := onedspec.C39Value(cc)
			if bc.CheckSum() != v {
				fail("checksum", fmt.Sprintf("CheckSum()=%d, modulo-43 value of %q is %d", bc.CheckSum(), data, v))
			}
		} else {
			fail("checksum", cerr.Error())
		}
	}
	return
}

func v39Main(t *testing.T, id string, only ...string) {
	r := hlib.New(id)
	r.Only = only
	defer r.Done(t)
	rng := rand.New(rand.NewSource(r.Seed))
	thorough := r.Tier == "thorough"
	var cases []string
	flush := func() {
		r.ParallelN(len(cases), func(i int) (int, []hlib.Failure) { return 4, v39Check(cases[i]) })
		cases = cases[:0]
	}
	cases = append(cases, "", "A", "AB", "0", "*", "**", "A*B", "*A*", "a", "ab", "Hello, World!", "CODE 39", "CODE-39.", "$/+%", "$", "/", "+", "%", "%U", "$A", "/A", "+A", "%A", "+", "A+", "A$", "A%", "A/",
		"\x00", "\x1f", "\x7f", "\x80", "\xff", "é", "Aé", "éA", "日本", "A\nB", "A\tB", " ", "  ", "@", "`", "~", "[\\]^_", "{|}", ":;<=>?", "!\"#&'()", ",", "12345678901234567890", v39Basic, v39Basic+v39Basic)
	// every rune 0..0x17f alone and between letters, every pair of basic characters (check characters)
	for c := rune(0); c < 0x180; c++ {
		cases = append(cases, string(c), "A"+string(c)+"Z", string(c)+string(c))
	}
	for _, a := range v39Basic {
		for _, b := range v39Basic {
			cases = append(cases, string(a)+string(b))
		}
	}
	// every ASCII pair in full ASCII mode
	for a := 0; a < 128; a++ {
		for b := 0; b < 128; b++ {
			if thorough || (a+b)%4 == 0 {
				cases = append(cases, string([]byte{byte(a), byte(b)}))
			}
		}
	}
	flush()
	n := 100000
	if thorough {
		n = 1500000
	}
	for i := 0; i < n; i++ {
		l := 1 + rng.Intn(30)
		if rng.Intn(10) == 0 {
			l = 1 + rng.Intn(200)
		}
		var s string
		switch rng.Intn(4) {
		case 0:
			s = hlib.RandFrom(rng, v39Basic, l)
		case 1:
			b := make([]byte, l)
			for j := range b {
				b[j] = byte(rng.Intn(128))
			}
			s = string(b)
		case 2:
			s = hlib.RandFrom(rng, "$%/+ABUVWZ", l) // characters that look like shift pairs
		default:
			s = hlib.RandFrom(rng, v39Basic+"abz*,\x00\x7f", l)
			if rng.Intn(50) == 0 {
				s += []string{"é", "\xff", "€", "\u0080"}[rng.Intn(4)]
			}
		}
		cases = append(cases, s)
		if len(cases) > 50000 {
			flush()
		}
	}
	flush()
}

func TestVerifC07Code39(t *testing.T) { v39Main(t, "C07") }

// The same cases reported under the other properties they serve (only the named checks count).
func TestVerifC10Code39(t *testing.T) {
	v39Main(t, "C10", "panic", "result-shape", "rejects-representable", "accepts-unrepresentable")
}
func TestVerifC14Code39(t *testing.T) {
	v39Main(t, "C14", "checksum", "check-character", "checksum-scaled")
}
