package code128

// Bounded stand-in / replay search for C05 (Code 128 round trip through the reference decoder) with the
// Code 128 clauses of C10 (length 1..80, alphabet) and C14 (CheckSum() is the modulo-103 value).
// Injected with go test -overlay; never written into /repo.

import (
	"fmt"
	"math/rand"
	"strconv"
	"strings"
	"testing"

	"github.com/boombuler/barcode"

	"verif/harness/hlib"
	"verif/spec/onedspec"
)

func v128Valid(content string) (ok bool, why string) {
	n := 0
	for _, r := range content {
		n++
		if !(r >= 0 && r <= 127) && r != FNC1 && r != FNC2 && r != FNC3 && r != FNC4 {
			return false, fmt.Sprintf("rune %U is outside the alphabet", r)
		}
	}
	// invalid UTF-8 decodes to U+FFFD above and is caught there
	if n < 1 || n > 80 {
		return false, fmt.Sprintf("%d characters", n)
	}
	return true, ""
}

func v128Check(content string) (fails []hlib.Failure) {
	valid, why := v128Valid(content)
	for _, withCS := range []bool{true, false} {
		name := "code128.EncodeWithoutChecksum"
		if withCS {
			name = "code128.Encode"
		}
		input := fmt.Sprintf("%s(%s)", name, strconv.QuoteToASCII(content))
		fail := func(check, detail string) {
			fails = append(fails, hlib.Failure{Check: check, Input: input, Detail: detail})
		}
		var bc barcode.Barcode
		var err error
		var panicked interface{}
		func() {
			defer func() {
				if p := recover(); p != nil {
					panicked = p
				}
			}()
			if withCS {
				var b barcode.BarcodeIntCS
				b, err = Encode(content)
				if b != nil {
					bc = b
				}
			} else {
				bc, err = EncodeWithoutChecksum(content)
			}
		}()
		if panicked != nil {
			fail("panic", fmt.Sprint(panicked))
			continue
		}
		if (bc == nil) == (err == nil) {
			fail("result-shape", fmt.Sprintf("barcode nil=%v err=%v", bc == nil, err))
			continue
		}
		if err != nil {
			if valid {
				fail("rejects-representable", err.Error())
			}
			continue
		}
		if !valid {
			fail("accepts-unrepresentable", "succeeded although "+why)
			continue
		}
		bd := bc.Bounds()
		if bd.Min.X != 0 || bd.Min.Y != 0 || bd.Dy() != 1 {
			fail("bounds", fmt.Sprint(bd))
			continue
		}
		bars, clean := hlib.Bars(bc, 0)
		if !clean {
			fail("colours", "a pixel is neither black nor white")
		}
		res, derr := onedspec.C128Decode(bars, withCS)
		if derr != nil {
			fail("reference-decoder", derr.Error()+" bars="+hlib.BarString(bars))
			continue
		}
		if string(res.Text) != string([]rune(content)) {
			fail("text", fmt.Sprintf("decoded %s (values %v)", strconv.QuoteToASCII(string(res.Text)), res.Values))
		}
		if bc.Content() != content {
			fail("content", "Content()="+strconv.QuoteToASCII(bc.Content()))
		}
		if md := bc.Metadata(); md.CodeKind != barcode.TypeCode128 || md.Dimensions != 1 {
			fail("metadata", fmt.Sprint(md))
		}
		if withCS {
			cs, ok := bc.(barcode.BarcodeIntCS)
			if !ok {
				fail("checksum", "no CheckSum() method")
			} else if cs.CheckSum() != res.Check {
				fail("checksum", fmt.Sprintf("CheckSum()=%d, modulo-103 value is %d", cs.CheckSum(), res.Check))
			}
			// C14: the value is unchanged by scaling
			if sc, serr := barcode.Scale(bc, 2*bd.Dx()+1, 5); serr != nil {
				fail("checksum-scaled", "Scale failed: "+serr.Error())
			} else if scs, ok2 := sc.(barcode.BarcodeIntCS); !ok2 || (ok && scs.CheckSum() != cs.CheckSum()) {
				fail("checksum-scaled", "the scaled barcode reports a different CheckSum() or none")
			}
			if n := len(res.Values); n == 0 || res.Values[n-1] != res.Check {
				fail("check-character", fmt.Sprintf("check character drawn does not have value %d: %v", res.Check, res.Values))
			}
			// independent recomputation from the symbol values
			if n := len(res.Values); n > 0 && onedspec.C128Checksum(res.Values[:n-1]) != res.Check {
				fail("check-character", "oracle inconsistency")
			}
		}
	}
	return
}

func v128Main(t *testing.T, id string, only ...string) {
	r := hlib.New(id)
	r.Only = only
	defer r.Done(t)
	rng := rand.New(rand.NewSource(r.Seed))
	thorough := r.Tier == "thorough"
	var cases []string
	flush := func() {
		r.ParallelN(len(cases), func(i int) (int, []hlib.Failure) { return 2, v128Check(cases[i]) })
		cases = cases[:0]
	}
	f1, f2, f3, f4 := string(FNC1), string(FNC2), string(FNC3), string(FNC4)

	// 1. fixed cases
	cases = append(cases, "", "A", "a", "1", "12", "123", "1234", "12345", "123456", "\x00", "\x1f", "\x7f", " ", "~", f1, f2, f3, f4, f1+f1, f1+"1234", "12"+f1+"34", "1234"+f1, "1"+f1+"234",
		f1+"12", f1+"123", "123"+f1, "12"+f1, f4+"a", f4+"\x01", f4+f4+"A", "a\x01", "\x01a", "a\x01a", "\x01a\x01", "A\x01a", "aA\x01", "12a", "a12", "1234a", "a1234", "a12345", "12345a",
		"\x011234", "1234\x01", "\x0112345\x01", "a1234\x01", "HELLO", "Hello", "hello\n", "\tTAB", "(01)12345678901231", f1+"0112345678901231"+f1+"10ABC123", "1234567890123456789012345678901234567890",
		"é", "ñ", "ò", "ó", "ô", "õ", "ð", "\u0080", "ÿ", "Ā", "€", "\xff", "\xf1", "A\xc3", "A€", "日本", strings.Repeat("A", 80), strings.Repeat("A", 81), strings.Repeat("1", 80), strings.Repeat("1", 81), strings.Repeat("1", 79),
		strings.Repeat(f1, 80), strings.Repeat(f1, 81), strings.Repeat("\x00", 80), strings.Repeat("a", 80), strings.Repeat("a1", 40), strings.Repeat("a1", 41), strings.Repeat("\x00a", 40), strings.Repeat("12a", 27), strings.Repeat(f4, 80), strings.Repeat("é", 40), strings.Repeat("A", 160))
	// every rune 0..0x17f alone and between digits / letters
	for c := rune(0); c < 0x180; c++ {
		cases = append(cases, string(c), "12"+string(c)+"3456", "a"+string(c)+"b", "\x01"+string(c))
	}
	// every length 0..82 for each class
	for n := 0; n <= 82; n++ {
		for _, unit := range []string{"7", "Az", "a\x01", "12345a", f1 + "12", "\x7f", f4} {
			cases = append(cases, string([]rune(strings.Repeat(unit, n))[:n]))
		}
	}
	flush()

	// 2. exhaustive short strings over representatives of the code sets
	alpha := []string{"1", "7", "a", "\x01", "A", f1, f4}
	maxLen := 5
	if thorough {
		maxLen = 8
	}
	var rec func(p string, d int)
	rec = func(p string, d int) {
		if d > 0 {
			cases = append(cases, p)
		}
		if d == maxLen {
			return
		}
		for _, a := range alpha {
			rec(p+a, d+1)
		}
		if len(cases) > 100000 {
			flush()
		}
	}
	rec("", 0)
	flush()
	// digit runs of every length between non-digits (code set C switching)
	for n := 0; n <= 14; n++ {
		d := "90817263549081"[:n]
		for _, pre := range []string{"", "a", "A", "\x01", f1, f2} {
			for _, post := range []string{"", "a", "A", "\x01", f1, f3} {
				cases = append(cases, pre+d+post, pre+d+f1+d+post, pre+d+"x"+d+post)
			}
		}
	}
	flush()

	// 3. random contents
	nRandom := 100000
	if thorough {
		nRandom = 3000000
	}
	var all []rune
	for c := rune(0); c < 128; c++ {
		all = append(all, c)
	}
	all = append(all, FNC1, FNC2, FNC3, FNC4)
	classes := [][]rune{[]rune("0123456789"), []rune("abcxyz{|}~\x7f`"), []rune("\x00\x01\x0a\x0d\x1b\x1f"), []rune("ABCXYZ !#/:@[_"), {FNC1, FNC2, FNC3, FNC4}, all, all}
	for i := 0; i < nRandom; i++ {
		n := 1 + rng.Intn(80)
		if rng.Intn(3) == 0 {
			n = 1 + rng.Intn(12)
		}
		var rs []rune
		if rng.Intn(3) == 0 {
			for len(rs) < n {
				rs = append(rs, all[rng.Intn(len(all))])
			}
		} else {
			for len(rs) < n {
				c := classes[rng.Intn(len(classes))]
				for k := 1 + rng.Intn(6); k > 0 && len(rs) < n; k-- {
					rs = append(rs, c[rng.Intn(len(c))])
				}
			}
		}
		if rng.Intn(200) == 0 {
			rs[rng.Intn(len(rs))] = []rune{0x80, 0xe9, 0xf0, 0xf5, 0xff, 0x100, 0x20ac, 0xfffd}[rng.Intn(8)]
		}
		cases = append(cases, string(rs))
		if len(cases) >= 50000 {
			flush()
		}
	}
	flush()
}

func TestVerifC05(t *testing.T) { v128Main(t, "C05") }

// The same cases reported under the other properties they serve (only the named checks count).
func TestVerifC10Code128(t *testing.T) {
	v128Main(t, "C10", "panic", "result-shape", "rejects-representable", "accepts-unrepresentable")
}
func TestVerifC14Code128(t *testing.T) {
	v128Main(t, "C14", "checksum", "check-character", "checksum-scaled")
}
