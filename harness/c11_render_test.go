package codabar

// Bounded stand-in / replay search for C11 (rendering contract of every encoder entry point): bounds,
// pixel colours, ColorModel / ColorScheme, scheme-independent module pattern, Metadata, Content.
// It lives in package codabar only because a harness must be injected into some package of the module;
// the symbology packages do not import each other, so importing all of them here is free of cycles.
// Injected with go test -overlay; never written into /repo.

import (
	"fmt"
	"image/color"
	"math/rand"
	"strconv"
	"strings"
	"testing"

	"github.com/boombuler/barcode"
	"github.com/boombuler/barcode/aztec"
	"github.com/boombuler/barcode/code128"
	"github.com/boombuler/barcode/code39"
	"github.com/boombuler/barcode/code93"
	"github.com/boombuler/barcode/datamatrix"
	"github.com/boombuler/barcode/ean"
	"github.com/boombuler/barcode/pdf417"
	"github.com/boombuler/barcode/qr"
	"github.com/boombuler/barcode/twooffive"

	"verif/harness/hlib"
	"verif/spec/aztecspec"
	"verif/spec/dmspec"
	"verif/spec/onedspec"
	"verif/spec/qrspec"
)

type vrnScheme struct {
	name string
	s    barcode.ColorScheme
}

var vrnSchemes = []vrnScheme{
	{"barcode.ColorScheme8", barcode.ColorScheme8},
	{"barcode.ColorScheme16", barcode.ColorScheme16},
	{"barcode.ColorScheme24", barcode.ColorScheme24},
	{"barcode.ColorScheme32", barcode.ColorScheme32},
	{"ColorScheme{RGBAModel, bg RGBA{250,240,10,255}, fg RGBA{0,0,120,255}}", barcode.ColorScheme{Model: color.RGBAModel, Background: color.RGBA{250, 240, 10, 255}, Foreground: color.RGBA{0, 0, 120, 255}}},
	{"ColorScheme{NRGBAModel, bg NRGBA{0,0,0,0}, fg NRGBA{255,0,0,128}}", barcode.ColorScheme{Model: color.NRGBAModel, Background: color.NRGBA{0, 0, 0, 0}, Foreground: color.NRGBA{255, 0, 0, 128}}},
	{"ColorScheme{GrayModel, bg Gray{0}, fg Gray{255}}", barcode.ColorScheme{Model: color.GrayModel, Background: color.Gray{0}, Foreground: color.Gray{255}}},
	{"ColorScheme{Gray16Model, bg RGBA{1,2,3,255}, fg RGBA{200,100,50,255}}", barcode.ColorScheme{Model: color.Gray16Model, Background: color.RGBA{1, 2, 3, 255}, Foreground: color.RGBA{200, 100, 50, 255}}},
}

// vrnEntry is one encoder entry point family applied to one argument tuple.
type vrnEntry struct {
	call    string // e.g. `qr.Encode("x", qr.L, qr.Auto)`; the WithColor variant is described from it
	plain   func() (barcode.Barcode, error)
	colored func(barcode.ColorScheme) (barcode.Barcode, error)
	kind    string
	dims    byte
	content func(got string) string // "" if the content is right
	size    func(w, h int) string   // "" if the size is right
}

func vrnPattern(bc barcode.Barcode, fg, bg color.Color) (pat string, problem string) {
	bd := bc.Bounds()
	var sb strings.Builder
	for y := bd.Min.Y; y < bd.Max.Y; y++ {
		for x := bd.Min.X; x < bd.Max.X; x++ {
			c := bc.At(x, y)
			switch {
			case c == fg:
				sb.WriteByte('1')
			case c == bg:
				sb.WriteByte('0')
			default:
				return "", fmt.Sprintf("pixel (%d,%d) is %#v, neither foreground %#v nor background %#v", x, y, c, fg, bg)
			}
		}
	}
	return sb.String(), ""
}

func vrnRun(e vrnEntry) (cases int, fails []hlib.Failure) {
	failAt := func(input string) func(check, detail string) {
		return func(check, detail string) {
			fails = append(fails, hlib.Failure{Check: check, Input: input, Detail: detail})
		}
	}
	common := func(fail func(check, detail string), bc barcode.Barcode) bool {
		bd := bc.Bounds()
		if bd.Min.X != 0 || bd.Min.Y != 0 {
			fail("bounds", fmt.Sprint(bd))
			return false
		}
		if msg := e.size(bd.Dx(), bd.Dy()); msg != "" {
			fail("size", fmt.Sprintf("%dx%d: %s", bd.Dx(), bd.Dy(), msg))
		}
		if md := bc.Metadata(); md.CodeKind != e.kind || md.Dimensions != e.dims {
			fail("metadata", fmt.Sprintf("%+v, want {%s %d}", md, e.kind, e.dims))
		}
		if msg := e.content(bc.Content()); msg != "" {
			fail("content", msg)
		}
		return true
	}
	// plain variant: black on white
	cases++
	fail := failAt(e.call)
	var plainPat string
	func() {
		defer func() {
			if p := recover(); p != nil {
				fail("panic", fmt.Sprint(p))
			}
		}()
		bc, err := e.plain()
		if err != nil || bc == nil {
			fail("encode", fmt.Sprintf("harness input refused: %v", err))
			return
		}
		if !common(fail, bc) {
			return
		}
		bd := bc.Bounds()
		var sb strings.Builder
		for y := 0; y < bd.Dy(); y++ {
			for x := 0; x < bd.Dx(); x++ {
				c := bc.At(x, y)
				switch {
				case hlib.IsDark(c):
					sb.WriteByte('1')
				case hlib.IsLight(c):
					sb.WriteByte('0')
				default:
					fail("pixel-colour", fmt.Sprintf("pixel (%d,%d) is %#v, neither black nor white", x, y, c))
					return
				}
			}
		}
		plainPat = sb.String()
		if bc.ColorModel() == nil {
			fail("color-model", "ColorModel() is nil")
		}
		if cs, ok := bc.(barcode.BarcodeColor); ok {
			s := cs.ColorScheme()
			if s.Foreground == nil || s.Background == nil || !hlib.IsDark(s.Foreground) || !hlib.IsLight(s.Background) {
				fail("color-scheme", fmt.Sprintf("plain Encode reports scheme %#v, want black on white", s))
			}
			if s.Model != bc.ColorModel() {
				fail("color-model", "ColorModel() differs from ColorScheme().Model")
			}
		}
	}()
	for _, sch := range vrnSchemes {
		cases++
		i := strings.Index(e.call, "(")
		fail := failAt(e.call[:i] + "WithColor" + e.call[i:len(e.call)-1] + ", " + sch.name + ")")
		func() {
			defer func() {
				if p := recover(); p != nil {
					fail("panic", fmt.Sprint(p))
				}
			}()
			bc, err := e.colored(sch.s)
			if err != nil || bc == nil {
				fail("encode", fmt.Sprintf("WithColor variant refuses what the plain variant accepts: %v", err))
				return
			}
			if !common(fail, bc) {
				return
			}
			if bc.ColorModel() != sch.s.Model {
				fail("color-model", "ColorModel() is not the scheme's model")
			}
			if cs, ok := bc.(barcode.BarcodeColor); ok {
				if cs.ColorScheme() != sch.s {
					fail("color-scheme", fmt.Sprintf("ColorScheme() reports %#v", cs.ColorScheme()))
				}
			} else {
				fail("color-scheme", "the barcode has no ColorScheme() method")
			}
			pat, problem := vrnPattern(bc, sch.s.Foreground, sch.s.Background)
			if problem != "" {
				fail("pixel-colour", problem)
				return
			}
			if plainPat != "" && pat != plainPat {
				fail("pattern", "the module pattern differs from the one of the plain (black on white) variant")
			}
		}()
	}
	return
}

func vrnSame(want string) func(string) string {
	return func(got string) string {
		if got != want {
			return fmt.Sprintf("Content()=%s, want %s", strconv.QuoteToASCII(got), strconv.QuoteToASCII(want))
		}
		return ""
	}
}

func vrn1D(w, h int) string {
	if h != 1 || w < 1 {
		return "a 1-D code must be (module count) x 1"
	}
	return ""
}

func vrnEntries(rng *rand.Rand, thorough bool) []vrnEntry {
	var es []vrnEntry
	q := strconv.QuoteToASCII
	mult := 1
	if thorough {
		mult = 40
	}

	// ---- QR
	qrInputs := []string{"", "1", "0123456789", "HELLO WORLD", "hello", "\xff\x00", "日本語", strings.Repeat("7", 300), strings.Repeat("AB ", 100), strings.Repeat("x", 1000), strings.Repeat("9", 7089)}
	for i := 0; i < 6*mult; i++ {
		qrInputs = append(qrInputs, hlib.RandFrom(rng, "0123456789ABC xyz\xff", rng.Intn(200)))
	}
	levels := []qr.ErrorCorrectionLevel{qr.L, qr.M, qr.Q, qr.H}
	for i, s := range qrInputs {
		s := s
		for li, lvl := range levels {
			lvl, li := lvl, li
			if !thorough && (i+li)%2 == 1 {
				continue
			}
			for _, mode := range []qr.Encoding{qr.Auto, qr.Numeric, qr.AlphaNumeric, qr.Unicode} {
				mode := mode
				m := qrspec.ModeByte
				switch {
				case strings.Trim(s, "0123456789") == "" && mode != qr.AlphaNumeric && mode != qr.Unicode:
					m = qrspec.ModeNumeric
				case strings.Trim(s, qrspec.AlphanumericCharset) == "" && mode != qr.Unicode && mode != qr.Numeric:
					m = qrspec.ModeAlpha
				case mode == qr.Numeric || mode == qr.AlphaNumeric:
					continue // not expressible in the explicit mode
				}
				if len(s) > qrspec.MaxChars(40, qrspec.Level(li), m) {
					continue
				}
				es = append(es, vrnEntry{
					call:    fmt.Sprintf("qr.Encode(%s, qr.%v, qr.%v)", q(vrnAbbrev(s)), lvl, mode),
					plain:   func() (barcode.Barcode, error) { return qr.Encode(s, lvl, mode) },
					colored: func(c barcode.ColorScheme) (barcode.Barcode, error) { return qr.EncodeWithColor(s, lvl, mode, c) },
					kind:    barcode.TypeQR, dims: 2, content: vrnSame(s),
					size: func(w, h int) string {
						for v := 1; v <= 40; v++ {
							if qrspec.MaxChars(v, qrspec.Level(li), m) >= len(s) {
								if w != 17+4*v || h != w {
									return fmt.Sprintf("want %dx%d (version %d)", 17+4*v, 17+4*v, v)
								}
								return ""
							}
						}
						return "no version"
					},
				})
			}
		}
	}

	// ---- DataMatrix
	dmInputs := []string{"", "1", "12", "A", "Hello, World!", "\xff\x80", strings.Repeat("12", 500), strings.Repeat("A", 1558), strings.Repeat("ab", 300)}
	for i := 0; i < 10*mult; i++ {
		dmInputs = append(dmInputs, hlib.RandBytes(rng, rng.Intn(300)))
	}
	for _, s := range dmInputs {
		s := s
		es = append(es, vrnEntry{
			call:    fmt.Sprintf("datamatrix.Encode(%s)", q(vrnAbbrev(s))),
			plain:   func() (barcode.Barcode, error) { return datamatrix.Encode(s) },
			colored: func(c barcode.ColorScheme) (barcode.Barcode, error) { return datamatrix.EncodeWithColor(s, c) },
			kind:    barcode.TypeDataMatrix, dims: 2, content: vrnSame(s),
			size: func(w, h int) string {
				k := len(dmspec.EncodeASCII([]byte(s)))
				for _, sz := range dmspec.Sizes() {
					if sz.DataCodewords >= k {
						if w != sz.Cols || h != sz.Rows {
							return fmt.Sprintf("want %dx%d", sz.Cols, sz.Rows)
						}
						return ""
					}
				}
				return "no size"
			},
		})
	}

	// ---- Aztec
	azInputs := []string{"A", "Hello, World!", "\xff\x80\x00", "12345", strings.Repeat("Aztec ", 100), strings.Repeat("\x81", 500)}
	for i := 0; i < 8*mult; i++ {
		azInputs = append(azInputs, hlib.RandFrom(rng, "ABC abc 0123.,:\r\n\xff\x00@", 1+rng.Intn(150)))
	}
	for i, s := range azInputs {
		s := s
		reqs := []int{0, -4, 12, 27, 32}
		if len(s) < 8 {
			reqs = []int{0, -1, -2, -3, -4, 1, 2, 3, 4, 5, 12, 22, 23, 27, 32}
		}
		for _, layers := range reqs {
			layers := layers
			pct := []int{0, 23, 33, 90}[(i+layers+64)%4]
			if _, err := aztec.Encode([]byte(s), pct, layers); err != nil {
				continue // does not fit the requested size
			}
			es = append(es, vrnEntry{
				call:  fmt.Sprintf("aztec.Encode([]byte(%s), %d, %d)", q(vrnAbbrev(s)), pct, layers),
				plain: func() (barcode.Barcode, error) { return aztec.Encode([]byte(s), pct, layers) },
				colored: func(c barcode.ColorScheme) (barcode.Barcode, error) {
					return aztec.EncodeWithColor([]byte(s), pct, layers, c)
				},
				kind: barcode.TypeAztec, dims: 2, content: vrnSame(s),
				size: func(w, h int) string {
					if w != h {
						return "not square"
					}
					if layers != 0 {
						l := layers
						if l < 0 {
							l = -l
						}
						if want := aztecspec.SymbolSize(layers < 0, l); w != want {
							return fmt.Sprintf("want %dx%d", want, want)
						}
						return ""
					}
					if len(aztecspec.SizeCandidates(w)) == 0 {
						return "not an Aztec size"
					}
					return ""
				},
			})
		}
	}

	// ---- PDF417
	pdfInputs := []string{"", "A", "Hello, World!", "1234567890123456789", "\xff\x80\x00\x01\x02\x03\x04", strings.Repeat("PDF417 ", 100), strings.Repeat("5", 1000)}
	for i := 0; i < 8*mult; i++ {
		pdfInputs = append(pdfInputs, hlib.RandFrom(rng, "ABC abc 0123456789;:,.\xff\x00", rng.Intn(200)))
	}
	for i, s := range pdfInputs {
		s := s
		for _, lvl := range []byte{byte(i % 9), byte((i + 4) % 9)} {
			lvl := lvl
			if _, err := pdf417.Encode(s, lvl); err != nil {
				continue
			}
			es = append(es, vrnEntry{
				call:    fmt.Sprintf("pdf417.Encode(%s, %d)", q(vrnAbbrev(s)), lvl),
				plain:   func() (barcode.Barcode, error) { return pdf417.Encode(s, lvl) },
				colored: func(c barcode.ColorScheme) (barcode.Barcode, error) { return pdf417.EncodeWithColor(s, lvl, c) },
				kind:    barcode.TypePDF, dims: 2, content: vrnSame(s),
				size: func(w, h int) string {
					if (w-1)%17 != 0 || (w-1)/17-4 < 1 || (w-1)/17-4 > 30 {
						return "width is not 17*(columns+4)+1 with 1..30 columns"
					}
					if h%2 != 0 || h/2 < 2 || h/2 > 90 {
						return "height is not 2 pixels x (2..90 rows)"
					}
					if (h/2)*((w-1)/17-4) > 928 {
						return "more than 928 codewords"
					}
					return ""
				},
			})
		}
	}

	// ---- Code 128 (both variants)
	c128Inputs := []string{"A", "a", "1234", "12345", "\x00\x01", "Hello World", string(code128.FNC1) + "0112345678901231", strings.Repeat("1", 80), strings.Repeat("a\x00", 40)}
	for i := 0; i < 10*mult; i++ {
		c128Inputs = append(c128Inputs, hlib.RandFrom(rng, "0123456789abcXYZ \x00\x1f~", 1+rng.Intn(80)))
	}
	for _, s := range c128Inputs {
		s := s
		es = append(es, vrnEntry{
			call:  fmt.Sprintf("code128.Encode(%s)", q(s)),
			plain: func() (barcode.Barcode, error) { b, err := code128.Encode(s); return vrnNil(b, err) },
			colored: func(c barcode.ColorScheme) (barcode.Barcode, error) {
				b, err := code128.EncodeWithColor(s, c)
				return vrnNil(b, err)
			},
			kind: barcode.TypeCode128, dims: 1, content: vrnSame(s), size: func(w, h int) string {
				if h != 1 || (w-13)%11 != 0 || (w-13)/11 < 3 {
					return "want 11 modules per character + 13 for the stop pattern, height 1"
				}
				return ""
			},
		}, vrnEntry{
			call:  fmt.Sprintf("code128.EncodeWithoutChecksum(%s)", q(s)),
			plain: func() (barcode.Barcode, error) { return code128.EncodeWithoutChecksum(s) },
			colored: func(c barcode.ColorScheme) (barcode.Barcode, error) {
				return code128.EncodeWithoutChecksumWithColor(s, c)
			},
			kind: barcode.TypeCode128, dims: 1, content: vrnSame(s), size: func(w, h int) string {
				if h != 1 || (w-13)%11 != 0 || (w-13)/11 < 2 {
					return "want 11 modules per character + 13 for the stop pattern, height 1"
				}
				return ""
			},
		})
	}

	// ---- Code 39 / Code 93
	c39Inputs := []string{"A", "CODE 39", "0123456789", "$/+%", "-. ", "hello, world", "\x00\x7f", "a*b", strings.Repeat("Z", 40)}
	for i := 0; i < 8*mult; i++ {
		b := make([]byte, 1+rng.Intn(30))
		for j := range b {
			b[j] = byte(rng.Intn(128))
		}
		c39Inputs = append(c39Inputs, string(b), hlib.RandFrom(rng, "0123456789ABCDEFGHIJKLMNOPQRSTUVWXYZ-. $/+%", 1+rng.Intn(30)))
	}
	const basic = "0123456789ABCDEFGHIJKLMNOPQRSTUVWXYZ-. $/+%"
	for _, s := range c39Inputs {
		s := s
		for cfg := 0; cfg < 4; cfg++ {
			withCS, full := cfg&1 == 1, cfg&2 == 2
			if !full && strings.Trim(s, basic) != "" {
				continue
			}
			want39 := vrnSame(s)
			want93 := vrnSame(s)
			if full {
				want39 = func(got string) string {
					if strings.Trim(got, basic) != "" {
						return fmt.Sprintf("Content()=%s is not a basic-alphabet spelling", q(got))
					}
					if txt, err := onedspec.C39FullASCIIDecode(got); err != nil || string(txt) != s {
						return fmt.Sprintf("Content()=%s does not spell %s (%v)", q(got), q(s), err)
					}
					return ""
				}
				want93 = func(got string) string {
					var vals []int
					for _, r := range got {
						switch {
						case r == code93.FNC1:
							vals = append(vals, 43)
						case r == code93.FNC2:
							vals = append(vals, 44)
						case r == code93.FNC3:
							vals = append(vals, 45)
						case r == code93.FNC4:
							vals = append(vals, 46)
						case r < 128 && strings.ContainsRune(basic, r):
							vals = append(vals, strings.IndexRune(basic, r))
						default:
							return fmt.Sprintf("Content()=%s is not a Code 93 spelling", q(got))
						}
					}
					if txt, err := onedspec.C93FullASCIIDecode(vals); err != nil || string(txt) != s {
						return fmt.Sprintf("Content()=%s does not spell %s (%v)", q(got), q(s), err)
					}
					return ""
				}
			}
			es = append(es, vrnEntry{
				call:  fmt.Sprintf("code39.Encode(%s, %v, %v)", q(s), withCS, full),
				plain: func() (barcode.Barcode, error) { b, err := code39.Encode(s, withCS, full); return vrnNil(b, err) },
				colored: func(c barcode.ColorScheme) (barcode.Barcode, error) {
					b, err := code39.EncodeWithColor(s, withCS, full, c)
					return vrnNil(b, err)
				},
				kind: barcode.TypeCode39, dims: 1, content: want39, size: vrn1D,
			}, vrnEntry{
				call:  fmt.Sprintf("code93.Encode(%s, %v, %v)", q(s), withCS, full),
				plain: func() (barcode.Barcode, error) { return code93.Encode(s, withCS, full) },
				colored: func(c barcode.ColorScheme) (barcode.Barcode, error) {
					return code93.EncodeWithColor(s, withCS, full, c)
				},
				kind: barcode.TypeCode93, dims: 1, content: want93, size: func(w, h int) string {
					if h != 1 || (w-1)%9 != 0 {
						return "want 9 modules per character + termination bar, height 1"
					}
					return ""
				},
			})
		}
	}

	// ---- Codabar (this package)
	cbInputs := []string{"AB", "A1B", "C0123456789D", "A-$:/.+B", "D" + strings.Repeat("42", 50) + "A"}
	for i := 0; i < 8*mult; i++ {
		cbInputs = append(cbInputs, hlib.RandFrom(rng, "ABCD", 1)+hlib.RandFrom(rng, "0123456789-$:/.+", rng.Intn(40))+hlib.RandFrom(rng, "ABCD", 1))
	}
	for _, s := range cbInputs {
		s := s
		es = append(es, vrnEntry{
			call:    fmt.Sprintf("codabar.Encode(%s)", q(s)),
			plain:   func() (barcode.Barcode, error) { return Encode(s) },
			colored: func(c barcode.ColorScheme) (barcode.Barcode, error) { return EncodeWithColor(s, c) },
			kind:    barcode.TypeCodabar, dims: 1, content: vrnSame(s), size: vrn1D,
		})
	}

	// ---- EAN
	eanInputs := []string{"1234567", "12345670", "590123412345", "5901234123457", "0000000", "9999999", "000000000000", "999999999999"}
	for i := 0; i < 10*mult; i++ {
		eanInputs = append(eanInputs, hlib.RandFrom(rng, "0123456789", 7), hlib.RandFrom(rng, "0123456789", 12))
	}
	for _, s := range eanInputs {
		s := s
		full := s
		if len(s) == 7 || len(s) == 12 {
			cd, _ := onedspec.EANCheckDigit(s)
			full = s + string(cd)
		}
		kind, width := barcode.TypeEAN8, 67
		if len(full) == 13 {
			kind, width = barcode.TypeEAN13, 95
		}
		es = append(es, vrnEntry{
			call:  fmt.Sprintf("ean.Encode(%s)", q(s)),
			plain: func() (barcode.Barcode, error) { b, err := ean.Encode(s); return vrnNil(b, err) },
			colored: func(c barcode.ColorScheme) (barcode.Barcode, error) {
				b, err := ean.EncodeWithColor(s, c)
				return vrnNil(b, err)
			},
			kind: kind, dims: 1, content: vrnSame(full), size: func(w, h int) string {
				if w != width || h != 1 {
					return fmt.Sprintf("want %dx1", width)
				}
				return ""
			},
		})
		if len(s) != len(full) {
			// and the completed number as input
			f := full
			es = append(es, vrnEntry{
				call:  fmt.Sprintf("ean.Encode(%s)", q(f)),
				plain: func() (barcode.Barcode, error) { b, err := ean.Encode(f); return vrnNil(b, err) },
				colored: func(c barcode.ColorScheme) (barcode.Barcode, error) {
					b, err := ean.EncodeWithColor(f, c)
					return vrnNil(b, err)
				},
				kind: kind, dims: 1, content: vrnSame(f), size: func(w, h int) string {
					if w != width || h != 1 {
						return fmt.Sprintf("want %dx1", width)
					}
					return ""
				},
			})
		}
	}

	// ---- 2 of 5
	tofInputs := []string{"1", "12", "123", "1234", "0123456789", strings.Repeat("90", 30)}
	for i := 0; i < 8*mult; i++ {
		tofInputs = append(tofInputs, hlib.RandFrom(rng, "0123456789", 1+rng.Intn(40)))
	}
	for _, s := range tofInputs {
		s := s
		for _, il := range []bool{false, true} {
			il := il
			if il && len(s)%2 == 1 {
				continue
			}
			kind := barcode.Type2of5
			if il {
				kind = barcode.Type2of5Interleaved
			}
			es = append(es, vrnEntry{
				call:    fmt.Sprintf("twooffive.Encode(%s, %v)", q(s), il),
				plain:   func() (barcode.Barcode, error) { return twooffive.Encode(s, il) },
				colored: func(c barcode.ColorScheme) (barcode.Barcode, error) { return twooffive.EncodeWithColor(s, il, c) },
				kind:    kind, dims: 1, content: vrnSame(s), size: vrn1D,
			})
		}
	}
	return es
}

// vrnNil turns a typed nil BarcodeIntCS into an untyped nil Barcode.
func vrnNil(b barcode.BarcodeIntCS, err error) (barcode.Barcode, error) {
	if b == nil {
		return nil, err
	}
	return b, err
}

func vrnAbbrev(s string) string {
	if len(s) > 60 {
		return s[:60] + fmt.Sprintf("...[%d bytes, see harness c11_render_test.go]", len(s))
	}
	return s
}

func TestVerifC11(t *testing.T) {
	r := hlib.New("C11")
	defer r.Done(t)
	rng := rand.New(rand.NewSource(r.Seed))
	es := vrnEntries(rng, r.Tier == "thorough")
	r.ParallelN(len(es), func(i int) (int, []hlib.Failure) { return vrnRun(es[i]) })
}
