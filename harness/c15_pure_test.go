package ean

// Bounded stand-in / replay search for C15 (determinism and purity of every encoder):
//   - the same arguments give the same barcode (pixels + accessors) no matter how many and which encodes
//     happened before (shuffled interleaving of QR / DataMatrix / Aztec / PDF417 symbols of many sizes, i.e.
//     many Reed-Solomon degrees, and of the 1-D encoders);
//   - the result equals the one computed in a FRESH process: the test binary re-executes itself
//     (os.Args[0] -test.run ^TestVerifHelperC15$) with the job numbers in VERIF_C15_JOBS and compares the
//     hashes printed on stdout; some jobs are run as the only (= very first) call of their process;
//   - inputs are not modified (aztec.Encode's data slice) and results are snapshots (mutating the slice
//     afterwards changes neither pixels nor Content()).
// It lives in package ean only because a harness must be injected into some package of the module.
// Injected with go test -overlay; never written into /repo.

import (
	"bufio"
	"bytes"
	"fmt"
	"math/rand"
	"os"
	"os/exec"
	"strconv"
	"strings"
	"testing"

	"github.com/boombuler/barcode"
	"github.com/boombuler/barcode/aztec"
	"github.com/boombuler/barcode/codabar"
	"github.com/boombuler/barcode/code128"
	"github.com/boombuler/barcode/code39"
	"github.com/boombuler/barcode/code93"
	"github.com/boombuler/barcode/datamatrix"
	"github.com/boombuler/barcode/pdf417"
	"github.com/boombuler/barcode/qr"
	"github.com/boombuler/barcode/twooffive"

	"verif/harness/hlib"
)

type vpuJob struct {
	desc string
	run  func() (barcode.Barcode, error)
}

func vpuNil(b barcode.BarcodeIntCS, err error) (barcode.Barcode, error) {
	if b == nil {
		return nil, err
	}
	return b, err
}

// vpuCatalogue is a deterministic function of (seed, tier): parent and child processes build the same list.
func vpuCatalogue(seed int64, thorough bool) []vpuJob {
	rng := rand.New(rand.NewSource(seed ^ 0x15))
	var jobs []vpuJob
	add := func(desc string, f func() (barcode.Barcode, error)) { jobs = append(jobs, vpuJob{desc, f}) }
	q := func(s string) string {
		if len(s) > 40 {
			return fmt.Sprintf("%s...(%d bytes, catalogue seed %d)", strconv.QuoteToASCII(s[:40]), len(s), seed)
		}
		return strconv.QuoteToASCII(s)
	}
	// QR: versions spread over 1..40 at all levels (block structures with many different ec counts)
	qrLens := []int{0, 1, 10, 25, 47, 77, 114, 154, 195, 230, 271, 321, 367, 425, 458, 520, 586, 644, 718, 792, 858, 929, 1003, 1091, 1171, 1273, 1367, 1465, 1528, 1628, 1732, 1840, 1952, 2068, 2188, 2303, 2431, 2563, 2699, 2809, 2953}
	for i, n := range qrLens {
		if !thorough && i%3 != 0 {
			continue
		}
		for li, lvl := range []qr.ErrorCorrectionLevel{qr.L, qr.M, qr.Q, qr.H} {
			if !thorough && (i/3+li)%2 == 1 {
				continue
			}
			s := hlib.RandFrom(rng, "abcdefgh 0123456789\xff", n)
			lvl := lvl
			add(fmt.Sprintf("qr.Encode(%s, qr.%v, qr.Unicode)", q(s), lvl), func() (barcode.Barcode, error) { return qr.Encode(s, lvl, qr.Unicode) })
		}
	}
	for _, s := range []string{"0123456789", "HELLO WORLD 123", "hello", ""} {
		s := s
		add(fmt.Sprintf("qr.Encode(%s, qr.M, qr.Auto)", q(s)), func() (barcode.Barcode, error) { return qr.Encode(s, qr.M, qr.Auto) })
	}
	add(`qr.Encode("12a", qr.L, qr.Numeric)`, func() (barcode.Barcode, error) { return qr.Encode("12a", qr.L, qr.Numeric) })
	// DataMatrix: all 24 sizes
	for i, n := range []int{1, 4, 7, 11, 17, 21, 29, 35, 43, 61, 85, 113, 143, 173, 203, 279, 367, 455, 575, 695, 815, 1049, 1303, 1557} {
		if !thorough && i%2 == 1 {
			continue
		}
		s := hlib.RandFrom(rng, "ABCDEFGH abcdefgh", n)
		add(fmt.Sprintf("datamatrix.Encode(%s)", q(s)), func() (barcode.Barcode, error) { return datamatrix.Encode(s) })
	}
	// Aztec: explicit layers of every word size, automatic sizes
	for i, l := range []int{-1, -2, -3, -4, 1, 2, 3, 5, 8, 9, 12, 16, 22, 23, 27, 32, 0, 0, 0, 0} {
		if !thorough && i%2 == 1 && l != 0 {
			continue
		}
		n := 1 + rng.Intn(8)
		if l == 0 {
			n = 1 + rng.Intn(600)
		}
		s := hlib.RandFrom(rng, "Aztec code 0123.,\xff", n)
		pct := []int{0, 23, 33, 50}[i%4]
		l := l
		add(fmt.Sprintf("aztec.Encode([]byte(%s), %d, %d)", q(s), pct, l), func() (barcode.Barcode, error) { return aztec.Encode([]byte(s), pct, l) })
	}
	// PDF417: all levels
	for lvl := 0; lvl <= 8; lvl++ {
		s := hlib.RandFrom(rng, "PDF417 text; 0123456789\xff", 1+rng.Intn(200))
		lvl := byte(lvl)
		add(fmt.Sprintf("pdf417.Encode(%s, %d)", q(s), lvl), func() (barcode.Barcode, error) { return pdf417.Encode(s, lvl) })
	}
	// 1-D encoders
	for i := 0; i < 3; i++ {
		s := hlib.RandFrom(rng, "0123456789abcXYZ \x01", 1+rng.Intn(60))
		add(fmt.Sprintf("code128.Encode(%s)", q(s)), func() (barcode.Barcode, error) { return vpuNil(code128.Encode(s)) })
		add(fmt.Sprintf("code128.EncodeWithoutChecksum(%s)", q(s)), func() (barcode.Barcode, error) { return code128.EncodeWithoutChecksum(s) })
		t := hlib.RandFrom(rng, "0123456789ABCXYZ-. $/+%", 1+rng.Intn(30))
		u := hlib.RandFrom(rng, "abc{}~\x00\x7f,ABC12", 1+rng.Intn(30))
		for cfg := 0; cfg < 4; cfg++ {
			cs, full := cfg&1 == 1, cfg&2 == 2
			in := t
			if full {
				in = u
			}
			add(fmt.Sprintf("code39.Encode(%s, %v, %v)", q(in), cs, full), func() (barcode.Barcode, error) { return vpuNil(code39.Encode(in, cs, full)) })
			add(fmt.Sprintf("code93.Encode(%s, %v, %v)", q(in), cs, full), func() (barcode.Barcode, error) { return code93.Encode(in, cs, full) })
		}
		c := "A" + hlib.RandFrom(rng, "0123456789-$:/.+", rng.Intn(30)) + "D"
		add(fmt.Sprintf("codabar.Encode(%s)", q(c)), func() (barcode.Barcode, error) { return codabar.Encode(c) })
		e7, e12 := hlib.RandFrom(rng, "0123456789", 7), hlib.RandFrom(rng, "0123456789", 12)
		add(fmt.Sprintf("ean.Encode(%s)", q(e7)), func() (barcode.Barcode, error) { return vpuNil(Encode(e7)) })
		add(fmt.Sprintf("ean.Encode(%s)", q(e12)), func() (barcode.Barcode, error) { return vpuNil(Encode(e12)) })
		add(fmt.Sprintf("ean.Encode(%s)", q(e12+"0")), func() (barcode.Barcode, error) { return vpuNil(Encode(e12 + "0")) })
		d := hlib.RandFrom(rng, "0123456789", 2*(1+rng.Intn(12)))
		add(fmt.Sprintf("twooffive.Encode(%s, true)", q(d)), func() (barcode.Barcode, error) { return twooffive.Encode(d, true) })
		add(fmt.Sprintf("twooffive.Encode(%s, false)", q(d)), func() (barcode.Barcode, error) { return twooffive.Encode(d, false) })
	}
	return jobs
}

// vpuHash digests everything observable about a result.
func vpuHash(bc barcode.Barcode, err error) string {
	if err != nil || bc == nil {
		return fmt.Sprintf("error:%v/nil=%v", err, bc == nil)
	}
	cs := -1
	if c, ok := bc.(barcode.BarcodeIntCS); ok {
		cs = c.CheckSum()
	}
	md := bc.Metadata()
	return fmt.Sprintf("%016x|%v|%q|%d|%d|%x", hlib.PixelHash(bc), bc.Bounds(), md.CodeKind, md.Dimensions, cs, bc.Content())
}

func vpuRunJob(j vpuJob) (h string) {
	defer func() {
		if p := recover(); p != nil {
			h = fmt.Sprint("panic:", p)
		}
	}()
	return vpuHash(j.run())
}

// TestVerifHelperC15 is the body of the fresh process: it does nothing unless VERIF_C15_JOBS is set.
func TestVerifHelperC15(t *testing.T) {
	spec := os.Getenv("VERIF_C15_JOBS")
	if spec == "" {
		return
	}
	r := hlib.New("C15")
	jobs := vpuCatalogue(r.Seed, r.Tier == "thorough")
	for _, f := range strings.Split(spec, ",") {
		i, err := strconv.Atoi(f)
		if err != nil || i < 0 || i >= len(jobs) {
			fmt.Printf("VPU bad job %q\n", f)
			continue
		}
		fmt.Printf("VPU %d %s\n", i, vpuRunJob(jobs[i]))
	}
}

// vpuFresh runs the given jobs, in this order, in a fresh process and returns job -> hash.
func vpuFresh(idx []int) (map[int]string, error) {
	var parts []string
	for _, i := range idx {
		parts = append(parts, strconv.Itoa(i))
	}
	cmd := exec.Command(os.Args[0], "-test.run", "^TestVerifHelperC15$", "-test.count=1")
	cmd.Env = append(os.Environ(), "VERIF_C15_JOBS="+strings.Join(parts, ","), "VERIF_OUT=")
	var out, errb bytes.Buffer
	cmd.Stdout, cmd.Stderr = &out, &errb
	if err := cmd.Run(); err != nil {
		return nil, fmt.Errorf("%v: %s %s", err, out.String(), errb.String())
	}
	res := make(map[int]string)
	sc := bufio.NewScanner(&out)
	sc.Buffer(make([]byte, 1<<20), 1<<26)
	for sc.Scan() {
		f := strings.SplitN(sc.Text(), " ", 3)
		if len(f) == 3 && f[0] == "VPU" {
			if i, err := strconv.Atoi(f[1]); err == nil {
				res[i] = f[2]
			}
		}
	}
	if len(res) != len(idx) {
		return res, fmt.Errorf("child reported %d of %d jobs: %s %s", len(res), len(idx), out.String(), errb.String())
	}
	return res, nil
}

func TestVerifC15(t *testing.T) {
	if os.Getenv("VERIF_C15_JOBS") != "" {
		return
	}
	r := hlib.New("C15")
	defer r.Done(t)
	rng := rand.New(rand.NewSource(r.Seed))
	thorough := r.Tier == "thorough"
	jobs := vpuCatalogue(r.Seed, thorough)

	// 1. fresh processes: a few with many jobs in shuffled order, and single-job processes (very first call)
	fresh := make(map[int]string)
	nMulti, nSingle := 3, 24
	if thorough {
		nMulti, nSingle = 12, len(jobs)
	}
	type batch struct {
		idx []int
		res map[int]string
		err error
	}
	var batches []*batch
	for k := 0; k < nMulti; k++ {
		batches = append(batches, &batch{idx: rng.Perm(len(jobs))})
	}
	singles := rng.Perm(len(jobs))
	if nSingle > len(singles) {
		nSingle = len(singles)
	}
	for _, i := range singles[:nSingle] {
		batches = append(batches, &batch{idx: []int{i}})
	}
	hlib.Do(len(batches), func(k int) { batches[k].res, batches[k].err = vpuFresh(batches[k].idx) })
	for _, b := range batches {
		r.Cases += len(b.idx)
		if b.err != nil {
			r.Fail("fresh-process", fmt.Sprintf("jobs %v", b.idx), b.err.Error())
			continue
		}
		for i, h := range b.res {
			if old, ok := fresh[i]; ok && old != h {
				r.Fail("fresh-vs-fresh", jobs[i].desc, fmt.Sprintf("two fresh processes disagree: %s vs %s (job order %v)", old, h, b.idx))
			}
			fresh[i] = h
		}
	}

	// 2. in-process: shuffled rounds, every result compared with the first one and with the fresh process
	first := make(map[int]string)
	rounds := 4
	if thorough {
		rounds = 16
	}
	var history []int
	for round := 0; round < rounds; round++ {
		for _, i := range rng.Perm(len(jobs)) {
			r.Cases++
			h := vpuRunJob(jobs[i])
			history = append(history, i)
			if len(history) > 12 {
				history = history[1:]
			}
			if strings.HasPrefix(h, "panic:") {
				r.Fail("panic", jobs[i].desc, h)
				continue
			}
			if f, ok := first[i]; !ok {
				first[i] = h
			} else if f != h {
				r.Fail("differs-from-earlier-call", jobs[i].desc, fmt.Sprintf("first result %s, now %s (round %d, preceding jobs %v)", f, h, round, history))
			}
			if f, ok := fresh[i]; ok && f != h {
				r.Fail("differs-from-fresh-process", jobs[i].desc, fmt.Sprintf("fresh process %s, this process %s (round %d, preceding jobs %v)", f, h, round, history))
			}
		}
	}

	// 3. inputs are not modified; results are snapshots
	n := 300
	if thorough {
		n = 20000
	}
	for k := 0; k < n; k++ {
		r.Cases++
		data := []byte(hlib.RandFrom(rng, "Aztec 0123.,:\r\n\xff\x00ab", 1+rng.Intn(120)))
		pct := []int{0, 23, 33, 90}[rng.Intn(4)]
		layers := []int{0, 0, 0, -4, 8, 16, 32}[rng.Intn(7)]
		input := fmt.Sprintf("aztec.Encode([]byte(%s), %d, %d)", strconv.QuoteToASCII(string(data)), pct, layers)
		orig := append([]byte(nil), data...)
		bc, err := aztec.Encode(data, pct, layers)
		if !bytes.Equal(orig, data) {
			r.Fail("input-modified", input, fmt.Sprintf("data is now %q", data))
			continue
		}
		if err != nil {
			continue
		}
		// pixels only: Content() must not be read before the input is overwritten (a lazily built
		// content string would otherwise be cached and hide the aliasing)
		before := fmt.Sprintf("%016x|%v", hlib.PixelHash(bc), bc.Bounds())
		for i := range data {
			data[i] ^= 0x5a
		}
		data = append(data[:0], "overwritten"...)
		if after := fmt.Sprintf("%016x|%v", hlib.PixelHash(bc), bc.Bounds()); after != before {
			r.Fail("not-a-snapshot", input, fmt.Sprintf("after overwriting the input slice the barcode changed: %s -> %s", before, after))
		}
		if bc.Content() != string(orig) {
			r.Fail("not-a-snapshot", input, fmt.Sprintf("Content()=%q after overwriting the input slice", bc.Content()))
		}
		// a second encode of the original bytes still gives the same symbol
		if bc2, err2 := aztec.Encode(orig, pct, layers); err2 != nil || fmt.Sprintf("%016x|%v", hlib.PixelHash(bc2), bc2.Bounds()) != before {
			r.Fail("differs-from-earlier-call", input, "second encode of the same bytes differs")
		}
	}
	// strings built from a byte buffer that is reused afterwards (string conversion copies: the encoders cannot see it)
	buf := []byte("HELLO WORLD 0123456789")
	for _, f := range []struct {
		name string
		enc  func(s string) (barcode.Barcode, error)
	}{
		{"qr.Encode(s, qr.M, qr.Auto)", func(s string) (barcode.Barcode, error) { return qr.Encode(s, qr.M, qr.Auto) }},
		{"datamatrix.Encode(s)", func(s string) (barcode.Barcode, error) { return datamatrix.Encode(s) }},
		{"pdf417.Encode(s, 2)", func(s string) (barcode.Barcode, error) { return pdf417.Encode(s, 2) }},
		{"code128.Encode(s)", func(s string) (barcode.Barcode, error) { return vpuNil(code128.Encode(s)) }},
		{"code39.Encode(s, true, false)", func(s string) (barcode.Barcode, error) { return vpuNil(code39.Encode(s, true, false)) }},
		{"code93.Encode(s, true, false)", func(s string) (barcode.Barcode, error) { return code93.Encode(s, true, false) }},
	} {
		r.Cases++
		s := string(buf)
		bc, err := f.enc(s)
		if err != nil {
			r.Fail("encode", f.name, err.Error())
			continue
		}
		before := vpuHash(bc, nil)
		for i := range buf {
			buf[i] = 'Z'
		}
		if vpuHash(bc, nil) != before || s != "HELLO WORLD 0123456789" {
			r.Fail("not-a-snapshot", f.name, "barcode changed after the source buffer was overwritten")
		}
		copy(buf, "HELLO WORLD 0123456789")
	}
}
