package barcode

// Bounded stand-in / replay search for C09 (Scale / ScaleWithFill). The root package cannot import the
// symbology packages (import cycle), so the sources are small fake barcodes defined here: 1-D (w x 1) and
// 2-D (w x h) with random patterns, with and without ColorScheme() and CheckSum(), plus results of a
// previous Scale call. Injected with go test -overlay; never written into /repo.

import (
	"fmt"
	"image"
	"image/color"
	"math/rand"
	"testing"

	"verif/harness/hlib"
)

// vscBase is a fake barcode without ColorScheme() and CheckSum().
type vscBase struct {
	w, h    int
	dims    byte
	pix     []color.Color // w*h, row major
	content string
	kind    string
	ats     *int // counts At calls outside the bounds
}

func (b *vscBase) ColorModel() color.Model { return color.RGBAModel }
func (b *vscBase) Bounds() image.Rectangle { return image.Rect(0, 0, b.w, b.h) }
func (b *vscBase) At(x, y int) color.Color {
	if x < 0 || y < 0 || x >= b.w || y >= b.h {
		*b.ats++
		return color.RGBA{1, 2, 3, 4}
	}
	return b.pix[y*b.w+x]
}
func (b *vscBase) Metadata() Metadata { return Metadata{b.kind, b.dims} }
func (b *vscBase) Content() string    { return b.content }

type vscWithCS struct {
	*vscBase
	cs int
}

func (b vscWithCS) CheckSum() int { return b.cs }

type vscWithScheme struct {
	*vscBase
	scheme ColorScheme
}

func (b vscWithScheme) ColorScheme() ColorScheme { return b.scheme }

type vscWithBoth struct {
	*vscBase
	scheme ColorScheme
	cs     int
}

func (b vscWithBoth) ColorScheme() ColorScheme { return b.scheme }
func (b vscWithBoth) CheckSum() int            { return b.cs }

type vscCase struct {
	seed     int64
	dims     byte
	w, h     int
	variant  int // 0 plain, 1 checksum, 2 scheme, 3 both
	colours  int // 2: fg/bg only, >2: palette
	W, H     int
	fillMode int // 0: Scale (default fill), 1..: ScaleWithFill with one of the fills
	W2, H2   int // if W2 > 0: scale the result again to W2 x H2
	sample   int // > 0: check only that many random pixels (very large targets)
}

var vscFills = []color.Color{color.RGBA{200, 30, 40, 255}, color.Gray{128}, color.White, color.Black, color.NRGBA{10, 20, 30, 40}, color.Gray16{0x1234}, color.RGBA{0, 0, 0, 0}}
var vscSchemes = []ColorScheme{ColorScheme8, ColorScheme16, ColorScheme24, {Model: color.RGBAModel, Background: color.RGBA{250, 240, 10, 255}, Foreground: color.RGBA{0, 0, 120, 255}},
	{Model: color.NRGBAModel, Background: color.NRGBA{0, 0, 0, 0}, Foreground: color.NRGBA{255, 255, 255, 255}}}

func (c vscCase) String() string {
	s := fmt.Sprintf("source{seed=%d dims=%d %dx%d variant=%d colours=%d}", c.seed, c.dims, c.w, c.h, c.variant, c.colours)
	if c.fillMode == 0 {
		s += fmt.Sprintf(" Scale(src, %d, %d)", c.W, c.H)
	} else {
		s += fmt.Sprintf(" ScaleWithFill(src, %d, %d, %#v)", c.W, c.H, vscFills[c.fillMode-1])
	}
	if c.W2 > 0 {
		s += fmt.Sprintf(" then Scale(result, %d, %d)", c.W2, c.H2)
	}
	return s
}

func vscBuild(c vscCase, ats *int) Barcode {
	rng := rand.New(rand.NewSource(c.seed))
	scheme := vscSchemes[rng.Intn(len(vscSchemes))]
	b := &vscBase{w: c.w, h: c.h, dims: c.dims, content: fmt.Sprintf("content-%d", c.seed), kind: fmt.Sprintf("Fake %dD #%d", c.dims, c.seed%7), ats: ats}
	pal := []color.Color{scheme.Background, scheme.Foreground}
	for len(pal) < c.colours {
		pal = append(pal, color.RGBA{uint8(rng.Intn(256)), uint8(rng.Intn(256)), uint8(rng.Intn(256)), 255})
	}
	b.pix = make([]color.Color, c.w*c.h)
	for i := range b.pix {
		b.pix[i] = pal[rng.Intn(len(pal))]
	}
	// make the corners distinguishable from a background margin more often than not
	b.pix[0] = scheme.Foreground
	b.pix[len(b.pix)-1] = scheme.Foreground
	switch c.variant {
	case 1:
		return vscWithCS{b, int(c.seed%103) + 1}
	case 2:
		return vscWithScheme{b, scheme}
	case 3:
		return vscWithBoth{b, scheme, int(c.seed%103) + 1}
	}
	return b
}

// vscVerify checks res = scale(src, W, H, fill) against the statement of C09. It returns "" or a description.
func vscVerify(src Barcode, res Barcode, err error, W, H int, fill color.Color, sample int, rng *rand.Rand) (check, detail string) {
	sb := src.Bounds()
	w, h := sb.Dx(), sb.Dy()
	oneD := src.Metadata().Dimensions == 1
	tooSmall := W < w || (!oneD && H < h)
	if (res == nil) == (err == nil) {
		return "result-shape", fmt.Sprintf("barcode nil=%v err=%v", res == nil, err)
	}
	if tooSmall {
		if err == nil {
			return "accepts-too-small", fmt.Sprintf("source is %dx%d", w, h)
		}
		return "", ""
	}
	if err != nil {
		return "rejects-large-enough", fmt.Sprintf("source is %dx%d: %v", w, h, err)
	}
	if res.Bounds() != image.Rect(0, 0, W, H) {
		return "bounds", fmt.Sprint(res.Bounds())
	}
	if res.Content() != src.Content() {
		return "content", fmt.Sprintf("%q != %q", res.Content(), src.Content())
	}
	if res.Metadata() != src.Metadata() {
		return "metadata", fmt.Sprintf("%v != %v", res.Metadata(), src.Metadata())
	}
	if scs, ok := src.(BarcodeIntCS); ok {
		rcs, ok2 := res.(BarcodeIntCS)
		if !ok2 {
			return "checksum", "the result has no CheckSum()"
		}
		if rcs.CheckSum() != scs.CheckSum() {
			return "checksum", fmt.Sprintf("%d != %d", rcs.CheckSum(), scs.CheckSum())
		}
	}
	f := W / w
	if !oneD && H/h < f {
		f = H / h
	}
	// the expected pixel for a given offset
	want := func(ox, oy, x, y int) color.Color {
		if x < ox || x >= ox+w*f {
			return fill
		}
		if oneD {
			return src.At((x-ox)/f, 0)
		}
		if y < oy || y >= oy+h*f {
			return fill
		}
		return src.At((x-ox)/f, (y-oy)/f)
	}
	oxs := []int{(W - w*f) / 2}
	if (W-w*f)%2 == 1 {
		oxs = append(oxs, (W-w*f)/2+1)
	}
	oys := []int{0}
	if !oneD {
		oys = []int{(H - h*f) / 2}
		if (H-h*f)%2 == 1 {
			oys = append(oys, (H-h*f)/2+1)
		}
	}
	var pts [][2]int
	if sample > 0 {
		for i := 0; i < sample; i++ {
			pts = append(pts, [2]int{rng.Intn(W), rng.Intn(H)})
		}
		// and the block grid boundaries
		for i := 0; i <= w; i++ {
			for d := -1; d <= 0; d++ {
				x := oxs[0] + i*f + d
				if x >= 0 && x < W {
					pts = append(pts, [2]int{x, rng.Intn(H)}, [2]int{x, 0}, [2]int{x, H - 1})
				}
			}
		}
	}
	firstBad := ""
	for _, ox := range oxs {
		for _, oy := range oys {
			bad := ""
			cmp := func(x, y int) bool {
				g, e := res.At(x, y), want(ox, oy, x, y)
				if g != e {
					bad = fmt.Sprintf("factor %d, offset (%d,%d): pixel (%d,%d) is %#v, want %#v", f, ox, oy, x, y, g, e)
					return false
				}
				return true
			}
			if sample > 0 {
				for _, p := range pts {
					if !cmp(p[0], p[1]) {
						break
					}
				}
			} else {
			loop:
				for y := 0; y < H; y++ {
					for x := 0; x < W; x++ {
						if !cmp(x, y) {
							break loop
						}
					}
				}
			}
			if bad == "" {
				return "", ""
			}
			if firstBad == "" {
				firstBad = bad
			}
		}
	}
	return "pixels", firstBad
}

func vscRun(c vscCase) (fails []hlib.Failure) {
	fail := func(check, detail string) {
		fails = append(fails, hlib.Failure{Check: check, Input: c.String(), Detail: detail})
	}
	defer func() {
		if p := recover(); p != nil {
			fail("panic", fmt.Sprint(p))
		}
	}()
	ats := 0
	src := vscBuild(c, &ats)
	rng := rand.New(rand.NewSource(c.seed ^ 0x5eed))
	var fill color.Color
	var res Barcode
	var err error
	if c.fillMode == 0 {
		fill = color.White
		if s, ok := src.(BarcodeColor); ok {
			fill = s.ColorScheme().Background
		}
		res, err = Scale(src, c.W, c.H)
	} else {
		fill = vscFills[c.fillMode-1]
		res, err = ScaleWithFill(src, c.W, c.H, fill)
	}
	if check, detail := vscVerify(src, res, err, c.W, c.H, fill, c.sample, rng); check != "" {
		fail(check, detail)
		return
	}
	if ats != 0 {
		fail("source-access", fmt.Sprintf("%d At calls outside the source bounds", ats))
	}
	if c.W2 > 0 && err == nil {
		// the result is itself a barcode without colour scheme: default fill white
		res2, err2 := Scale(res, c.W2, c.H2)
		if check, detail := vscVerify(res, res2, err2, c.W2, c.H2, color.White, c.sample, rng); check != "" {
			fail("rescale/"+check, detail)
		}
		if err2 == nil {
			fill3 := vscFills[int(c.seed)%len(vscFills)]
			res3, err3 := ScaleWithFill(res2, c.W2+c.W, c.H2+c.H, fill3)
			if check, detail := vscVerify(res2, res3, err3, c.W2+c.W, c.H2+c.H, fill3, c.sample, rng); check != "" {
				fail("rescale3/"+check, detail)
			}
		}
	}
	return
}

func TestVerifC09(t *testing.T) {
	r := hlib.New("C09")
	defer r.Done(t)
	rng := rand.New(rand.NewSource(r.Seed))
	thorough := r.Tier == "thorough"
	var cases []vscCase
	flush := func() {
		r.Parallel(len(cases), func(i int) []hlib.Failure { return vscRun(cases[i]) })
		cases = cases[:0]
	}
	seed := func() int64 { return rng.Int63n(1 << 40) }

	// 1. exhaustive small sources: every target size from 1 to 5x+2 (all residues)
	small := 6
	if thorough {
		small = 9
	}
	for w := 1; w <= small; w++ {
		// 1-D
		for W := 1; W <= 5*w+2; W++ {
			for _, H := range []int{1, 2, 3, 7, 50} {
				cases = append(cases, vscCase{seed: seed(), dims: 1, w: w, h: 1, variant: (W + H) % 4, colours: 2, W: W, H: H, fillMode: (W * H) % (len(vscFills) + 1)})
			}
		}
		// 2-D
		for h := 1; h <= small; h++ {
			for W := 1; W <= 5*w+2; W++ {
				for H := 1; H <= 5*h+2; H++ {
					cases = append(cases, vscCase{seed: seed(), dims: 2, w: w, h: h, variant: (W + H) % 4, colours: 2 + (W+h)%2*3, W: W, H: H, fillMode: (W + 3*H) % (len(vscFills) + 1)})
				}
			}
		}
		if len(cases) > 100000 {
			flush()
		}
	}
	flush()

	// 2. random sources of size 1..40 (thorough: 1..120), targets from 1 to 5x, optional second scaling
	n := 60000
	maxSrc := 40
	if thorough {
		n = 900000
		maxSrc = 120
	}
	for i := 0; i < n; i++ {
		c := vscCase{seed: seed(), dims: byte(1 + rng.Intn(2)), variant: rng.Intn(4), colours: 2 + rng.Intn(2)*rng.Intn(5), fillMode: rng.Intn(len(vscFills) + 1)}
		c.w = 1 + rng.Intn(maxSrc)
		if rng.Intn(3) == 0 {
			c.w = 1 + rng.Intn(12)
		}
		c.h = 1
		if c.dims == 2 {
			c.h = c.w
			if rng.Intn(3) == 0 {
				c.h = 1 + rng.Intn(maxSrc)
			}
		}
		pick := func(src int) (v int) {
			defer func() {
				if v < 1 {
					v = 1
				}
			}()
			switch rng.Intn(6) {
			case 0:
				return 1 + rng.Intn(src) // too small or equal
			case 1:
				return src * (1 + rng.Intn(5)) // exact multiple
			case 2:
				return src*(1+rng.Intn(5)) - 1
			case 3:
				return src*(1+rng.Intn(5)) + 1
			}
			return 1 + rng.Intn(5*src)
		}
		c.W = pick(c.w)
		c.H = pick(c.h)
		if c.dims == 1 {
			c.H = 1 + rng.Intn(60)
		}
		if rng.Intn(3) == 0 {
			c.W2, c.H2 = pick(c.W), pick(c.H)
			if c.W2 > 400 {
				c.W2 = c.W + rng.Intn(50)
			}
			if c.H2 > 400 {
				c.H2 = c.H + rng.Intn(50)
			}
		}
		cases = append(cases, c)
		if len(cases) > 20000 {
			flush()
		}
	}
	// 3. very large targets (lazy images): sampled pixels
	for i := 0; i < 200; i++ {
		c := vscCase{seed: seed(), dims: byte(1 + rng.Intn(2)), variant: rng.Intn(4), colours: 2, fillMode: rng.Intn(len(vscFills) + 1), sample: 3000}
		c.w = 1 + rng.Intn(100)
		c.h = 1
		if c.dims == 2 {
			c.h = 1 + rng.Intn(100)
		}
		c.W = 1000 + rng.Intn(1<<uint(10+rng.Intn(12)))
		c.H = 1000 + rng.Intn(1<<uint(10+rng.Intn(12)))
		cases = append(cases, c)
	}
	flush()
}
