package pdf417

// Bounded stand-in / replay search for C04 (PDF417 round trip through the reference reader) with the
// PDF417 clauses of C10 (level >= 9 refused, panic freedom, content that fits is accepted), C12 (level
// declared in the row indicators, 2^(level+1) valid check codewords: verified by the reader) and C13
// (less than one row of padding). Injected with go test -overlay; never written into /repo.
//
// The codeword -> pattern table is the package's own `codewords` table (it cannot be re-typed from
// memory); its structure (cluster membership, distinctness, 4 bars + 4 spaces of 1..6 modules) is
// verified with pdfspec.CheckPatternTable first.
//
// Accepted, not reported: symbols with 2 rows (ISO demands 3) - the reader is called with minRows=2;
// the library's own limit of 30 rows (ISO: 90), i.e. contents needing 901..928 codewords are refused.

import (
	"fmt"
	"math/rand"
	"strconv"
	"strings"
	"testing"
	"time"

	"github.com/boombuler/barcode"

	"verif/harness/hlib"
	"verif/spec/pdfspec"
)

type vpdfCase struct {
	data, expr string
	level      int
}

var vpdfLookup [3]map[uint32]int

func vpdfShort(s string) string {
	if len(s) > 100 {
		return strconv.Quote(s[:100]) + fmt.Sprintf("...(%d bytes)", len(s))
	}
	return strconv.Quote(s)
}

func vpdfCheck(c vpdfCase) (fails []hlib.Failure) {
	input := fmt.Sprintf("pdf417.Encode(%s, %d)", c.expr, c.level)
	fail := func(check, detail string) {
		fails = append(fails, hlib.Failure{Check: check, Input: input, Detail: detail})
	}
	var panicked interface{}
	bc, err := func() (b barcode.Barcode, e error) {
		defer func() {
			if p := recover(); p != nil {
				panicked = p
			}
		}()
		return Encode(c.data, byte(c.level))
	}()
	if panicked != nil {
		fail("panic", fmt.Sprint(panicked))
		return
	}
	if (bc == nil) == (err == nil) {
		fail("result-shape", fmt.Sprintf("barcode nil=%v err=%v", bc == nil, err))
		return
	}
	if c.level > 8 {
		if err == nil {
			fail("accepts-illegal-level", "succeeded")
		}
		return
	}
	ecc := pdfspec.ECCount(c.level)
	if err != nil {
		// Independent sufficient condition for fitting: byte compaction of everything needs at most
		// 1 latch + 5 codewords per 6 bytes + one per remaining byte.
		n := len(c.data)
		ub := 1 + 5*(n/6) + n%6
		if 1+ub+ecc <= 900 {
			fail("rejects-representable", fmt.Sprintf("error %q although plain byte compaction needs only %d data codewords (+1 length +%d check <= 900)", err.Error(), ub, ecc))
			return
		}
		// the library's own count: anything up to 30 rows x 30 columns must be accepted
		if words, herr := highlevelEncode(c.data); herr == nil && 1+len(words)+ecc <= 900 {
			fail("rejects-representable", fmt.Sprintf("error %q although %d data codewords +1 length +%d check <= 900", err.Error(), len(words), ecc))
		}
		return
	}
	bd := bc.Bounds()
	if bd.Min.X != 0 || bd.Min.Y != 0 {
		fail("bounds", fmt.Sprint(bd))
		return
	}
	res, derr := pdfspec.Decode(bd.Dx(), bd.Dy(), moduleHeight, 2, func(x, y int) bool { return hlib.IsDark(bc.At(x, y)) },
		func(cluster int, p uint32) (int, bool) {
			if cluster%3 != 0 || cluster < 0 || cluster > 6 {
				return 0, false
			}
			cw, ok := vpdfLookup[cluster/3][p]
			return cw, ok
		})
	if derr != nil {
		fail("reference-reader", derr.Error())
		return
	}
	if string(res.Payload) != c.data {
		fail("payload", "decoded "+vpdfShort(string(res.Payload)))
	}
	if bc.Content() != c.data {
		fail("content", "Content()="+vpdfShort(bc.Content()))
	}
	if res.Level != c.level {
		fail("level", fmt.Sprintf("row indicators name level %d", res.Level))
	}
	// C13: less than one row of padding
	dataLen := res.Rows*res.Cols - ecc
	pads := 0
	for i := dataLen - 1; i >= 1 && res.Codewords[i] == 900; i-- {
		pads++
	}
	if pads >= res.Cols {
		fail("padding", fmt.Sprintf("%d pad codewords in a symbol of %d rows x %d columns", pads, res.Rows, res.Cols))
	}
	if res.Rows > 90 || res.Cols > 30 || res.Cols < 1 || res.Rows < 2 {
		fail("dimension-limits", fmt.Sprintf("%d rows x %d columns", res.Rows, res.Cols))
	}
	return
}

const (
	vpdfUpper = "ABCMXYZ "
	vpdfLower = "abcmxyz "
	vpdfMixed = "0123456789&#+%=^" // mixed only
	vpdfBoth  = "\r\t,:-.$/*"      // mixed and punctuation
	vpdfPunct = ";<>@[\\]_`~!\n\"|(){}?'"
)

// vpdfRandom builds a content from runs of the compaction classes with run lengths at the thresholds
// of the encoder (13 digits, 44 digit chunks, 5 text characters, 6 byte groups).
func vpdfRandom(rng *rand.Rand, maxRuns int) string {
	var sb strings.Builder
	runs := 1 + rng.Intn(maxRuns)
	for i := 0; i < runs; i++ {
		switch rng.Intn(9) {
		case 0:
			sb.WriteString(hlib.RandFrom(rng, vpdfUpper, 1+rng.Intn(7)))
		case 1:
			sb.WriteString(hlib.RandFrom(rng, vpdfLower, 1+rng.Intn(7)))
		case 2:
			sb.WriteString(hlib.RandFrom(rng, vpdfMixed, 1+rng.Intn(7)))
		case 3:
			sb.WriteString(hlib.RandFrom(rng, vpdfBoth, 1+rng.Intn(5)))
		case 4:
			sb.WriteString(hlib.RandFrom(rng, vpdfPunct, 1+rng.Intn(7)))
		case 5:
			n := []int{1, 2, 5, 11, 12, 13, 14, 15, 43, 44, 45, 46, 57, 87, 88, 89, 90, 132, 133}[rng.Intn(19)]
			sb.WriteString(hlib.RandFrom(rng, "0123456789", n))
		case 6:
			n := []int{1, 1, 1, 2, 3, 4, 5, 6, 7, 11, 12, 13, 18, 19}[rng.Intn(14)]
			sb.WriteString(hlib.RandFrom(rng, "\x00\x01\x7f\x80\xff\xc3\xa9\x0b", n))
		case 7:
			sb.WriteString(hlib.RandFrom(rng, vpdfUpper+vpdfLower+vpdfMixed+vpdfBoth+vpdfPunct, 1+rng.Intn(12)))
		default:
			sb.WriteString(hlib.RandFrom(rng, "Aa1;\xff ", 1+rng.Intn(4)))
		}
	}
	return sb.String()
}

func vpdfMain(t *testing.T, id string, only ...string) {
	r := hlib.New(id)
	r.Only = only
	defer r.Done(t)
	rng := rand.New(rand.NewSource(r.Seed))
	thorough := r.Tier == "thorough"

	// the pattern table
	r.Cases++
	if len(codewords) != 3 {
		r.Fail("pattern-table", "codewords", fmt.Sprintf("%d clusters", len(codewords)))
		return
	}
	var table [3][]uint32
	for k := 0; k < 3; k++ {
		vpdfLookup[k] = make(map[uint32]int)
		for cw, p := range codewords[k] {
			table[k] = append(table[k], uint32(p))
			vpdfLookup[k][uint32(p)] = cw
		}
	}
	if err := pdfspec.CheckPatternTable(table); err != nil {
		r.Fail("pattern-table", "pdf417.codewords", err.Error())
		return
	}
	if start_word != pdfspec.StartPattern || stop_word != pdfspec.StopPattern {
		r.Fail("pattern-table", "start_word/stop_word", "start or stop pattern differs from ISO/IEC 15438")
	}

	var cases []vpdfCase
	add := func(s, e string, level int) { cases = append(cases, vpdfCase{s, e, level}) }
	lit := func(s string, level int) { add(s, strconv.Quote(s), level) }
	allLevels := func(s string) {
		for l := 0; l <= 8; l++ {
			lit(s, l)
		}
	}
	start := time.Now()
	flush := func() {
		r.Parallel(len(cases), func(i int) []hlib.Failure { return vpdfCheck(cases[i]) })
		cases = cases[:0]
		t.Logf("%d cases so far, %v", r.Cases, time.Since(start))
	}

	// 1. fixed corner cases at every level, illegal levels
	fixed := []string{"", "A", "a", "1", ";", "\r", " ", "\xff", "\x00", "AB", "Ab", "aB", "A1", "1A", "a1", "1a", "A;", ";A", "a;", ";a", "1;", ";1", ";;", ";;;", "1;;", "1;;;",
		"12;;;\xff;;;;;;", "12;;;\xff;;;;;", "12;;\xff;;;;;;", "A;;;\xffAAAAAA", "1;;\xffaaaaaa", "12;;;\xffAAAAAA", "12;;;\xff123456", "12;;;\xff\xfe;;;;;;", "ab;;;\x00;;;;;;x",
		"Hello, World!", "hello world", "HELLO WORLD", "PDF417 test: 1234567890123 & more?", "1234567890123", "123456789012", "12345678901234567890123456789012345678901234",
		"123456789012345678901234567890123456789012345", "A1234567890123B", "\xff1234567890123\xff", "é", "日本語", "\xff\xfe\xfd\xfc\xfb\xfa", "\xff\xfe\xfd\xfc\xfb", "\xff\xfe\xfd\xfc\xfb\xfa\xf9",
		"A\xffB", "a\xffb", "1\xff2", ";\xff;", "ABCDE\xffFGHIJ", "abcde\xfffghij", "AAAAA\xff\xfeAAAAA", "\xffAAAAA", "AAAAA\xff", "\xffAAAA", "AAAA\xff", "\xffAAAAAA",
		"A\tB", "A\nB", "A\rB", "a\nb", "1\n2", "\n", "\n\n", "\t\t", "  ", "0", "00", "000000000000", "0000000000000", "00000000000000000000000000000000000000000000", "000000000000000000000000000000000000000000000"}
	for _, s := range fixed {
		allLevels(s)
		for _, l := range []int{9, 10, 16, 127, 128, 255} {
			lit(s, l)
		}
	}
	// the punctuation-sub-mode pattern: text ending in punctuation sub-mode with odd/even count + bytes + text
	for _, prefix := range []string{"", "A", "a", "1", "12", "A1", "a1", "1A", "Aa1"} {
		for pn := 1; pn <= 5; pn++ {
			for _, pc := range []string{";", "!", "@"} {
				for _, by := range []string{"\xff", "\x00", "\x80\x81", "\xff\xfe\xfd\xfc\xfb\xfa"} {
					for _, suffix := range []string{";;;;;;", "AAAAAA", "aaaaaa", "111111", ";;;;;;;", "A;A;A;", ";;;;;", "\r\r\r\r\r\r"} {
						lit(prefix+strings.Repeat(pc, pn)+by+suffix, rng.Intn(9))
					}
				}
			}
		}
	}
	// every single byte, alone and inside text / digits
	for b := 0; b < 256; b++ {
		s := string([]byte{byte(b)})
		lit(s, b%9)
		lit("AB"+s+"CDEFGH", (b+1)%9)
		lit("ab"+s+s+"cd", (b+2)%9)
		lit("12"+s+"345678", (b+3)%9)
		lit(";;"+s+";;;;;;", (b+4)%9)
	}
	flush()

	// 2. exhaustive short strings over one representative of each class
	alpha := []string{"A", "a", "1", ";", "\r", "\xff", " ", "&"}
	maxLen := 4
	if thorough {
		maxLen = 6
	}
	var rec func(p string, depth int)
	rec = func(p string, depth int) {
		if depth >= 2 {
			lit(p, rng.Intn(9))
		}
		if depth == maxLen {
			return
		}
		for _, a := range alpha {
			rec(p+a, depth+1)
		}
	}
	rec("", 0)
	flush()

	// 3. run lengths at the encoder's thresholds: digit runs, byte runs, text runs, each between the others
	digitRuns := []int{1, 2, 11, 12, 13, 14, 43, 44, 45, 46, 87, 88, 89, 90, 131, 132, 133, 440, 441}
	byteRuns := []int{1, 2, 3, 4, 5, 6, 7, 11, 12, 13, 17, 18, 19, 60, 61}
	textRuns := []int{1, 2, 3, 4, 5, 6, 7}
	for _, n := range digitRuns {
		d, _ := hlib.Rep("9081726354", n)
		for _, wrap := range []string{"", "A", "a", ";", "\xff", "AAAAAA", "\xff\xfe\xfd\xfc\xfb\xfa\xf9"} {
			for _, s := range []string{d + wrap, wrap + d, wrap + d + wrap} {
				lit(s, rng.Intn(9))
			}
		}
	}
	for _, n := range byteRuns {
		b, _ := hlib.Rep("\xff\x00\x80\x1b\xc3\xa9\x7f", n)
		for _, wrap := range []string{"", "A", "a", "1", ";", "ABCDEF", "abcdef", "1;1;1;", "1234567890123"} {
			for _, s := range []string{b + wrap, wrap + b, wrap + b + wrap} {
				lit(s, rng.Intn(9))
			}
		}
	}
	for _, n := range textRuns {
		for _, unit := range []string{"A", "a", "1", ";", "Aa", "a1", "1;", ";A", "\r"} {
			x, _ := hlib.Rep(unit, n)
			for _, wrap := range []string{"\xff", "\xff\xfe", "\xff\xfe\xfd\xfc\xfb\xfa", "1234567890123"} {
				lit(wrap+x+wrap, rng.Intn(9))
				lit(x+wrap+x, rng.Intn(9))
			}
		}
	}
	flush()

	// 4. capacity: longest content per family and level (bisection on the library's answer), n-1, n, n+1, n+2;
	// vpdfCheck reports a refusal whenever the codeword count is within 30 rows x 30 columns.
	families := []string{"7", "3141592653", "HELLO WORLD ", "Hello, World! ", "\xff\x00\x80", "a;", "\xffAAAAAA"}
	type bis struct {
		level int
		unit  string
		lo    int
	}
	var bs []bis
	for level := 0; level <= 8; level++ {
		for fi, unit := range families {
			if !thorough && (level+fi)%2 == 1 {
				continue
			}
			bs = append(bs, bis{level: level, unit: unit})
		}
	}
	hlib.Do(len(bs), func(i int) {
		defer func() { recover() }()
		lo, hi := 0, 3000
		for hi-lo > 1 {
			mid := (lo + hi) / 2
			s, _ := hlib.Rep(bs[i].unit, mid)
			if b, err := Encode(s, byte(bs[i].level)); err == nil && b != nil {
				lo = mid
			} else {
				hi = mid
			}
		}
		bs[i].lo = lo
	})
	for _, b := range bs {
		for n := b.lo - 2; n <= b.lo+3; n++ {
			if n >= 0 {
				s, e := hlib.Rep(b.unit, n)
				add(s, e, b.level)
			}
		}
	}
	for _, n := range []int{2000, 2600, 2700, 2800, 4000, 6000} {
		for _, unit := range families {
			s, e := hlib.Rep(unit, n)
			add(s, e, rng.Intn(9))
		}
	}
	flush()

	// 5. every codeword count: texts of every length 0..1800 (2 characters per codeword), digits 0..2700 in steps
	step := 7
	if thorough {
		step = 1
	}
	for n := 0; n <= 1810; n += step {
		s, e := hlib.Rep("PDF 417 ", n)
		add(s, e, (n/step)%9)
	}
	for n := 0; n <= 2720; n += step {
		s, e := hlib.Rep("0123456789", n)
		add(s, e, (n/step)%9)
	}
	for n := 0; n <= 1100; n += step {
		s, e := hlib.Rep("\x80\xff\x01", n)
		add(s, e, (n/step)%9)
	}
	flush()

	// 6. random contents
	nRandom := 10000
	if thorough {
		nRandom = 400000
	}
	for i := 0; i < nRandom; i++ {
		var s string
		switch rng.Intn(8) {
		case 0:
			s = hlib.RandBytes(rng, rng.Intn(60))
		case 1:
			s = vpdfRandom(rng, 30)
		default:
			s = vpdfRandom(rng, 6)
		}
		if len(s) > 450 {
			s = s[:450]
		}
		lit(s, rng.Intn(9))
		if len(cases) >= 8192 {
			flush()
		}
	}
	flush()
}

func TestVerifC04(t *testing.T) { vpdfMain(t, "C04") }

// The same cases reported under the other properties they serve (only the named checks count).
func TestVerifC10PDF(t *testing.T) {
	vpdfMain(t, "C10", "panic", "result-shape", "rejects-representable", "accepts-illegal-level")
}
func TestVerifC12PDF(t *testing.T) {
	vpdfMain(t, "C12", "level", "reference-reader", "pattern-table")
}
func TestVerifC13PDF(t *testing.T) {
	vpdfMain(t, "C13", "padding", "dimension-limits")
}
