#!/bin/sh
# usage: mutt.sh <file> <sed-expr> <govc subcommand and args...>
d=/root/scratch/mut.$$
mkdir -p /root/scratch
rsync -a --delete --exclude .git /repo/ $d/
f=$1; e=$2; shift 2
sed -i "$e" $d/$f
if diff -q /repo/$f $d/$f >/dev/null; then echo "MUTATION DID NOT APPLY"; rm -rf $d; exit 3; fi
diff /repo/$f $d/$f | head -4
(cd $d && GOFLAGS=-mod=mod go build ./... ) || { echo "DOES NOT COMPILE"; rm -rf $d; exit 3; }
sub=$1; shift
/verif/bin/govc $sub -repo $d "$@"
echo "exit=$?"
rm -rf $d
