package pdfspec

import (
	"bytes"
	"math/rand"
	"reflect"
	"strings"
	"testing"
)

// ---- patterns ---------------------------------------------------------

func widthsToPattern(w [8]int) uint32 {
	var p uint32
	dark := true
	for _, n := range w {
		for i := 0; i < n; i++ {
			p <<= 1
			if dark {
				p |= 1
			}
		}
		dark = !dark
	}
	return p
}

// allPatterns enumerates every structurally valid pattern by cluster.
func allPatterns() map[int][]uint32 {
	res := map[int][]uint32{}
	var w [8]int
	var rec func(i, left int)
	rec = func(i, left int) {
		if i == 7 {
			if left < 1 || left > 6 {
				return
			}
			w[7] = left
			k := (w[0] - w[2] + w[4] - w[6] + 9) % 9
			res[k] = append(res[k], widthsToPattern(w))
			return
		}
		for n := 1; n <= 6; n++ {
			if left-n < 7-i {
				break
			}
			w[i] = n
			rec(i+1, left-n)
		}
	}
	rec(0, 17)
	return res
}

// syntheticTable is a structurally valid (but not the standard's) table.
func syntheticTable() [3][]uint32 {
	all := allPatterns()
	var t [3][]uint32
	for k := 0; k < 3; k++ {
		t[k] = append([]uint32(nil), all[3*k][:929]...)
	}
	return t
}

func tableLookup(t [3][]uint32) func(int, uint32) (int, bool) {
	m := [3]map[uint32]int{{}, {}, {}}
	for k := 0; k < 3; k++ {
		for cw, p := range t[k] {
			m[k][p] = cw
		}
	}
	return func(cluster int, p uint32) (int, bool) {
		if cluster != 0 && cluster != 3 && cluster != 6 {
			return 0, false
		}
		cw, ok := m[cluster/3][p]
		return cw, ok
	}
}

func TestPatternCluster(t *testing.T) {
	// codeword 0 of cluster 0 has element widths 3 1 1 1 1 1 3 6
	p := widthsToPattern([8]int{3, 1, 1, 1, 1, 1, 3, 6})
	if p != 0x1d5c0 {
		t.Fatalf("widthsToPattern = %#x", p)
	}
	if k, ok := PatternCluster(p); !ok || k != 0 {
		t.Fatalf("PatternCluster(%#x) = %d,%v", p, k, ok)
	}
	bad := []uint32{
		StartPattern,        // element of width 8
		0,                   // all light
		0x1ffff,             // all dark
		0x0d5c0,             // starts with a space
		0x1d5c1,             // ends with a bar
		0x3d5c0,             // 18 bits
		0b11111110101010000, // width 7
		0b11101010101010100, // 5 bars
		0b11100011100011100, // 3 bars
	}
	for _, b := range bad {
		if _, ok := PatternCluster(b); ok {
			t.Errorf("PatternCluster(%#b) accepted", b)
		}
	}
	// exhaustive comparison with the enumeration
	all := allPatterns()
	valid := map[uint32]int{}
	total := 0
	for k, ps := range all {
		total += len(ps)
		for _, p := range ps {
			valid[p] = k
		}
	}
	if total != 10480 || len(valid) != total {
		t.Fatalf("enumeration found %d patterns (%d distinct), want 10480", total, len(valid))
	}
	for k := 0; k < 9; k++ {
		if k%3 == 0 && len(all[k]) < 929 {
			t.Fatalf("cluster %d has only %d patterns", k, len(all[k]))
		}
	}
	for p := uint32(0); p < 1<<17; p++ {
		k, ok := PatternCluster(p)
		wk, wok := valid[p]
		if ok != wok || (ok && k != wk) {
			t.Fatalf("PatternCluster(%#x) = %d,%v want %d,%v", p, k, ok, wk, wok)
		}
	}
}

func TestCheckPatternTable(t *testing.T) {
	tab := syntheticTable()
	if err := CheckPatternTable(tab); err != nil {
		t.Fatal(err)
	}
	mut := func(f func(t *[3][]uint32)) error {
		c := syntheticTable()
		f(&c)
		return CheckPatternTable(c)
	}
	cases := []struct {
		name string
		f    func(t *[3][]uint32)
		want string
	}{
		{"short", func(t *[3][]uint32) { t[1] = t[1][:928] }, "928 entries"},
		{"dup", func(t *[3][]uint32) { t[2][17] = t[2][500] }, "share pattern"},
		{"wrongcluster", func(t *[3][]uint32) { t[0][5] = t[1][5] }, "belongs to cluster 3"},
		{"invalid", func(t *[3][]uint32) { t[0][928] = StartPattern }, "modules wide"},
		{"othercluster", func(t *[3][]uint32) { t[1][0] = allPatterns()[1][0] }, "belongs to cluster 1"},
	}
	for _, c := range cases {
		err := mut(c.f)
		if err == nil || !strings.Contains(err.Error(), c.want) {
			t.Errorf("%s: error %v, want something containing %q", c.name, err, c.want)
		}
	}
}

// ---- indicators -------------------------------------------------------

func TestIndicators(t *testing.T) {
	// 7 rows, 4 columns, level 2:  (R-1)/3 = 2, (R-1)%3 = 0, C-1 = 3, 3s = 6
	wantL := []int{2, 6, 3, 32, 36, 33, 62}
	wantR := []int{3, 2, 6, 33, 32, 36, 63}
	for r := 0; r < 7; r++ {
		if g := LeftIndicator(r, 7, 4, 2); g != wantL[r] {
			t.Errorf("LeftIndicator(%d) = %d want %d", r, g, wantL[r])
		}
		if g := RightIndicator(r, 7, 4, 2); g != wantR[r] {
			t.Errorf("RightIndicator(%d) = %d want %d", r, g, wantR[r])
		}
	}
	// every parameter can be recovered from three consecutive rows, all < 900
	for rows := 3; rows <= 90; rows++ {
		for cols := 1; cols <= 30; cols++ {
			for lvl := 0; lvl <= 8; lvl++ {
				for r := 0; r+2 < rows; r += 3 {
					a, b, c := LeftIndicator(r, rows, cols, lvl), LeftIndicator(r+1, rows, cols, lvl), LeftIndicator(r+2, rows, cols, lvl)
					if a/30 != r/3 || b/30 != r/3 || c/30 != r/3 || a > 899 || b > 899 || c > 899 {
						t.Fatalf("row group wrong %d %d %d", a, b, c)
					}
					gr := 3*(a%30) + (b%30)%3 + 1
					if gr != rows || (b%30)/3 != lvl || c%30+1 != cols {
						t.Fatalf("rows=%d cols=%d lvl=%d: decoded %d %d %d", rows, cols, lvl, gr, (b%30)/3, c%30+1)
					}
					if RightIndicator(r, rows, cols, lvl) != c-0 && RightIndicator(r, rows, cols, lvl)%30 != c%30 {
						t.Fatal("right(cluster0) != cols field")
					}
					if RightIndicator(r+1, rows, cols, lvl)%30 != a%30 || RightIndicator(r+2, rows, cols, lvl)%30 != b%30 {
						t.Fatal("right indicator fields rotated wrongly")
					}
				}
			}
		}
	}
}

// ---- Reed-Solomon -----------------------------------------------------

func TestGenerator(t *testing.T) {
	if g := GeneratorCoefficients(0); !reflect.DeepEqual(g, []int{27, 917}) {
		t.Fatalf("level 0: %v", g)
	}
	if g := GeneratorCoefficients(1); !reflect.DeepEqual(g, []int{522, 568, 723, 809}) {
		t.Fatalf("level 1: %v", g)
	}
	if GeneratorCoefficients(-1) != nil || GeneratorCoefficients(9) != nil {
		t.Fatal("out of range level accepted")
	}
	for lvl := 0; lvl <= 8; lvl++ {
		a := GeneratorCoefficients(lvl)
		k := 2 << uint(lvl)
		if len(a) != k {
			t.Fatalf("level %d: %d coefficients", lvl, len(a))
		}
		// g(3^i) == 0 exactly for i = 1..k (3 is a primitive root mod 929,
		// so 3^1..3^k are distinct and g has no other roots)
		root := 1
		for i := 1; i <= 928; i++ {
			root = root * 3 % 929
			v := 1 // leading coefficient
			for j := k - 1; j >= 0; j-- {
				v = (v*root + a[j]) % 929
			}
			if (v == 0) != (i <= k) {
				t.Fatalf("level %d: g(3^%d) = %d", lvl, i, v)
			}
		}
	}
}

func TestECKnownAnswer(t *testing.T) {
	// ISO/IEC 15438 worked example: "PDF417" at level 1.
	data := []int{5, 453, 178, 121, 239}
	want := []int{452, 327, 657, 619}
	got := ECCodewords(data, 1)
	if !reflect.DeepEqual(got, want) {
		t.Fatalf("EC = %v want %v", got, want)
	}
	if !SyndromesZero(append(append([]int{}, data...), got...), 1) {
		t.Fatal("syndromes not zero")
	}
	p, err := DecodeCodewords(data[1:])
	if err != nil || string(p) != "PDF417" {
		t.Fatalf("decode = %q, %v", p, err)
	}
}

func TestECRandom(t *testing.T) {
	rng := rand.New(rand.NewSource(1))
	for lvl := 0; lvl <= 8; lvl++ {
		k := 2 << uint(lvl)
		for it := 0; it < 20; it++ {
			n := 1 + rng.Intn(928-k)
			data := make([]int, n)
			for i := range data {
				data[i] = rng.Intn(929)
			}
			ec := ECCodewords(data, lvl)
			if len(ec) != k {
				t.Fatalf("level %d: %d ec codewords", lvl, len(ec))
			}
			all := append(append([]int{}, data...), ec...)
			if !SyndromesZero(all, lvl) {
				t.Fatalf("level %d: syndromes not zero", lvl)
			}
			// any single change must be detected
			pos := rng.Intn(len(all))
			all[pos] = (all[pos] + 1 + rng.Intn(928)) % 929
			if SyndromesZero(all, lvl) {
				t.Fatalf("level %d: corrupted word accepted", lvl)
			}
		}
	}
	if ECCodewords([]int{929}, 0) != nil || ECCodewords([]int{1}, 9) != nil || ECCodewords([]int{-1}, 0) != nil {
		t.Fatal("invalid input accepted")
	}
	if SyndromesZero([]int{0}, 0) || SyndromesZero([]int{0, 0, 929}, 0) || SyndromesZero([]int{0, 0}, 9) {
		t.Fatal("invalid input accepted by SyndromesZero")
	}
	if !SyndromesZero([]int{0, 0, 0}, 0) {
		t.Fatal("zero word rejected")
	}
}

// ---- high level decoder -------------------------------------------------

func pairs(v ...int) []int {
	if len(v)%2 != 0 {
		panic("odd")
	}
	var out []int
	for i := 0; i < len(v); i += 2 {
		out = append(out, 30*v[i]+v[i+1])
	}
	return out
}

func cat(parts ...[]int) []int {
	var out []int
	for _, p := range parts {
		out = append(out, p...)
	}
	return out
}

func TestDecodeCodewords(t *testing.T) {
	ok := []struct {
		name string
		cws  []int
		want string
	}{
		{"empty", nil, ""},
		{"padding only", []int{900, 900, 900}, ""},
		{"alpha", pairs(0, 25, 26, 1), "AZ B"},
		{"ll", pairs(0, 27, 0, 26), "Aa "},
		{"ll as", pairs(27, 0, 27, 1, 2, 29), "aBc"},
		{"ml", pairs(28, 0, 9, 10, 11, 12, 24, 26), "09&\r\t^ "},
		{"ml pl al", pairs(28, 25, 0, 15, 28, 29, 0, 29), ";\n'A"},
		{"ml al", pairs(28, 1, 28, 1), "1B"},
		{"ml ll", pairs(28, 1, 27, 1), "1b"},
		{"lower ml", pairs(27, 1, 28, 1), "b1"},
		{"ps in alpha", pairs(0, 29, 10, 1), "A!B"},
		{"ps in lower", pairs(27, 0, 29, 10, 1, 29), "a!b"},
		{"ps in mixed", pairs(28, 0, 29, 25, 1, 29), "0?1"},
		{"ps across codewords", pairs(0, 29, 0, 1), "A;B"},
		{"ps pad before 900", cat(pairs(0, 29), []int{900}, pairs(0, 1)), "AAB"},
		{"ps pad before 913 ignored, sub-mode kept", cat(pairs(27, 0, 1, 29), []int{913, 200}, pairs(2, 3)), "ab\xc8cd"},
		{"913 keeps punct", cat(pairs(28, 25, 0, 1), []int{913, 0}, pairs(2, 3)), ";<\x00>@"},
		{"al pad before 913 latches alpha", cat(pairs(28, 25, 0, 29), []int{913, 255}, pairs(0, 29)), ";\xffA"},
		{"913 first", []int{913, 65, 1}, "AAB"},
		{"900 resets", cat(pairs(27, 0), []int{900}, pairs(0, 0)), "aAA"},
		{"901 resets", cat(pairs(27, 0), []int{901, 1, 900}, pairs(0, 0)), "a\x01AA"},
		{"numeric iso example", []int{902, 1, 624, 434, 632, 282, 200}, "000213298174000"},
		{"numeric resets", cat(pairs(27, 0), []int{902, 11, 900}, pairs(0, 0)), "a1AA"},
		{"924 alcool", []int{924, 163, 238, 432, 766, 244}, "alcool"},
		{"901 one group + 1", []int{901, 163, 238, 432, 766, 244, 33}, "alcool!"},
		{"901 five single", []int{901, 1, 2, 3, 4, 255}, "\x01\x02\x03\x04\xff"},
		{"901 group + five single", []int{901, 163, 238, 432, 766, 244, 1, 2, 3, 4, 5}, "alcool\x01\x02\x03\x04\x05"},
		{"901 empty", []int{901}, ""},
		{"902 empty then text", []int{902, 900, 31}, "BB"},
		{"byte then numeric", []int{901, 7, 902, 11}, "\x071"},
		{"trailing pads after numeric", []int{902, 11, 900, 900}, "1"},
	}
	for _, c := range ok {
		got, err := DecodeCodewords(c.cws)
		if err != nil || string(got) != c.want {
			t.Errorf("%s: %v -> %q, %v; want %q", c.name, c.cws, got, err, c.want)
		}
	}
	bad := []struct {
		name string
		cws  []int
		want string
	}{
		{"range", []int{929}, "outside 0..928"},
		{"negative", []int{-1}, "outside 0..928"},
		{"macro", []int{928}, "unsupported"},
		{"eci", []int{927, 3}, "unsupported"},
		{"913 in byte mode", []int{901, 1, 913, 2}, "outside text"},
		{"913 in numeric mode", []int{902, 11, 913, 2}, "outside text"},
		{"913 last", []int{913}, "last codeword"},
		{"913 big", []int{913, 256}, "not a byte"},
		{"924 remainder", []int{924, 1, 2, 3}, "multiple of 5"},
		{"901 tail not byte", []int{901, 256}, "not a byte"},
		{"byte group overflow", []int{924, 899, 899, 899, 899, 899}, "six bytes"},
		{"numeric no leading 1", []int{902, 25}, "does not start with 1"},
		{"numeric zero", []int{902, 0}, "does not start with 1"},
		{"shift then latch", pairs(0, 29, 29, 0), "not a character"},
		{"as then shift", pairs(27, 27, 29, 0), "not a character"},
	}
	for _, c := range bad {
		got, err := DecodeCodewords(c.cws)
		if err == nil || !strings.Contains(err.Error(), c.want) {
			t.Errorf("%s: %v -> %q, %v; want error containing %q", c.name, c.cws, got, err, c.want)
		}
	}
}

// ---- reader ---------------------------------------------------------------

type image struct {
	w, h int
	px   []bool
}

func (im *image) at(x, y int) bool {
	if x < 0 || y < 0 || x >= im.w || y >= im.h {
		panic("pixel access out of range")
	}
	return im.px[y*im.w+x]
}

// render draws the codeword matrix with the given indicator functions.
func render(tab [3][]uint32, cws []int, rows, cols, level, rowHeight int, leftF, rightF func(r, rows, cols, level int) int) *image {
	w := 17*(cols+4) + 1
	im := &image{w: w, h: rows * rowHeight, px: make([]bool, w*rows*rowHeight)}
	for r := 0; r < rows; r++ {
		var line []bool
		put := func(p uint32, n int) {
			for i := n - 1; i >= 0; i-- {
				line = append(line, p>>uint(i)&1 == 1)
			}
		}
		put(StartPattern, 17)
		put(tab[r%3][leftF(r, rows, cols, level)], 17)
		for c := 0; c < cols; c++ {
			put(tab[r%3][cws[r*cols+c]], 17)
		}
		put(tab[r%3][rightF(r, rows, cols, level)], 17)
		put(StopPattern, 18)
		for dy := 0; dy < rowHeight; dy++ {
			copy(im.px[(r*rowHeight+dy)*w:], line)
		}
	}
	return im
}

func buildCodewords(data []int, rows, cols, level int) []int {
	k := 2 << uint(level)
	n := rows*cols - k
	full := []int{n}
	full = append(full, data...)
	for len(full) < n {
		full = append(full, 900)
	}
	return append(full, ECCodewords(full, level)...)
}

func TestReaderRoundTrip(t *testing.T) {
	tab := syntheticTable()
	look := tableLookup(tab)
	rng := rand.New(rand.NewSource(7))
	count := 0
	for rows := 3; rows <= 90; rows++ {
		for cols := 1; cols <= 30; cols++ {
			if rows*cols > 928 {
				continue
			}
			for level := 0; level <= 8; level++ {
				k := 2 << uint(level)
				if rows*cols-k < 1 {
					continue
				}
				if rng.Intn(8) != 0 {
					continue
				}
				space := rows*cols - k - 1
				var data []int
				want := []byte{}
				if space >= 1 {
					nb := rng.Intn(space) // 901 + nb bytes
					data = append(data, 901)
					for i := 0; i < nb; i++ {
						b := rng.Intn(256)
						data = append(data, b)
						want = append(want, byte(b))
					}
					if nb > 5 {
						// use single-byte-only encoding: chop into segments of <= 5
						data = data[:0]
						for i := 0; i < nb; i++ {
							if i%5 == 0 {
								if len(data)+1+minInt(5, nb-i) > space {
									want = want[:i]
									break
								}
								data = append(data, 901)
							}
							data = append(data, int(want[i]))
						}
					}
				}
				cws := buildCodewords(data, rows, cols, level)
				rh := 1 + rng.Intn(3)
				im := render(tab, cws, rows, cols, level, rh, LeftIndicator, RightIndicator)
				res, err := Decode(im.w, im.h, rh, 3, im.at, look)
				if err != nil {
					t.Fatalf("rows=%d cols=%d level=%d: %v", rows, cols, level, err)
				}
				if res.Rows != rows || res.Cols != cols || res.Level != level || !reflect.DeepEqual(res.Codewords, cws) || !bytes.Equal(res.Payload, want) {
					t.Fatalf("rows=%d cols=%d level=%d: wrong result %+v", rows, cols, level, res)
				}
				count++
			}
		}
	}
	if count < 500 {
		t.Fatalf("only %d symbols tested", count)
	}
}

func minInt(a, b int) int {
	if a < b {
		return a
	}
	return b
}

func TestReaderRejects(t *testing.T) {
	tab := syntheticTable()
	look := tableLookup(tab)
	rows, cols, level, rh := 7, 3, 1, 2
	data := []int{453, 178, 121, 239}
	cws := buildCodewords(data, rows, cols, level)
	good := func() *image { return render(tab, cws, rows, cols, level, rh, LeftIndicator, RightIndicator) }
	res, err := Decode(good().w, good().h, rh, 3, good().at, look)
	if err != nil || string(res.Payload) != "PDF417" {
		t.Fatalf("baseline: %v %v", res, err)
	}
	expect := func(name string, im *image, rowHeight, minRows int, want string) {
		t.Helper()
		_, err := Decode(im.w, im.h, rowHeight, minRows, im.at, look)
		if err == nil || !strings.Contains(err.Error(), want) {
			t.Errorf("%s: error %v, want something containing %q", name, err, want)
		}
	}
	// library-style left indicator for cluster 0: (rows-3)/3
	libLeft := func(r, rows, cols, level int) int {
		if r%3 == 0 {
			return 30*(r/3) + (rows-3)/3
		}
		return LeftIndicator(r, rows, cols, level)
	}
	expect("lib left indicator", render(tab, cws, rows, cols, level, rh, libLeft, RightIndicator), rh, 3, "encodes (rows-1)/3 = 1")
	expect("wrong level in right", render(tab, cws, rows, cols, level, rh, LeftIndicator, func(r, rows, cols, level int) int {
		if r == 5 {
			return RightIndicator(r, rows, cols, 2)
		}
		return RightIndicator(r, rows, cols, level)
	}), rh, 3, "error correction level 2, earlier rows say 1")
	expect("wrong cols", render(tab, cws, rows, cols, level, rh, LeftIndicator, func(r, rows, cols, level int) int {
		return RightIndicator(r, rows, cols+1, level)
	}), rh, 3, "cols-1 = 3")
	expect("wrong row number", render(tab, cws, rows, cols, level, rh, func(r, rows, cols, level int) int {
		return LeftIndicator((r+3)%6, rows, cols, level)
	}, RightIndicator), rh, 3, "row group")
	expect("min rows", good(), rh, 8, "fewer than the minimum 8")
	expect("row height mismatch", good(), 4, 1, "multiple of the row height")
	expect("row height 7 -> rows differ", good(), 7, 1, "differs from pixel")

	im := good()
	im.px[3*im.w+40] = !im.px[3*im.w+40]
	expect("pixel rows differ", im, rh, 3, "differs from pixel")

	im = good()
	for dy := 0; dy < rh; dy++ {
		im.px[(2*rh+dy)*im.w+3] = false
	}
	expect("start pattern", im, rh, 3, "row 2: start pattern")

	im = good()
	for dy := 0; dy < rh; dy++ {
		im.px[(4*rh+dy)*im.w+im.w-1] = false
	}
	expect("stop pattern", im, rh, 3, "row 4: stop pattern")

	// wrong cluster: draw row 1 with the cluster-0 table
	bad := tab
	bad[1] = tab[0]
	expect("wrong cluster", render(bad, cws, rows, cols, level, rh, LeftIndicator, RightIndicator), rh, 3, "row requires cluster 3")

	// corrupted data codeword -> RS failure
	c2 := append([]int{}, cws...)
	c2[2] = (c2[2] + 1) % 929
	expect("rs", render(tab, c2, rows, cols, level, rh, LeftIndicator, RightIndicator), rh, 3, "Reed-Solomon")

	// wrong length descriptor (with consistent EC)
	c3 := append([]int{}, cws[:rows*cols-4]...)
	c3[0]--
	c3 = append(c3, ECCodewords(c3, level)...)
	expect("sld", render(tab, c3, rows, cols, level, rh, LeftIndicator, RightIndicator), rh, 3, "symbol length descriptor is 16")

	// bad widths
	expect("width", &image{w: 17*7 + 2, h: 6, px: make([]bool, (17*7+2)*6)}, 2, 3, "not of the form")
	expect("cols 0", &image{w: 17*4 + 1, h: 6, px: make([]bool, (17*4+1)*6)}, 2, 3, "not of the form")
	expect("cols 31", &image{w: 17*35 + 1, h: 6, px: make([]bool, (17*35+1)*6)}, 2, 3, "31 data columns")
	expect("rows 91", &image{w: 17*5 + 1, h: 91, px: make([]bool, (17*5+1)*91)}, 1, 3, "more than 90")
	expect("too many codewords", &image{w: 17*34 + 1, h: 31, px: make([]bool, (17*34+1)*31)}, 1, 3, "more than 928")
	if _, err := Decode(86, 6, 0, 3, good().at, look); err == nil {
		t.Error("row height 0 accepted")
	}
	if _, err := Decode(86, 6, 2, 3, nil, look); err == nil {
		t.Error("nil at accepted")
	}

	// two-row symbol is decodable only when the caller lowers minRows
	cw2 := buildCodewords([]int{29}, 2, 3, 0)
	im2 := render(tab, cw2, 2, 3, 0, rh, LeftIndicator, RightIndicator)
	expect("two rows", im2, rh, 3, "fewer than the minimum 3")
	if res, err := Decode(im2.w, im2.h, rh, 2, im2.at, look); err != nil || string(res.Payload) != "A" || res.Rows != 2 {
		t.Errorf("two rows with minRows=2: %v %v", res, err)
	}
	// one row: no level information
	cw1 := buildCodewords(nil, 1, 3, 0)
	im1 := render(tab, cw1, 1, 3, 0, rh, LeftIndicator, RightIndicator)
	expect("one row", im1, rh, 1, "no row indicator carrying")
}
