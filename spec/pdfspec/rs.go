package pdfspec

// Reed-Solomon error correction of PDF417: arithmetic modulo the prime 929,
// generator polynomial g(x) = (x-3)(x-3^2)...(x-3^k), k = 2^(level+1).

const gfP = 929

func modP(a int) int {
	a %= gfP
	if a < 0 {
		a += gfP
	}
	return a
}

// ECCount returns the number of error correction codewords of a level
// (2^(level+1)) or 0 for a level outside 0..8.
func ECCount(level int) int {
	if level < 0 || level > 8 {
		return 0
	}
	return 2 << uint(level)
}

// generatorDescending returns the monic generator polynomial with the
// coefficient of x^k first: [1, g_{k-1}, ..., g_0].
func generatorDescending(level int) []int {
	k := ECCount(level)
	if k == 0 {
		return nil
	}
	g := []int{1}
	root := 1
	for i := 1; i <= k; i++ {
		root = root * 3 % gfP
		// multiply g by (x - root)
		ng := make([]int, len(g)+1)
		for j, c := range g {
			ng[j] = modP(ng[j] + c)
			ng[j+1] = modP(ng[j+1] - c*root)
		}
		g = ng
	}
	return g
}

// GeneratorCoefficients returns the coefficients of the generator polynomial
// g(x) = prod_{i=1..k} (x - 3^i) = x^k + a[k-1] x^(k-1) + ... + a[1] x + a[0]
// in ASCENDING order of powers, a[0] first, without the leading 1 (so the
// slice has k = 2^(level+1) entries, all in 0..928).  This is the convention
// of the coefficient tables of ISO/IEC 15438 Annex F (level 0: 27, 917).
// nil for a level outside 0..8.
func GeneratorCoefficients(level int) []int {
	g := generatorDescending(level)
	if g == nil {
		return nil
	}
	k := len(g) - 1
	a := make([]int, k)
	for j := 0; j < k; j++ {
		a[j] = g[k-j]
	}
	return a
}

// ECCodewords computes the k = 2^(level+1) error correction codewords for
// the data codewords (symbol length descriptor first, padding included) in
// transmission order, i.e. the codeword that immediately follows the data
// first.  With d(x) = data[0] x^(n-1) + ... + data[n-1] the check codewords
// are the coefficients (highest power first) of -(d(x) x^k mod g(x)), so that
// the complete codeword polynomial is a multiple of g(x).
// nil if the level or a codeword value is out of range.
func ECCodewords(data []int, level int) []int {
	g := generatorDescending(level)
	if g == nil {
		return nil
	}
	k := len(g) - 1
	n := len(data)
	work := make([]int, n+k)
	for i, d := range data {
		if d < 0 || d >= gfP {
			return nil
		}
		work[i] = d
	}
	// schoolbook long division by the monic g
	for i := 0; i < n; i++ {
		f := work[i]
		if f == 0 {
			continue
		}
		for j := 0; j <= k; j++ {
			work[i+j] = modP(work[i+j] - f*g[j])
		}
	}
	ec := make([]int, k)
	for j := 0; j < k; j++ {
		ec[j] = modP(-work[n+j])
	}
	return ec
}

// SyndromesZero reports whether the codeword sequence (data followed by the
// error correction codewords, first transmitted codeword first) is a valid
// Reed-Solomon code word: c(3^i) = 0 for i = 1..2^(level+1) where
// c(x) = codewords[0] x^(n-1) + ... + codewords[n-1].
func SyndromesZero(codewords []int, level int) bool {
	k := ECCount(level)
	if k == 0 || len(codewords) < k {
		return false
	}
	for _, c := range codewords {
		if c < 0 || c >= gfP {
			return false
		}
	}
	root := 1
	for i := 1; i <= k; i++ {
		root = root * 3 % gfP
		v := 0
		for _, c := range codewords {
			v = (v*root + c) % gfP
		}
		if v != 0 {
			return false
		}
	}
	return true
}
