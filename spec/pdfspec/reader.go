package pdfspec

import "fmt"

// Result is the outcome of reading a symbol.
type Result struct {
	Rows, Cols, Level int
	Codewords         []int // all rows*cols codewords: data (incl. length descriptor and padding) followed by error correction
	Payload           []byte
}

// Symbol geometry limits of ISO/IEC 15438.
const (
	MinRows      = 3
	MaxRows      = 90
	MinCols      = 1
	MaxCols      = 30
	MaxCodewords = 928
)

// Decode is a strict reference reader for an ideal PDF417 module matrix
// without quiet zone.
//
// width and height are the pixel dimensions; at(x, y) reports whether the
// pixel is dark.  One module is one pixel wide; rowHeight pixel rows make up
// one symbol row and all of them must be identical.  minRows is the smallest
// number of symbol rows accepted (the standard demands 3; callers may pass a
// smaller value to look into non-conforming symbols).
//
// patternToCodeword(cluster, pattern17) must return the codeword 0..928 that
// the 17-module pattern stands for in cluster 0, 3 or 6.
//
// Checks, in this order: width = 17*(cols+4)+1 with cols in 1..30; height a
// multiple of rowHeight, rows in minRows..90, rows*cols <= 928; pixel rows of
// a symbol row identical; per row: start pattern, left indicator, cols data
// patterns, right indicator, stop pattern, every pattern structurally valid
// and in cluster 3*(row mod 3); the row indicators encode the true row
// number, number of rows, number of columns and one common error correction
// level; the symbol length descriptor equals rows*cols - 2^(level+1); the
// Reed-Solomon syndromes vanish; the data codewords decode (DecodeCodewords).
func Decode(width, height, rowHeight, minRows int, at func(x, y int) bool, patternToCodeword func(cluster int, pattern17 uint32) (int, bool)) (*Result, error) {
	if at == nil || patternToCodeword == nil {
		return nil, fmt.Errorf("pdfspec: nil pixel or pattern lookup function")
	}
	if rowHeight < 1 {
		return nil, fmt.Errorf("pdfspec: row height %d must be at least 1", rowHeight)
	}
	if width < 17*(MinCols+4)+1 || (width-1)%17 != 0 {
		return nil, fmt.Errorf("pdfspec: width %d is not of the form 17*(cols+4)+1", width)
	}
	cols := (width-1)/17 - 4
	if cols < MinCols || cols > MaxCols {
		return nil, fmt.Errorf("pdfspec: width %d gives %d data columns, want %d..%d", width, cols, MinCols, MaxCols)
	}
	if height < 1 || height%rowHeight != 0 {
		return nil, fmt.Errorf("pdfspec: height %d is not a positive multiple of the row height %d", height, rowHeight)
	}
	rows := height / rowHeight
	if rows < minRows {
		return nil, fmt.Errorf("pdfspec: symbol has %d rows, fewer than the minimum %d", rows, minRows)
	}
	if rows > MaxRows {
		return nil, fmt.Errorf("pdfspec: symbol has %d rows, more than %d", rows, MaxRows)
	}
	if rows*cols > MaxCodewords {
		return nil, fmt.Errorf("pdfspec: %d rows x %d columns = %d codewords, more than %d", rows, cols, rows*cols, MaxCodewords)
	}

	// every pixel row of a symbol row must equal the first one
	for r := 0; r < rows; r++ {
		y0 := r * rowHeight
		for dy := 1; dy < rowHeight; dy++ {
			for x := 0; x < width; x++ {
				if at(x, y0+dy) != at(x, y0) {
					return nil, fmt.Errorf("pdfspec: symbol row %d: pixel (%d,%d) differs from pixel (%d,%d)", r, x, y0+dy, x, y0)
				}
			}
		}
	}

	bits := func(r, x0, n int) uint32 {
		var v uint32
		for x := x0; x < x0+n; x++ {
			v <<= 1
			if at(x, r*rowHeight) {
				v |= 1
			}
		}
		return v
	}
	lookup := func(r, slot int, what string) (int, error) {
		p := bits(r, 17*slot, 17)
		want := 3 * (r % 3)
		k, problem := patternProblem(p)
		if problem != "" {
			return 0, fmt.Errorf("pdfspec: row %d %s (x=%d, pattern %#x): %s", r, what, 17*slot, p, problem)
		}
		if k != want {
			return 0, fmt.Errorf("pdfspec: row %d %s (x=%d, pattern %#x): pattern is in cluster %d, row requires cluster %d", r, what, 17*slot, p, k, want)
		}
		cw, ok := patternToCodeword(want, p)
		if !ok {
			return 0, fmt.Errorf("pdfspec: row %d %s (x=%d, pattern %#x): no codeword with this pattern in cluster %d", r, what, 17*slot, p, want)
		}
		if cw < 0 || cw > 928 {
			return 0, fmt.Errorf("pdfspec: row %d %s (x=%d, pattern %#x): lookup returned codeword %d outside 0..928", r, what, 17*slot, p, cw)
		}
		return cw, nil
	}

	codewords := make([]int, 0, rows*cols)
	left := make([]int, rows)
	right := make([]int, rows)
	for r := 0; r < rows; r++ {
		if p := bits(r, 0, 17); p != StartPattern {
			return nil, fmt.Errorf("pdfspec: row %d: start pattern is %#x, want %#x", r, p, uint32(StartPattern))
		}
		if p := bits(r, 17*(cols+3), 18); p != StopPattern {
			return nil, fmt.Errorf("pdfspec: row %d: stop pattern is %#x, want %#x", r, p, uint32(StopPattern))
		}
		var err error
		if left[r], err = lookup(r, 1, "left row indicator"); err != nil {
			return nil, err
		}
		for c := 0; c < cols; c++ {
			cw, err := lookup(r, 2+c, fmt.Sprintf("data column %d", c))
			if err != nil {
				return nil, err
			}
			codewords = append(codewords, cw)
		}
		if right[r], err = lookup(r, 2+cols, "right row indicator"); err != nil {
			return nil, err
		}
	}

	// Row indicators.  Each indicator is 30*(row/3) + field, the field being,
	// by cluster: (rows-1)/3, 3*level+(rows-1)%3 or cols-1.
	level := -1
	checkField := func(r int, side string, ind, kind int) error {
		if ind/30 != r/3 {
			return fmt.Errorf("pdfspec: row %d: %s row indicator %d encodes row group %d, want %d", r, side, ind, ind/30, r/3)
		}
		f := ind % 30
		switch kind {
		case 0: // (rows-1)/3
			if f != (rows-1)/3 {
				return fmt.Errorf("pdfspec: row %d: %s row indicator %d encodes (rows-1)/3 = %d, but the symbol has %d rows (want %d, indicator %d)", r, side, ind, f, rows, (rows-1)/3, 30*(r/3)+(rows-1)/3)
			}
		case 1: // 3*level + (rows-1)%3
			if f%3 != (rows-1)%3 {
				return fmt.Errorf("pdfspec: row %d: %s row indicator %d encodes (rows-1)%%3 = %d, but the symbol has %d rows (want %d)", r, side, ind, f%3, rows, (rows-1)%3)
			}
			l := f / 3
			if l > 8 {
				return fmt.Errorf("pdfspec: row %d: %s row indicator %d encodes error correction level %d > 8", r, side, ind, l)
			}
			if level >= 0 && l != level {
				return fmt.Errorf("pdfspec: row %d: %s row indicator %d encodes error correction level %d, earlier rows say %d", r, side, ind, l, level)
			}
			level = l
		default: // cols-1
			if f != cols-1 {
				return fmt.Errorf("pdfspec: row %d: %s row indicator %d encodes cols-1 = %d, but the symbol has %d data columns", r, side, ind, f, cols)
			}
		}
		return nil
	}
	for r := 0; r < rows; r++ {
		// field kinds of (left, right) for clusters 0, 3, 6
		lk, rk := r%3, (r%3+2)%3
		if err := checkField(r, "left", left[r], lk); err != nil {
			return nil, err
		}
		if err := checkField(r, "right", right[r], rk); err != nil {
			return nil, err
		}
	}
	if level < 0 {
		return nil, fmt.Errorf("pdfspec: a symbol with %d row(s) has no row indicator carrying the error correction level", rows)
	}
	for r := 0; r < rows; r++ {
		if l, w := left[r], LeftIndicator(r, rows, cols, level); l != w {
			return nil, fmt.Errorf("pdfspec: row %d: left row indicator is %d, want %d", r, l, w)
		}
		if g, w := right[r], RightIndicator(r, rows, cols, level); g != w {
			return nil, fmt.Errorf("pdfspec: row %d: right row indicator is %d, want %d", r, g, w)
		}
	}

	k := ECCount(level)
	total := rows * cols
	if k+1 > total {
		return nil, fmt.Errorf("pdfspec: level %d needs %d error correction codewords but the symbol only has %d codewords", level, k, total)
	}
	if codewords[0] != total-k {
		return nil, fmt.Errorf("pdfspec: symbol length descriptor is %d, want rows*cols - 2^(level+1) = %d*%d - %d = %d", codewords[0], rows, cols, k, total-k)
	}
	if !SyndromesZero(codewords, level) {
		want := ECCodewords(codewords[:total-k], level)
		for j := 0; j < k; j++ {
			if codewords[total-k+j] != want[j] {
				return nil, fmt.Errorf("pdfspec: Reed-Solomon check failed: error correction codeword %d (of %d, level %d) is %d, want %d", j, k, level, codewords[total-k+j], want[j])
			}
		}
		return nil, fmt.Errorf("pdfspec: Reed-Solomon check failed (level %d)", level)
	}
	payload, err := DecodeCodewords(codewords[1 : total-k])
	if err != nil {
		return nil, err
	}
	return &Result{Rows: rows, Cols: cols, Level: level, Codewords: codewords, Payload: payload}, nil
}
