// Package pdfspec is an independent reference implementation of the parts of
// PDF417 (ISO/IEC 15438) needed to read back a symbol: bar/space pattern
// structure, row indicators, Reed-Solomon error correction over GF(929),
// the high-level (compaction) decoder and a strict reader for an ideal,
// noise-free module matrix.
//
// The 3 x 929 codeword -> bar/space pattern table of the standard is NOT
// part of this package (it cannot be re-typed from memory).  The reader gets
// a lookup function from the caller; CheckPatternTable verifies every
// structural property a correct table must have.
package pdfspec

import "fmt"

// StartPattern is the 17-module start pattern (element widths 8 1 1 1 1 1 1 3).
const StartPattern = 0b11111111010101000

// StopPattern is the 18-module stop pattern (element widths 7 1 1 3 1 1 1 2 1).
const StopPattern = 0b111111101000101001

// PatternWidth is the number of modules of a codeword pattern.
const PatternWidth = 17

// patternElements splits a 17 module pattern into its run lengths.  The first
// run is the run of the most significant module.  It returns the value (dark
// or light) of the first run as well.
func patternElements(pattern17 uint32) (runs []int, firstDark bool) {
	firstDark = pattern17>>(PatternWidth-1)&1 == 1
	prev := firstDark
	n := 0
	for i := PatternWidth - 1; i >= 0; i-- {
		b := pattern17>>uint(i)&1 == 1
		if b == prev {
			n++
			continue
		}
		runs = append(runs, n)
		prev = b
		n = 1
	}
	runs = append(runs, n)
	return runs, firstDark
}

// patternProblem describes why a pattern is not a structurally valid
// codeword pattern ("" if it is valid) and returns the cluster number.
func patternProblem(pattern17 uint32) (cluster int, problem string) {
	if pattern17>>PatternWidth != 0 {
		return 0, "pattern has more than 17 modules"
	}
	runs, firstDark := patternElements(pattern17)
	if !firstDark {
		return 0, "pattern does not start with a bar"
	}
	if pattern17&1 != 0 {
		return 0, "pattern does not end with a space"
	}
	if len(runs) != 8 {
		return 0, fmt.Sprintf("pattern has %d elements, want 4 bars and 4 spaces", len(runs))
	}
	for i, w := range runs {
		if w < 1 || w > 6 {
			return 0, fmt.Sprintf("element %d is %d modules wide, want 1..6", i, w)
		}
	}
	// runs[0], runs[2], runs[4], runs[6] are the bars b1..b4.
	k := (runs[0] - runs[2] + runs[4] - runs[6] + 9) % 9
	return k, ""
}

// PatternCluster checks the structural validity of a 17-module codeword
// pattern (most significant bit = leftmost module, 1 = dark): it must start
// with a bar, end with a space, consist of exactly 4 bars and 4 spaces, each
// 1..6 modules wide.  It returns the cluster number
// (b1 - b2 + b3 - b4 + 9) mod 9, b_i being the bar widths.
func PatternCluster(pattern17 uint32) (cluster int, ok bool) {
	k, p := patternProblem(pattern17)
	if p != "" {
		return 0, false
	}
	return k, true
}

// CheckPatternTable verifies a codeword pattern table: table[k][cw] is the
// pattern of codeword cw (0..928) in cluster 3k (k = 0, 1, 2).  Every pattern
// must be structurally valid (see PatternCluster), must lie in cluster 3k and
// the patterns of one cluster must be pairwise distinct.  The first problem
// found is returned.
func CheckPatternTable(table [3][]uint32) error {
	for k := 0; k < 3; k++ {
		if len(table[k]) != 929 {
			return fmt.Errorf("pdfspec: pattern table for cluster %d has %d entries, want 929", 3*k, len(table[k]))
		}
		seen := make(map[uint32]int, 929)
		for cw, p := range table[k] {
			c, problem := patternProblem(p)
			if problem != "" {
				return fmt.Errorf("pdfspec: pattern table cluster %d codeword %d (pattern %#x): %s", 3*k, cw, p, problem)
			}
			if c != 3*k {
				return fmt.Errorf("pdfspec: pattern table cluster %d codeword %d (pattern %#x): pattern belongs to cluster %d", 3*k, cw, p, c)
			}
			if other, dup := seen[p]; dup {
				return fmt.Errorf("pdfspec: pattern table cluster %d: codewords %d and %d share pattern %#x", 3*k, other, cw, p)
			}
			seen[p] = cw
		}
	}
	return nil
}

// LeftIndicator returns the left row indicator codeword of row `row`
// (0-based) of a symbol with `rows` rows, `cols` data columns and error
// correction level `level` (ISO/IEC 15438, 5.11.3).
func LeftIndicator(row, rows, cols, level int) int {
	base := 30 * (row / 3)
	switch row % 3 {
	case 0:
		return base + (rows-1)/3
	case 1:
		return base + 3*level + (rows-1)%3
	default:
		return base + (cols - 1)
	}
}

// RightIndicator returns the right row indicator codeword, see LeftIndicator.
func RightIndicator(row, rows, cols, level int) int {
	base := 30 * (row / 3)
	switch row % 3 {
	case 0:
		return base + (cols - 1)
	case 1:
		return base + (rows-1)/3
	default:
		return base + 3*level + (rows-1)%3
	}
}
