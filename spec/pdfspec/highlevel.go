package pdfspec

import (
	"fmt"
	"math/big"
)

// Function codewords (ISO/IEC 15438, table 2 / 5.4.1).
const (
	cwLatchText    = 900
	cwLatchByte    = 901
	cwLatchNumeric = 902
	cwShiftByte    = 913
	cwLatchByteSix = 924
)

// Text compaction sub-modes.
const (
	subAlpha = iota
	subLower
	subMixed
	subPunct
)

var subModeName = [...]string{"Alpha", "Lower", "Mixed", "Punctuation"}

// Actions of text sub-mode values that are not characters.
const (
	actChar = iota
	actLatchAlpha
	actLatchLower
	actLatchMixed
	actLatchPunct
	actShiftAlpha
	actShiftPunct
)

// ISO/IEC 15438 table 5: the character values 0..29 of the four sub-modes.
// 0xFF marks a latch/shift position; those are resolved by textAction.
var textChars = [4][30]byte{
	// Alpha: A-Z, space, ll, ml, ps
	{'A', 'B', 'C', 'D', 'E', 'F', 'G', 'H', 'I', 'J', 'K', 'L', 'M', 'N', 'O',
		'P', 'Q', 'R', 'S', 'T', 'U', 'V', 'W', 'X', 'Y', 'Z', ' ', 0xFF, 0xFF, 0xFF},
	// Lower: a-z, space, as, ml, ps
	{'a', 'b', 'c', 'd', 'e', 'f', 'g', 'h', 'i', 'j', 'k', 'l', 'm', 'n', 'o',
		'p', 'q', 'r', 's', 't', 'u', 'v', 'w', 'x', 'y', 'z', ' ', 0xFF, 0xFF, 0xFF},
	// Mixed: 0-9 & CR HT , : # - . $ / + % * = ^ pl space ll al ps
	{'0', '1', '2', '3', '4', '5', '6', '7', '8', '9', '&', '\r', '\t', ',', ':',
		'#', '-', '.', '$', '/', '+', '%', '*', '=', '^', 0xFF, ' ', 0xFF, 0xFF, 0xFF},
	// Punctuation: ; < > @ [ \ ] _ ` ~ ! CR HT , : LF - . $ / " | * ( ) ? { } ' al
	{';', '<', '>', '@', '[', '\\', ']', '_', '`', '~', '!', '\r', '\t', ',', ':',
		'\n', '-', '.', '$', '/', '"', '|', '*', '(', ')', '?', '{', '}', '\'', 0xFF},
}

// textAction returns what value v (0..29) means in sub-mode sub.
func textAction(sub, v int) int {
	switch sub {
	case subAlpha:
		switch v {
		case 27:
			return actLatchLower
		case 28:
			return actLatchMixed
		case 29:
			return actShiftPunct
		}
	case subLower:
		switch v {
		case 27:
			return actShiftAlpha
		case 28:
			return actLatchMixed
		case 29:
			return actShiftPunct
		}
	case subMixed:
		switch v {
		case 25:
			return actLatchPunct
		case 27:
			return actLatchLower
		case 28:
			return actLatchAlpha
		case 29:
			return actShiftPunct
		}
	case subPunct:
		if v == 29 {
			return actLatchAlpha
		}
	}
	return actChar
}

// DecodeCodewords decodes the data codewords of a symbol (symbol length
// descriptor and error correction codewords removed, padding still present)
// to the byte payload.
//
// Supported: Text compaction (900, also the initial mode; sub-modes and their
// latches/shifts exactly per table 5), Byte compaction (901, 924, shift 913
// from text mode) and Numeric compaction (902).  Trailing pad codewords 900
// are ordinary latches to text compaction and produce no output.
//
// Rules applied (ISO/IEC 15438 5.4):
//   - every mode latch (900, 901, 902, 924) resets the text sub-mode to Alpha;
//   - 913 is only allowed in text compaction mode, takes exactly one codeword
//     0..255 and leaves the text sub-mode as it was before;
//   - a ps/as shift that is the last sub-mode value before a codeword >= 900 or
//     before the end of data is padding and is ignored; a value 29 in
//     Punctuation sub-mode is the latch `al` even when used as padding;
//   - a shift must be followed by a character value, not by a latch or shift;
//   - 901: the codewords up to the next function codeword are split into
//     groups of five (-> six bytes each) followed by a last group of 1..5
//     codewords that stand for one byte each; 924: groups of five only;
//   - 902: groups of 15 codewords (last group shorter), each giving a base-900
//     number whose decimal representation starts with a 1 that is dropped.
//
// Any other codeword >= 900 (macro 928/923/922, ECI 925..927, 903..912,
// 914..921) is reported as unsupported.
func DecodeCodewords(data []int) (payload []byte, err error) {
	for i, cw := range data {
		if cw < 0 || cw > 928 {
			return nil, fmt.Errorf("pdfspec: data codeword %d has value %d outside 0..928", i, cw)
		}
	}
	const (
		modeText = iota
		modeByte
		modeNumeric
	)
	out := []byte{}
	mode := modeText
	sub := subAlpha
	shift := -1 // pending shift target sub-mode or -1
	emitText := func(pos, v int) error {
		cur := sub
		if shift >= 0 {
			cur = shift
		}
		act := textAction(cur, v)
		if shift >= 0 {
			if act != actChar {
				return fmt.Errorf("pdfspec: data codeword %d: sub-mode shift to %s followed by value %d which is a latch/shift, not a character", pos, subModeName[cur], v)
			}
			shift = -1
			out = append(out, textChars[cur][v])
			return nil
		}
		switch act {
		case actChar:
			out = append(out, textChars[cur][v])
		case actLatchAlpha:
			sub = subAlpha
		case actLatchLower:
			sub = subLower
		case actLatchMixed:
			sub = subMixed
		case actLatchPunct:
			sub = subPunct
		case actShiftAlpha:
			shift = subAlpha
		case actShiftPunct:
			shift = subPunct
		}
		return nil
	}

	i := 0
	for i < len(data) {
		cw := data[i]
		if cw < 900 {
			// Byte and numeric segments consume all their codewords < 900, so
			// we can only get here in text compaction mode.
			if mode != modeText {
				return nil, fmt.Errorf("pdfspec: internal error: data codeword %d (%d) reached outside text mode", i, cw)
			}
			if err := emitText(i, cw/30); err != nil {
				return nil, err
			}
			if err := emitText(i, cw%30); err != nil {
				return nil, err
			}
			i++
			continue
		}
		// A function codeword ends the sequence of text values: a pending
		// shift was padding.
		shift = -1
		switch cw {
		case cwLatchText:
			mode = modeText
			sub = subAlpha
			i++
		case cwShiftByte:
			if mode != modeText {
				return nil, fmt.Errorf("pdfspec: data codeword %d: byte shift 913 outside text compaction mode", i)
			}
			if i+1 >= len(data) {
				return nil, fmt.Errorf("pdfspec: data codeword %d: byte shift 913 is the last codeword", i)
			}
			b := data[i+1]
			if b > 255 {
				return nil, fmt.Errorf("pdfspec: data codeword %d: value %d after byte shift 913 is not a byte", i+1, b)
			}
			out = append(out, byte(b))
			i += 2
		case cwLatchByte, cwLatchByteSix:
			mode = modeByte
			sub = subAlpha
			j := i + 1
			for j < len(data) && data[j] < 900 {
				j++
			}
			seg := data[i+1 : j]
			n := len(seg)
			groups := n / 5
			if cw == cwLatchByte {
				// the last group always holds 1..5 single-byte codewords
				groups = 0
				if n > 0 {
					groups = (n - 1) / 5
				}
			} else if n%5 != 0 {
				return nil, fmt.Errorf("pdfspec: data codeword %d: byte latch 924 followed by %d codewords, not a multiple of 5", i, n)
			}
			for g := 0; g < groups; g++ {
				var v uint64
				for _, c := range seg[5*g : 5*g+5] {
					v = v*900 + uint64(c)
				}
				if v>>48 != 0 {
					return nil, fmt.Errorf("pdfspec: data codewords %d..%d: byte compaction group value %d does not fit in six bytes", i+1+5*g, i+5+5*g, v)
				}
				for s := 40; s >= 0; s -= 8 {
					out = append(out, byte(v>>uint(s)))
				}
			}
			for t := 5 * groups; t < n; t++ {
				if seg[t] > 255 {
					return nil, fmt.Errorf("pdfspec: data codeword %d: value %d in the final byte compaction group is not a byte", i+1+t, seg[t])
				}
				out = append(out, byte(seg[t]))
			}
			i = j
		case cwLatchNumeric:
			mode = modeNumeric
			sub = subAlpha
			j := i + 1
			for j < len(data) && data[j] < 900 {
				j++
			}
			seg := data[i+1 : j]
			for g := 0; g < len(seg); g += 15 {
				end := g + 15
				if end > len(seg) {
					end = len(seg)
				}
				v := new(big.Int)
				b900 := big.NewInt(900)
				for _, c := range seg[g:end] {
					v.Mul(v, b900)
					v.Add(v, big.NewInt(int64(c)))
				}
				s := v.String()
				if s[0] != '1' {
					return nil, fmt.Errorf("pdfspec: data codewords %d..%d: numeric compaction group decodes to %s which does not start with 1", i+1+g, i+end, s)
				}
				// 15 codewords are < 900^15 < 2.06e44: at most 44 digits remain
				out = append(out, s[1:]...)
			}
			i = j
		default:
			return nil, fmt.Errorf("pdfspec: data codeword %d: unsupported function codeword %d", i, cw)
		}
	}
	return out, nil
}
