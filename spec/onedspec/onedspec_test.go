package onedspec

import (
	"bytes"
	"fmt"
	"math/rand"
	"strings"
	"testing"
)

func toBars(s string) []bool {
	b := make([]bool, len(s))
	for i := range s {
		b[i] = s[i] == '1'
	}
	return b
}

// render turns an n/w element string (starting with a bar) into modules.
func render(el string, wide int) string {
	var sb strings.Builder
	for i := 0; i < len(el); i++ {
		c := "1"
		if i%2 == 1 {
			c = "0"
		}
		n := 1
		if el[i] == 'w' {
			n = wide
		}
		sb.WriteString(strings.Repeat(c, n))
	}
	return sb.String()
}

// ---------------------------------------------------------------- Code 128

func TestC128PatternStructure(t *testing.T) {
	p := C128Patterns()
	seen := map[string]int{}
	for v, s := range p {
		want := 11
		if v == 106 {
			want = 13
		}
		if len(s) != want {
			t.Fatalf("value %d: %d modules", v, len(s))
		}
		if s[0] != '1' {
			t.Fatalf("value %d does not start with a bar", v)
		}
		if v < 106 && s[10] != '0' {
			t.Fatalf("value %d does not end with a space", v)
		}
		dark := strings.Count(s, "1")
		if v < 106 && dark%2 != 0 {
			t.Fatalf("value %d: bar modules %d not even", v, dark)
		}
		if o, dup := seen[s]; dup {
			t.Fatalf("value %d duplicates %d", v, o)
		}
		seen[s] = v
		w := c128Widths[v]
		for i := 0; i < len(w); i++ {
			if w[i] < '1' || w[i] > '4' {
				t.Fatalf("value %d: element width %c", v, w[i])
			}
		}
	}
	// known module strings
	kat := map[int]string{
		0: "11011001100", 1: "11001101100", 2: "11001100110", 3: "10010011000",
		16: "10011101100", 33: "10100011000", 64: "10100001100", 65: "10010110000",
		95: "10111101000", 96: "10111100010", 97: "11110101000", 98: "11110100010", 99: "10111011110", 100: "10111101110", 101: "11101011110", 102: "11110101110",
		103: "11010000100", 104: "11010010000", 105: "11010011100", 106: "1100011101011",
	}
	for v, s := range kat {
		if p[v] != s {
			t.Errorf("value %d: %s want %s", v, p[v], s)
		}
	}
	// Self-checking property of the stop character read backwards is out of
	// scope; but no 11-module window of a concatenation problem: the stop's
	// first 11 modules are not a symbol character.
	if _, dup := seen[p[106][:11]]; dup {
		t.Fatal("stop prefix collides with a symbol character")
	}
}

func c128Render(values []int) []bool {
	p := C128Patterns()
	var sb strings.Builder
	for _, v := range values {
		sb.WriteString(p[v])
	}
	return toBars(sb.String())
}

func TestC128KnownAnswer(t *testing.T) {
	// Wikipedia example "PJJ123C": Start A, check value 54.
	vals := []int{103, 48, 42, 42, 17, 18, 19, 35}
	if c := C128Checksum(vals); c != 54 {
		t.Fatalf("checksum %d want 54", c)
	}
	txt, err := C128DecodeValues(vals)
	if err != nil || string(txt) != "PJJ123C" {
		t.Fatalf("%q %v", string(txt), err)
	}
	bars := c128Render(append(append([]int{}, vals...), 54, 106))
	r, err := C128Decode(bars, true)
	if err != nil || string(r.Text) != "PJJ123C" || r.Check != 54 || len(r.Values) != 9 {
		t.Fatalf("%+v %v", r, err)
	}
	// without checksum: the 54 ('V') becomes data
	r, err = C128Decode(bars, false)
	if err != nil || string(r.Text) != "PJJ123CV" {
		t.Fatalf("%+v %v", r, err)
	}
	// wrong check
	bars = c128Render(append(append([]int{}, vals...), 55, 106))
	if _, err = C128Decode(bars, true); err == nil {
		t.Fatal("bad check accepted")
	}
	// GS1-128 style: Start C FNC1 "0101" ... ; set switches and shift
	cases := []struct {
		v    []int
		want string
	}{
		{[]int{105, 102, 1, 23, 45}, "ñ012345"},
		{[]int{105, 12, 34, 100, 33, 66}, "1234Ab"},
		{[]int{105, 12, 101, 65, 33}, "12\x01A"},
		{[]int{104, 33, 98, 65, 66}, "A\x01b"},           // B, SHIFT -> A for one char
		{[]int{103, 33, 98, 65, 65}, "Aa\x01"},           // A, SHIFT -> B for one char
		{[]int{103, 101, 100, 100, 101, 99, 99}, "ôô99"}, // FNC4(A) CODEB FNC4(B) CODEA CODEC "99"
		{[]int{104, 96, 97, 102, 95}, "óòñ\x7f"},
		{[]int{103, 0, 63, 64, 95}, " _\x00\x1f"},
	}
	for _, c := range cases {
		got, err := C128DecodeValues(c.v)
		if err != nil || string(got) != c.want {
			t.Errorf("%v: %q %v want %q", c.v, string(got), err, c.want)
		}
	}
	bad := [][]int{
		{}, {0, 1}, {103, 103}, {104, 106}, {104, 98}, {104, 98, 98, 1}, {103, 98, 101}, {103, 107}, {103, -1},
	}
	for _, v := range bad {
		if _, err := C128DecodeValues(v); err == nil {
			t.Errorf("%v accepted", v)
		}
	}
	// malformed module strings never panic
	rng := rand.New(rand.NewSource(1))
	for i := 0; i < 2000; i++ {
		b := make([]bool, rng.Intn(60))
		for j := range b {
			b[j] = rng.Intn(2) == 0
		}
		C128Decode(b, i%2 == 0)
		C39Decode(b)
		C93Decode(b)
		CodabarDecode(b)
		TwoOfFiveDecode(b, i%2 == 0)
		EANDecode(b)
	}
}

// ---------------------------------------------------------------- Code 39

func TestC39Table(t *testing.T) {
	tab := C39Table()
	if len(tab) != 44 {
		t.Fatalf("%d entries", len(tab))
	}
	// Independent cross reference: the widely published 9-bit constants
	// (MSB = first bar, 1 = wide) for "0-9A-Z-. $/+%" and '*'.
	hex := []int{
		0x034, 0x121, 0x061, 0x160, 0x031, 0x130, 0x070, 0x025, 0x124, 0x064,
		0x109, 0x049, 0x148, 0x019, 0x118, 0x058, 0x00D, 0x10C, 0x04C, 0x01C,
		0x103, 0x043, 0x142, 0x013, 0x112, 0x052, 0x007, 0x106, 0x046, 0x016,
		0x181, 0x0C1, 0x1C0, 0x091, 0x190, 0x0D0, 0x085, 0x184, 0x0C4, 0x0A8,
		0x0A2, 0x08A, 0x02A,
	}
	conv := func(h int) string {
		b := make([]byte, 9)
		for i := 0; i < 9; i++ {
			if h>>(8-i)&1 == 1 {
				b[i] = 'w'
			} else {
				b[i] = 'n'
			}
		}
		return string(b)
	}
	for i, c := range c39Alphabet {
		if tab[c] != conv(hex[i]) {
			t.Errorf("%q: %s vs %s", c, tab[c], conv(hex[i]))
		}
		if v, ok := C39Value(c); !ok || v != i {
			t.Errorf("value %q = %d", c, v)
		}
	}
	if tab['*'] != conv(0x094) {
		t.Errorf("*: %s", tab['*'])
	}
	// Structure of the code (ISO/IEC 16388): two of five bars wide + one of
	// four spaces wide for 40 characters; no wide bar and three wide spaces
	// for $ / + %.
	barsOf := []string{"nnwwn", "wnnnw", "nwnnw", "wwnnn", "nnwnw", "wnwnn", "nwwnn", "nnnww", "wnnwn", "nwnwn"} // digit 0..9
	groups := []struct {
		chars string // in order 1..9,0
		space int
	}{
		{"1234567890", 1}, {"ABCDEFGHIJ", 2}, {"KLMNOPQRST", 3}, {"UVWXYZ-. *", 0},
	}
	for _, g := range groups {
		for i, c := range g.chars {
			d := (i + 1) % 10
			sp := []byte("nnnn")
			sp[g.space] = 'w'
			b := barsOf[d]
			want := string([]byte{b[0], sp[0], b[1], sp[1], b[2], sp[2], b[3], sp[3], b[4]})
			if tab[c] != want {
				t.Errorf("%q: %s want %s", c, tab[c], want)
			}
		}
	}
	for c, sp := range map[rune]string{'$': "wwwn", '/': "wwnw", '+': "wnww", '%': "nwww"} {
		want := string([]byte{'n', sp[0], 'n', sp[1], 'n', sp[2], 'n', sp[3], 'n'})
		if tab[c] != want {
			t.Errorf("%q: %s want %s", c, tab[c], want)
		}
	}
	seen := map[string]bool{}
	for _, p := range tab {
		if strings.Count(p, "w") != 3 || len(p) != 9 || seen[p] {
			t.Errorf("bad pattern %s", p)
		}
		seen[p] = true
	}
}

func c39Render(chars string, wide int) []bool {
	var parts []string
	for _, c := range chars {
		parts = append(parts, render(c39Table[c], wide))
	}
	return toBars(strings.Join(parts, "0"))
}

func TestC39RoundTrip(t *testing.T) {
	for _, wide := range []int{2, 3} {
		got, err := C39Decode(c39Render("*"+c39Alphabet+"*", wide))
		if err != nil || got != c39Alphabet {
			t.Fatalf("wide %d: %q %v", wide, got, err)
		}
	}
	if got, err := C39Decode(c39Render("**", 2)); err != nil || got != "" {
		t.Fatalf("%q %v", got, err)
	}
	for _, bad := range []string{"*A", "A*", "*A*B*", "*"} {
		if _, err := C39Decode(c39Render(bad, 3)); err == nil {
			t.Errorf("%q accepted", bad)
		}
	}
	// mixed ratio
	mixed := render(c39Table['*'], 2) + "0" + render(c39Table['A'], 3) + "0" + render(c39Table['*'], 2)
	if _, err := C39Decode(toBars(mixed)); err == nil {
		t.Error("mixed ratio accepted")
	}
	// wide gap
	gap := render(c39Table['*'], 2) + "00" + render(c39Table['*'], 2)
	if _, err := C39Decode(toBars(gap)); err == nil {
		t.Error("2 module gap accepted")
	}
}

func TestC39Check(t *testing.T) {
	// sum of all 43 values = 903 = 21*43 -> '0'
	if c, err := C39CheckChar(c39Alphabet); err != nil || c != '0' {
		t.Fatalf("%q %v", c, err)
	}
	// "CODE 39" -> 12+24+13+14+38+3+9 = 113 = 2*43+27 -> 'R'
	if c, _ := C39CheckChar("CODE 39"); c != 'R' {
		t.Fatalf("%q", c)
	}
	if _, err := C39CheckChar("a"); err == nil {
		t.Fatal("lower case accepted")
	}
	if _, err := C39CheckChar("*"); err == nil {
		t.Fatal("* accepted")
	}
}

// fullASCIIEncode is the full ASCII table written as a literal (ISO/IEC 16388
// annex / AIM USS-39 table), independent of fullASCIIPair.
var fullASCIIEnc = [128]string{
	"%U", "$A", "$B", "$C", "$D", "$E", "$F", "$G", "$H", "$I", "$J", "$K", "$L", "$M", "$N", "$O",
	"$P", "$Q", "$R", "$S", "$T", "$U", "$V", "$W", "$X", "$Y", "$Z", "%A", "%B", "%C", "%D", "%E",
	" ", "/A", "/B", "/C", "/D", "/E", "/F", "/G", "/H", "/I", "/J", "/K", "/L", "-", ".", "/O",
	"0", "1", "2", "3", "4", "5", "6", "7", "8", "9", "/Z", "%F", "%G", "%H", "%I", "%J",
	"%V", "A", "B", "C", "D", "E", "F", "G", "H", "I", "J", "K", "L", "M", "N", "O",
	"P", "Q", "R", "S", "T", "U", "V", "W", "X", "Y", "Z", "%K", "%L", "%M", "%N", "%O",
	"%W", "+A", "+B", "+C", "+D", "+E", "+F", "+G", "+H", "+I", "+J", "+K", "+L", "+M", "+N", "+O",
	"+P", "+Q", "+R", "+S", "+T", "+U", "+V", "+W", "+X", "+Y", "+Z", "%P", "%Q", "%R", "%S", "%T",
}

func TestFullASCII(t *testing.T) {
	var enc strings.Builder
	var want []byte
	for i := 0; i < 128; i++ {
		enc.WriteString(fullASCIIEnc[i])
		want = append(want, byte(i))
	}
	got, err := C39FullASCIIDecode(enc.String())
	if err != nil || !bytes.Equal(got, want) {
		t.Fatalf("%q %v", got, err)
	}
	// Code 93: same with shift characters
	var vals []int
	for i := 0; i < 128; i++ {
		e := fullASCIIEnc[i]
		if len(e) == 2 {
			vals = append(vals, 43+strings.IndexByte("$%/+", e[0]))
			v, _ := C93Value(rune(e[1]))
			vals = append(vals, v)
		} else {
			v, _ := C93Value(rune(e[0]))
			vals = append(vals, v)
		}
	}
	got, err = C93FullASCIIDecode(vals)
	if err != nil || !bytes.Equal(got, want) {
		t.Fatalf("%q %v", got, err)
	}
	// native $ / + % in code 93
	got, err = C93FullASCIIDecode([]int{39, 40, 41, 42})
	if err != nil || string(got) != "$/+%" {
		t.Fatalf("%q %v", got, err)
	}
	for _, bad := range []string{"$", "A+", "$1", "/P", "%%", "a", "*"} {
		if _, err := C39FullASCIIDecode(bad); err == nil {
			t.Errorf("%q accepted", bad)
		}
	}
	for _, alt := range []struct{ in, out string }{{"%X%Y%Z", "\x7f\x7f\x7f"}, {"/M/N", "-."}} {
		got, err := C39FullASCIIDecode(alt.in)
		if err != nil || string(got) != alt.out {
			t.Errorf("%q: %q %v", alt.in, got, err)
		}
	}
	for _, bad := range [][]int{{43}, {43, 1}, {45, 25}, {47}, {-1}, {44, 44}} {
		if _, err := C93FullASCIIDecode(bad); err == nil {
			t.Errorf("%v accepted", bad)
		}
	}
}

// ---------------------------------------------------------------- Code 93

func TestC93Table(t *testing.T) {
	tab := C93Table()
	if len(tab) != 48 {
		t.Fatalf("%d entries", len(tab))
	}
	// Independent cross reference: widely published 9-bit constants in
	// value order 0..46 followed by '*'.
	hex := []int{
		0x114, 0x148, 0x144, 0x142, 0x128, 0x124, 0x122, 0x150, 0x112, 0x10A,
		0x1A8, 0x1A4, 0x1A2, 0x194, 0x192, 0x18A, 0x168, 0x164, 0x162, 0x134,
		0x11A, 0x158, 0x14C, 0x146, 0x12C, 0x116, 0x1B4, 0x1B2, 0x1AC, 0x1A6,
		0x196, 0x19A, 0x16C, 0x166, 0x136, 0x13A,
		0x12E, 0x1D4, 0x1D2, 0x1CA, 0x16E, 0x176, 0x1AE,
		0x126, 0x1DA, 0x1D6, 0x132, 0x15E,
	}
	seen := map[string]bool{}
	for i, c := range c93Alphabet + "*" {
		want := fmt.Sprintf("%09b", hex[i])
		if tab[c] != want {
			t.Errorf("%q: %s vs %s", c, tab[c], want)
		}
		p := tab[c]
		if len(p) != 9 || p[0] != '1' || p[8] != '0' || seen[p] {
			t.Errorf("%q: bad pattern %s", c, p)
		}
		seen[p] = true
		// three bars, three spaces
		tr := 0
		for j := 1; j < 9; j++ {
			if p[j] != p[j-1] {
				tr++
			}
		}
		if tr != 5 {
			t.Errorf("%q: %s has %d transitions", c, p, tr)
		}
		if strings.Contains(p, "11111") || strings.Contains(p, "00000") {
			t.Errorf("%q: element wider than 4", c)
		}
		if i < 47 {
			if v, ok := C93Value(c); !ok || v != i {
				t.Errorf("value %q", c)
			}
		}
	}
	if _, ok := C93Value('*'); ok {
		t.Error("* has a value")
	}
}

func c93Render(values []int) []bool {
	var sb strings.Builder
	sb.WriteString(c93Table['*'])
	for _, v := range values {
		sb.WriteString(c93Table[rune(c93Alphabet[v])])
	}
	sb.WriteString(c93Table['*'])
	sb.WriteString("1")
	return toBars(sb.String())
}

func TestC93KnownAnswer(t *testing.T) {
	// "TEST93" -> C = '+' (41), K = '6' (6)
	var vals []int
	for _, c := range "TEST93" {
		v, _ := C93Value(c)
		vals = append(vals, v)
	}
	c, k := C93Checks(vals)
	if c != 41 || k != 6 {
		t.Fatalf("C=%d K=%d", c, k)
	}
	all := append(append([]int{}, vals...), c, k)
	got, err := C93Decode(c93Render(all))
	if err != nil || fmt.Sprint(got) != fmt.Sprint(all) {
		t.Fatalf("%v %v", got, err)
	}
	// weights wrap: 21 data characters of value 1: C = (1+..+20)+1 = 211 mod 47 = 23
	ones := make([]int, 21)
	for i := range ones {
		ones[i] = 1
	}
	c, k = C93Checks(ones)
	if c != 211%47 {
		t.Fatalf("C=%d", c)
	}
	// K over 21 ones + C: weights 1 (C), then 1..15 wrap: ones get 2..15,1..7
	wantK := (c*1 + (2+15)*14/2 + (1+7)*7/2) % 47
	if k != wantK {
		t.Fatalf("K=%d want %d", k, wantK)
	}
	b := c93Render(all)
	if _, err := C93Decode(b[:len(b)-1]); err == nil {
		t.Error("missing termination bar accepted")
	}
	b[len(b)-1] = false
	if _, err := C93Decode(b); err == nil {
		t.Error("light termination bar accepted")
	}
	if got, err := C93Decode(c93Render(nil)); err != nil || len(got) != 0 {
		t.Errorf("%v %v", got, err)
	}
}

// ---------------------------------------------------------------- Codabar

func TestCodabarTable(t *testing.T) {
	tab := CodabarTable()
	lit := map[rune]string{
		'0': "101010011", '1': "101011001", '2': "101001011", '3': "110010101",
		'4': "101101001", '5': "110101001", '6': "100101011", '7': "100101101",
		'8': "100110101", '9': "110100101", '-': "101001101", '$': "101100101",
		':': "1101011011", '/': "1101101011", '.': "1101101101", '+': "1011011011",
		'A': "1011001001", 'B': "1001001011", 'C': "1010010011", 'D': "1010011001",
	}
	if len(tab) != 20 {
		t.Fatalf("%d entries", len(tab))
	}
	for r, s := range lit {
		if tab[r] != s {
			t.Errorf("%q: %s want %s", r, tab[r], s)
		}
	}
	// second cross reference: element widths incl. gap, set "0123456789-$:/.+ABCD"
	widths := []string{"11111221", "11112211", "11121121", "22111111", "11211211", "21111211", "12111121", "12112111", "12211111", "21121111", "11122111", "11221111", "21112121", "21211121", "21212111", "11212121", "11221211", "12121121", "11121221", "11122211"}
	for i, c := range codabarData + "ABCD" {
		w := strings.NewReplacer("1", "n", "2", "w").Replace(widths[i][:7])
		if codabarElems[c] != w {
			t.Errorf("%q: %s vs %s", c, codabarElems[c], w)
		}
	}
	var sb []string
	all := "A" + codabarData + "D"
	for _, c := range all {
		sb = append(sb, tab[c])
	}
	got, err := CodabarDecode(toBars(strings.Join(sb, "0")))
	if err != nil || got != all {
		t.Fatalf("%q %v", got, err)
	}
	for _, bad := range []string{"A", "1A", "A1", "AB1C", "12"} {
		var p []string
		for _, c := range bad {
			p = append(p, tab[c])
		}
		if _, err := CodabarDecode(toBars(strings.Join(p, "0"))); err == nil {
			t.Errorf("%q accepted", bad)
		}
	}
	if _, err := CodabarDecode(toBars(tab['A'] + "00" + tab['B'])); err == nil {
		t.Error("wide gap accepted")
	}
}

// ---------------------------------------------------------------- 2 of 5

func TestTwoOfFive(t *testing.T) {
	p := TwoOfFiveDigitPatterns()
	weights := []int{1, 2, 4, 7, 0}
	for d, s := range p {
		if strings.Count(s, "w") != 2 || len(s) != 5 {
			t.Fatalf("digit %d: %s", d, s)
		}
		sum := 0
		for i := range s {
			if s[i] == 'w' {
				sum += weights[i]
			}
		}
		if sum == 11 {
			sum = 0
		}
		if sum != d {
			t.Errorf("digit %d pattern %s has weight %d", d, s, sum)
		}
	}
	for _, wide := range []int{2, 3} {
		// interleaved
		el := itfStart
		digits := "0123456789384756"
		for i := 0; i < len(digits); i += 2 {
			a, b := p[digits[i]-'0'], p[digits[i+1]-'0']
			for j := 0; j < 5; j++ {
				el += string(a[j]) + string(b[j])
			}
		}
		el += itfStop
		got, err := TwoOfFiveDecode(toBars(render(el, wide)), true)
		if err != nil || got != digits {
			t.Fatalf("itf wide %d: %q %v", wide, got, err)
		}
		if _, err := TwoOfFiveDecode(toBars(render(el, wide)), false); err == nil {
			t.Error("ITF decoded as standard")
		}
		// standard
		el = std25Strt
		digits = "01234567895"
		for i := 0; i < len(digits); i++ {
			a := p[digits[i]-'0']
			for j := 0; j < 5; j++ {
				el += string(a[j]) + "n"
			}
		}
		el += std25Stop
		got, err = TwoOfFiveDecode(toBars(render(el, wide)), false)
		if err != nil || got != digits {
			t.Fatalf("std wide %d: %q %v", wide, got, err)
		}
		if _, err := TwoOfFiveDecode(toBars(render(el, wide)), true); err == nil {
			t.Error("standard decoded as ITF")
		}
	}
	// mixed ratio: strict rejects, lenient accepts
	mixed := render(std25Strt, 2) + render("wnnnnnnnwn", 3) + render(std25Stop, 2) // digit 1
	if _, err := TwoOfFiveDecode(toBars(mixed), false); err == nil {
		t.Error("mixed ratio accepted by strict decoder")
	}
	if got, err := TwoOfFiveDecodeLenient(toBars(mixed), false); err != nil || got != "1" {
		t.Errorf("lenient: %q %v", got, err)
	}
	if render(itfStart, 2) != "1010" || render(itfStop, 2) != "1101" || render(std25Strt, 2) != "11011010" || render(std25Stop, 2) != "1101011" {
		t.Error("start/stop rendering")
	}
	// check digit: "1234567" -> 0 ; GTIN-14 "1540014128876" -> 3 ; "0" -> 0; "1" -> 7
	for in, want := range map[string]byte{"1234567": '0', "1540014128876": '3', "": '0', "1": '7', "400638133393": '1'} {
		got, err := TwoOfFiveCheckDigit(in)
		if err != nil || got != want {
			t.Errorf("%q: %c %v want %c", in, got, err, want)
		}
	}
	if _, err := TwoOfFiveCheckDigit("12a"); err == nil {
		t.Error("non digit accepted")
	}
}

// ---------------------------------------------------------------- EAN

func eanRender(d string) string {
	var sb strings.Builder
	sb.WriteString("101")
	if len(d) == 8 {
		for i := 0; i < 4; i++ {
			sb.WriteString(eanSetA[d[i]-'0'])
		}
		sb.WriteString("01010")
		for i := 4; i < 8; i++ {
			sb.WriteString(eanSetC[d[i]-'0'])
		}
	} else {
		par := eanParity[d[0]-'0']
		for i := 1; i < 7; i++ {
			if par[i-1] == 'A' {
				sb.WriteString(eanSetA[d[i]-'0'])
			} else {
				sb.WriteString(eanSetB[d[i]-'0'])
			}
		}
		sb.WriteString("01010")
		for i := 7; i < 13; i++ {
			sb.WriteString(eanSetC[d[i]-'0'])
		}
	}
	sb.WriteString("101")
	return sb.String()
}

func TestEAN(t *testing.T) {
	for d := 0; d < 10; d++ {
		a, b, c := eanSetA[d], eanSetB[d], eanSetC[d]
		for i := 0; i < 7; i++ {
			if a[i] == c[i] {
				t.Errorf("digit %d: C is not the complement of A", d)
			}
			if b[i] != c[6-i] {
				t.Errorf("digit %d: B is not C mirrored", d)
			}
		}
		if strings.Count(a, "1")%2 != 1 || strings.Count(b, "1")%2 != 0 || strings.Count(c, "1")%2 != 0 {
			t.Errorf("digit %d: parity", d)
		}
		// two bars, two spaces
		tr := 0
		for i := 1; i < 7; i++ {
			if a[i] != a[i-1] {
				tr++
			}
		}
		if tr != 3 || a[0] != '0' || a[6] != '1' {
			t.Errorf("digit %d: structure of %s", d, a)
		}
		if eanParity[d][0] != 'A' || (d > 0 && strings.Count(eanParity[d], "B") != 3) {
			t.Errorf("parity pattern %d", d)
		}
	}
	// run-length form of set A from the GS1 table: 3211 2221 2122 1411 1132 1231 1114 1312 1213 3112
	rl := []string{"3211", "2221", "2122", "1411", "1132", "1231", "1114", "1312", "1213", "3112"}
	for d, w := range rl {
		var sb strings.Builder
		for i := 0; i < 4; i++ {
			sb.WriteString(strings.Repeat(string("01"[i%2]), int(w[i]-'0')))
		}
		if sb.String() != eanSetA[d] {
			t.Errorf("digit %d: %s vs widths %s", d, eanSetA[d], w)
		}
	}
	for _, full := range []string{"4006381333931", "5901234123457", "9780201379624", "73513537", "96385074", "0012345678905", "1234567890128", "2222222222222"} {
		cd, err := EANCheckDigit(full[:len(full)-1])
		if err != nil || cd != full[len(full)-1] {
			t.Errorf("%s: check %c %v", full, cd, err)
		}
		got, err := EANDecode(toBars(eanRender(full)))
		if err != nil || got != full {
			t.Errorf("%s: %q %v", full, got, err)
		}
	}
	// wrong check digit
	if _, err := EANDecode(toBars(eanRender("4006381333932"))); err == nil {
		t.Error("bad check digit accepted")
	}
	if _, err := EANCheckDigit("123"); err == nil {
		t.Error("3 digits accepted")
	}
	if _, err := EANCheckDigit("123456x"); err == nil {
		t.Error("non digit accepted")
	}
	// known full module string for EAN-8 "55123457"? build by hand for 73513537 left half
	s := eanRender("73513537")
	if s[:3+28] != "101"+"0111011"+"0111101"+"0110001"+"0011001" {
		t.Errorf("ean-8 left half %s", s[:31])
	}
	// all first digits
	rng := rand.New(rand.NewSource(2))
	for i := 0; i < 500; i++ {
		n := 7
		if i%2 == 0 {
			n = 12
		}
		b := make([]byte, n)
		for j := range b {
			b[j] = byte('0' + rng.Intn(10))
		}
		if n == 12 {
			b[0] = byte('0' + i/2%10)
		}
		cd, _ := EANCheckDigit(string(b))
		full := string(b) + string(cd)
		got, err := EANDecode(toBars(eanRender(full)))
		if err != nil || got != full {
			t.Fatalf("%s: %q %v", full, got, err)
		}
	}
}
