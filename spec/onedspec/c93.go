package onedspec

import "fmt"

// Code 93 character set in value order 0..46.  The four shift characters
// ($) (%) (/) (+) (values 43..46) are represented by the runes 'a', 'b', 'c',
// 'd' respectively; the start/stop character is '*' (it has no value).
const c93Alphabet = "0123456789ABCDEFGHIJKLMNOPQRSTUVWXYZ-. $/+%abcd"

// Runes used for the Code 93 shift characters.
const (
	C93ShiftDollar  = 'a' // ($), value 43
	C93ShiftPercent = 'b' // (%), value 44
	C93ShiftSlash   = 'c' // (/), value 45
	C93ShiftPlus    = 'd' // (+), value 46
)

// c93Table: 9 modules per character, 3 bars and 3 spaces (AIM USS-93 table).
var c93Table = map[rune]string{
	'0': "100010100", '1': "101001000", '2': "101000100", '3': "101000010",
	'4': "100101000", '5': "100100100", '6': "100100010", '7': "101010000",
	'8': "100010010", '9': "100001010",
	'A': "110101000", 'B': "110100100", 'C': "110100010", 'D': "110010100",
	'E': "110010010", 'F': "110001010", 'G': "101101000", 'H': "101100100",
	'I': "101100010", 'J': "100110100", 'K': "100011010", 'L': "101011000",
	'M': "101001100", 'N': "101000110", 'O': "100101100", 'P': "100010110",
	'Q': "110110100", 'R': "110110010", 'S': "110101100", 'T': "110100110",
	'U': "110010110", 'V': "110011010", 'W': "101101100", 'X': "101100110",
	'Y': "100110110", 'Z': "100111010",
	'-': "100101110", '.': "111010100", ' ': "111010010", '$': "111001010",
	'/': "101101110", '+': "101110110", '%': "110101110",
	'a': "100100110", // ($)
	'b': "111011010", // (%)
	'c': "111010110", // (/)
	'd': "100110010", // (+)
	'*': "101011110", // start/stop
}

// C93Table returns the Code 93 character set: 43 data characters, the four
// shift characters ($)='a', (%)='b', (/)='c', (+)='d', and start/stop '*', each
// as a 9-module string.  A symbol ends with the stop character followed by a
// one-module termination bar.
func C93Table() map[rune]string {
	m := make(map[rune]string, len(c93Table))
	for k, v := range c93Table {
		m[k] = v
	}
	return m
}

// C93Value returns the value 0..46 of a Code 93 character (shift characters as
// 'a'..'d').
func C93Value(r rune) (int, bool) {
	for i, c := range c93Alphabet {
		if c == r {
			return i, true
		}
	}
	return 0, false
}

// C93Decode decodes a Code 93 module string: start '*', symbol characters,
// stop '*', termination bar.  It returns the values of the characters between
// start and stop (including the check characters C and K if present; use
// C93Checks to verify them).
func C93Decode(bars []bool) ([]int, error) {
	const what = "code93"
	n := len(bars)
	if n < 19 {
		return nil, fmt.Errorf("%s: %d modules is too short for start + stop + termination bar (19 modules)", what, n)
	}
	if (n-1)%9 != 0 {
		return nil, fmt.Errorf("%s: %d modules is not 9*k+1 (9-module characters followed by the termination bar)", what, n)
	}
	if !bars[n-1] {
		return nil, fmt.Errorf("%s: termination bar missing: last module %d is light", what, n-1)
	}
	rev := make(map[string]rune, len(c93Table))
	for r, p := range c93Table {
		rev[p] = r
	}
	s := modString(bars)
	k := (n - 1) / 9
	values := make([]int, 0, k)
	for i := 0; i < k; i++ {
		p := s[i*9 : i*9+9]
		r, ok := rev[p]
		if !ok {
			return nil, fmt.Errorf("%s: character %d (module offset %d) has pattern %s which is not a Code 93 character", what, i, i*9, p)
		}
		if i == 0 || i == k-1 {
			if r != '*' {
				which := "first"
				if i != 0 {
					which = "last"
				}
				return nil, fmt.Errorf("%s: %s character is %q, expected start/stop '*'", what, which, r)
			}
			continue
		}
		if r == '*' {
			return nil, fmt.Errorf("%s: start/stop character at data position %d", what, i-1)
		}
		v, _ := C93Value(r)
		values = append(values, v)
	}
	return values, nil
}

// C93Checks computes the two Code 93 check characters for the data values:
// C = sum(w_i*v_i) mod 47 with weights 1..20 repeating from the right; K is
// computed the same way over data followed by C with weights 1..15.
func C93Checks(values []int) (c, k int) {
	weighted := func(vs []int, maxW int) int {
		sum := 0
		w := 1
		for i := len(vs) - 1; i >= 0; i-- {
			sum += w * vs[i]
			w++
			if w > maxW {
				w = 1
			}
		}
		return sum % 47
	}
	c = weighted(values, 20)
	withC := append(append(make([]int, 0, len(values)+1), values...), c)
	k = weighted(withC, 15)
	return c, k
}

// C93FullASCIIDecode converts data values (without check characters) to
// text: values 0..42 stand for their character, a shift character 43..46
// followed by A..Z forms a pair from the full ASCII table (same table as
// Code 39 with ($) (%) (/) (+) in place of $ % / +).
func C93FullASCIIDecode(values []int) ([]byte, error) {
	out := make([]byte, 0, len(values))
	for i := 0; i < len(values); i++ {
		v := values[i]
		if v < 0 || v > 46 {
			return nil, fmt.Errorf("code93: value %d at position %d is outside 0..46", v, i)
		}
		if v <= 42 {
			out = append(out, c93Alphabet[v])
			continue
		}
		if i+1 >= len(values) {
			return nil, fmt.Errorf("code93 full ASCII: shift character (value %d) at position %d is the last character", v, i)
		}
		nx := values[i+1]
		if nx < 10 || nx > 35 {
			return nil, fmt.Errorf("code93 full ASCII: shift character (value %d) at position %d is followed by value %d which is not a letter A..Z", v, i, nx)
		}
		shift := "$%/+"[v-43]
		b, ok := fullASCIIPair(shift, c93Alphabet[nx])
		if !ok {
			return nil, fmt.Errorf("code93 full ASCII: pair (%c)%c at position %d is not defined in the full ASCII table", shift, c93Alphabet[nx], i)
		}
		out = append(out, b)
		i++
	}
	return out, nil
}
