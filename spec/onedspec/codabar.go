package onedspec

import (
	"fmt"
	"strings"
)

// codabarElems: seven elements bar,space,bar,space,bar,space,bar; 'n' narrow,
// 'w' wide (EN 798 table; the same set as AIM USS-Codabar / NW-7).
//   - 0-9, '-', '$': one wide bar and one wide space
//   - ':', '/', '.', '+': three wide bars
//   - start/stop A, B, C, D: one wide bar and two wide spaces
var codabarElems = map[rune]string{
	'0': "nnnnnww", '1': "nnnnwwn", '2': "nnnwnnw", '3': "wwnnnnn",
	'4': "nnwnnwn", '5': "wnnnnwn", '6': "nwnnnnw", '7': "nwnnwnn",
	'8': "nwwnnnn", '9': "wnnwnnn", '-': "nnnwwnn", '$': "nnwwnnn",
	':': "wnnnwnw", '/': "wnwnnnw", '.': "wnwnwnn", '+': "nnwnwnw",
	'A': "nnwwnwn", 'B': "nwnwnnw", 'C': "nnnwnww", 'D': "nnnwwwn",
}

const codabarData = "0123456789-$:/.+"

// CodabarTable returns the 20 Codabar characters as module strings with
// narrow = 1 module and wide = 2 modules, e.g. '0' -> "101010011".
func CodabarTable() map[rune]string {
	m := make(map[rune]string, len(codabarElems))
	for r, el := range codabarElems {
		var b strings.Builder
		for i := 0; i < len(el); i++ {
			c := "1"
			if i%2 == 1 {
				c = "0"
			}
			b.WriteString(c)
			if el[i] == 'w' {
				b.WriteString(c)
			}
		}
		m[r] = b.String()
	}
	return m
}

// CodabarDecode decodes a Codabar module string (narrow = 1 module, wide = 2
// modules, intercharacter gap = one narrow space).  The result includes the
// start and stop characters, e.g. "A1234B".
func CodabarDecode(bars []bool) (string, error) {
	const what = "codabar"
	runs, err := runLengths(bars, what)
	if err != nil {
		return "", err
	}
	if (len(runs)+1)%8 != 0 {
		return "", fmt.Errorf("%s: %d elements; expected 8*k-1 (k characters of 7 elements separated by k-1 gaps)", what, len(runs))
	}
	k := (len(runs) + 1) / 8
	if k < 2 {
		return "", fmt.Errorf("%s: only %d character(s); start and stop characters are required", what, k)
	}
	pos := 0
	for i, r := range runs {
		if r != 1 && r != 2 {
			return "", fmt.Errorf("%s: element %d (module offset %d) is %d modules wide, expected 1 (narrow) or 2 (wide)", what, i, pos, r)
		}
		pos += r
	}
	rev := make(map[string]rune, len(codabarElems))
	for r, p := range codabarElems {
		rev[p] = r
	}
	out := make([]rune, 0, k)
	for i := 0; i < k; i++ {
		p := nw(runs[i*8 : i*8+7])
		r, ok := rev[p]
		if !ok {
			return "", fmt.Errorf("%s: character %d has element pattern %s which is not a Codabar character", what, i, p)
		}
		if i < k-1 && runs[i*8+7] != 1 {
			return "", fmt.Errorf("%s: intercharacter gap after character %d is %d modules, expected 1", what, i, runs[i*8+7])
		}
		isStartStop := r >= 'A' && r <= 'D'
		if i == 0 || i == k-1 {
			if !isStartStop {
				which := "first"
				if i != 0 {
					which = "last"
				}
				return "", fmt.Errorf("%s: %s character is %q, expected a start/stop character A, B, C or D", what, which, r)
			}
		} else if isStartStop {
			return "", fmt.Errorf("%s: start/stop character %q at inner position %d; only %s allowed between start and stop", what, r, i, codabarData)
		}
		out = append(out, r)
	}
	return string(out), nil
}
