// Package onedspec is an independent reference decoder ("oracle") for the
// linear symbologies Code 128 (ISO/IEC 15417), Code 39 (ISO/IEC 16388, incl.
// full ASCII), Code 93 (AIM USS-93, incl. full ASCII), Codabar (EN 798 / NW-7),
// Standard (Industrial) and Interleaved 2 of 5 (ISO/IEC 16390 for ITF) and
// EAN-8 / EAN-13 (GS1 General Specifications, ISO/IEC 15420).
//
// Every decoder takes the symbol as a module string: bars[i] == true means that
// module i is dark.  There is one entry per module (X dimension), no quiet
// zone.  All tables are written out as literals from the standards.  The
// package does not import the library under test.
//
// Conventions for the two-width symbologies (Code 39, 2 of 5): the narrow
// element is exactly one module; the wide element is W modules where W is 2 or
// 3 (the standards allow N = 2.0 .. 3.0) and W must be the same for every wide
// element of the symbol.  Codabar is fixed at narrow = 1, wide = 2 as the
// package contract says.
package onedspec

import "fmt"

// runLengths converts a module string into run lengths.  The first run is a
// dark run.  A symbol must begin and end with a dark module (no quiet zone in
// the input).
func runLengths(bars []bool, what string) ([]int, error) {
	if len(bars) == 0 {
		return nil, fmt.Errorf("%s: empty module string", what)
	}
	if !bars[0] {
		return nil, fmt.Errorf("%s: module 0 is light; a symbol must begin with a bar (no quiet zone expected)", what)
	}
	if !bars[len(bars)-1] {
		return nil, fmt.Errorf("%s: last module %d is light; a symbol must end with a bar (no quiet zone expected)", what, len(bars)-1)
	}
	var runs []int
	n := 1
	for i := 1; i < len(bars); i++ {
		if bars[i] == bars[i-1] {
			n++
		} else {
			runs = append(runs, n)
			n = 1
		}
	}
	runs = append(runs, n)
	return runs, nil
}

// wideWidth determines the width W (2 or 3 modules) of the wide elements of a
// two-width symbol: every run must be 1 or W modules.
func wideWidth(runs []int, what string) (int, error) {
	w := 0
	for _, r := range runs {
		if r > w {
			w = r
		}
	}
	if w < 2 {
		return 0, fmt.Errorf("%s: no wide element found (all runs are 1 module)", what)
	}
	if w > 3 {
		return 0, fmt.Errorf("%s: a run of %d modules exceeds the maximum wide:narrow ratio 3:1", what, w)
	}
	pos := 0
	for i, r := range runs {
		if r != 1 && r != w {
			return 0, fmt.Errorf("%s: element %d (module offset %d) is %d modules wide, but elements must be 1 (narrow) or %d (wide) modules: inconsistent wide:narrow ratio", what, i, pos, r, w)
		}
		pos += r
	}
	return w, nil
}

// nw renders runs as an 'n'/'w' string.
func nw(runs []int) string {
	b := make([]byte, len(runs))
	for i, r := range runs {
		if r == 1 {
			b[i] = 'n'
		} else {
			b[i] = 'w'
		}
	}
	return string(b)
}

func modString(bars []bool) string {
	b := make([]byte, len(bars))
	for i, v := range bars {
		if v {
			b[i] = '1'
		} else {
			b[i] = '0'
		}
	}
	return string(b)
}
