package onedspec

import "fmt"

// EAN/UPC number sets (GS1 General Specifications 5.2.1.2.1): 7 modules per
// digit.  Set A ("L", odd parity) starts light and ends dark; set B ("G", even
// parity) is set C mirrored; set C ("R") is the complement of set A.
var eanSetA = [10]string{
	"0001101", "0011001", "0010011", "0111101", "0100011",
	"0110001", "0101111", "0111011", "0110111", "0001011",
}
var eanSetB = [10]string{
	"0100111", "0110011", "0011011", "0100001", "0011101",
	"0111001", "0000101", "0010001", "0001001", "0010111",
}
var eanSetC = [10]string{
	"1110010", "1100110", "1101100", "1000010", "1011100",
	"1001110", "1010000", "1000100", "1001000", "1110100",
}

// eanParity: number sets of the six left-hand digits of EAN-13 as a function
// of the leading (implicitly encoded) digit.
var eanParity = [10]string{
	"AAAAAA", "AABABB", "AABBAB", "AABBBA", "ABAABB",
	"ABBAAB", "ABBBAA", "ABABAB", "ABABBA", "ABBABA",
}

// EANCheckDigit computes the GS1 modulo 10 check digit for 7 (EAN-8) or 12
// (EAN-13) data digits: weights 3,1,3,... starting with 3 at the rightmost
// data digit.
func EANCheckDigit(data string) (byte, error) {
	if len(data) != 7 && len(data) != 12 {
		return 0, fmt.Errorf("ean: %d data digits, expected 7 (EAN-8) or 12 (EAN-13)", len(data))
	}
	return mod10Weight3(data, "ean")
}

func eanLookup(set *[10]string, p string) (byte, bool) {
	for d, q := range set {
		if q == p {
			return byte('0' + d), true
		}
	}
	return 0, false
}

// EANDecode decodes an EAN-8 (67 modules) or EAN-13 (95 modules) module string
// and returns all 8 / 13 digits.  Guard patterns, number sets, the EAN-13
// parity pattern and the check digit are verified.
func EANDecode(bars []bool) (string, error) {
	var half int // digits per half
	var what string
	switch len(bars) {
	case 67:
		half, what = 4, "ean-8"
	case 95:
		half, what = 6, "ean-13"
	default:
		return "", fmt.Errorf("ean: %d modules, expected 67 (EAN-8) or 95 (EAN-13)", len(bars))
	}
	s := modString(bars)
	if s[:3] != "101" {
		return "", fmt.Errorf("%s: left guard is %s, expected 101", what, s[:3])
	}
	mid := 3 + 7*half
	if s[mid:mid+5] != "01010" {
		return "", fmt.Errorf("%s: centre guard (module offset %d) is %s, expected 01010", what, mid, s[mid:mid+5])
	}
	if s[len(s)-3:] != "101" {
		return "", fmt.Errorf("%s: right guard is %s, expected 101", what, s[len(s)-3:])
	}
	digits := make([]byte, 0, 13)
	parity := make([]byte, 0, 6)
	for i := 0; i < half; i++ {
		off := 3 + 7*i
		p := s[off : off+7]
		if d, ok := eanLookup(&eanSetA, p); ok {
			digits = append(digits, d)
			parity = append(parity, 'A')
		} else if d, ok := eanLookup(&eanSetB, p); ok {
			if half == 4 {
				return "", fmt.Errorf("%s: left digit %d (module offset %d) %s is from number set B; EAN-8 uses only set A on the left", what, i, off, p)
			}
			digits = append(digits, d)
			parity = append(parity, 'B')
		} else {
			return "", fmt.Errorf("%s: left digit %d (module offset %d) has pattern %s which is in neither number set A nor B", what, i, off, p)
		}
	}
	for i := 0; i < half; i++ {
		off := mid + 5 + 7*i
		p := s[off : off+7]
		d, ok := eanLookup(&eanSetC, p)
		if !ok {
			return "", fmt.Errorf("%s: right digit %d (module offset %d) has pattern %s which is not in number set C", what, i, off, p)
		}
		digits = append(digits, d)
	}
	if half == 6 {
		first := -1
		for d, p := range eanParity {
			if p == string(parity) {
				first = d
			}
		}
		if first < 0 {
			return "", fmt.Errorf("%s: number set sequence %s of the left half does not encode any leading digit", what, parity)
		}
		digits = append([]byte{byte('0' + first)}, digits...)
	}
	n := len(digits)
	cd, err := EANCheckDigit(string(digits[:n-1]))
	if err != nil {
		return "", err
	}
	if cd != digits[n-1] {
		return "", fmt.Errorf("%s: check digit is %c, expected %c for %s", what, digits[n-1], cd, digits[:n-1])
	}
	return string(digits), nil
}
