package onedspec

import "fmt"

// Code 128 symbol values with special meaning (ISO/IEC 15417 table 1).
const (
	C128StartA = 103
	C128StartB = 104
	C128StartC = 105
	C128Stop   = 106
	C128CodeA  = 101 // in sets B and C
	C128CodeB  = 100 // in sets A and C
	C128CodeC  = 99  // in sets A and B
	C128Shift  = 98  // in sets A and B
	C128FNC1   = 102 // all sets
	C128FNC2   = 97  // sets A and B
	C128FNC3   = 96  // sets A and B
	C128FNC4A  = 101 // FNC4 in set A
	C128FNC4B  = 100 // FNC4 in set B

	// Runes used for the function characters in the decoded text.
	RuneFNC1 = 'ñ'
	RuneFNC2 = 'ò'
	RuneFNC3 = 'ó'
	RuneFNC4 = 'ô'
)

// c128Widths is ISO/IEC 15417 table 1: element widths B S B S B S (value 106,
// the stop character, has a seventh element: B S B S B S B).
var c128Widths = [107]string{
	"212222", "222122", "222221", "121223", "121322", // 0
	"131222", "122213", "122312", "132212", "221213", // 5
	"221312", "231212", "112232", "122132", "122231", // 10
	"113222", "123122", "123221", "223211", "221132", // 15
	"221231", "213212", "223112", "312131", "311222", // 20
	"321122", "321221", "312212", "322112", "322211", // 25
	"212123", "212321", "232121", "111323", "131123", // 30
	"131321", "112313", "132113", "132311", "211313", // 35
	"231113", "231311", "112133", "112331", "132131", // 40
	"113123", "113321", "133121", "313121", "211331", // 45
	"231131", "213113", "213311", "213131", "311123", // 50
	"311321", "331121", "312113", "312311", "332111", // 55
	"314111", "221411", "431111", "111224", "111422", // 60
	"121124", "121421", "141122", "141221", "112214", // 65
	"112412", "122114", "122411", "142112", "142211", // 70
	"241211", "221114", "413111", "241112", "134111", // 75
	"111242", "121142", "121241", "114212", "124112", // 80
	"124211", "411212", "421112", "421211", "212141", // 85
	"214121", "412121", "111143", "111341", "131141", // 90
	"114113", "114311", "411113", "411311", "113141", // 95
	"114131", "311141", "411131", "211412", "211214", // 100
	"211232", "2331112", // 105, 106
}

// C128Patterns returns the 107 Code 128 symbol characters as module strings
// ('1' dark, '0' light).  Index 0..105 have 11 modules, index 106 (stop) has 13.
func C128Patterns() [107]string {
	var out [107]string
	for v, w := range c128Widths {
		b := make([]byte, 0, 13)
		c := byte('1')
		for i := 0; i < len(w); i++ {
			for k := 0; k < int(w[i]-'0'); k++ {
				b = append(b, c)
			}
			c ^= 1 // '1' <-> '0'
		}
		out[v] = string(b)
	}
	return out
}

// C128Result is the result of C128Decode.
type C128Result struct {
	// Values are all symbol values between start and stop, including the
	// start character, excluding the stop character; the check symbol is
	// included if the symbol was decoded withChecksum.
	Values []int
	// Text is the decoded data.  FNC1..FNC4 are returned as U+00F1..U+00F4
	// (FNC4 is returned as a rune, it is not applied to the following data).
	Text []rune
	// Check is the mod-103 check value computed over start + data symbols.
	// (With withChecksum it is equal to the check symbol in the bars; without
	// it is the value a check symbol would have had.)
	Check int
}

// C128Checksum computes the Code 128 check value: (start + sum i*v_i) mod 103
// where values[0] is the start character and values[i], i >= 1, the i-th
// symbol character after it.
func C128Checksum(values []int) int {
	if len(values) == 0 {
		return 0
	}
	sum := values[0]
	for i := 1; i < len(values); i++ {
		sum += i * values[i]
	}
	return ((sum % 103) + 103) % 103
}

// C128Decode decodes a Code 128 module string: start character, data symbol
// characters, (check character if withChecksum), stop character of 13 modules.
func C128Decode(bars []bool, withChecksum bool) (*C128Result, error) {
	const what = "code128"
	n := len(bars)
	if n < 11+13 {
		return nil, fmt.Errorf("%s: %d modules is too short for start + stop (24 modules)", what, n)
	}
	if (n-13)%11 != 0 {
		return nil, fmt.Errorf("%s: %d modules is not k*11+13 (11-module symbol characters followed by the 13-module stop)", what, n)
	}
	pats := C128Patterns()
	lookup := make(map[string]int, 106)
	for v := 0; v <= 105; v++ {
		lookup[pats[v]] = v
	}
	s := modString(bars)
	nsym := (n - 13) / 11
	values := make([]int, 0, nsym)
	for i := 0; i < nsym; i++ {
		p := s[i*11 : i*11+11]
		v, ok := lookup[p]
		if !ok {
			if p == pats[C128Stop][:11] {
				return nil, fmt.Errorf("%s: symbol character %d (module offset %d) is a stop character in the middle of the symbol", what, i, i*11)
			}
			return nil, fmt.Errorf("%s: symbol character %d (module offset %d) has pattern %s which is not a Code 128 symbol character", what, i, i*11, p)
		}
		values = append(values, v)
	}
	if tail := s[nsym*11:]; tail != pats[C128Stop] {
		return nil, fmt.Errorf("%s: the last 13 modules %s are not the stop character %s", what, tail, pats[C128Stop])
	}
	data := values
	if withChecksum {
		if len(values) < 2 {
			return nil, fmt.Errorf("%s: no check character between start and stop", what)
		}
		data = values[:len(values)-1]
	}
	check := C128Checksum(data)
	if withChecksum {
		if got := values[len(values)-1]; got != check {
			return nil, fmt.Errorf("%s: check character is %d, expected (start + sum i*v_i) mod 103 = %d", what, got, check)
		}
	}
	text, err := C128DecodeValues(data)
	if err != nil {
		return nil, err
	}
	return &C128Result{Values: values, Text: text, Check: check}, nil
}

// C128DecodeValues decodes symbol values: values[0] must be a start character
// (103, 104, 105), the rest data symbol characters (no check, no stop).
func C128DecodeValues(values []int) ([]rune, error) {
	const what = "code128"
	if len(values) == 0 {
		return nil, fmt.Errorf("%s: no symbol characters", what)
	}
	var set byte
	switch values[0] {
	case C128StartA:
		set = 'A'
	case C128StartB:
		set = 'B'
	case C128StartC:
		set = 'C'
	default:
		return nil, fmt.Errorf("%s: first symbol character has value %d, expected a start character (103, 104 or 105)", what, values[0])
	}
	text := make([]rune, 0, len(values)*2)
	shift := false // next symbol is interpreted in the other one of sets A/B
	for i := 1; i < len(values); i++ {
		v := values[i]
		if v < 0 || v > 106 {
			return nil, fmt.Errorf("%s: symbol character %d has value %d outside 0..106", what, i, v)
		}
		if v >= C128StartA {
			return nil, fmt.Errorf("%s: symbol character %d has value %d (start/stop character) inside the data", what, i, v)
		}
		cur := set
		if shift {
			if cur == 'A' {
				cur = 'B'
			} else {
				cur = 'A'
			}
		}
		if cur == 'C' {
			switch {
			case v < 100:
				text = append(text, rune('0'+v/10), rune('0'+v%10))
			case v == C128CodeB:
				set = 'B'
			case v == C128CodeA:
				set = 'A'
			case v == C128FNC1:
				text = append(text, RuneFNC1)
			}
			continue
		}
		if v < 96 {
			if cur == 'B' || v < 64 {
				text = append(text, rune(v+32))
			} else {
				text = append(text, rune(v-64))
			}
			shift = false
			continue
		}
		if shift {
			// The SHIFT character applies to a single data character.  The
			// function characters FNC1..FNC3 have the same value in both
			// sets; anything else after SHIFT is malformed.
			switch v {
			case C128FNC1, C128FNC2, C128FNC3:
			default:
				return nil, fmt.Errorf("%s: symbol character %d (value %d) follows SHIFT but is not a data character", what, i, v)
			}
		}
		shift = false
		switch v {
		case C128FNC3:
			text = append(text, RuneFNC3)
		case C128FNC2:
			text = append(text, RuneFNC2)
		case C128Shift:
			shift = true
		case C128CodeC:
			set = 'C'
		case 100: // CODE B in set A, FNC4 in set B
			if cur == 'A' {
				set = 'B'
			} else {
				text = append(text, RuneFNC4)
			}
		case 101: // FNC4 in set A, CODE A in set B
			if cur == 'A' {
				text = append(text, RuneFNC4)
			} else {
				set = 'A'
			}
		case C128FNC1:
			text = append(text, RuneFNC1)
		}
	}
	if shift {
		return nil, fmt.Errorf("%s: SHIFT is the last data symbol character, nothing to shift", what)
	}
	return text, nil
}
