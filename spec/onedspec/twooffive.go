package onedspec

import "fmt"

// twoOfFiveDigits: five elements, two of them wide; positional weights
// 1, 2, 4, 7, parity (digit 0 is 4+7).  ISO/IEC 16390 table 1; the same
// coding is used by Standard (Industrial) 2 of 5.
var twoOfFiveDigits = [10]string{
	"nnwwn", // 0
	"wnnnw", // 1
	"nwnnw", // 2
	"wwnnn", // 3
	"nnwnw", // 4
	"wnwnn", // 5
	"nwwnn", // 6
	"nnnww", // 7
	"wnnwn", // 8
	"nwnwn", // 9
}

// TwoOfFiveDigitPatterns returns the 'n'/'w' element patterns of digits 0..9.
func TwoOfFiveDigitPatterns() [10]string { return twoOfFiveDigits }

// Structure used (narrow = 1 module, wide = W modules, W = 2 or 3, constant
// within a symbol):
//
// Interleaved 2 of 5 (ISO/IEC 16390):
//
//	start  = narrow bar, narrow space, narrow bar, narrow space     ("1010")
//	pairs  = 5 bars carrying the first digit interleaved with 5 spaces
//	         carrying the second digit (bar first); even number of digits
//	stop   = wide bar, narrow space, narrow bar          ("1101" for W = 2)
//
// Standard / Industrial 2 of 5 (no ISO standard; AIM / common definition as
// implemented by e.g. zint): only bars carry information, every bar of the
// start pattern and of the data is followed by a narrow space
//
//	start  = wide bar, wide bar, narrow bar   ("11011010" for W = 2)
//	digit  = 5 bars (2 wide), each followed by a narrow space
//	stop   = wide bar, narrow bar, wide bar   ("1101011" for W = 2)
const (
	itfStart  = "nnnn"
	itfStop   = "wnn"
	std25Strt = "wnwnnn"
	std25Stop = "wnnnw"
)

func digitOf(p string) (byte, bool) {
	for d, q := range twoOfFiveDigits {
		if p == q {
			return byte('0' + d), true
		}
	}
	return 0, false
}

// TwoOfFiveDecode decodes a Standard (interleaved == false) or Interleaved
// (interleaved == true) 2 of 5 module string and returns all digits (a check
// digit, if used, is part of the result; it is optional in both symbologies).
func TwoOfFiveDecode(bars []bool, interleaved bool) (string, error) {
	return twoOfFiveDecode(bars, interleaved, true)
}

// TwoOfFiveDecodeLenient is TwoOfFiveDecode without the requirement that all
// wide elements of the symbol have the same width: every element of 1 module
// is narrow, every element of 2 or 3 modules is wide (this is what a scanner
// with a narrow/wide threshold does).  It exists so that the digit content of
// symbols with an inconsistent wide:narrow ratio can still be checked.
func TwoOfFiveDecodeLenient(bars []bool, interleaved bool) (string, error) {
	return twoOfFiveDecode(bars, interleaved, false)
}

func twoOfFiveDecode(bars []bool, interleaved bool, strict bool) (string, error) {
	what := "standard 2 of 5"
	if interleaved {
		what = "interleaved 2 of 5"
	}
	runs, err := runLengths(bars, what)
	if err != nil {
		return "", err
	}
	if strict {
		if _, err := wideWidth(runs, what); err != nil {
			return "", err
		}
	} else {
		pos := 0
		for i, r := range runs {
			if r > 3 {
				return "", fmt.Errorf("%s: element %d (module offset %d) is %d modules wide; maximum is 3", what, i, pos, r)
			}
			pos += r
		}
	}
	el := nw(runs)
	startP, stopP := std25Strt, std25Stop
	if interleaved {
		startP, stopP = itfStart, itfStop
	}
	if len(el) < len(startP)+len(stopP) {
		return "", fmt.Errorf("%s: %d elements is too short for start and stop patterns", what, len(el))
	}
	if (len(el)-len(startP)-len(stopP))%10 != 0 {
		return "", fmt.Errorf("%s: %d elements; expected %d + 10*k (start, k groups of 10 elements, stop)", what, len(el), len(startP)+len(stopP))
	}
	if el[:len(startP)] != startP {
		return "", fmt.Errorf("%s: start pattern is %s, expected %s", what, el[:len(startP)], startP)
	}
	if el[len(el)-len(stopP):] != stopP {
		return "", fmt.Errorf("%s: stop pattern is %s, expected %s", what, el[len(el)-len(stopP):], stopP)
	}
	body := el[len(startP) : len(el)-len(stopP)]
	var digits []byte
	for g := 0; g*10 < len(body); g++ {
		grp := body[g*10 : g*10+10]
		var a, b [5]byte // bars, spaces
		for i := 0; i < 5; i++ {
			a[i] = grp[2*i]
			b[i] = grp[2*i+1]
		}
		d, ok := digitOf(string(a[:]))
		if !ok {
			return "", fmt.Errorf("%s: bars of group %d are %s which is not a 2 of 5 digit (exactly two wide elements)", what, g, a[:])
		}
		digits = append(digits, d)
		if interleaved {
			d2, ok := digitOf(string(b[:]))
			if !ok {
				return "", fmt.Errorf("%s: spaces of pair %d are %s which is not a 2 of 5 digit (exactly two wide elements)", what, g, b[:])
			}
			digits = append(digits, d2)
		} else if string(b[:]) != "nnnnn" {
			return "", fmt.Errorf("%s: spaces of digit %d are %s, all spaces must be narrow", what, g, b[:])
		}
	}
	return string(digits), nil
}

// TwoOfFiveCheckDigit returns the modulo 10 check digit for digits: weights
// 3, 1, 3, ... are applied from the rightmost data digit (weight 3) to the
// left; the check digit makes the total a multiple of 10.
func TwoOfFiveCheckDigit(digits string) (byte, error) {
	return mod10Weight3(digits, "2 of 5")
}

func mod10Weight3(digits string, what string) (byte, error) {
	sum := 0
	w := 3
	for i := len(digits) - 1; i >= 0; i-- {
		c := digits[i]
		if c < '0' || c > '9' {
			return 0, fmt.Errorf("%s: byte %q at offset %d is not a digit", what, c, i)
		}
		sum += w * int(c-'0')
		w = 4 - w
	}
	return byte('0' + (10-sum%10)%10), nil
}
