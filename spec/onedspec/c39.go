package onedspec

import "fmt"

// c39Alphabet lists the 43 data characters in check-value order (ISO/IEC
// 16388 table: 0-9 = 0..9, A-Z = 10..35, '-' 36, '.' 37, space 38, '$' 39,
// '/' 40, '+' 41, '%' 42).
const c39Alphabet = "0123456789ABCDEFGHIJKLMNOPQRSTUVWXYZ-. $/+%"

// c39Table: nine elements bar,space,bar,space,bar,space,bar,space,bar; three
// of them wide ('w'), six narrow ('n').  From ISO/IEC 16388 table 1.
var c39Table = map[rune]string{
	'0': "nnnwwnwnn", '1': "wnnwnnnnw", '2': "nnwwnnnnw", '3': "wnwwnnnnn",
	'4': "nnnwwnnnw", '5': "wnnwwnnnn", '6': "nnwwwnnnn", '7': "nnnwnnwnw",
	'8': "wnnwnnwnn", '9': "nnwwnnwnn",
	'A': "wnnnnwnnw", 'B': "nnwnnwnnw", 'C': "wnwnnwnnn", 'D': "nnnnwwnnw",
	'E': "wnnnwwnnn", 'F': "nnwnwwnnn", 'G': "nnnnnwwnw", 'H': "wnnnnwwnn",
	'I': "nnwnnwwnn", 'J': "nnnnwwwnn",
	'K': "wnnnnnnww", 'L': "nnwnnnnww", 'M': "wnwnnnnwn", 'N': "nnnnwnnww",
	'O': "wnnnwnnwn", 'P': "nnwnwnnwn", 'Q': "nnnnnnwww", 'R': "wnnnnnwwn",
	'S': "nnwnnnwwn", 'T': "nnnnwnwwn",
	'U': "wwnnnnnnw", 'V': "nwwnnnnnw", 'W': "wwwnnnnnn", 'X': "nwnnwnnnw",
	'Y': "wwnnwnnnn", 'Z': "nwwnwnnnn", '-': "nwnnnnwnw", '.': "wwnnnnwnn",
	' ': "nwwnnnwnn", '*': "nwnnwnwnn",
	'$': "nwnwnwnnn", '/': "nwnwnnnwn", '+': "nwnnnwnwn", '%': "nnnwnwnwn",
}

// C39Table returns the Code 39 character set (43 data characters and the
// start/stop character '*') as 9-character 'n'/'w' strings, elements in the
// order bar, space, bar, space, bar, space, bar, space, bar.
func C39Table() map[rune]string {
	m := make(map[rune]string, len(c39Table))
	for k, v := range c39Table {
		m[k] = v
	}
	return m
}

// C39Value returns the check value 0..42 of a Code 39 data character.
func C39Value(r rune) (int, bool) {
	for i, c := range c39Alphabet {
		if c == r {
			return i, true
		}
	}
	return 0, false
}

// C39Decode decodes a Code 39 module string and returns the characters between
// the start and stop characters '*' (including a check character, if any).
//
// Narrow elements are 1 module, wide elements W modules (W = 2 or 3, the same
// for all wide elements); characters are separated by an intercharacter gap of
// exactly one light module.
func C39Decode(bars []bool) (string, error) {
	const what = "code39"
	runs, err := runLengths(bars, what)
	if err != nil {
		return "", err
	}
	if (len(runs)+1)%10 != 0 {
		return "", fmt.Errorf("%s: %d elements; expected 10*k-1 (k characters of 9 elements separated by k-1 gaps)", what, len(runs))
	}
	k := (len(runs) + 1) / 10
	if k < 2 {
		return "", fmt.Errorf("%s: only %d character(s); start and stop are required", what, k)
	}
	if _, err := wideWidth(runs, what); err != nil {
		return "", err
	}
	rev := make(map[string]rune, len(c39Table))
	for r, p := range c39Table {
		rev[p] = r
	}
	out := make([]rune, 0, k)
	for i := 0; i < k; i++ {
		el := runs[i*10 : i*10+9]
		p := nw(el)
		r, ok := rev[p]
		if !ok {
			return "", fmt.Errorf("%s: character %d has element pattern %s which is not a Code 39 character (each character has exactly 3 wide elements)", what, i, p)
		}
		if i < k-1 && runs[i*10+9] != 1 {
			return "", fmt.Errorf("%s: intercharacter gap after character %d is %d modules, expected 1", what, i, runs[i*10+9])
		}
		out = append(out, r)
	}
	if out[0] != '*' {
		return "", fmt.Errorf("%s: first character is %q, expected the start character '*'", what, out[0])
	}
	if out[k-1] != '*' {
		return "", fmt.Errorf("%s: last character is %q, expected the stop character '*'", what, out[k-1])
	}
	for i := 1; i < k-1; i++ {
		if out[i] == '*' {
			return "", fmt.Errorf("%s: start/stop character '*' at data position %d", what, i-1)
		}
	}
	return string(out[1 : k-1]), nil
}

// C39CheckChar computes the modulo 43 check character of data, which must
// consist of the 43 basic Code 39 data characters.
func C39CheckChar(data string) (rune, error) {
	sum := 0
	for i, r := range data {
		v, ok := C39Value(r)
		if !ok {
			return 0, fmt.Errorf("code39: character %q at offset %d is not in the Code 39 character set", r, i)
		}
		sum += v
	}
	return rune(c39Alphabet[sum%43]), nil
}

// fullASCIIPair resolves one two-character full ASCII sequence: shift is one
// of '$', '%', '/', '+', c the following character.  Table from ISO/IEC 16388
// annex (identical for Code 93 with the four shift characters).
func fullASCIIPair(shift byte, c byte) (byte, bool) {
	if c < 'A' || c > 'Z' {
		return 0, false
	}
	switch shift {
	case '$': // $A..$Z = SOH..SUB (1..26)
		return c - 'A' + 1, true
	case '+': // +A..+Z = a..z
		return c - 'A' + 'a', true
	case '/': // /A../O = '!'..'/', /Z = ':'
		if c <= 'O' {
			return c - 'A' + '!', true
		}
		if c == 'Z' {
			return ':', true
		}
		return 0, false
	case '%':
		switch {
		case c <= 'E': // %A..%E = ESC FS GS RS US (27..31)
			return c - 'A' + 27, true
		case c <= 'J': // %F..%J = ; < = > ?
			return c - 'F' + ';', true
		case c <= 'O': // %K..%O = [ \ ] ^ _
			return c - 'K' + '[', true
		case c <= 'T': // %P..%T = { | } ~ DEL
			return c - 'P' + '{', true
		case c == 'U':
			return 0, true // NUL
		case c == 'V':
			return '@', true
		case c == 'W':
			return '`', true
		default: // %X %Y %Z = DEL
			return 127, true
		}
	}
	return 0, false
}

// C39FullASCIIDecode resolves the full ASCII pairs $x %x /x +x in a string of
// basic Code 39 characters.  Characters 0-9, A-Z, '-', '.', space stand for
// themselves; '$', '%', '/', '+' must be followed by a letter forming a pair
// defined in the full ASCII table.
func C39FullASCIIDecode(basic string) ([]byte, error) {
	out := make([]byte, 0, len(basic))
	for i := 0; i < len(basic); i++ {
		c := basic[i]
		if _, ok := C39Value(rune(c)); !ok || c >= 0x80 {
			return nil, fmt.Errorf("code39 full ASCII: character %q at offset %d is not in the Code 39 character set", c, i)
		}
		switch c {
		case '$', '%', '/', '+':
			if i+1 >= len(basic) {
				return nil, fmt.Errorf("code39 full ASCII: shift character %q at offset %d is the last character", c, i)
			}
			v, ok := fullASCIIPair(c, basic[i+1])
			if !ok {
				return nil, fmt.Errorf("code39 full ASCII: pair %q at offset %d is not defined in the full ASCII table", basic[i:i+2], i)
			}
			out = append(out, v)
			i++
		default:
			out = append(out, c)
		}
	}
	return out, nil
}
