package dmspec

import "fmt"

// PadCodeword returns the value the pad codeword 129 must take at 1-based data codeword position pos
// after the 253-state randomising algorithm of ISO/IEC 16022 annex B.1:
//
//	R = ((149 * pos) mod 253) + 1;  v = 129 + R;  if v > 254 then v -= 254
func PadCodeword(pos int) byte {
	r := (149*pos)%253 + 1
	v := 129 + r
	if v > 254 {
		v -= 254
	}
	return byte(v)
}

// DecodeASCII decodes a complete data codeword sequence of a symbol that uses ASCII encodation only.
//
//	1..128   ASCII value codeword-1
//	129      pad: the first (unrandomised) pad terminates the message; every following codeword up
//	         to the end must be the randomised pad for its 1-based position (PadCodeword)
//	130..229 two digits 00..99 (codeword-130)
//	235      upper shift: the next codeword c (1..128) encodes byte c-1+128
//	others   (230 C40, 231 Base 256, 232 FNC1, 233 structured append, 234 reader programming,
//	         236/237 macros, 238 X12, 239 Text, 240 EDIFACT, 241 ECI, 242..255, 0)
//	         -> error "unsupported"
func DecodeASCII(dataCodewords []byte) (payload []byte, err error) {
	payload = []byte{}
	n := len(dataCodewords)
	for i := 0; i < n; i++ {
		c := dataCodewords[i]
		switch {
		case c >= 1 && c <= 128:
			payload = append(payload, c-1)
		case c == 129:
			for k := i + 1; k < n; k++ {
				if want := PadCodeword(k + 1); dataCodewords[k] != want {
					return nil, fmt.Errorf("dmspec: ascii: codeword %d (1-based) after the first pad is %d, want randomised pad %d",
						k+1, dataCodewords[k], want)
				}
			}
			return payload, nil
		case c >= 130 && c <= 229:
			v := c - 130
			payload = append(payload, '0'+v/10, '0'+v%10)
		case c == 235:
			if i+1 >= n {
				return nil, fmt.Errorf("dmspec: ascii: upper shift at codeword %d (1-based) is the last codeword", i+1)
			}
			i++
			d := dataCodewords[i]
			if d < 1 || d > 128 {
				return nil, fmt.Errorf("dmspec: ascii: upper shift at codeword %d (1-based) followed by %d, want 1..128", i, d)
			}
			payload = append(payload, d-1+128)
		default:
			return nil, fmt.Errorf("dmspec: ascii: unsupported codeword %d at position %d (1-based): only plain ASCII encodation is handled", c, i+1)
		}
	}
	return payload, nil
}

// EncodeASCII is the canonical ASCII encodation of payload (digit pairs are always combined
// left-to-right greedily, bytes >= 128 use upper shift), without padding. It is the shortest ASCII-only
// encodation.
func EncodeASCII(payload []byte) []byte {
	var out []byte
	isDigit := func(b byte) bool { return b >= '0' && b <= '9' }
	for i := 0; i < len(payload); i++ {
		b := payload[i]
		switch {
		case isDigit(b) && i+1 < len(payload) && isDigit(payload[i+1]):
			out = append(out, 130+(b-'0')*10+(payload[i+1]-'0'))
			i++
		case b >= 128:
			out = append(out, 235, b-128+1)
		default:
			out = append(out, b+1)
		}
	}
	return out
}

// PadData pads cw (unpadded data codewords) to exactly total codewords: a first 129, then randomised
// pads. Returns nil if cw is longer than total.
func PadData(cw []byte, total int) []byte {
	if len(cw) > total {
		return nil
	}
	out := append([]byte(nil), cw...)
	if len(out) < total {
		out = append(out, 129)
	}
	for len(out) < total {
		out = append(out, PadCodeword(len(out)+1))
	}
	return out
}
