// Package dmspec is an independent reference implementation (oracle) of Data Matrix ECC 200
// (ISO/IEC 16022) restricted to the 24 square symbol sizes and to ASCII encodation.
//
// It is written from the standard (table 7, annex A interleaving, annex E Reed-Solomon,
// annex F placement) and deliberately shares no code with the library under verification.
package dmspec

// Size is one row of ISO/IEC 16022 table 7 (square symbols only).
type Size struct {
	Rows, Cols                 int // full symbol size including finder/clock patterns (10..144)
	RegionRows, RegionCols     int // number of data regions vertically / horizontally (1,2,4,6)
	MatrixRows, MatrixCols     int // mapping matrix size = Rows-2*RegionRows, Cols-2*RegionCols
	DataCodewords, ECCodewords int // totals over all interleaved blocks
	Blocks                     int // number of interleaved Reed-Solomon blocks
}

// table7 columns: symbol size, regions per side, data codewords, ec codewords, blocks.
var table7 = [24][5]int{
	{10, 1, 3, 5, 1},
	{12, 1, 5, 7, 1},
	{14, 1, 8, 10, 1},
	{16, 1, 12, 12, 1},
	{18, 1, 18, 14, 1},
	{20, 1, 22, 18, 1},
	{22, 1, 30, 20, 1},
	{24, 1, 36, 24, 1},
	{26, 1, 44, 28, 1},
	{32, 2, 62, 36, 1},
	{36, 2, 86, 42, 1},
	{40, 2, 114, 48, 1},
	{44, 2, 144, 56, 1},
	{48, 2, 174, 68, 1},
	{52, 2, 204, 84, 2},
	{64, 4, 280, 112, 2},
	{72, 4, 368, 144, 4},
	{80, 4, 456, 192, 4},
	{88, 4, 576, 224, 4},
	{96, 4, 696, 272, 4},
	{104, 4, 816, 336, 6},
	{120, 6, 1050, 408, 6},
	{132, 6, 1304, 496, 8},
	{144, 6, 1558, 620, 10}, // 8 blocks of 156 data + 2 blocks of 155 data, 62 ec each
}

// Sizes returns the 24 square ECC 200 symbol sizes in increasing order. The slice is freshly
// allocated on each call.
func Sizes() []Size {
	out := make([]Size, 0, len(table7))
	for _, r := range table7 {
		out = append(out, Size{
			Rows: r[0], Cols: r[0],
			RegionRows: r[1], RegionCols: r[1],
			MatrixRows: r[0] - 2*r[1], MatrixCols: r[0] - 2*r[1],
			DataCodewords: r[2], ECCodewords: r[3], Blocks: r[4],
		})
	}
	return out
}

// SizeFor returns the square size whose side is dim modules (including finder patterns).
func SizeFor(dim int) (Size, bool) {
	for _, s := range Sizes() {
		if s.Rows == dim {
			return s, true
		}
	}
	return Size{}, false
}

// RegionSize returns the number of data rows and columns inside one data region
// (i.e. excluding its finder/clock border).
func (s Size) RegionSize() (rows, cols int) {
	return s.MatrixRows / s.RegionRows, s.MatrixCols / s.RegionCols
}

// BlockDataLen returns the number of data codewords in block b (0-based). All blocks have the same
// length except for 144x144, where blocks 0..7 have 156 and blocks 8,9 have 155.
func (s Size) BlockDataLen(b int) int {
	n := s.DataCodewords / s.Blocks
	if b < s.DataCodewords%s.Blocks {
		n++
	}
	return n
}

// BlockECLen returns the number of error correction codewords per block.
func (s Size) BlockECLen() int { return s.ECCodewords / s.Blocks }
