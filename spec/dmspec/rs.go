package dmspec

import "fmt"

// GF(256) with the primitive polynomial x^8+x^5+x^3+x^2+1 (0x12D = 301), as required by
// ISO/IEC 16022 annex E.

func gfMulSlow(a, b byte) byte {
	var r int
	x, y := int(a), int(b)
	for y != 0 {
		if y&1 != 0 {
			r ^= x
		}
		x <<= 1
		if x&0x100 != 0 {
			x ^= 0x12D
		}
		y >>= 1
	}
	return byte(r)
}

type gfTables struct {
	exp [510]byte
	log [256]int
}

func buildGF() *gfTables {
	t := &gfTables{}
	x := byte(1)
	for i := 0; i < 255; i++ {
		t.exp[i] = x
		t.exp[i+255] = x
		t.log[x] = i
		x = gfMulSlow(x, 2)
	}
	return t
}

// gf is immutable after package initialisation.
var gf = buildGF()

func gfMul(a, b byte) byte {
	if a == 0 || b == 0 {
		return 0
	}
	return gf.exp[gf.log[a]+gf.log[b]]
}

// rsGenerator returns g(x) = (x - alpha^1)(x - alpha^2)...(x - alpha^n), coefficients highest degree
// first (g[0] == 1, len n+1).
func rsGenerator(n int) []byte {
	g := []byte{1}
	for i := 1; i <= n; i++ {
		root := gf.exp[i%255]
		ng := make([]byte, len(g)+1)
		for k, c := range g {
			ng[k] ^= c                // c * x
			ng[k+1] ^= gfMul(c, root) // c * alpha^i
		}
		g = ng
	}
	return g
}

// RSEncode returns the ec Reed-Solomon check codewords of data: the remainder of data(x)*x^ec divided
// by the generator polynomial with roots alpha^1..alpha^ec over GF(256)/0x12D. data[0] is the highest
// order coefficient; the result is ordered highest order coefficient first, i.e. in the order the
// codewords follow the data in a block. Returns nil if ec <= 0 or len(data)+ec > 255.
func RSEncode(data []byte, ec int) []byte {
	if ec <= 0 || len(data)+ec > 255 {
		return nil
	}
	g := rsGenerator(ec)
	rem := make([]byte, ec)
	for _, d := range data {
		f := d ^ rem[0]
		copy(rem, rem[1:])
		rem[ec-1] = 0
		if f != 0 {
			for k := 0; k < ec; k++ {
				rem[k] ^= gfMul(g[k+1], f)
			}
		}
	}
	return rem
}

// Syndromes evaluates the block (data followed by ec check codewords, first byte = highest order
// coefficient) at alpha^1 .. alpha^ec. A valid block gives all zeros. Returns nil if ec <= 0.
func Syndromes(block []byte, ec int) []byte {
	if ec <= 0 {
		return nil
	}
	out := make([]byte, ec)
	for k := 1; k <= ec; k++ {
		a := gf.exp[k%255]
		var v byte
		for _, c := range block {
			v = gfMul(v, a) ^ c
		}
		out[k-1] = v
	}
	return out
}

// Interleave144 selects how the error correction codewords of the 144x144 symbol are distributed
// over the ten blocks. It has no effect on any other size.
type Interleave144 uint8

const (
	// ISO144 is the rule as written in ISO/IEC 16022 (annex A and clause 5.7): the error correction
	// part of the stream restarts with block 1, i.e. EC stream position p (0-based, counted from the
	// first EC codeword) holds check codeword p/10 of block p%10. (zint: option DM_ISO_144;
	// zxing-cpp: first attempt.)
	ISO144 Interleave144 = iota
	// DeFacto144 is the "skewed" rule used by the original reference software and consequently by
	// most deployed encoders and readers (zxing Java decoder, zint default, libdmtx, zxing-cpp's
	// "fix259" retry): the round robin simply continues over the whole stream, i.e. stream position i
	// (0-based over data||ec) belongs to block i%10. As 1558%10 == 8, EC position p holds check
	// codeword p/10 of block (p+8)%10.
	DeFacto144
)

func (v Interleave144) String() string {
	if v == DeFacto144 {
		return "de-facto(skewed)"
	}
	return "ISO"
}

// ecBlockOf returns the block owning EC stream position p (0-based from the first EC codeword).
func ecBlockOf(s Size, p int, v Interleave144) int {
	if v == DeFacto144 {
		return (s.DataCodewords + p) % s.Blocks
	}
	return p % s.Blocks
}

// DeinterleaveVariant splits the interleaved codeword stream (DataCodewords data codewords followed by
// ECCodewords error correction codewords) into its Reed-Solomon blocks, each returned as data followed
// by ec.
//
// Data part: stream position i (0-based) is data codeword i/Blocks of block i%Blocks. For 144x144
// (1558 data codewords, 10 blocks) this gives blocks 0..7 156 data codewords and blocks 8,9 155.
// EC part: see Interleave144. For every size but 144x144 both variants coincide because DataCodewords
// is a multiple of Blocks.
func DeinterleaveVariant(s Size, stream []byte, v Interleave144) ([][]byte, error) {
	if err := checkSize(s); err != nil {
		return nil, err
	}
	if len(stream) != s.DataCodewords+s.ECCodewords {
		return nil, fmt.Errorf("dmspec: deinterleave: %dx%d symbol needs %d+%d=%d codewords, got %d",
			s.Rows, s.Cols, s.DataCodewords, s.ECCodewords, s.DataCodewords+s.ECCodewords, len(stream))
	}
	blocks := make([][]byte, s.Blocks)
	for b := range blocks {
		blocks[b] = make([]byte, 0, s.BlockDataLen(b)+s.BlockECLen())
	}
	for i := 0; i < s.DataCodewords; i++ {
		b := i % s.Blocks
		blocks[b] = append(blocks[b], stream[i])
	}
	for p := 0; p < s.ECCodewords; p++ {
		b := ecBlockOf(s, p, v)
		blocks[b] = append(blocks[b], stream[s.DataCodewords+p])
	}
	return blocks, nil
}

// Deinterleave is DeinterleaveVariant with the rule of the ISO text (ISO144).
func Deinterleave(s Size, stream []byte) (blocks [][]byte, err error) {
	return DeinterleaveVariant(s, stream, ISO144)
}

// BuildStream is the inverse operation (a minimal encoder back end, used for self tests and usable as
// an oracle for the error correction stage): it splits the data codewords into blocks, computes the
// check codewords of every block and returns the interleaved stream data||ec.
func BuildStream(s Size, data []byte, v Interleave144) ([]byte, error) {
	if err := checkSize(s); err != nil {
		return nil, err
	}
	if len(data) != s.DataCodewords {
		return nil, fmt.Errorf("dmspec: build stream: %dx%d symbol needs %d data codewords, got %d",
			s.Rows, s.Cols, s.DataCodewords, len(data))
	}
	ecLen := s.BlockECLen()
	ecs := make([][]byte, s.Blocks)
	for b := 0; b < s.Blocks; b++ {
		var blk []byte
		for i := b; i < len(data); i += s.Blocks {
			blk = append(blk, data[i])
		}
		ecs[b] = RSEncode(blk, ecLen)
		if ecs[b] == nil {
			return nil, fmt.Errorf("dmspec: build stream: cannot RS-encode block %d", b)
		}
	}
	stream := append([]byte(nil), data...)
	next := make([]int, s.Blocks)
	for p := 0; p < s.ECCodewords; p++ {
		b := ecBlockOf(s, p, v)
		stream = append(stream, ecs[b][next[b]])
		next[b]++
	}
	return stream, nil
}

// checkSize verifies that s is exactly one of the table 7 rows.
func checkSize(s Size) error {
	t, ok := SizeFor(s.Rows)
	if !ok || t != s {
		return fmt.Errorf("dmspec: %+v is not a square ECC 200 size of ISO/IEC 16022 table 7", s)
	}
	return nil
}
