package dmspec

import (
	"bytes"
	"fmt"
	"math/rand"
	"strings"
	"testing"
)

func TestTable7Consistency(t *testing.T) {
	ss := Sizes()
	if len(ss) != 24 {
		t.Fatalf("want 24 sizes, got %d", len(ss))
	}
	prev := 0
	for _, s := range ss {
		if s.Rows != s.Cols || s.Rows <= prev {
			t.Errorf("%+v: not square / not increasing", s)
		}
		prev = s.Rows
		if s.MatrixRows != s.Rows-2*s.RegionRows || s.MatrixCols != s.Cols-2*s.RegionCols {
			t.Errorf("%+v: mapping matrix size", s)
		}
		if s.MatrixRows%s.RegionRows != 0 {
			t.Errorf("%+v: region size not integral", s)
		}
		h, _ := s.RegionSize()
		if h < 8 || h > 24 || h%2 != 0 {
			t.Errorf("%+v: region size %d", s, h)
		}
		if (s.MatrixRows*s.MatrixCols)/8 != s.DataCodewords+s.ECCodewords {
			t.Errorf("%+v: capacity %d != %d", s, s.MatrixRows*s.MatrixCols/8, s.DataCodewords+s.ECCodewords)
		}
		if s.ECCodewords%s.Blocks != 0 {
			t.Errorf("%+v: ec not divisible", s)
		}
		sum := 0
		for b := 0; b < s.Blocks; b++ {
			sum += s.BlockDataLen(b)
			if s.BlockDataLen(b)+s.BlockECLen() > 255 {
				t.Errorf("%+v: block too long", s)
			}
		}
		if sum != s.DataCodewords {
			t.Errorf("%+v: block data sum", s)
		}
		if s.Rows != 144 && s.DataCodewords%s.Blocks != 0 {
			t.Errorf("%+v: data not divisible", s)
		}
		got, ok := SizeFor(s.Rows)
		if !ok || got != s {
			t.Errorf("SizeFor(%d)", s.Rows)
		}
	}
	s := ss[23]
	if s.Blocks != 10 || s.BlockDataLen(0) != 156 || s.BlockDataLen(7) != 156 || s.BlockDataLen(8) != 155 || s.BlockDataLen(9) != 155 || s.BlockECLen() != 62 {
		t.Errorf("144x144 block structure wrong")
	}
	for _, d := range []int{-1, 0, 8, 9, 11, 28, 30, 56, 128, 146} {
		if _, ok := SizeFor(d); ok {
			t.Errorf("SizeFor(%d) should fail", d)
		}
	}
}

func TestPlacementBijection(t *testing.T) {
	for _, s := range Sizes() {
		p := Placement(s.MatrixRows, s.MatrixCols)
		total := s.DataCodewords + s.ECCodewords
		seen := make([][9]int, total+1)
		fixed := 0
		for r := range p {
			for c := range p[r] {
				cell := p[r][c]
				if cell.Codeword == 0 {
					fixed++
					wantDark := (r == s.MatrixRows-2 && c == s.MatrixCols-2) || (r == s.MatrixRows-1 && c == s.MatrixCols-1)
					if r < s.MatrixRows-2 || c < s.MatrixCols-2 || cell.Fixed != wantDark {
						t.Errorf("%d: bad fixed cell at %d,%d", s.Rows, r, c)
					}
					continue
				}
				if cell.Fixed || cell.Codeword < 1 || cell.Codeword > total || cell.Bit < 1 || cell.Bit > 8 {
					t.Fatalf("%d: bad cell %+v at %d,%d", s.Rows, cell, r, c)
				}
				seen[cell.Codeword][cell.Bit]++
			}
		}
		wantFixed := 0
		if HasFixedPattern(s.MatrixRows, s.MatrixCols) {
			wantFixed = 4
		}
		if fixed != wantFixed {
			t.Errorf("%d: %d fixed cells, want %d", s.Rows, fixed, wantFixed)
		}
		for cw := 1; cw <= total; cw++ {
			for b := 1; b <= 8; b++ {
				if seen[cw][b] != 1 {
					t.Errorf("%d: codeword %d bit %d placed %d times", s.Rows, cw, b, seen[cw][b])
				}
			}
		}
	}
}

// Also the rectangular mapping matrices of the standard must be bijections (exercises corner1/2 on
// non-square inputs, even though the package only exposes square sizes).
func TestPlacementRectangular(t *testing.T) {
	for _, d := range [][2]int{{6, 16}, {6, 28}, {10, 24}, {10, 32}, {14, 32}, {14, 44}} {
		p := Placement(d[0], d[1])
		cnt := map[[2]int]int{}
		for r := range p {
			for c := range p[r] {
				if p[r][c].Codeword == 0 {
					t.Errorf("%v: unfilled cell %d,%d", d, r, c)
				}
				cnt[[2]int{p[r][c].Codeword, p[r][c].Bit}]++
			}
		}
		if len(cnt) != d[0]*d[1] {
			t.Errorf("%v: %d distinct (cw,bit), want %d", d, len(cnt), d[0]*d[1])
		}
	}
	if Placement(7, 8) != nil || Placement(0, 0) != nil || Placement(-2, 8) != nil {
		t.Errorf("illegal sizes must give nil")
	}
}

// Known answer: the 8x8 mapping matrix of the 10x10 symbol as printed in ISO/IEC 16022 annex F
// ("C.B" = codeword C, bit B, bit 1 = MSB).
func TestPlacement8x8KnownAnswer(t *testing.T) {
	want := []string{
		"2.1 2.2 3.6 3.7 3.8 4.3 4.4 4.5",
		"2.3 2.4 2.5 5.1 5.2 4.6 4.7 4.8",
		"2.6 2.7 2.8 5.3 5.4 5.5 1.1 1.2",
		"1.5 6.1 6.2 5.6 5.7 5.8 1.3 1.4",
		"1.8 6.3 6.4 6.5 8.1 8.2 1.6 1.7",
		"7.2 6.6 6.7 6.8 8.3 8.4 8.5 7.1",
		"7.4 7.5 3.1 3.2 8.6 8.7 8.8 7.3",
		"7.7 7.8 3.3 3.4 3.5 4.1 4.2 7.6",
	}
	p := Placement(8, 8)
	for r, line := range want {
		for c, f := range strings.Fields(line) {
			got := fmt.Sprintf("%d.%d", p[r][c].Codeword, p[r][c].Bit)
			if got != f || p[r][c].Fixed {
				t.Errorf("8x8 cell row %d col %d: got %s want %s", r, c, got, f)
			}
		}
	}
	// Fixed pattern exists exactly for the 10x10, 14x14, 18x18, 22x22 mapping matrices.
	for _, s := range Sizes() {
		n := s.MatrixRows
		p := Placement(n, n)
		want := n == 10 || n == 14 || n == 18 || n == 22
		got := p[n-1][n-1].Codeword == 0
		if got != want || HasFixedPattern(n, n) != want {
			t.Errorf("matrix %d: fixed pattern %v, want %v", n, got, want)
		}
		if got && !(p[n-2][n-2] == Cell{Fixed: true} && p[n-1][n-1] == Cell{Fixed: true} && p[n-2][n-1] == Cell{} && p[n-1][n-2] == Cell{}) {
			t.Errorf("matrix %d: fixed pattern colours wrong", n)
		}
	}
}

func TestLayout(t *testing.T) {
	for _, s := range Sizes() {
		l := SymbolLayout(s)
		seen := map[[2]int]bool{}
		bh := s.Rows / s.RegionRows
		for y := range l {
			for x := range l[y] {
				m := l[y][x]
				r, c := y%bh, x%bh
				border := r == 0 || c == 0 || r == bh-1 || c == bh-1
				if border == (m.Kind == KMapped) {
					t.Fatalf("%d: (%d,%d) border=%v kind=%d", s.Rows, x, y, border, m.Kind)
				}
				if m.Kind == KMapped {
					if m.MRow < 0 || m.MRow >= s.MatrixRows || m.MCol < 0 || m.MCol >= s.MatrixCols || seen[[2]int{m.MRow, m.MCol}] {
						t.Fatalf("%d: bad/duplicate mapping at (%d,%d): %+v", s.Rows, x, y, m)
					}
					seen[[2]int{m.MRow, m.MCol}] = true
					// order preserving
					if x > 0 && l[y][x-1].Kind == KMapped && l[y][x-1].MCol != m.MCol-1 {
						t.Fatalf("%d: columns not consecutive", s.Rows)
					}
				}
			}
		}
		if len(seen) != s.MatrixRows*s.MatrixCols {
			t.Errorf("%d: mapped %d cells, want %d", s.Rows, len(seen), s.MatrixRows*s.MatrixCols)
		}
		n := s.Rows
		// Symbol corners: top-left dark, top-right light, bottom-left dark, bottom-right dark.
		if l[0][0].Kind != KDark || l[0][n-1].Kind != KLight || l[n-1][0].Kind != KDark || l[n-1][n-1].Kind != KDark {
			t.Errorf("%d: corner colours", n)
		}
		for i := 0; i < n; i++ {
			if l[i][0].Kind != KDark || l[n-1][i].Kind != KDark {
				t.Errorf("%d: outer L not solid at %d", n, i)
			}
			wantTop := KLight
			if i%2 == 0 {
				wantTop = KDark
			}
			if l[0][i].Kind != wantTop {
				t.Errorf("%d: top clock at col %d", n, i)
			}
			wantRight := KLight
			if i%2 == 1 {
				wantRight = KDark
			}
			if l[i][n-1].Kind != wantRight {
				t.Errorf("%d: right clock at row %d", n, i)
			}
		}
	}
}

func TestGF(t *testing.T) {
	// alpha^8 = x^5+x^3+x^2+1 = 0x2D
	if gf.exp[8] != 0x2D || gf.exp[0] != 1 || gf.exp[1] != 2 || gf.exp[255] != 1 {
		t.Errorf("exp table: %x", gf.exp[8])
	}
	seen := map[byte]bool{}
	for i := 0; i < 255; i++ {
		seen[gf.exp[i]] = true
	}
	if len(seen) != 255 || seen[0] {
		t.Errorf("alpha is not primitive")
	}
	for a := 0; a < 256; a++ {
		for b := 0; b < 256; b++ {
			if gfMul(byte(a), byte(b)) != gfMulSlow(byte(a), byte(b)) {
				t.Fatalf("gfMul(%d,%d)", a, b)
			}
		}
	}
}

func TestRSKnownAnswer(t *testing.T) {
	// ISO/IEC 16022 worked example: "123456" in a 10x10 symbol.
	data := EncodeASCII([]byte("123456"))
	if !bytes.Equal(data, []byte{142, 164, 186}) {
		t.Fatalf("data codewords %v", data)
	}
	ec := RSEncode(data, 5)
	if !bytes.Equal(ec, []byte{114, 25, 5, 88, 102}) {
		t.Fatalf("ec codewords %v, want [114 25 5 88 102]", ec)
	}
	// Generator polynomial for 5 check codewords from annex E: x^5 + 62x^4 + 111x^3 + 15x^2 + 48x + 228
	if g := rsGenerator(5); !bytes.Equal(g, []byte{1, 62, 111, 15, 48, 228}) {
		t.Errorf("g5 = %v", g)
	}
	if g := rsGenerator(7); !bytes.Equal(g, []byte{1, 254, 92, 240, 134, 144, 68, 23}) {
		t.Errorf("g7 = %v", g)
	}
}

func TestRSSyndromes(t *testing.T) {
	rng := rand.New(rand.NewSource(1))
	for _, s := range Sizes() {
		for b := 0; b < s.Blocks; b++ {
			d := make([]byte, s.BlockDataLen(b))
			rng.Read(d)
			ec := RSEncode(d, s.BlockECLen())
			if len(ec) != s.BlockECLen() {
				t.Fatalf("ec len")
			}
			blk := append(append([]byte{}, d...), ec...)
			for _, v := range Syndromes(blk, s.BlockECLen()) {
				if v != 0 {
					t.Fatalf("%d: non-zero syndrome on valid block", s.Rows)
				}
			}
			i := rng.Intn(len(blk))
			blk[i] ^= byte(1 + rng.Intn(255))
			zero := true
			for _, v := range Syndromes(blk, s.BlockECLen()) {
				if v != 0 {
					zero = false
				}
			}
			if zero {
				t.Fatalf("%d: corrupted block has zero syndromes", s.Rows)
			}
		}
	}
	if RSEncode([]byte{1}, 0) != nil || RSEncode(make([]byte, 250), 10) != nil || Syndromes(nil, 0) != nil {
		t.Errorf("degenerate parameters must return nil")
	}
}

func TestPadAndASCII(t *testing.T) {
	// 253-state: pos 1 -> 149+1=150 -> 279 -> 25 ; pos 2: 298%253=45 -> 46 -> 175
	if PadCodeword(1) != 25 || PadCodeword(2) != 175 {
		t.Errorf("PadCodeword: %d %d", PadCodeword(1), PadCodeword(2))
	}
	for p := 1; p <= 1558; p++ {
		v := PadCodeword(p)
		if v < 1 || v > 254 {
			t.Errorf("pad %d out of range: %d", p, v)
		}
	}
	got, err := DecodeASCII([]byte{142, 164, 186})
	if err != nil || string(got) != "123456" {
		t.Errorf("123456: %q %v", got, err)
	}
	got, err = DecodeASCII([]byte{66, 235, 1, 235, 128, 130, 229, 1, 128, 129, PadCodeword(11), PadCodeword(12)})
	if err != nil || !bytes.Equal(got, []byte{'A', 0x80, 0xFF, '0', '0', '9', '9', 0, 127}) {
		t.Errorf("mixed: %v %v", got, err)
	}
	got, err = DecodeASCII(nil)
	if err != nil || got == nil || len(got) != 0 {
		t.Errorf("empty: %v %v", got, err)
	}
	bad := [][]byte{
		{66, 129, 129},            // unrandomised second pad
		{66, 129, PadCodeword(2)}, // pad randomised for wrong position
		{235},                     // dangling upper shift
		{235, 129},                // upper shift + pad
		{235, 200},                // upper shift + digits
		{0}, {230}, {231}, {232}, {233}, {234}, {236}, {237}, {238}, {239}, {240}, {241}, {242}, {254}, {255},
	}
	for _, b := range bad {
		if _, err := DecodeASCII(b); err == nil {
			t.Errorf("DecodeASCII(%v) must fail", b)
		}
	}
	if _, err := DecodeASCII([]byte{231, 2, 3}); err == nil || !strings.Contains(err.Error(), "unsupported") {
		t.Errorf("want unsupported error, got %v", err)
	}
	rng := rand.New(rand.NewSource(2))
	for i := 0; i < 2000; i++ {
		p := make([]byte, rng.Intn(40))
		for k := range p {
			switch rng.Intn(3) {
			case 0:
				p[k] = byte('0' + rng.Intn(10))
			case 1:
				p[k] = byte(rng.Intn(256))
			default:
				p[k] = byte(rng.Intn(128))
			}
		}
		cw := EncodeASCII(p)
		full := PadData(cw, len(cw)+rng.Intn(5))
		got, err := DecodeASCII(full)
		if err != nil || !bytes.Equal(got, p) {
			t.Fatalf("round trip %v -> %v: %v %v", p, full, got, err)
		}
	}
}

func TestInterleave(t *testing.T) {
	// 52x52: two blocks, alternate.
	s, _ := SizeFor(52)
	stream := make([]byte, s.DataCodewords+s.ECCodewords)
	for i := range stream {
		stream[i] = byte(i % 2)
	}
	bl, err := Deinterleave(s, stream)
	if err != nil || len(bl) != 2 || len(bl[0]) != 102+42 {
		t.Fatalf("52: %v", err)
	}
	for b := range bl {
		for _, v := range bl[b] {
			if int(v) != b {
				t.Fatalf("52: block %d contains %d", b, v)
			}
		}
	}
	// 144x144: check both variants by position.
	s, _ = SizeFor(144)
	pos := make([]int, s.DataCodewords+s.ECCodewords)
	st := make([]byte, len(pos))
	for i := range st {
		st[i] = byte(i % 10) // block index under the continuous rule
	}
	iso, _ := DeinterleaveVariant(s, st, ISO144)
	df, _ := DeinterleaveVariant(s, st, DeFacto144)
	for b := 0; b < 10; b++ {
		wantLen := 156 + 62
		if b >= 8 {
			wantLen = 155 + 62
		}
		if len(iso[b]) != wantLen || len(df[b]) != wantLen {
			t.Fatalf("144: block %d len %d/%d", b, len(iso[b]), len(df[b]))
		}
		nd := wantLen - 62
		for k, v := range df[b] {
			if int(v) != b {
				t.Fatalf("144 de-facto: block %d pos %d has %d", b, k, v)
			}
		}
		for k, v := range iso[b] {
			want := b
			if k >= nd {
				want = (b + 8) % 10 // stream index (1558+p)%10 with p%10==b
			}
			if int(v) != want {
				t.Fatalf("144 iso: block %d pos %d has %d want %d", b, k, v, want)
			}
		}
	}
	if _, err := Deinterleave(s, st[:100]); err == nil {
		t.Errorf("short stream must fail")
	}
	if _, err := Deinterleave(Size{Rows: 11}, nil); err == nil {
		t.Errorf("bad size must fail")
	}
}

func gridAt(g [][]bool) func(x, y int) bool { return func(x, y int) bool { return g[y][x] } }

func TestRoundTripAllSizes(t *testing.T) {
	rng := rand.New(rand.NewSource(3))
	for _, s := range Sizes() {
		for _, v := range []Interleave144{ISO144, DeFacto144} {
			for _, fill := range []int{0, 1, s.DataCodewords / 2, s.DataCodewords - 1, s.DataCodewords} {
				payload := make([]byte, fill)
				for k := range payload {
					payload[k] = byte('A' + rng.Intn(26))
				}
				data := PadData(EncodeASCII(payload), s.DataCodewords)
				stream, err := BuildStream(s, data, v)
				if err != nil {
					t.Fatal(err)
				}
				g, err := Render(s, stream)
				if err != nil {
					t.Fatal(err)
				}
				res, err := DecodeVariant(s.Rows, gridAt(g), v)
				if err != nil {
					t.Fatalf("%d %s: %v", s.Rows, v, err)
				}
				if !bytes.Equal(res.Payload, payload) || !bytes.Equal(res.Codewords, stream) || !bytes.Equal(res.DataCodewords, data) || res.Size != s {
					t.Fatalf("%d: round trip mismatch", s.Rows)
				}
				// Cross variant: identical for all sizes but 144.
				other := ISO144
				if v == ISO144 {
					other = DeFacto144
				}
				_, err = DecodeVariant(s.Rows, gridAt(g), other)
				if s.Rows != 144 && err != nil {
					t.Fatalf("%d: variants must coincide: %v", s.Rows, err)
				}
				if s.Rows == 144 && (err == nil || !strings.Contains(err.Error(), "NOTE")) {
					t.Fatalf("144: other variant must fail with a note, got %v", err)
				}
				// Every single module flip must be detected.
				for n := 0; n < 20; n++ {
					x, y := rng.Intn(s.Cols), rng.Intn(s.Rows)
					g[y][x] = !g[y][x]
					if _, err := DecodeVariant(s.Rows, gridAt(g), v); err == nil {
						t.Fatalf("%d: flip at %d,%d not detected", s.Rows, x, y)
					}
					g[y][x] = !g[y][x]
				}
			}
		}
	}
}

func TestDecodeRejects(t *testing.T) {
	if _, err := Decode(11, func(x, y int) bool { return true }); err == nil {
		t.Errorf("illegal size accepted")
	}
	if _, err := Decode(10, nil); err == nil {
		t.Errorf("nil reader accepted")
	}
	if _, err := Decode(10, func(x, y int) bool { return true }); err == nil || !strings.Contains(err.Error(), "clock track") {
		t.Errorf("all dark: %v", err)
	}
	if _, err := Decode(10, func(x, y int) bool { return false }); err == nil || !strings.Contains(err.Error(), "finder") {
		t.Errorf("all light: %v", err)
	}
}

func BenchmarkDecode144(b *testing.B) {
	s, _ := SizeFor(144)
	data := PadData(EncodeASCII(bytes.Repeat([]byte("abc"), 400)), s.DataCodewords)
	stream, _ := BuildStream(s, data, ISO144)
	g, _ := Render(s, stream)
	b.ResetTimer()
	for i := 0; i < b.N; i++ {
		if _, err := Decode(144, gridAt(g)); err != nil {
			b.Fatal(err)
		}
	}
}
