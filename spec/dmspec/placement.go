package dmspec

// Cell describes one cell of the mapping matrix.
//
// Codeword is the 1-based number of the codeword in the interleaved codeword stream (all data
// codewords followed by all error correction codewords, i.e. "symbol character" number of annex F).
// Bit is the bit number 1..8 in the numbering of ISO/IEC 16022 figure F.1: bit 1 is the MOST
// significant bit (value 128) and bit 8 the LEAST significant bit (value 1). A dark module is a 1.
//
// Codeword == 0 marks one of the four cells of the fixed lower-right 2x2 pattern which exists only
// when the placement leaves that corner unfilled (mapping matrices 10x10, 14x14, 18x18, 22x22 among
// the square ones); Fixed then gives the module colour (true = dark): the upper-left and lower-right
// cells of that 2x2 pattern are dark, the other two light. For Codeword != 0, Fixed is false.
type Cell struct {
	Codeword int
	Bit      int
	Fixed    bool
}

type placer struct {
	nrow, ncol int
	cells      [][]Cell
}

func (p *placer) filled(row, col int) bool { return p.cells[row][col].Codeword != 0 }

// module implements the wrap-around rule of annex F.
func (p *placer) module(row, col, chr, bit int) {
	if row < 0 {
		row += p.nrow
		col += 4 - ((p.nrow + 4) % 8)
	}
	if col < 0 {
		col += p.ncol
		row += 4 - ((p.ncol + 4) % 8)
	}
	if row < 0 || row >= p.nrow || col < 0 || col >= p.ncol {
		return // cannot happen for legal (even, >= 8) sizes; guards against panics on odd input
	}
	p.cells[row][col] = Cell{Codeword: chr, Bit: bit}
}

// utah places the standard "Utah" shaped symbol character whose bit 8 is at (row, col).
func (p *placer) utah(row, col, chr int) {
	p.module(row-2, col-2, chr, 1)
	p.module(row-2, col-1, chr, 2)
	p.module(row-1, col-2, chr, 3)
	p.module(row-1, col-1, chr, 4)
	p.module(row-1, col, chr, 5)
	p.module(row, col-2, chr, 6)
	p.module(row, col-1, chr, 7)
	p.module(row, col, chr, 8)
}

func (p *placer) corner1(chr int) {
	r, c := p.nrow, p.ncol
	p.module(r-1, 0, chr, 1)
	p.module(r-1, 1, chr, 2)
	p.module(r-1, 2, chr, 3)
	p.module(0, c-2, chr, 4)
	p.module(0, c-1, chr, 5)
	p.module(1, c-1, chr, 6)
	p.module(2, c-1, chr, 7)
	p.module(3, c-1, chr, 8)
}

func (p *placer) corner2(chr int) {
	r, c := p.nrow, p.ncol
	p.module(r-3, 0, chr, 1)
	p.module(r-2, 0, chr, 2)
	p.module(r-1, 0, chr, 3)
	p.module(0, c-4, chr, 4)
	p.module(0, c-3, chr, 5)
	p.module(0, c-2, chr, 6)
	p.module(0, c-1, chr, 7)
	p.module(1, c-1, chr, 8)
}

func (p *placer) corner3(chr int) {
	r, c := p.nrow, p.ncol
	p.module(r-3, 0, chr, 1)
	p.module(r-2, 0, chr, 2)
	p.module(r-1, 0, chr, 3)
	p.module(0, c-2, chr, 4)
	p.module(0, c-1, chr, 5)
	p.module(1, c-1, chr, 6)
	p.module(2, c-1, chr, 7)
	p.module(3, c-1, chr, 8)
}

func (p *placer) corner4(chr int) {
	r, c := p.nrow, p.ncol
	p.module(r-1, 0, chr, 1)
	p.module(r-1, c-1, chr, 2)
	p.module(0, c-3, chr, 3)
	p.module(0, c-2, chr, 4)
	p.module(0, c-1, chr, 5)
	p.module(1, c-3, chr, 6)
	p.module(1, c-2, chr, 7)
	p.module(1, c-1, chr, 8)
}

// Placement computes the ECC 200 module placement of ISO/IEC 16022 annex F for a mapping matrix of
// matrixRows x matrixCols cells. The result is indexed [row][col], row 0 at the top.
//
// It returns nil if a dimension is smaller than 6 or odd (the algorithm is only defined for the even
// mapping matrix sizes of table 7).
func Placement(matrixRows, matrixCols int) [][]Cell {
	if matrixRows < 6 || matrixCols < 6 || matrixRows%2 != 0 || matrixCols%2 != 0 {
		return nil
	}
	p := &placer{nrow: matrixRows, ncol: matrixCols}
	p.cells = make([][]Cell, matrixRows)
	for r := range p.cells {
		p.cells[r] = make([]Cell, matrixCols)
	}
	nrow, ncol := matrixRows, matrixCols
	chr, row, col := 1, 4, 0
	for {
		// The four special corner cases.
		if row == nrow && col == 0 {
			p.corner1(chr)
			chr++
		}
		if row == nrow-2 && col == 0 && ncol%4 != 0 {
			p.corner2(chr)
			chr++
		}
		if row == nrow-2 && col == 0 && ncol%8 == 4 {
			p.corner3(chr)
			chr++
		}
		if row == nrow+4 && col == 2 && ncol%8 == 0 {
			p.corner4(chr)
			chr++
		}
		// Sweep upward diagonally to the right.
		for {
			if row >= 0 && row < nrow && col >= 0 && col < ncol && !p.filled(row, col) {
				p.utah(row, col, chr)
				chr++
			}
			row -= 2
			col += 2
			if !(row >= 0 && col < ncol) {
				break
			}
		}
		row++
		col += 3
		// Sweep downward diagonally to the left.
		for {
			if row >= 0 && row < nrow && col >= 0 && col < ncol && !p.filled(row, col) {
				p.utah(row, col, chr)
				chr++
			}
			row += 2
			col -= 2
			if !(row < nrow && col >= 0) {
				break
			}
		}
		row += 3
		col++
		if !(row < nrow || col < ncol) {
			break
		}
	}
	// Unfilled lower right corner: fixed pattern.
	if !p.filled(nrow-1, ncol-1) {
		p.cells[nrow-1][ncol-1] = Cell{Fixed: true}
		p.cells[nrow-2][ncol-2] = Cell{Fixed: true}
		p.cells[nrow-2][ncol-1] = Cell{Fixed: false}
		p.cells[nrow-1][ncol-2] = Cell{Fixed: false}
	}
	return p.cells
}

// HasFixedPattern reports whether the placement for the given mapping matrix leaves the lower right
// 2x2 corner to the fixed pattern.
func HasFixedPattern(matrixRows, matrixCols int) bool {
	return (matrixRows*matrixCols)%8 == 4
}
