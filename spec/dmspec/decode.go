package dmspec

import "fmt"

// Result is the outcome of a successful reference decode.
type Result struct {
	Size          Size
	Codewords     []byte // interleaved stream as read from the symbol: data followed by ec
	DataCodewords []byte // Codewords[:Size.DataCodewords]
	Payload       []byte // decoded message
	// Interleave tells which EC interleaving rule the Reed-Solomon check was performed with. It is
	// only meaningful for 144x144 (for every other size both rules are identical and ISO144 is reported).
	Interleave Interleave144
}

// ReadCodewords checks all function patterns of the symbol (finder L and clock tracks of every data
// region, and the fixed 2x2 corner pattern if the size has one) and extracts the interleaved codeword
// stream through SymbolLayout and Placement. at(x, y) must report whether the module in column x,
// row y (row 0 = top) is dark; it is only called with 0 <= x,y < dim.
func ReadCodewords(dim int, at func(x, y int) bool) (Size, []byte, error) {
	s, ok := SizeFor(dim)
	if !ok {
		return Size{}, nil, fmt.Errorf("dmspec: %dx%d is not a legal square ECC 200 symbol size", dim, dim)
	}
	if at == nil {
		return Size{}, nil, fmt.Errorf("dmspec: nil module reader")
	}
	layout := SymbolLayout(s)
	place := Placement(s.MatrixRows, s.MatrixCols)
	if layout == nil || place == nil {
		return Size{}, nil, fmt.Errorf("dmspec: internal: no layout for %dx%d", dim, dim)
	}
	total := s.DataCodewords + s.ECCodewords
	stream := make([]byte, total)
	bh, bw := s.Rows/s.RegionRows, s.Cols/s.RegionCols
	for y := 0; y < s.Rows; y++ {
		for x := 0; x < s.Cols; x++ {
			m := layout[y][x]
			dark := at(x, y)
			switch m.Kind {
			case KDark, KLight:
				if dark != (m.Kind == KDark) {
					return s, nil, fmt.Errorf("dmspec: function pattern violated at column %d, row %d (region row %d col %d, %s): module is %s, must be %s",
						x, y, y/bh, x/bw, borderName(y%bh, x%bw, bh, bw), colour(dark), colour(m.Kind == KDark))
				}
			case KMapped:
				c := place[m.MRow][m.MCol]
				if c.Codeword == 0 {
					if dark != c.Fixed {
						return s, nil, fmt.Errorf("dmspec: fixed corner pattern violated at column %d, row %d (mapping matrix row %d col %d): module is %s, must be %s",
							x, y, m.MRow, m.MCol, colour(dark), colour(c.Fixed))
					}
					continue
				}
				if c.Codeword > total || c.Bit < 1 || c.Bit > 8 {
					return s, nil, fmt.Errorf("dmspec: internal: placement gives codeword %d bit %d for a %d codeword symbol", c.Codeword, c.Bit, total)
				}
				if dark {
					stream[c.Codeword-1] |= 1 << uint(8-c.Bit)
				}
			}
		}
	}
	return s, stream, nil
}

func colour(dark bool) string {
	if dark {
		return "dark"
	}
	return "light"
}

func borderName(r, c, bh, bw int) string {
	switch {
	case c == 0:
		return "finder L left column"
	case r == bh-1:
		return "finder L bottom row"
	case r == 0:
		return "clock track top row"
	case c == bw-1:
		return "clock track right column"
	}
	return "data"
}

// CheckBlocks verifies that every Reed-Solomon block of the stream has all-zero syndromes under the
// given interleaving variant.
func CheckBlocks(s Size, stream []byte, v Interleave144) error {
	blocks, err := DeinterleaveVariant(s, stream, v)
	if err != nil {
		return err
	}
	ec := s.BlockECLen()
	for b, blk := range blocks {
		syn := Syndromes(blk, ec)
		for k, v2 := range syn {
			if v2 != 0 {
				return fmt.Errorf("dmspec: Reed-Solomon check failed (%s interleaving): block %d of %d (%d data + %d ec codewords) has non-zero syndrome S%d=%d",
					v, b, s.Blocks, len(blk)-ec, ec, k+1, v2)
			}
		}
	}
	return nil
}

// DecodeVariant is the reference reader with an explicit choice of the 144x144 EC interleaving rule.
// No error correction is attempted: a conforming freshly encoded symbol must be error free.
func DecodeVariant(dim int, at func(x, y int) bool, v Interleave144) (*Result, error) {
	s, stream, err := ReadCodewords(dim, at)
	if err != nil {
		return nil, err
	}
	if err := CheckBlocks(s, stream, v); err != nil {
		if s.Rows == 144 {
			other := ISO144
			if v == ISO144 {
				other = DeFacto144
			}
			if CheckBlocks(s, stream, other) == nil {
				return nil, fmt.Errorf("%v; NOTE: all blocks ARE valid under the %s interleaving of the 144x144 error correction codewords", err, other)
			}
		}
		return nil, err
	}
	data := stream[:s.DataCodewords]
	payload, err := DecodeASCII(data)
	if err != nil {
		return nil, err
	}
	used := v
	if s.Rows != 144 {
		used = ISO144
	}
	return &Result{Size: s, Codewords: stream, DataCodewords: data, Payload: payload, Interleave: used}, nil
}

// Decode is the reference reader following the text of ISO/IEC 16022 (ISO144 interleaving). at(x, y)
// reports whether the module at column x, row y (row 0 = top) is dark. Checks, in order: legal size;
// finder L and clock track of every data region and the fixed corner pattern if any; codeword
// extraction through Placement; Deinterleave; zero syndromes in every block; DecodeASCII.
func Decode(dim int, at func(x, y int) bool) (*Result, error) {
	return DecodeVariant(dim, at, ISO144)
}

// Render is the inverse of ReadCodewords: it draws the complete symbol for an interleaved codeword
// stream; result[row][col] is true for a dark module.
func Render(s Size, stream []byte) ([][]bool, error) {
	if err := checkSize(s); err != nil {
		return nil, err
	}
	if len(stream) != s.DataCodewords+s.ECCodewords {
		return nil, fmt.Errorf("dmspec: render: %dx%d symbol needs %d codewords, got %d", s.Rows, s.Cols, s.DataCodewords+s.ECCodewords, len(stream))
	}
	layout := SymbolLayout(s)
	place := Placement(s.MatrixRows, s.MatrixCols)
	out := make([][]bool, s.Rows)
	for y := range out {
		out[y] = make([]bool, s.Cols)
		for x := range out[y] {
			m := layout[y][x]
			switch m.Kind {
			case KDark:
				out[y][x] = true
			case KMapped:
				c := place[m.MRow][m.MCol]
				if c.Codeword == 0 {
					out[y][x] = c.Fixed
				} else {
					out[y][x] = stream[c.Codeword-1]>>uint(8-c.Bit)&1 == 1
				}
			}
		}
	}
	return out, nil
}
