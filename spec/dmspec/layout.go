package dmspec

// ModuleKind classifies a module of the full symbol.
type ModuleKind uint8

const (
	KLight  ModuleKind = iota // function pattern module that must be light
	KDark                     // function pattern module that must be dark
	KMapped                   // data module, taken from the mapping matrix
)

// Module describes one module of the full symbol. For Kind == KMapped, (MRow, MCol) are the
// coordinates of the corresponding cell in the mapping matrix; otherwise they are -1.
type Module struct {
	Kind       ModuleKind
	MRow, MCol int
}

// SymbolLayout returns, for every module [row][col] of the symbol (row 0 = top, col 0 = left), whether
// it belongs to the finder / clock patterns (with its mandatory colour) or to the mapping matrix.
//
// The symbol consists of RegionRows x RegionCols data regions. Each region of h x w data modules is
// surrounded by a one module wide border, giving a block of (h+2) x (w+2) modules, with local
// coordinates (r, c), 0 <= r <= h+1, 0 <= c <= w+1:
//
//   - left column  c == 0   : solid dark ("L" finder, vertical leg), every r
//   - bottom row   r == h+1 : solid dark ("L" finder, horizontal leg), every c
//   - top row      r == 0   : alternating clock track, dark at even c, light at odd c
//     (so the top left module is dark and the top right module, c == w+1 odd, is light)
//   - right column c == w+1 : alternating clock track, dark at odd r, light at even r
//     (so the top right module r == 0 is light and the bottom right module r == h+1 is dark)
//
// All block sizes are even, hence the same parities hold in absolute symbol coordinates: in the top
// row of a region dark modules are at even symbol columns, in the right column of a region dark
// modules are at odd symbol rows. Where rules overlap (corners) they agree.
//
// Data module (r, c), 1 <= r <= h, 1 <= c <= w of region (i, j) is cell (i*h + r-1, j*w + c-1) of the
// mapping matrix.
func SymbolLayout(s Size) [][]Module {
	if s.RegionRows <= 0 || s.RegionCols <= 0 || s.Rows <= 0 || s.Cols <= 0 ||
		s.Rows%s.RegionRows != 0 || s.Cols%s.RegionCols != 0 {
		return nil
	}
	bh, bw := s.Rows/s.RegionRows, s.Cols/s.RegionCols // block size including border
	if bh < 3 || bw < 3 {
		return nil
	}
	h, w := bh-2, bw-2
	out := make([][]Module, s.Rows)
	for y := 0; y < s.Rows; y++ {
		out[y] = make([]Module, s.Cols)
		i, r := y/bh, y%bh
		for x := 0; x < s.Cols; x++ {
			j, c := x/bw, x%bw
			m := Module{MRow: -1, MCol: -1}
			switch {
			case c == 0 || r == bh-1:
				m.Kind = KDark
			case r == 0:
				if c%2 == 0 {
					m.Kind = KDark
				} else {
					m.Kind = KLight
				}
			case c == bw-1:
				if r%2 == 1 {
					m.Kind = KDark
				} else {
					m.Kind = KLight
				}
			default:
				m.Kind = KMapped
				m.MRow = i*h + r - 1
				m.MCol = j*w + c - 1
			}
			out[y][x] = m
		}
	}
	return out
}
