package aztecspec

// ModuleKind classifies a module of the symbol.
type ModuleKind uint8

const (
	// KLight and KDark are modules with a value fixed by the standard:
	// bullseye rings, orientation marks, reference grid.
	KLight ModuleKind = iota
	KDark
	// KMode is a module of the mode message ring.
	KMode
	// KData is a module of a data layer.
	KData
)

func (k ModuleKind) String() string {
	switch k {
	case KLight:
		return "light"
	case KDark:
		return "dark"
	case KMode:
		return "mode"
	case KData:
		return "data"
	}
	return "invalid"
}

// Module describes one module.
//
// KMode: Index is the bit number in the mode message as transmitted (0 = first
// = most significant bit of the first 4-bit word); 28 bits compact, 40 bits
// full range.  The bits run clockwise around the ring just outside the
// bullseye, starting next to the top-left orientation mark: top side left to
// right, right side top to bottom, bottom side right to left, left side bottom
// to top (7 bits per side compact; 10 per side full range, where the module in
// the middle of each side belongs to the reference grid and is skipped).
//
// KData: Index is the bit number in the data bit stream of the symbol.  Bit 0
// is the outer module of the first domino of the outermost layer, at the
// top-left corner of the symbol; the stream runs down the left side, along the
// bottom to the right, up the right side and back along the top (i.e.
// counter-clockwise), two modules (one "domino") at a time, outer module first,
// then continues with the next layer inwards.  The last bit of the stream is
// therefore adjacent to the core.  The stream consists of TotalBits mod
// WordSize leading pad bits, the data codewords (msb first) and the check
// codewords.
//
// KLight/KDark: Index is -1.
type Module struct {
	Kind  ModuleKind
	Index int
}

// Part names of fixed modules, for diagnostics.
const (
	PartBullseye    = "bullseye"
	PartOrientation = "orientation mark"
	PartGrid        = "reference grid"
	PartMode        = "mode message"
	PartData        = "data layer"
)

// refGridLine reports whether offset d (coordinate minus centre coordinate)
// lies on a reference grid line of a full-range symbol (every 16 modules).
func refGridLine(d int) bool {
	if d < 0 {
		d = -d
	}
	return d%16 == 0
}

// baseToActual maps a coordinate of the data area that ignores the reference
// grid ("base" coordinate, 0 .. 14+4L-1 for full range, 0 .. 11+4L-1 compact)
// to the real module coordinate.
func baseToActual(compact bool, layers, b int) int {
	if compact {
		return b
	}
	half := 7 + 2*layers // half of 14+4L
	c := SymbolSize(false, layers) / 2
	if b >= half {
		i := b - half
		return c + 1 + i + i/15
	}
	i := half - 1 - b
	return c - 1 - i - i/15
}

// Layout returns the classification of every module, indexed [x][y]
// (x = column, y = row, 0 = left/top).  It returns nil for an illegal format.
func Layout(compact bool, layers int) [][]Module {
	dim := SymbolSize(compact, layers)
	if dim == 0 {
		return nil
	}
	m := make([][]Module, dim)
	for x := range m {
		m[x] = make([]Module, dim)
		for y := range m[x] {
			m[x][y] = Module{Kind: KData, Index: -1}
		}
	}
	c := dim / 2
	r := coreRadius(compact)

	// --- fixed patterns -------------------------------------------------
	for x := 0; x < dim; x++ {
		for y := 0; y < dim; y++ {
			if k, _, fixed := fixedModule(compact, dim, x, y); fixed {
				m[x][y] = Module{Kind: k, Index: -1}
			}
		}
	}

	// --- mode message ---------------------------------------------------
	// per side: the positions between the two orientation-mark modules,
	// skipping the reference grid module (offset 0) in full-range symbols.
	var offs []int
	for d := -(r - 2); d <= r-2; d++ {
		if !compact && d == 0 {
			continue
		}
		offs = append(offs, d)
	}
	n := len(offs) // 7 or 10
	for i, d := range offs {
		m[c+d][c-r] = Module{KMode, i}       // top, left to right
		m[c+r][c+d] = Module{KMode, n + i}   // right, top to bottom
		m[c-d][c+r] = Module{KMode, 2*n + i} // bottom, right to left
		m[c-r][c-d] = Module{KMode, 3*n + i} // left, bottom to top
	}

	// --- data layers ----------------------------------------------------
	base := dim
	sideBase := 9
	if !compact {
		base = 14 + 4*layers
		sideBase = 12
	}
	at := func(bx, by int) *Module {
		return &m[baseToActual(compact, layers, bx)][baseToActual(compact, layers, by)]
	}
	bit := 0
	for layer := 0; layer < layers; layer++ { // 0 = outermost
		low := 2 * layer
		high := base - 1 - low
		side := 4*(layers-layer) + sideBase // dominoes per side
		// left side, downwards
		for j := 0; j < side; j++ {
			for k := 0; k < 2; k++ {
				*at(low+k, low+j) = Module{KData, bit}
				bit++
			}
		}
		// bottom side, rightwards
		for j := 0; j < side; j++ {
			for k := 0; k < 2; k++ {
				*at(low+j, high-k) = Module{KData, bit}
				bit++
			}
		}
		// right side, upwards
		for j := 0; j < side; j++ {
			for k := 0; k < 2; k++ {
				*at(high-k, high-j) = Module{KData, bit}
				bit++
			}
		}
		// top side, leftwards
		for j := 0; j < side; j++ {
			for k := 0; k < 2; k++ {
				*at(high-j, low+k) = Module{KData, bit}
				bit++
			}
		}
	}
	return m
}

// fixedModule decides whether (x,y) is a module with a value fixed by the
// standard and, if so, its value and which pattern it belongs to.
func fixedModule(compact bool, dim, x, y int) (kind ModuleKind, part string, fixed bool) {
	c := dim / 2
	r := coreRadius(compact)
	dx, dy := x-c, y-c
	ax, ay := dx, dy
	if ax < 0 {
		ax = -ax
	}
	if ay < 0 {
		ay = -ay
	}
	d := ax // Chebyshev distance from the centre
	if ay > d {
		d = ay
	}
	switch {
	case d < r:
		// Bullseye: concentric square rings, centre module dark, alternating.
		if d%2 == 0 {
			return KDark, PartBullseye, true
		}
		return KLight, PartBullseye, true
	case d == r:
		// Ring with orientation marks (three modules at each corner) and the
		// mode message between them.
		//   top-left:     all three dark
		//   top-right:    corner and the module below it dark, the one left of it light
		//   bottom-right: module above the corner dark, corner and the one left of it light
		//   bottom-left:  all three light
		dark := func(ddx, ddy int) bool {
			switch {
			case ddx == -r && ddy == -r, ddx == -r+1 && ddy == -r, ddx == -r && ddy == -r+1:
				return true
			case ddx == r && ddy == -r, ddx == r && ddy == -r+1:
				return true
			case ddx == r && ddy == r-1:
				return true
			}
			return false
		}
		if (ax == r && ay >= r-1) || (ay == r && ax >= r-1) {
			if dark(dx, dy) {
				return KDark, PartOrientation, true
			}
			return KLight, PartOrientation, true
		}
		if !compact && (dx == 0 || dy == 0) {
			// reference grid crossing the mode ring: offset 7 is odd -> light
			return KLight, PartGrid, true
		}
		return KLight, PartMode, false
	}
	if !compact {
		// Reference grid: lines every 16 modules from the centre lines, the
		// modules alternate, dark where the distance along the line from the
		// centre line is even (so every crossing of two lines is dark).
		onV, onH := refGridLine(dx), refGridLine(dy)
		if onV || onH {
			var along int
			if onV {
				along = dy
			} else {
				along = dx
			}
			if onV && onH {
				return KDark, PartGrid, true
			}
			if along%2 == 0 {
				return KDark, PartGrid, true
			}
			return KLight, PartGrid, true
		}
	}
	return KData, PartData, false
}

// PartAt names the structural element module (x,y) belongs to
// ("bullseye", "orientation mark", "reference grid", "mode message",
// "data layer"); "" for an illegal format or coordinate.
func PartAt(compact bool, layers, x, y int) string {
	dim := SymbolSize(compact, layers)
	if dim == 0 || x < 0 || y < 0 || x >= dim || y >= dim {
		return ""
	}
	_, part, _ := fixedModule(compact, dim, x, y)
	return part
}
