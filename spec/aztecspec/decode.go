package aztecspec

import (
	"errors"
	"fmt"
)

// Result is what the reference reader extracts from a symbol.
type Result struct {
	Compact    bool
	Layers     int
	DataWords  int    // D, from the mode message
	TotalWords int    // TotalBits / WordBits
	WordBits   int    // codeword size
	ModeWords  []int  // the 7 / 10 four-bit words of the mode message
	LeadBits   []bool // the TotalBits mod WordBits bits before the first codeword
	Words      []int  // all codewords, data first, then check words
	DataBits   []bool // un-stuffed bits of the first D words
	Payload    []byte
	// PadBits is the number of trailing bits of DataBits that are padding.
	PadBits int
}

// CheckWords is the number of RS check codewords.
func (r *Result) CheckWords() int { return r.TotalWords - r.DataWords }

// checkFixed compares every module with a value fixed by the standard.
func checkFixed(f Format, lay [][]Module, at func(x, y int) bool) error {
	dim := len(lay)
	var first [3]error // bullseye, orientation, grid
	count := 0
	for y := 0; y < dim; y++ {
		for x := 0; x < dim; x++ {
			m := lay[x][y]
			if m.Kind != KLight && m.Kind != KDark {
				continue
			}
			got := at(x, y)
			if got == (m.Kind == KDark) {
				continue
			}
			count++
			part := PartAt(f.Compact, f.Layers, x, y)
			idx := 0
			switch part {
			case PartOrientation:
				idx = 1
			case PartGrid:
				idx = 2
			}
			if first[idx] == nil {
				want, have := "light", "dark"
				if m.Kind == KDark {
					want, have = "dark", "light"
				}
				first[idx] = fmt.Errorf("%s module at (x=%d,y=%d) is %s, must be %s", part, x, y, have, want)
			}
		}
	}
	for _, e := range first {
		if e != nil {
			return fmt.Errorf("%w (%d fixed modules wrong in total)", e, count)
		}
	}
	return nil
}

func formatName(f Format) string {
	if f.Compact {
		return fmt.Sprintf("compact %d-layer", f.Layers)
	}
	return fmt.Sprintf("full-range %d-layer", f.Layers)
}

// Decode is the reference reader.  at(x, y) reports whether the module in
// column x, row y is dark; it is only called with 0 <= x, y < dim.
//
// Checks, in this order:
//  1. dim is an Aztec size;
//  2. the core decides compact vs full range; bullseye, orientation marks and
//     (full range) the complete reference grid match the standard exactly;
//  3. the mode message is a valid RS codeword over GF(16) (all syndromes zero;
//     compact 2 data + 5 check words, full range 4 data + 6 check words);
//  4. its layer field agrees with dim; its data-word count D is <= the number
//     of codewords of the symbol;
//  5. the data bit stream is read through Layout; the TotalBits mod WordBits
//     leading bits, which belong to no codeword, must be zero (light);
//  6. all codewords together form an RS codeword with zero syndromes over the
//     field of the symbol's word size (TotalWords-D check words);
//  7. the first D words are un-stuffed (Unstuff) and decoded (DecodeBits).
//
// No error correction is attempted: the reader accepts only perfect symbols.
// On error the returned Result is non-nil as soon as the format is known and
// holds whatever was established before the failing step.
func Decode(dim int, at func(x, y int) bool) (*Result, error) {
	if at == nil {
		return nil, errors.New("aztec: nil module accessor")
	}
	cands := SizeCandidates(dim)
	if len(cands) == 0 {
		return nil, fmt.Errorf("aztec: %d is not a legal symbol size (compact 15,19,23,27; full range 19,23,27,31,37,...,151)", dim)
	}
	var chosen *Format
	var chosenLay [][]Module
	var fails []string
	for i := range cands {
		lay := Layout(cands[i].Compact, cands[i].Layers)
		if err := checkFixed(cands[i], lay, at); err != nil {
			fails = append(fails, fmt.Sprintf("as %s symbol: %v", formatName(cands[i]), err))
			continue
		}
		if chosen != nil {
			// cannot happen: the two cores contradict each other at the
			// top-left orientation mark of the compact core
			return nil, fmt.Errorf("aztec: size %d matches both a compact and a full-range core", dim)
		}
		chosen = &cands[i]
		chosenLay = lay
	}
	if chosen == nil {
		msg := fails[0]
		for _, f := range fails[1:] {
			msg += "; " + f
		}
		return nil, fmt.Errorf("aztec: fixed patterns of a %dx%d symbol are wrong: %s", dim, dim, msg)
	}
	res := &Result{Compact: chosen.Compact, Layers: chosen.Layers}
	res.WordBits = WordSize(res.Compact, res.Layers)
	total := TotalBits(res.Compact, res.Layers)
	res.TotalWords = total / res.WordBits

	// collect mode and data bits
	modeBits := make([]bool, ModeBits(res.Compact))
	dataBits := make([]bool, total)
	seenMode, seenData := 0, 0
	for x := 0; x < dim; x++ {
		for y := 0; y < dim; y++ {
			m := chosenLay[x][y]
			switch m.Kind {
			case KMode:
				if m.Index < 0 || m.Index >= len(modeBits) {
					return res, fmt.Errorf("aztec: internal layout error (mode index %d)", m.Index)
				}
				modeBits[m.Index] = at(x, y)
				seenMode++
			case KData:
				if m.Index < 0 || m.Index >= len(dataBits) {
					return res, fmt.Errorf("aztec: internal layout error (data index %d at %d,%d)", m.Index, x, y)
				}
				dataBits[m.Index] = at(x, y)
				seenData++
			}
		}
	}
	if seenMode != len(modeBits) || seenData != len(dataBits) {
		return res, fmt.Errorf("aztec: internal layout error (%d mode, %d data modules)", seenMode, seenData)
	}

	// mode message
	nModeWords := len(modeBits) / 4
	res.ModeWords = make([]int, nModeWords)
	for i := range res.ModeWords {
		res.ModeWords[i] = readBits(modeBits, 4*i, 4)
	}
	modeData, modeEC := 2, 5
	if !res.Compact {
		modeData, modeEC = 4, 6
	}
	syn := Syndromes(4, res.ModeWords, modeEC)
	for i, s := range syn {
		if s != 0 {
			return res, fmt.Errorf("aztec: mode message %v is not a valid RS codeword over GF(16) (%d data + %d check words): syndrome S%d = %d", res.ModeWords, modeData, modeEC, i+1, s)
		}
	}
	var layerField, dField int
	if res.Compact {
		layerField = readBits(modeBits, 0, 2) + 1
		dField = readBits(modeBits, 2, 6) + 1
	} else {
		layerField = readBits(modeBits, 0, 5) + 1
		dField = readBits(modeBits, 5, 11) + 1
	}
	res.DataWords = dField
	if layerField != res.Layers {
		return res, fmt.Errorf("aztec: mode message says %d layers but a %s symbol of %dx%d modules has %d", layerField, map[bool]string{true: "compact", false: "full-range"}[res.Compact], dim, dim, res.Layers)
	}
	if dField > res.TotalWords {
		return res, fmt.Errorf("aztec: mode message says %d data codewords but the symbol holds only %d codewords", dField, res.TotalWords)
	}

	// codewords
	lead := total % res.WordBits
	res.LeadBits = append([]bool(nil), dataBits[:lead]...)
	res.Words = make([]int, res.TotalWords)
	for i := range res.Words {
		res.Words[i] = readBits(dataBits, lead+i*res.WordBits, res.WordBits)
	}
	for i, b := range res.LeadBits {
		if b {
			return res, fmt.Errorf("aztec: leading filler bit %d of %d (data stream bits before the first codeword) is dark, must be zero", i, lead)
		}
	}
	ec := res.TotalWords - res.DataWords
	syn = Syndromes(res.WordBits, res.Words, ec)
	if syn == nil {
		return res, fmt.Errorf("aztec: internal error computing syndromes (%d words of %d bits, %d check words)", res.TotalWords, res.WordBits, ec)
	}
	for i, s := range syn {
		if s != 0 {
			return res, fmt.Errorf("aztec: the %d codewords (%d data + %d check, %d bits each) are not a valid RS codeword: syndrome S%d = %#x", res.TotalWords, res.DataWords, ec, res.WordBits, i+1, s)
		}
	}

	// message
	bits, err := Unstuff(res.Words[:res.DataWords], res.WordBits)
	if err != nil {
		return res, err
	}
	res.DataBits = bits
	info, err := DecodeBitsInfo(bits)
	if err != nil {
		return res, err
	}
	res.Payload = info.Payload
	res.PadBits = info.PadBits
	return res, nil
}
