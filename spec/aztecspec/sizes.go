// Package aztecspec is an independent reference model of Aztec Code
// (ISO/IEC 24778): symbol geometry, module layout, Reed-Solomon arithmetic,
// bit stuffing, the high-level code tables and a strict reference reader.
//
// It is written from the standard (with the behaviour of zxing / zint as a
// cross reference) and deliberately shares no code with the library under
// verification.  It only uses the Go standard library.
//
// Coordinates: x is the column, y the row, (0,0) is the top-left module.
package aztecspec

// MaxCompactLayers and MaxFullLayers are the layer ranges of the standard.
const (
	MaxCompactLayers = 4
	MaxFullLayers    = 32
)

// ValidLayers reports whether (compact, layers) names one of the 4+32 symbol
// formats of ISO/IEC 24778 (Aztec runes are not modelled).
func ValidLayers(compact bool, layers int) bool {
	if compact {
		return layers >= 1 && layers <= MaxCompactLayers
	}
	return layers >= 1 && layers <= MaxFullLayers
}

// SymbolSize returns the side length in modules.
//
//	compact:    11 + 4L                       (15, 19, 23, 27)
//	full range: 15 + 4L + 2*floor((2L+6)/15)  (19, 23, 27, 31, 37, 41, ... 151)
//
// The last term counts the reference grid lines that lie outside the core:
// a full-range symbol has grid lines every 16 modules from the centre line.
// It returns 0 for an illegal (compact, layers) pair.
func SymbolSize(compact bool, layers int) int {
	if !ValidLayers(compact, layers) {
		return 0
	}
	if compact {
		return 11 + 4*layers
	}
	return 15 + 4*layers + 2*((2*layers+6)/15)
}

// Format names one symbol format.
type Format struct {
	Compact bool
	Layers  int
}

// SizeCandidates returns every format whose side length is dim, compact
// formats first.  Sizes 19, 23 and 27 have two candidates (compact 2..4 and
// full range 1..3): they differ in the core (compact: 9x9 bullseye inside an
// 11x11 mode/orientation ring; full range: 13x13 bullseye inside a 15x15
// ring).  An illegal dimension gives an empty result.
func SizeCandidates(dim int) []Format {
	var out []Format
	for l := 1; l <= MaxCompactLayers; l++ {
		if SymbolSize(true, l) == dim {
			out = append(out, Format{true, l})
		}
	}
	for l := 1; l <= MaxFullLayers; l++ {
		if SymbolSize(false, l) == dim {
			out = append(out, Format{false, l})
		}
	}
	return out
}

// SizeToLayers maps a side length to the symbol format when the side length
// alone determines it: 15 (compact 1) and 31..151 (full range 4..32).
// For 19, 23 and 27 the answer depends on the bullseye, so ok is false (use
// SizeCandidates, or Decode which looks at the core); ok is also false for
// every dimension that is not an Aztec size at all.
func SizeToLayers(dim int) (compact bool, layers int, ok bool) {
	c := SizeCandidates(dim)
	if len(c) != 1 {
		return false, 0, false
	}
	return c[0].Compact, c[0].Layers, true
}

// WordSize returns the codeword size in bits of the data message:
// 6 for 1..2 layers, 8 for 3..8, 10 for 9..22 and 12 for 23..32 layers
// (same rule for compact and full-range symbols).  0 for an illegal format.
func WordSize(compact bool, layers int) int {
	if !ValidLayers(compact, layers) {
		return 0
	}
	switch {
	case layers <= 2:
		return 6
	case layers <= 8:
		return 8
	case layers <= 22:
		return 10
	default:
		return 12
	}
}

// TotalBits returns the number of data modules (= bits of the data layers):
// (88+16L)L for compact and (112+16L)L for full-range symbols.
func TotalBits(compact bool, layers int) int {
	if !ValidLayers(compact, layers) {
		return 0
	}
	if compact {
		return (88 + 16*layers) * layers
	}
	return (112 + 16*layers) * layers
}

// TotalWords is the number of codewords (data + check) of the symbol.
func TotalWords(compact bool, layers int) int {
	w := WordSize(compact, layers)
	if w == 0 {
		return 0
	}
	return TotalBits(compact, layers) / w
}

// PadBits is the number of leftover bits at the very start of the data bit
// stream: TotalBits mod WordSize.
func PadBits(compact bool, layers int) int {
	w := WordSize(compact, layers)
	if w == 0 {
		return 0
	}
	return TotalBits(compact, layers) % w
}

// ModeBits is the length of the mode message: 28 bits (7 words of 4 bits,
// 2 data + 5 check) compact, 40 bits (10 words, 4 data + 6 check) full range.
func ModeBits(compact bool) int {
	if compact {
		return 28
	}
	return 40
}

// coreRadius is the Chebyshev distance from the centre of the ring that
// holds orientation marks and mode message: 5 compact, 7 full range.
func coreRadius(compact bool) int {
	if compact {
		return 5
	}
	return 7
}
