package aztecspec

// Reed-Solomon codes of ISO/IEC 24778.
//
//	word bits  field      primitive polynomial
//	    4      GF(16)     x^4+x+1              0x13    (mode message)
//	    6      GF(64)     x^6+x+1              0x43
//	    8      GF(256)    x^8+x^5+x^3+x^2+1    0x12D
//	   10      GF(1024)   x^10+x^3+1           0x409
//	   12      GF(4096)   x^12+x^6+x^5+x^3+1   0x1069
//
// The generator polynomial of a code with n check words is
// (x-a^1)(x-a^2)...(x-a^n), a = 2.

// FieldPoly returns the primitive polynomial for a word size, 0 if the word
// size is not one of 4, 6, 8, 10, 12.
func FieldPoly(wordBits int) int {
	switch wordBits {
	case 4:
		return 0x13
	case 6:
		return 0x43
	case 8:
		return 0x12D
	case 10:
		return 0x409
	case 12:
		return 0x1069
	}
	return 0
}

type field struct {
	size int   // 2^bits
	exp  []int // exp[i] = a^i, 0 <= i < 2*(size-1)
	log  []int // log[exp[i]] = i
}

func newField(wordBits int) *field {
	poly := FieldPoly(wordBits)
	if poly == 0 {
		return nil
	}
	size := 1 << uint(wordBits)
	f := &field{size: size, exp: make([]int, 2*(size-1)), log: make([]int, size)}
	v := 1
	for i := 0; i < size-1; i++ {
		f.exp[i] = v
		f.exp[i+size-1] = v
		f.log[v] = i
		v <<= 1
		if v&size != 0 {
			v ^= poly
		}
	}
	return f
}

func (f *field) mul(a, b int) int {
	if a == 0 || b == 0 {
		return 0
	}
	return f.exp[f.log[a]+f.log[b]]
}

func wordsInRange(words []int, size int) bool {
	for _, w := range words {
		if w < 0 || w >= size {
			return false
		}
	}
	return true
}

// generator returns the coefficients of prod_{i=1..ec}(x - a^i), highest
// degree first (g[0] == 1, len == ec+1).
func (f *field) generator(ec int) []int {
	g := []int{1}
	for i := 1; i <= ec; i++ {
		root := f.exp[i%(f.size-1)]
		ng := make([]int, len(g)+1)
		for j, c := range g {
			ng[j] ^= c                // c * x
			ng[j+1] ^= f.mul(c, root) // c * root
		}
		g = ng
	}
	return g
}

// RSEncode returns the ec check words (and only those) for the given data
// words: the remainder of data(x)*x^ec divided by the generator polynomial,
// data[0] being the coefficient of the highest power.  The full codeword is
// append(data, check...).  It returns nil if wordBits is not 4/6/8/10/12,
// ec < 0, a data word is out of range or len(data)+ec exceeds the block
// length 2^wordBits-1.
func RSEncode(wordBits int, data []int, ec int) []int {
	f := newField(wordBits)
	if f == nil || ec < 0 || !wordsInRange(data, f.size) || len(data)+ec > f.size-1 {
		return nil
	}
	if ec == 0 {
		return []int{}
	}
	g := f.generator(ec)
	rem := make([]int, ec)
	for _, d := range data {
		fb := d ^ rem[0]
		copy(rem, rem[1:])
		rem[ec-1] = 0
		if fb != 0 {
			for j := 0; j < ec; j++ {
				rem[j] ^= f.mul(fb, g[j+1])
			}
		}
	}
	return rem
}

// RSCodeword returns append(data, RSEncode(...)...), nil on invalid arguments.
func RSCodeword(wordBits int, data []int, ec int) []int {
	chk := RSEncode(wordBits, data, ec)
	if chk == nil {
		return nil
	}
	out := make([]int, 0, len(data)+ec)
	out = append(out, data...)
	return append(out, chk...)
}

// Syndromes evaluates the codeword polynomial (codeword[0] = coefficient of
// the highest power) at a^1 .. a^ec and returns the ec values; a valid
// codeword has only zero syndromes.  nil on invalid arguments (unsupported
// word size, ec < 0, word out of range, codeword shorter than ec).
func Syndromes(wordBits int, codeword []int, ec int) []int {
	f := newField(wordBits)
	if f == nil || ec < 0 || !wordsInRange(codeword, f.size) || len(codeword) < ec {
		return nil
	}
	out := make([]int, ec)
	for i := 1; i <= ec; i++ {
		li := i % (f.size - 1)
		s := 0
		for _, cw := range codeword {
			// s = s*a^i + cw
			if s != 0 {
				s = f.exp[f.log[s]+li]
			}
			s ^= cw
		}
		out[i-1] = s
	}
	return out
}

// SyndromesZero reports whether codeword is a valid RS codeword with ec check
// words (false on invalid arguments).
func SyndromesZero(wordBits int, codeword []int, ec int) bool {
	s := Syndromes(wordBits, codeword, ec)
	if s == nil {
		return false
	}
	for _, v := range s {
		if v != 0 {
			return false
		}
	}
	return true
}
