package aztecspec

import (
	"errors"
	"fmt"
)

// Mode is a high-level encoding mode of ISO/IEC 24778.
type Mode uint8

const (
	Upper Mode = iota
	Lower
	Mixed
	Punct
	Digit
	Binary
)

func (m Mode) String() string {
	switch m {
	case Upper:
		return "Upper"
	case Lower:
		return "Lower"
	case Mixed:
		return "Mixed"
	case Punct:
		return "Punct"
	case Digit:
		return "Digit"
	case Binary:
		return "Binary"
	}
	return "invalid"
}

// CodeBits is the width of a code in the given mode: 4 in Digit, 5 in
// Upper/Lower/Mixed/Punct, 8 for a Binary byte.
func CodeBits(m Mode) int {
	switch m {
	case Digit:
		return 4
	case Binary:
		return 8
	}
	return 5
}

// Control codes of the tables.
type ctrl uint8

const (
	cNone ctrl = iota
	cPS        // punctuation shift
	cUS        // upper shift
	cLL        // lower latch
	cUL        // upper latch
	cML        // mixed latch
	cDL        // digit latch
	cPL        // punctuation latch
	cBS        // binary shift
	cFLG       // FLG(n)
)

// Code is one entry of a code table: either a control function or the bytes
// it stands for (1 byte, or 2 bytes for the Punct pairs).
type Code struct {
	Ctrl  string // "", "P/S", "U/S", "L/L", "U/L", "M/L", "D/L", "P/L", "B/S", "FLG(n)"
	Bytes string
}

type entry struct {
	c ctrl
	s string
}

func ctrlName(c ctrl) string {
	switch c {
	case cPS:
		return "P/S"
	case cUS:
		return "U/S"
	case cLL:
		return "L/L"
	case cUL:
		return "U/L"
	case cML:
		return "M/L"
	case cDL:
		return "D/L"
	case cPL:
		return "P/L"
	case cBS:
		return "B/S"
	case cFLG:
		return "FLG(n)"
	}
	return ""
}

// lookup is the code table of ISO/IEC 24778 (table "Aztec Code character
// encodation"), written out value by value.
func lookup(m Mode, v int) (entry, bool) {
	switch m {
	case Upper:
		switch {
		case v == 0:
			return entry{c: cPS}, true
		case v == 1:
			return entry{s: " "}, true
		case v >= 2 && v <= 27:
			return entry{s: string([]byte{byte('A' + v - 2)})}, true
		case v == 28:
			return entry{c: cLL}, true
		case v == 29:
			return entry{c: cML}, true
		case v == 30:
			return entry{c: cDL}, true
		case v == 31:
			return entry{c: cBS}, true
		}
	case Lower:
		switch {
		case v == 0:
			return entry{c: cPS}, true
		case v == 1:
			return entry{s: " "}, true
		case v >= 2 && v <= 27:
			return entry{s: string([]byte{byte('a' + v - 2)})}, true
		case v == 28:
			return entry{c: cUS}, true
		case v == 29:
			return entry{c: cML}, true
		case v == 30:
			return entry{c: cDL}, true
		case v == 31:
			return entry{c: cBS}, true
		}
	case Mixed:
		switch {
		case v == 0:
			return entry{c: cPS}, true
		case v == 1:
			return entry{s: " "}, true
		case v >= 2 && v <= 14: // ^A .. ^M  (SOH .. CR)
			return entry{s: string([]byte{byte(v - 1)})}, true
		case v == 15: // ESC
			return entry{s: "\x1b"}, true
		case v >= 16 && v <= 19: // FS GS RS US
			return entry{s: string([]byte{byte(28 + v - 16)})}, true
		case v >= 20 && v <= 27:
			return entry{s: string([]byte{"@\\^_`|~\x7f"[v-20]})}, true
		case v == 28:
			return entry{c: cLL}, true
		case v == 29:
			return entry{c: cUL}, true
		case v == 30:
			return entry{c: cPL}, true
		case v == 31:
			return entry{c: cBS}, true
		}
	case Punct:
		switch {
		case v == 0:
			return entry{c: cFLG}, true
		case v == 1:
			return entry{s: "\r"}, true
		case v == 2:
			return entry{s: "\r\n"}, true
		case v == 3:
			return entry{s: ". "}, true
		case v == 4:
			return entry{s: ", "}, true
		case v == 5:
			return entry{s: ": "}, true
		case v >= 6 && v <= 20: // ! " # $ % & ' ( ) * + , - . /
			return entry{s: string([]byte{byte('!' + v - 6)})}, true
		case v >= 21 && v <= 30:
			return entry{s: string([]byte{":;<=>?[]{}"[v-21]})}, true
		case v == 31:
			return entry{c: cUL}, true
		}
	case Digit:
		switch {
		case v == 0:
			return entry{c: cPS}, true
		case v == 1:
			return entry{s: " "}, true
		case v >= 2 && v <= 11:
			return entry{s: string([]byte{byte('0' + v - 2)})}, true
		case v == 12:
			return entry{s: ","}, true
		case v == 13:
			return entry{s: "."}, true
		case v == 14:
			return entry{c: cUL}, true
		case v == 15:
			return entry{c: cUS}, true
		}
	}
	return entry{}, false
}

// TableEntry exposes the code tables: the meaning of code value v in mode m
// (m one of Upper, Lower, Mixed, Punct, Digit).
func TableEntry(m Mode, v int) (Code, bool) {
	e, ok := lookup(m, v)
	if !ok {
		return Code{}, false
	}
	return Code{Ctrl: ctrlName(e.c), Bytes: e.s}, true
}

func ctrlTarget(c ctrl) Mode {
	switch c {
	case cPS, cPL:
		return Punct
	case cUS, cUL:
		return Upper
	case cLL:
		return Lower
	case cML:
		return Mixed
	case cDL:
		return Digit
	case cBS:
		return Binary
	}
	return Upper
}

func isLatch(c ctrl) bool {
	return c == cLL || c == cUL || c == cML || c == cDL || c == cPL
}

// BitsInfo is the detailed result of DecodeBitsInfo.
type BitsInfo struct {
	Payload []byte
	// PadBits is the number of trailing bits treated as padding.
	PadBits int
	// EndMode is the mode in effect (latched) at the end of the data.
	EndMode Mode
	// ShiftInShift is set when a shift or latch code was read while a
	// one-character shift was pending (e.g. D/L U/S B/S).  The standard says
	// a shift ends in the mode from which it was invoked; this decoder then
	// behaves like zxing (the shifted-to mode becomes the mode returned to).
	// A conforming encoder has no reason to produce such sequences.
	ShiftInShift bool
}

var errFLG = errors.New("FLG(n) (FNC1 / ECI) is not supported by this reference decoder")

func allOnes(b []bool) bool {
	for _, v := range b {
		if !v {
			return false
		}
	}
	return true
}

func readBits(bits []bool, pos, n int) int {
	v := 0
	for i := 0; i < n; i++ {
		v <<= 1
		if bits[pos+i] {
			v |= 1
		}
	}
	return v
}

// DecodeBits decodes the un-stuffed data bit stream of a symbol.
//
// Decoding starts in Upper mode.  Latches change the mode permanently, shifts
// (P/S, U/S) for one code, B/S for a run of bytes whose count is given by 5
// bits (1..31) or, if those are 0, by 11 more bits (value + 31).  Punct codes
// 2..5 stand for the pairs CR LF, ". ", ", ", ": ".  FLG(n) is reported as an
// error.
//
// Padding: the encoder fills the last codeword with 1 bits.  Accordingly, when
// the bits run out in the middle of an element, the element's available bits
// must all be ones and are dropped as padding: an incomplete code, an
// incomplete B/S length field, or - because in Upper/Lower/Mixed eleven pad
// bits read as B/S with length 31 - a byte run with length field 31 of which
// not a single byte is complete.  Any other truncation is an error.
func DecodeBits(bits []bool) (payload []byte, err error) {
	info, err := DecodeBitsInfo(bits)
	if err != nil {
		return nil, err
	}
	return info.Payload, nil
}

// DecodeBitsInfo is DecodeBits with additional diagnostics.
func DecodeBitsInfo(bits []bool) (*BitsInfo, error) {
	info := &BitsInfo{Payload: []byte{}}
	latch := Upper // mode to return to after a shift
	cur := Upper   // table for the next code
	pos := 0
	outEnd := 0 // position just after the last element that produced output
	n := len(bits)
	pad := func(from int, what string) (*BitsInfo, error) {
		if !allOnes(bits[from:]) {
			return nil, fmt.Errorf("aztec high-level: bit stream ends inside %s at bit %d (%d bits left) and the remaining bits are not all ones, so they are not padding", what, from, n-from)
		}
		if allOnes(bits[outEnd:]) {
			from = outEnd // preceding shift/latch codes made of ones are padding too
		}
		info.PadBits = n - from
		info.EndMode = latch
		return info, nil
	}
	for pos < n {
		if cur == Binary {
			start := pos
			if n-pos < 5 {
				return pad(pos, "a B/S length field")
			}
			cnt := readBits(bits, pos, 5)
			pos += 5
			if cnt == 0 {
				if n-pos < 11 {
					// the 5 zero bits already read rule out padding
					return nil, fmt.Errorf("aztec high-level: bit stream ends inside the 11-bit B/S length field at bit %d", pos)
				}
				cnt = readBits(bits, pos, 11) + 31
				pos += 11
			}
			if n-pos < 8*cnt {
				if cnt == 31 && n-pos < 8 {
					// 11111 11111 1.. : padding that happens to read as B/S, length 31
					return pad(start, "a B/S byte run (length field 31, no complete byte)")
				}
				return nil, fmt.Errorf("aztec high-level: B/S run of %d bytes starting at bit %d is truncated: only %d bits left", cnt, pos, n-pos)
			}
			for i := 0; i < cnt; i++ {
				info.Payload = append(info.Payload, byte(readBits(bits, pos, 8)))
				pos += 8
			}
			outEnd = pos
			cur = latch
			continue
		}
		w := CodeBits(cur)
		if n-pos < w {
			return pad(pos, fmt.Sprintf("a %d-bit %s code", w, cur))
		}
		v := readBits(bits, pos, w)
		e, ok := lookup(cur, v)
		if !ok {
			return nil, fmt.Errorf("aztec high-level: no entry for value %d in %s table (bit %d)", v, cur, pos)
		}
		pos += w
		switch {
		case e.c == cFLG:
			return nil, fmt.Errorf("aztec high-level: at bit %d: %w", pos-w, errFLG)
		case e.c != cNone:
			if cur != latch {
				info.ShiftInShift = true
			}
			// a shift ends in the mode from which it was invoked
			latch = cur
			cur = ctrlTarget(e.c)
			if isLatch(e.c) {
				latch = cur
			}
		default:
			info.Payload = append(info.Payload, e.s...)
			outEnd = pos
			cur = latch
		}
	}
	// Ran out exactly at an element boundary.  A pending shift / B/S with no
	// bits left is an (empty) truncated element; nothing to check.
	info.EndMode = latch
	return info, nil
}

// Unstuff removes the bit stuffing from data codewords.  Each word has
// wordBits bits (msb first).  If the first wordBits-1 bits of a word are all
// equal the last bit is a stuffed complement: 0...01 stands for wordBits-1
// zeros, 1...10 for wordBits-1 ones.  All-zero and all-one words cannot occur
// in a stuffed message and are errors.
func Unstuff(words []int, wordBits int) (bits []bool, err error) {
	if wordBits < 2 || wordBits > 30 {
		return nil, fmt.Errorf("aztec unstuff: unsupported word size %d", wordBits)
	}
	mask := 1<<uint(wordBits) - 1
	bits = make([]bool, 0, len(words)*wordBits)
	for i, w := range words {
		switch {
		case w < 0 || w > mask:
			return nil, fmt.Errorf("aztec unstuff: data word %d = %#x does not fit %d bits", i, w, wordBits)
		case w == 0:
			return nil, fmt.Errorf("aztec unstuff: data word %d is all zeros (illegal, stuffing rule)", i)
		case w == mask:
			return nil, fmt.Errorf("aztec unstuff: data word %d is all ones (illegal, stuffing rule)", i)
		case w == 1:
			for k := 0; k < wordBits-1; k++ {
				bits = append(bits, false)
			}
		case w == mask-1:
			for k := 0; k < wordBits-1; k++ {
				bits = append(bits, true)
			}
		default:
			for k := wordBits - 1; k >= 0; k-- {
				bits = append(bits, w>>uint(k)&1 == 1)
			}
		}
	}
	return bits, nil
}
