package aztecspec

import (
	"bytes"
	"strings"
	"testing"
)

func allFormats() []Format {
	var fs []Format
	for l := 1; l <= MaxCompactLayers; l++ {
		fs = append(fs, Format{true, l})
	}
	for l := 1; l <= MaxFullLayers; l++ {
		fs = append(fs, Format{false, l})
	}
	return fs
}

func TestSizes(t *testing.T) {
	wantFull := []int{19, 23, 27, 31, 37, 41, 45, 49, 53, 57, 61, 67, 71, 75, 79, 83, 87, 91, 95,
		101, 105, 109, 113, 117, 121, 125, 131, 135, 139, 143, 147, 151}
	for l := 1; l <= 32; l++ {
		if got := SymbolSize(false, l); got != wantFull[l-1] {
			t.Errorf("full %d: size %d want %d", l, got, wantFull[l-1])
		}
	}
	for l, w := range []int{15, 19, 23, 27} {
		if got := SymbolSize(true, l+1); got != w {
			t.Errorf("compact %d: size %d want %d", l+1, got, w)
		}
	}
	if SymbolSize(true, 0) != 0 || SymbolSize(true, 5) != 0 || SymbolSize(false, 33) != 0 || SymbolSize(false, 0) != 0 {
		t.Error("illegal formats must give size 0")
	}
	// SizeToLayers
	for _, f := range allFormats() {
		dim := SymbolSize(f.Compact, f.Layers)
		c, l, ok := SizeToLayers(dim)
		amb := dim == 19 || dim == 23 || dim == 27
		if amb {
			if ok {
				t.Errorf("dim %d is ambiguous", dim)
			}
			if len(SizeCandidates(dim)) != 2 {
				t.Errorf("dim %d: want 2 candidates", dim)
			}
			continue
		}
		if !ok || c != f.Compact || l != f.Layers {
			t.Errorf("SizeToLayers(%d) = %v %d %v", dim, c, l, ok)
		}
	}
	for _, d := range []int{-1, 0, 1, 11, 14, 16, 17, 33, 35, 150, 152, 155} {
		if _, _, ok := SizeToLayers(d); ok {
			t.Errorf("dim %d accepted", d)
		}
		if len(SizeCandidates(d)) != 0 {
			t.Errorf("dim %d has candidates", d)
		}
	}
	// word sizes and capacities (ISO 24778 table 1 spot values)
	type row struct {
		c          bool
		l, w, bits int
	}
	for _, r := range []row{
		{true, 1, 6, 104}, {true, 2, 6, 240}, {true, 3, 8, 408}, {true, 4, 8, 608},
		{false, 1, 6, 128}, {false, 2, 6, 288}, {false, 3, 8, 480}, {false, 8, 8, 1920},
		{false, 9, 10, 2304}, {false, 22, 10, 10208}, {false, 23, 12, 11040}, {false, 32, 12, 19968},
	} {
		if WordSize(r.c, r.l) != r.w || TotalBits(r.c, r.l) != r.bits {
			t.Errorf("%v %d: word %d bits %d", r.c, r.l, WordSize(r.c, r.l), TotalBits(r.c, r.l))
		}
	}
	// codeword counts of ISO table 1: 17, 40, 51, 76 compact; 21, 48, 60, ... 1664 full
	for _, r := range []row{{true, 1, 17, 0}, {true, 2, 40, 0}, {true, 3, 51, 0}, {true, 4, 76, 0},
		{false, 1, 21, 0}, {false, 2, 48, 0}, {false, 3, 60, 0}, {false, 4, 88, 0}, {false, 32, 1664, 0}} {
		if TotalWords(r.c, r.l) != r.w {
			t.Errorf("%v %d: %d words", r.c, r.l, TotalWords(r.c, r.l))
		}
	}
}

func TestLayoutBijection(t *testing.T) {
	for _, f := range allFormats() {
		lay := Layout(f.Compact, f.Layers)
		dim := SymbolSize(f.Compact, f.Layers)
		if len(lay) != dim {
			t.Fatalf("%v: layout size", f)
		}
		mode := make([]int, ModeBits(f.Compact))
		data := make([]int, TotalBits(f.Compact, f.Layers))
		fixed := 0
		for x := 0; x < dim; x++ {
			if len(lay[x]) != dim {
				t.Fatalf("%v: column %d", f, x)
			}
			for y := 0; y < dim; y++ {
				m := lay[x][y]
				switch m.Kind {
				case KMode:
					if m.Index < 0 || m.Index >= len(mode) {
						t.Fatalf("%v: mode idx %d", f, m.Index)
					}
					mode[m.Index]++
				case KData:
					if m.Index < 0 || m.Index >= len(data) {
						t.Fatalf("%v: data idx %d at %d,%d", f, m.Index, x, y)
					}
					data[m.Index]++
				case KLight, KDark:
					fixed++
					if m.Index != -1 {
						t.Fatalf("%v: fixed index", f)
					}
				default:
					t.Fatalf("%v: kind", f)
				}
			}
		}
		for i, c := range mode {
			if c != 1 {
				t.Fatalf("%v: mode bit %d used %d times", f, i, c)
			}
		}
		for i, c := range data {
			if c != 1 {
				t.Fatalf("%v: data bit %d used %d times", f, i, c)
			}
		}
		if fixed+len(mode)+len(data) != dim*dim {
			t.Fatalf("%v: counts", f)
		}
		// number of fixed modules: core minus mode bits, plus grid outside the core
		r := coreRadius(f.Compact)
		wantFixed := (2*r+1)*(2*r+1) - len(mode)
		if !f.Compact {
			lines := 1 + 2*((2*f.Layers+6)/15) // per direction
			// union of all grid-line modules minus the 29 centre-line modules inside the 15x15 core
			wantFixed += 2*lines*dim - lines*lines - 29
		}
		if fixed != wantFixed {
			t.Errorf("%v: %d fixed modules, want %d", f, fixed, wantFixed)
		}
		// first / last data bit
		if m := lay[0][0]; m.Kind != KData || m.Index != 0 {
			t.Errorf("%v: (0,0) = %+v", f, m)
		}
		if m := lay[baseToActual(f.Compact, f.Layers, 1)][0]; m.Kind != KData || m.Index != 1 {
			t.Errorf("%v: second module = %+v", f, m)
		}
		c := dim / 2
		// last domino of the innermost layer: top side, ends right of the two
		// columns used by the left side, i.e. directly above the top-left
		// orientation mark of the core
		last := len(data) - 1
		if m := lay[c-r][c-r-1]; m.Kind != KData || m.Index != last {
			t.Errorf("%v: last bit at %+v", f, m)
		}
		if m := lay[c-r][c-r-2]; m.Kind != KData || m.Index != last-1 {
			t.Errorf("%v: last-1 bit at %+v", f, m)
		}
		// orientation
		for _, p := range [][3]int{{-r, -r, 1}, {-r + 1, -r, 1}, {-r, -r + 1, 1},
			{r, -r, 1}, {r, -r + 1, 1}, {r - 1, -r, 0},
			{r, r, 0}, {r, r - 1, 1}, {r - 1, r, 0},
			{-r, r, 0}, {-r + 1, r, 0}, {-r, r - 1, 0}} {
			m := lay[c+p[0]][c+p[1]]
			want := KLight
			if p[2] == 1 {
				want = KDark
			}
			if m.Kind != want {
				t.Errorf("%v: orientation at %v = %v", f, p, m.Kind)
			}
		}
		// mode message corner positions
		n := len(mode) / 4
		if lay[c-r+2][c-r].Index != 0 || lay[c+r-2][c-r].Index != n-1 ||
			lay[c+r][c-r+2].Index != n || lay[c+r][c+r-2].Index != 2*n-1 ||
			lay[c+r-2][c+r].Index != 2*n || lay[c-r+2][c+r].Index != 3*n-1 ||
			lay[c-r][c+r-2].Index != 3*n || lay[c-r][c-r+2].Index != 4*n-1 {
			t.Errorf("%v: mode ring order", f)
		}
		if lay[c][c].Kind != KDark || lay[c+1][c].Kind != KLight || lay[c+r-1][c+1].Kind != KDark || lay[c-r+2][c+r-2].Kind != KLight {
			t.Errorf("%v: bullseye", f)
		}
	}
}

func TestReferenceGrid(t *testing.T) {
	// full 5 layers: 37x37, centre 18, grid lines at 2, 18, 34
	lay := Layout(false, 5)
	for _, g := range []int{2, 18, 34} {
		for k := 0; k < 37; k++ {
			for _, m := range []Module{lay[g][k], lay[k][g]} {
				if m.Kind == KData {
					t.Fatalf("grid line %d pos %d is data", g, k)
				}
			}
			if k < 11 || k > 25 { // outside the core
				want := KLight
				if k%2 == 0 {
					want = KDark
				}
				if lay[g][k].Kind != want || lay[k][g].Kind != want {
					t.Errorf("grid %d,%d: %v/%v want %v", g, k, lay[g][k].Kind, lay[k][g].Kind, want)
				}
			}
		}
	}
	if lay[3][3].Kind != KData || lay[1][1].Kind != KData {
		t.Error("expected data next to grid")
	}
	// the outermost layer of a 5-layer symbol is split by the grid line at 2:
	// its two columns are x=0,1; next layer x=3,4
	if lay[0][0].Index != 0 || lay[1][0].Index != 1 || lay[0][1].Index != 2 || lay[0][3].Index != 4 {
		t.Errorf("domino order around grid: %+v %+v %+v %+v", lay[0][0], lay[1][0], lay[0][1], lay[0][3])
	}
	// 12 and 27 layers: 2L+6 is a multiple of 15, the symbol grows by 6 modules
	// because a new pair of grid lines appears directly inside the outermost
	// module ring: lines at centre +-32 (12 layers: 1 and 65 of 67) resp.
	// centre +-64 (27 layers: 1 and 129 of 131).
	for _, l := range []int{12, 27} {
		lay := Layout(false, l)
		dim := len(lay)
		for _, g := range []int{1, dim - 2} {
			for k := 0; k < dim; k++ {
				want := KLight
				if k%2 == 1 { // centre (33 / 65) is odd
					want = KDark
				}
				if lay[g][k].Kind != want || lay[k][g].Kind != want {
					t.Errorf("%d layers: grid module (%d,%d): %v / %v, want %v", l, g, k, lay[g][k].Kind, lay[k][g].Kind, want)
				}
			}
		}
		if lay[0][0].Index != 0 || lay[2][0].Index != 1 || lay[0][2].Index != 2 {
			t.Errorf("%d layers: outer layer must straddle the grid line", l)
		}
	}
	// full 4 layers (31x31): only the centre lines
	lay = Layout(false, 4)
	for k := 0; k < 31; k++ {
		if lay[15][k].Kind > KDark || lay[k][15].Kind > KDark {
			t.Fatalf("centre line pos %d", k)
		}
		if lay[14][k].Kind <= KDark && (k < 8 || k > 22) {
			t.Fatalf("x=14,y=%d fixed", k)
		}
	}
}

func TestGF(t *testing.T) {
	for _, w := range []int{4, 6, 8, 10, 12} {
		f := newField(w)
		if f == nil {
			t.Fatal(w)
		}
		seen := make(map[int]bool)
		for i := 0; i < f.size-1; i++ {
			if seen[f.exp[i]] || f.exp[i] == 0 {
				t.Fatalf("GF(2^%d): poly not primitive", w)
			}
			seen[f.exp[i]] = true
		}
		// slow multiplication cross-check
		slow := func(a, b int) int {
			r := 0
			for b > 0 {
				if b&1 == 1 {
					r ^= a
				}
				a <<= 1
				if a&f.size != 0 {
					a ^= FieldPoly(w)
				}
				b >>= 1
			}
			return r
		}
		for a := 0; a < f.size; a += 1 + f.size/61 {
			for b := 0; b < f.size; b += 1 + f.size/53 {
				if f.mul(a, b) != slow(a, b) {
					t.Fatalf("GF(2^%d) %d*%d", w, a, b)
				}
			}
		}
	}
	if newField(5) != nil || RSEncode(7, []int{1}, 2) != nil || Syndromes(3, []int{1, 2}, 1) != nil {
		t.Error("unsupported word size accepted")
	}
	if RSEncode(4, []int{16}, 2) != nil || RSEncode(4, []int{-1}, 2) != nil || RSEncode(4, make([]int, 14), 2) != nil {
		t.Error("bad data accepted")
	}
}

func TestRS(t *testing.T) {
	// generator of the compact mode message: (x-2)(x-4)(x-8)(x-3)(x-6) over GF(16)
	f := newField(4)
	g := f.generator(5)
	if len(g) != 6 || g[0] != 1 {
		t.Fatal(g)
	}
	for i := 1; i <= 5; i++ {
		v := 0
		for _, c := range g {
			v = f.mul(v, f.exp[i]) ^ c
		}
		if v != 0 {
			t.Errorf("generator has no root a^%d", i)
		}
	}
	// known mode message (zxing EncoderTest vector):
	// compact, 4 layers, 64 data words:  11 111111 | 0100 0001 0011 0100 1100
	if got := RSEncode(4, []int{0xF, 0xF}, 5); !eqInts(got, []int{0x4, 0x1, 0x3, 0x4, 0xC}) {
		t.Errorf("mode(compact,4,64) check = %v", got)
	}
	// round trips and single-error detection in every field
	seed := uint32(12345)
	rnd := func(n int) int {
		seed = seed*1664525 + 1013904223
		return int(seed>>8) % n
	}
	for _, w := range []int{4, 6, 8, 10, 12} {
		size := 1 << uint(w)
		for iter := 0; iter < 40; iter++ {
			n := 1 + rnd(size-2)
			if n > 300 {
				n = 300
			}
			ec := rnd(size - 1 - n + 1)
			if ec > 200 {
				ec = 200
			}
			data := make([]int, n)
			for i := range data {
				data[i] = rnd(size)
			}
			cw := RSCodeword(w, data, ec)
			if len(cw) != n+ec {
				t.Fatalf("w=%d n=%d ec=%d: len %d", w, n, ec, len(cw))
			}
			if !SyndromesZero(w, cw, ec) {
				t.Fatalf("w=%d n=%d ec=%d: syndromes not zero", w, n, ec)
			}
			if ec > 0 {
				pos := rnd(len(cw))
				cw[pos] ^= 1 + rnd(size-1)
				if SyndromesZero(w, cw, ec) {
					t.Fatalf("w=%d: single error not detected", w)
				}
			}
		}
	}
}

func eqInts(a, b []int) bool {
	if len(a) != len(b) {
		return false
	}
	for i := range a {
		if a[i] != b[i] {
			return false
		}
	}
	return true
}

func bitsOf(s string) []bool {
	var b []bool
	for _, c := range s {
		switch c {
		case '1', 'X':
			b = append(b, true)
		case '0', '.':
			b = append(b, false)
		}
	}
	return b
}

func TestUnstuff(t *testing.T) {
	b, err := Unstuff([]int{0x15, 0x01, 0x3E, 0x20}, 6)
	if err != nil {
		t.Fatal(err)
	}
	want := bitsOf("010101 00000 11111 100000")
	if len(b) != len(want) {
		t.Fatalf("%v", b)
	}
	for i := range b {
		if b[i] != want[i] {
			t.Fatalf("bit %d", i)
		}
	}
	for _, w := range []int{6, 8, 10, 12} {
		if _, err := Unstuff([]int{5, 0}, w); err == nil {
			t.Error("all-zero word accepted")
		}
		if _, err := Unstuff([]int{5, 1<<uint(w) - 1}, w); err == nil {
			t.Error("all-one word accepted")
		}
		if _, err := Unstuff([]int{1 << uint(w)}, w); err == nil {
			t.Error("oversized word accepted")
		}
	}
	if _, err := Unstuff([]int{1}, 0); err == nil {
		t.Error("word size 0 accepted")
	}
}

func TestDecodeBits(t *testing.T) {
	type tc struct {
		bits string
		want string
	}
	for _, c := range []tc{
		// zxing HighLevelEncoder vectors
		{"...X. ..... ...XX XXX.. ...XX XXXX. XX.X", "A. b."},
		// "Lower, Upper": L a b via latch; from lower U/S A
		{"11100 00010 11100 00010", "aA"},
		// A B C then digit latch 1 2, upper latch, D
		{"00010 00011 00100 11110 0011 0100 1110 00101", "ABC12D"},
		// mixed latch, ^A, @, punct latch, !, CRLF, upper latch, Z
		{"11101 00010 10100 11110 00110 00010 11111 11011", "\x01@!\r\nZ"},
		// binary shift of 2 bytes in upper, then back to upper
		{"11111 00010 10000001 11111111 00010", "\x81\xffA"},
		// long binary shift: 0 then 11 bits = 1 -> 32 bytes
		{"11111 00000 00000000001 " + strings.Repeat("01000001", 32) + " 00011", strings.Repeat("A", 32) + "B"},
		// digit: U/S then char, then digits continue
		{"11110 0010 1111 00010 0011", "0A1"},
		// P/S pair in digit mode
		{"11110 0011 0000 00100 0100", "1, 2"},
		// padding: incomplete upper code of ones
		{"00010 111", "A"},
		{"00010 1111", "A"},
		// padding 11 ones in upper: B/S, len 31, 1 bit
		{"00010 11111 11111 1", "A"},
		// padding in digit mode: U/S B/S and 2 bits
		{"11110 0010 1111 11111 11", "0"},
		// padding in punct mode
		{"11101 11110 00110 11111 11111 1", "!"},
		{"", ""},
	} {
		got, err := DecodeBits(bitsOf(c.bits))
		if err != nil {
			t.Errorf("%q: %v", c.bits, err)
			continue
		}
		if string(got) != c.want {
			t.Errorf("%q: got %q want %q", c.bits, got, c.want)
		}
	}
	for _, bad := range []string{
		"00010 110",                      // trailing bits not all ones
		"00010 0",                        // trailing zero
		"11111 00010 10000001 1111",      // truncated byte run
		"11111 00000 111111",             // truncated long length
		"00000 00000",                    // P/S FLG(n)
		"11101 11110 00000",              // P/L FLG(n)
		"11111 11111 10000001 1111 1111", // B/S 31 with one complete byte then truncated
		"11111 11111 0",                  // B/S 31, remaining bit zero
	} {
		if got, err := DecodeBits(bitsOf(bad)); err == nil {
			t.Errorf("%q accepted: %q", bad, got)
		}
	}
	info, err := DecodeBitsInfo(bitsOf("11110 1111 11111 00001 01000001 00011"))
	if err != nil || !info.ShiftInShift || string(info.Payload) != "AB" {
		t.Errorf("D/L U/S B/S: %+v %v", info, err)
	}
}

func TestTables(t *testing.T) {
	// every byte value reachable by exactly the expected tables; tables complete
	counts := map[string]int{}
	for _, m := range []Mode{Upper, Lower, Mixed, Punct, Digit} {
		n := 1 << uint(CodeBits(m))
		for v := 0; v < n; v++ {
			c, ok := TableEntry(m, v)
			if !ok {
				t.Fatalf("%v %d missing", m, v)
			}
			if (c.Ctrl == "") == (c.Bytes == "") {
				t.Fatalf("%v %d: %+v", m, v, c)
			}
			if c.Bytes != "" {
				counts[c.Bytes]++
			}
		}
		if _, ok := TableEntry(m, n); ok {
			t.Fatalf("%v %d present", m, n)
		}
	}
	if counts[" "] != 4 || counts["A"] != 1 || counts["."] != 2 || counts[","] != 2 || counts["\r"] != 2 || counts["\r\n"] != 1 {
		t.Errorf("%v", counts)
	}
	// characters not in any table: NUL, 14..26, bytes >= 128 (binary only)
	for _, b := range []byte{0, 14, 26, 128, 255} {
		if counts[string([]byte{b})] != 0 {
			t.Errorf("byte %d in a table", b)
		}
	}
	for b := 32; b < 128; b++ {
		if counts[string([]byte{byte(b)})] == 0 {
			t.Errorf("byte %d in no table", b)
		}
	}
	if c, _ := TableEntry(Mixed, 15); c.Bytes != "\x1b" {
		t.Error("ESC")
	}
	if c, _ := TableEntry(Mixed, 19); c.Bytes != "\x1f" {
		t.Error("US")
	}
	if c, _ := TableEntry(Mixed, 27); c.Bytes != "\x7f" {
		t.Error("DEL")
	}
	if c, _ := TableEntry(Punct, 20); c.Bytes != "/" {
		t.Error("/")
	}
	if c, _ := TableEntry(Punct, 30); c.Bytes != "}" {
		t.Error("}")
	}
}

// buildSymbol is a minimal test-only writer: it places the given data words
// (already stuffed) into a symbol through Layout.
func buildSymbol(compact bool, layers int, dataWords []int) [][]bool {
	dim := SymbolSize(compact, layers)
	w := WordSize(compact, layers)
	total := TotalWords(compact, layers)
	cw := RSCodeword(w, dataWords, total-len(dataWords))
	lead := PadBits(compact, layers)
	stream := make([]bool, lead)
	for _, v := range cw {
		for k := w - 1; k >= 0; k-- {
			stream = append(stream, v>>uint(k)&1 == 1)
		}
	}
	var mw []int
	if compact {
		v := (layers-1)<<6 | (len(dataWords) - 1)
		mw = RSCodeword(4, []int{v >> 4, v & 15}, 5)
	} else {
		v := (layers-1)<<11 | (len(dataWords) - 1)
		mw = RSCodeword(4, []int{v >> 12, v >> 8 & 15, v >> 4 & 15, v & 15}, 6)
	}
	lay := Layout(compact, layers)
	img := make([][]bool, dim)
	for x := range img {
		img[x] = make([]bool, dim)
		for y := range img[x] {
			m := lay[x][y]
			switch m.Kind {
			case KDark:
				img[x][y] = true
			case KMode:
				img[x][y] = mw[m.Index/4]>>uint(3-m.Index%4)&1 == 1
			case KData:
				img[x][y] = stream[m.Index]
			}
		}
	}
	return img
}

func TestDecodeSynthetic(t *testing.T) {
	for _, f := range allFormats() {
		w := WordSize(f.Compact, f.Layers)
		// "AB" in upper mode then padding with ones, packed into words
		msg := bitsOf("00010 00011 00100")
		for len(msg)%w != 0 {
			msg = append(msg, true)
		}
		var words []int
		for i := 0; i < len(msg); i += w {
			words = append(words, readBits(msg, i, w))
		}
		img := buildSymbol(f.Compact, f.Layers, words)
		dim := len(img)
		at := func(x, y int) bool { return img[x][y] }
		res, err := Decode(dim, at)
		if err != nil {
			t.Fatalf("%v: %v", f, err)
		}
		if res.Compact != f.Compact || res.Layers != f.Layers || res.DataWords != len(words) ||
			res.WordBits != w || !bytes.Equal(res.Payload, []byte("ABC")) {
			t.Fatalf("%v: %+v", f, res)
		}
		// every single-module flip must be rejected (fixed pattern, mode RS, data RS)
		step := 1
		if dim > 40 {
			step = dim/5 + 1
		}
		for x := 0; x < dim; x += step {
			for y := 0; y < dim; y += step {
				img[x][y] = !img[x][y]
				if _, err := Decode(dim, at); err == nil {
					// the only tolerated case would be none: RS has >= 1 check word here
					t.Errorf("%v: flip at %d,%d accepted", f, x, y)
				}
				img[x][y] = !img[x][y]
			}
		}
		// transposed symbol must be rejected by the orientation marks
		tr := func(x, y int) bool { return img[y][x] }
		if _, err := Decode(dim, tr); err == nil {
			t.Errorf("%v: mirrored symbol accepted", f)
		}
		rot := func(x, y int) bool { return img[y][dim-1-x] }
		if _, err := Decode(dim, rot); err == nil {
			t.Errorf("%v: rotated symbol accepted", f)
		}
	}
	if _, err := Decode(16, func(x, y int) bool { return false }); err == nil {
		t.Error("dim 16 accepted")
	}
	if _, err := Decode(19, func(x, y int) bool { return false }); err == nil {
		t.Error("blank accepted")
	}
	if _, err := Decode(15, nil); err == nil {
		t.Error("nil accessor accepted")
	}
}
