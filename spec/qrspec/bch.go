package qrspec

const (
	formatGen  = 0x537  // x^10+x^8+x^5+x^4+x^2+x+1, BCH(15,5)
	formatMask = 0x5412 // 101010000010010, ISO 7.9.1
	versionGen = 0x1F25 // x^12+x^11+x^10+x^9+x^8+x^5+x^2+1, BCH(18,6) (Golay)
)

// polyRem returns the remainder of the GF(2) polynomial v modulo gen.
func polyRem(v uint32, gen uint32) uint32 {
	gl := bitLen(gen)
	for bitLen(v) >= gl {
		v ^= gen << uint(bitLen(v)-gl)
	}
	return v
}

func bitLen(v uint32) int {
	n := 0
	for v != 0 {
		n++
		v >>= 1
	}
	return n
}

// FormatWord returns the 15-bit format information word for (level, mask):
// 2 level bits (L=01 M=00 Q=11 H=10) and 3 mask bits, followed by the 10
// BCH(15,5) check bits (generator 0x537), the whole XORed with 0x5412.
// Returns 0xFFFF for illegal arguments.
func FormatWord(level Level, mask int) uint16 {
	if !level.Valid() || mask < 0 || mask > 7 {
		return 0xFFFF
	}
	data := uint32(LevelBits(level)<<3 | mask)
	w := data<<10 | polyRem(data<<10, formatGen)
	return uint16(w ^ formatMask)
}

// formatValid reports whether w (15 bits, as read from the symbol) is an
// error free format information word, and if so decodes it.
func formatValid(w uint16) (level Level, mask int, ok bool) {
	if w&0x8000 != 0 {
		return 0, 0, false
	}
	u := uint32(w) ^ formatMask
	if polyRem(u, formatGen) != 0 {
		return 0, 0, false
	}
	data := int(u >> 10)
	return levelFromBits(data >> 3), data & 7, true
}

// VersionWord returns the 18-bit version information word: 6 version bits
// followed by 12 BCH(18,6) check bits (generator 0x1F25). It is defined for
// versions 7..40; for other arguments it returns 0 (versions below 7 carry
// no version information).
func VersionWord(version int) uint32 {
	if version < 7 || version > 40 {
		return 0
	}
	d := uint32(version)
	return d<<12 | polyRem(d<<12, versionGen)
}

// versionWordValid reports whether w is an error free version word and
// returns the version number it carries (which may be outside 7..40).
func versionWordValid(w uint32) (version int, ok bool) {
	if w>>18 != 0 || polyRem(w, versionGen) != 0 {
		return 0, false
	}
	return int(w >> 12), true
}

// MaskBit reports whether the module at column x, row y is inverted by data
// mask pattern `mask` (ISO table 10; there i = row = y and j = column = x).
// Masks outside 0..7 never invert.
func MaskBit(mask, x, y int) bool {
	i, j := y, x
	switch mask {
	case 0:
		return (i+j)%2 == 0
	case 1:
		return i%2 == 0
	case 2:
		return j%3 == 0
	case 3:
		return (i+j)%3 == 0
	case 4:
		return (i/2+j/3)%2 == 0
	case 5:
		return (i*j)%2+(i*j)%3 == 0
	case 6:
		return ((i*j)%2+(i*j)%3)%2 == 0
	case 7:
		return ((i+j)%2+(i*j)%3)%2 == 0
	}
	return false
}
