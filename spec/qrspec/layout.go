package qrspec

// ModuleKind classifies a module of the symbol.
type ModuleKind uint8

const (
	KFixedLight ModuleKind = iota // function pattern module that is always light
	KFixedDark                    // function pattern module that is always dark
	KFormat                       // format information bit
	KVersion                      // version information bit
	KData                         // data / error correction / remainder bit
)

func (k ModuleKind) String() string {
	switch k {
	case KFixedLight:
		return "fixed-light"
	case KFixedDark:
		return "fixed-dark"
	case KFormat:
		return "format"
	case KVersion:
		return "version"
	case KData:
		return "data"
	}
	return "kind(?)"
}

// For KFixedLight / KFixedDark modules Module.Index names the function
// pattern the module belongs to.
const (
	PartFinder     = 0 // 7x7 finder pattern
	PartSeparator  = 1 // one module wide light separator around a finder
	PartTiming     = 2 // timing pattern (row 6 / column 6)
	PartAlignment  = 3 // 5x5 alignment pattern
	PartDarkModule = 4 // the single dark module at (8, 4v+9)
)

var partNames = [...]string{"finder pattern", "separator", "timing pattern", "alignment pattern", "dark module"}

// Module describes one module of the symbol.
//
//   - KFixedLight/KFixedDark: Index is one of the Part* constants.
//   - KFormat: Index = bit number 0..14 of the format word (14 = msb).
//   - KVersion: Index = bit number 0..17 of the version word (17 = msb).
//   - KData: Index = position in the placement order of the final bit stream;
//     Index >= 8*TotalCodewords(version) are remainder bits.
type Module struct {
	Kind  ModuleKind
	Index int
}

// Layout returns the classification of every module of a version `version`
// symbol, indexed [x][y] (x = column, y = row), with dim = 17+4*version.
// It returns nil for an illegal version.
func Layout(version int) [][]Module {
	if !ValidVersion(version) {
		return nil
	}
	dim := Dim(version)
	grid := make([][]Module, dim)
	set := make([][]bool, dim)
	for x := range grid {
		grid[x] = make([]Module, dim)
		set[x] = make([]bool, dim)
	}
	put := func(x, y int, dark bool, part int) {
		k := KFixedLight
		if dark {
			k = KFixedDark
		}
		grid[x][y] = Module{Kind: k, Index: part}
		set[x][y] = true
	}

	// Finder patterns (ISO 6.3.3) at the three corners with their separators
	// (6.3.4). A finder is 7x7: dark 7x7 ring, light 5x5 ring, dark 3x3 core.
	finder := func(ox, oy int) {
		for dx := -1; dx <= 7; dx++ {
			for dy := -1; dy <= 7; dy++ {
				x, y := ox+dx, oy+dy
				if x < 0 || y < 0 || x >= dim || y >= dim {
					continue
				}
				if dx < 0 || dy < 0 || dx > 6 || dy > 6 {
					put(x, y, false, PartSeparator)
					continue
				}
				d := abs(dx - 3)
				if e := abs(dy - 3); e > d {
					d = e
				}
				put(x, y, d != 2, PartFinder)
			}
		}
	}
	finder(0, 0)
	finder(dim-7, 0)
	finder(0, dim-7)

	// Timing patterns (6.3.5): row 6 and column 6, alternating starting and
	// ending with dark next to the separators (dark on even coordinates).
	for i := 8; i <= dim-9; i++ {
		put(i, 6, i%2 == 0, PartTiming)
		put(6, i, i%2 == 0, PartTiming)
	}

	// Alignment patterns (6.3.6, Annex E): 5x5, dark ring, light ring, dark
	// centre, on every coordinate pair that does not hit a finder pattern.
	ac := alignTable[version-1]
	for ia, cx := range ac {
		for ib, cy := range ac {
			last := len(ac) - 1
			if (ia == 0 && ib == 0) || (ia == 0 && ib == last) || (ia == last && ib == 0) {
				continue
			}
			for dx := -2; dx <= 2; dx++ {
				for dy := -2; dy <= 2; dy++ {
					d := abs(dx)
					if e := abs(dy); e > d {
						d = e
					}
					put(cx+dx, cy+dy, d != 1, PartAlignment)
				}
			}
		}
	}

	// Dark module (7.9.1, figure 25): column 8, row 4v+9.
	put(8, dim-8, true, PartDarkModule)

	// Format information (7.9.1, figure 25). Bit 14 is the msb.
	fmtAt := func(x, y, bit int) {
		grid[x][y] = Module{Kind: KFormat, Index: bit}
		set[x][y] = true
	}
	// First copy, around the upper left finder: bits 0..7 go down column 8
	// (skipping the timing row), bits 8..14 go leftwards along row 8
	// (skipping the timing column).
	for b := 0; b <= 5; b++ {
		fmtAt(8, b, b)
	}
	fmtAt(8, 7, 6)
	fmtAt(8, 8, 7)
	fmtAt(7, 8, 8)
	for b := 9; b <= 14; b++ {
		fmtAt(14-b, 8, b)
	}
	// Second copy: bits 0..7 run leftwards along row 8 from the right edge
	// (below the upper right finder); bits 8..14 run downwards in column 8
	// next to the lower left finder, just below the dark module.
	for b := 0; b <= 7; b++ {
		fmtAt(dim-1-b, 8, b)
	}
	for b := 8; b <= 14; b++ {
		fmtAt(8, dim-15+b, b)
	}

	// Version information (7.10, figures 27/28), versions 7..40: a block of
	// 3 rows x 6 columns above the lower left finder (bits run down each
	// column: 0,1,2 / 3,4,5 / ...) and its transpose, 6 rows x 3 columns,
	// left of the upper right finder (bits run along each row). Bit 0 (lsb)
	// is the upper left module of each block.
	if version >= 7 {
		for b := 0; b < 18; b++ {
			a, c := dim-11+b%3, b/3
			grid[a][c] = Module{Kind: KVersion, Index: b} // upper right block: x=a, y=c
			set[a][c] = true
			grid[c][a] = Module{Kind: KVersion, Index: b} // lower left block: x=c, y=a
			set[c][a] = true
		}
	}

	// Data placement (7.7.3): two module wide columns from the right edge,
	// alternately upwards and downwards, right module before left module,
	// the vertical timing pattern column being skipped entirely.
	idx := 0
	up := true
	for right := dim - 1; right >= 1; right -= 2 {
		if right == 6 {
			right = 5
		}
		for i := 0; i < dim; i++ {
			y := i
			if up {
				y = dim - 1 - i
			}
			for k := 0; k < 2; k++ {
				x := right - k
				if !set[x][y] {
					grid[x][y] = Module{Kind: KData, Index: idx}
					set[x][y] = true
					idx++
				}
			}
		}
		up = !up
	}
	return grid
}

func abs(a int) int {
	if a < 0 {
		return -a
	}
	return a
}
