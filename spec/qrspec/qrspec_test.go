package qrspec

import (
	"bytes"
	"errors"
	"math/rand"
	"testing"
)

// ISO/IEC 18004 table 1: total codewords and remainder bits per version.
var isoTotalCodewords = [40]int{26, 44, 70, 100, 134, 172, 196, 242, 292, 346, 404, 466, 532, 581, 655, 733, 815, 901, 991, 1085,
	1156, 1258, 1364, 1474, 1588, 1706, 1828, 1921, 2051, 2185, 2323, 2465, 2611, 2761, 2876, 3034, 3196, 3362, 3532, 3706}
var isoRemainder = [40]int{0, 7, 7, 7, 7, 7, 0, 0, 0, 0, 0, 0, 0, 3, 3, 3, 3, 3, 3, 3, 4, 4, 4, 4, 4, 4, 4, 3, 3, 3, 3, 3, 3, 3, 0, 0, 0, 0, 0, 0}

// Second, differently organised transcription of table 9 (per level: ec
// codewords per block, and total number of blocks), as used by several
// independent encoders. Group sizes follow from the total codeword count.
var ecPerBlock2 = [4][40]int{
	{7, 10, 15, 20, 26, 18, 20, 24, 30, 18, 20, 24, 26, 30, 22, 24, 28, 30, 28, 28, 28, 28, 30, 30, 26, 28, 30, 30, 30, 30, 30, 30, 30, 30, 30, 30, 30, 30, 30, 30},
	{10, 16, 26, 18, 24, 16, 18, 22, 22, 26, 30, 22, 22, 24, 24, 28, 28, 26, 26, 26, 26, 28, 28, 28, 28, 28, 28, 28, 28, 28, 28, 28, 28, 28, 28, 28, 28, 28, 28, 28},
	{13, 22, 18, 26, 18, 24, 18, 22, 20, 24, 28, 26, 24, 20, 30, 24, 28, 28, 26, 30, 28, 30, 30, 30, 30, 28, 30, 30, 30, 30, 30, 30, 30, 30, 30, 30, 30, 30, 30, 30},
	{17, 28, 22, 16, 22, 28, 26, 26, 24, 28, 24, 28, 22, 24, 24, 30, 28, 28, 26, 28, 30, 24, 30, 30, 30, 30, 30, 30, 30, 30, 30, 30, 30, 30, 30, 30, 30, 30, 30, 30},
}
var numBlocks2 = [4][40]int{
	{1, 1, 1, 1, 1, 2, 2, 2, 2, 4, 4, 4, 4, 4, 6, 6, 6, 6, 7, 8, 8, 9, 9, 10, 12, 12, 12, 13, 14, 15, 16, 17, 18, 19, 19, 20, 21, 22, 24, 25},
	{1, 1, 1, 2, 2, 4, 4, 4, 5, 5, 5, 8, 9, 9, 10, 10, 11, 13, 14, 16, 17, 17, 18, 20, 21, 23, 25, 26, 28, 29, 31, 33, 35, 37, 38, 40, 43, 45, 47, 49},
	{1, 1, 2, 2, 4, 4, 6, 6, 8, 8, 8, 10, 12, 16, 12, 17, 16, 18, 21, 20, 23, 23, 25, 27, 29, 34, 34, 35, 38, 40, 43, 45, 48, 51, 53, 56, 59, 62, 65, 68},
	{1, 1, 2, 4, 4, 4, 5, 6, 8, 8, 11, 11, 16, 16, 18, 16, 19, 21, 25, 25, 25, 34, 30, 32, 35, 37, 40, 42, 45, 48, 51, 54, 57, 60, 63, 66, 70, 74, 77, 81},
}

func TestTotalsAndRemainder(t *testing.T) {
	for v := 1; v <= 40; v++ {
		if got := TotalCodewords(v); got != isoTotalCodewords[v-1] {
			t.Errorf("TotalCodewords(%d)=%d, ISO table 1 says %d", v, got, isoTotalCodewords[v-1])
		}
		if got := RemainderBits(v); got != isoRemainder[v-1] {
			t.Errorf("RemainderBits(%d)=%d, ISO table 1 says %d", v, got, isoRemainder[v-1])
		}
	}
	for _, v := range []int{0, -1, 41} {
		if TotalCodewords(v) != 0 || RemainderBits(v) != 0 || Layout(v) != nil || AlignmentCenters(v) != nil {
			t.Errorf("illegal version %d not rejected", v)
		}
	}
}

func TestBlockTable(t *testing.T) {
	for v := 1; v <= 40; v++ {
		for l := L; l <= H; l++ {
			ec, n1, d1, n2, d2 := BlockInfo(v, l)
			if n1 < 1 || d1 < 1 || ec < 7 || ec > 30 {
				t.Errorf("%d-%v: implausible row %d %d %d %d %d", v, l, ec, n1, d1, n2, d2)
			}
			if (n2 == 0) != (d2 == 0) || (n2 > 0 && d2 != d1+1) {
				t.Errorf("%d-%v: group 2 must have d1+1 data codewords: %d %d %d %d", v, l, n1, d1, n2, d2)
			}
			if d1+ec > 255 || d2+ec > 255 {
				t.Errorf("%d-%v: block too long", v, l)
			}
			total := n1*(d1+ec) + n2*(d2+ec)
			if total != TotalCodewords(v) {
				t.Errorf("%d-%v: blocks sum to %d codewords, symbol has %d", v, l, total, TotalCodewords(v))
			}
			// second transcription
			if ec != ecPerBlock2[l][v-1] || n1+n2 != numBlocks2[l][v-1] {
				t.Errorf("%d-%v: ec=%d blocks=%d, second transcription says ec=%d blocks=%d", v, l, ec, n1+n2, ecPerBlock2[l][v-1], numBlocks2[l][v-1])
			}
			nb := numBlocks2[l][v-1]
			dataTotal := TotalCodewords(v) - nb*ecPerBlock2[l][v-1]
			wd1, wn2 := dataTotal/nb, dataTotal%nb
			if d1 != wd1 || n2 != wn2 || n1 != nb-wn2 {
				t.Errorf("%d-%v: structure (%d x %d, %d x %d) != derived (%d x %d, %d x %d)", v, l, n1, d1, n2, d2, nb-wn2, wd1, wn2, wd1+1)
			}
			// levels are ordered by strength
			if l > L && DataCodewords(v, l) >= DataCodewords(v, l-1) {
				t.Errorf("%d-%v: data codewords not decreasing with level", v, l)
			}
			if v > 1 && DataCodewords(v, l) <= DataCodewords(v-1, l) {
				t.Errorf("%d-%v: data codewords not increasing with version", v, l)
			}
		}
	}
	// a few well known values of ISO table 7 (data codewords)
	for _, c := range []struct {
		v    int
		l    Level
		want int
	}{{1, L, 19}, {1, M, 16}, {1, Q, 13}, {1, H, 9}, {5, Q, 62}, {10, L, 274}, {10, M, 216}, {25, Q, 718}, {27, L, 1468}, {40, L, 2956}, {40, M, 2334}, {40, Q, 1666}, {40, H, 1276}} {
		if got := DataCodewords(c.v, c.l); got != c.want {
			t.Errorf("DataCodewords(%d,%v)=%d want %d", c.v, c.l, got, c.want)
		}
	}
	if ec, n1, d1, n2, d2 := BlockInfo(0, L); ec|n1|d1|n2|d2 != 0 {
		t.Error("BlockInfo(0) not zero")
	}
	if ec, n1, d1, n2, d2 := BlockInfo(5, Level(4)); ec|n1|d1|n2|d2 != 0 {
		t.Error("BlockInfo(level 4) not zero")
	}
}

func TestCapacities(t *testing.T) {
	// ISO table 7: numeric / alphanumeric / byte capacities.
	for _, c := range []struct {
		v       int
		l       Level
		n, a, b int
	}{
		{1, L, 41, 25, 17}, {1, M, 34, 20, 14}, {1, Q, 27, 16, 11}, {1, H, 17, 10, 7},
		{2, L, 77, 47, 32}, {3, M, 101, 61, 42}, {4, H, 82, 50, 34}, {5, Q, 144, 87, 60}, {6, H, 139, 84, 58},
		{9, L, 552, 335, 230}, {10, L, 652, 395, 271}, {10, H, 288, 174, 119},
		{26, L, 3283, 1990, 1367}, {27, L, 3517, 2132, 1465},
		{40, L, 7089, 4296, 2953}, {40, M, 5596, 3391, 2331}, {40, Q, 3993, 2420, 1663}, {40, H, 3057, 1852, 1273},
	} {
		if g := MaxChars(c.v, c.l, ModeNumeric); g != c.n {
			t.Errorf("%d-%v numeric capacity %d want %d", c.v, c.l, g, c.n)
		}
		if g := MaxChars(c.v, c.l, ModeAlpha); g != c.a {
			t.Errorf("%d-%v alnum capacity %d want %d", c.v, c.l, g, c.a)
		}
		if g := MaxChars(c.v, c.l, ModeByte); g != c.b {
			t.Errorf("%d-%v byte capacity %d want %d", c.v, c.l, g, c.b)
		}
	}
	for v := 1; v <= 40; v++ {
		w := [3]int{10, 9, 8}
		if v >= 10 {
			w = [3]int{12, 11, 16}
		}
		if v >= 27 {
			w = [3]int{14, 13, 16}
		}
		if CharCountBits(v, ModeNumeric) != w[0] || CharCountBits(v, ModeAlpha) != w[1] || CharCountBits(v, ModeByte) != w[2] {
			t.Errorf("CharCountBits v%d wrong", v)
		}
		if CharCountBits(v, Mode(8)) != 0 || CharCountBits(v, Mode(0)) != 0 {
			t.Errorf("CharCountBits v%d: unsupported mode must give 0", v)
		}
	}
}

func TestAlignment(t *testing.T) {
	for v := 1; v <= 40; v++ {
		got := AlignmentCenters(v)
		// The rule behind Annex E: first centre 6, last centre dim-7, v/7+2
		// coordinates, even steps, equal steps except possibly the first,
		// which is then the smaller one.
		if v == 1 {
			if len(got) != 0 {
				t.Errorf("v1 has alignment centres %v", got)
			}
			continue
		}
		n := v/7 + 2
		if len(got) != n || got[0] != 6 || got[n-1] != Dim(v)-7 {
			t.Errorf("v%d: %v", v, got)
			continue
		}
		// independent computation (closed form, with the one irregular row)
		step := (v*4 + n*2 + 1) / (n*2 - 2) * 2
		if v == 32 {
			step = 26
		}
		want := make([]int, n)
		want[0] = 6
		for i, pos := n-1, Dim(v)-7; i >= 1; i, pos = i-1, pos-step {
			want[i] = pos
		}
		for i := range want {
			if want[i] != got[i] {
				t.Errorf("v%d: Annex E transcription %v, formula %v", v, got, want)
				break
			}
		}
		got[0] = 99 // must be a copy
		if AlignmentCenters(v)[0] != 6 {
			t.Fatal("AlignmentCenters returns shared storage")
		}
	}
}

// ISO/IEC 18004 Annex C table C.1, indexed by the 5 data bits.
var isoFormat = [32]uint16{
	0x5412, 0x5125, 0x5E7C, 0x5B4B, 0x45F9, 0x40CE, 0x4F97, 0x4AA0, 0x77C4, 0x72F3, 0x7DAA, 0x789D, 0x662F, 0x6318, 0x6C41, 0x6976,
	0x1689, 0x13BE, 0x1CE7, 0x19D0, 0x0762, 0x0255, 0x0D0C, 0x083B, 0x355F, 0x3068, 0x3F31, 0x3A06, 0x24B4, 0x2183, 0x2EDA, 0x2BED,
}

// ISO/IEC 18004 Annex D table D.1, versions 7..40.
var isoVersion = [34]uint32{
	0x07C94, 0x085BC, 0x09A99, 0x0A4D3, 0x0BBF6, 0x0C762, 0x0D847, 0x0E60D, 0x0F928, 0x10B78, 0x1145D, 0x12A17, 0x13532, 0x149A6, 0x15683, 0x168C9, 0x177EC,
	0x18EC4, 0x191E1, 0x1AFAB, 0x1B08E, 0x1CC1A, 0x1D33F, 0x1ED75, 0x1F250, 0x209D5, 0x216F0, 0x228BA, 0x2379F, 0x24B0B, 0x2542E, 0x26A64, 0x27541, 0x28C69,
}

func TestFormatAndVersionWords(t *testing.T) {
	bits := map[Level]int{L: 1, M: 0, Q: 3, H: 2}
	seen := map[uint16]bool{}
	for l := L; l <= H; l++ {
		for m := 0; m < 8; m++ {
			w := FormatWord(l, m)
			if w != isoFormat[bits[l]<<3|m] {
				t.Errorf("FormatWord(%v,%d)=%#x, ISO table C.1 %#x", l, m, w, isoFormat[bits[l]<<3|m])
			}
			seen[w] = true
			gl, gm, ok := formatValid(w)
			if !ok || gl != l || gm != m {
				t.Errorf("formatValid(%#x) = %v %d %v", w, gl, gm, ok)
			}
			for b := 0; b < 15; b++ { // any single and double error is detected (d=7)
				if _, _, ok := formatValid(w ^ 1<<uint(b)); ok {
					t.Errorf("single bit error accepted")
				}
				for c := 0; c < b; c++ {
					if _, _, ok := formatValid(w ^ 1<<uint(b) ^ 1<<uint(c)); ok {
						t.Errorf("double bit error accepted")
					}
				}
			}
		}
	}
	if len(seen) != 32 {
		t.Errorf("format words not distinct")
	}
	n := 0
	for w := 0; w < 1<<15; w++ {
		if _, _, ok := formatValid(uint16(w)); ok {
			n++
		}
	}
	if n != 32 {
		t.Errorf("%d valid format words, want 32", n)
	}
	if FormatWord(L, 8) != 0xFFFF || FormatWord(Level(7), 0) != 0xFFFF {
		t.Error("illegal FormatWord arguments must give 0xFFFF")
	}
	for v := 7; v <= 40; v++ {
		if VersionWord(v) != isoVersion[v-7] {
			t.Errorf("VersionWord(%d)=%#x, ISO table D.1 %#x", v, VersionWord(v), isoVersion[v-7])
		}
		if g, ok := versionWordValid(VersionWord(v)); !ok || g != v {
			t.Errorf("versionWordValid(%d)", v)
		}
		for b := 0; b < 18; b++ {
			if _, ok := versionWordValid(VersionWord(v) ^ 1<<uint(b)); ok {
				t.Error("single bit version error accepted")
			}
		}
	}
	if VersionWord(6) != 0 || VersionWord(41) != 0 {
		t.Error("VersionWord outside 7..40 must be 0")
	}
}

func TestMaskPatterns(t *testing.T) {
	// ISO figure 23 shows each pattern on a 6x6 grid; first rows, x = 0..5,
	// '#' = inverted. Written out by hand from the conditions of table 10.
	rows := [8][6]string{
		{"#.#.#.", ".#.#.#", "#.#.#.", ".#.#.#", "#.#.#.", ".#.#.#"},
		{"######", "......", "######", "......", "######", "......"},
		{"#..#..", "#..#..", "#..#..", "#..#..", "#..#..", "#..#.."},
		{"#..#..", "..#..#", ".#..#.", "#..#..", "..#..#", ".#..#."},
		{"###...", "###...", "...###", "...###", "###...", "###..."},
		{"######", "#.....", "#..#..", "#.#.#.", "#..#..", "#....."},
		{"######", "###...", "##.##.", "#.#.#.", "#.##.#", "#...##"},
		{"#.#.#.", "...###", "#...##", ".#.#.#", "###...", ".###.."},
	}
	for m := 0; m < 8; m++ {
		for y := 0; y < 6; y++ {
			for x := 0; x < 6; x++ {
				if MaskBit(m, x, y) != (rows[m][y][x] == '#') {
					t.Errorf("mask %d at x=%d y=%d: got %v", m, x, y, MaskBit(m, x, y))
				}
			}
		}
		// periodicity: every pattern has period dividing 6 (mask 4: 6 in x, 4 in y -> 12)
		for y := 0; y < 40; y++ {
			for x := 0; x < 40; x++ {
				if MaskBit(m, x, y) != MaskBit(m, x+12, y) || MaskBit(m, x, y) != MaskBit(m, x, y+12) {
					t.Fatalf("mask %d not 12-periodic", m)
				}
			}
		}
	}
	if MaskBit(8, 0, 0) || MaskBit(-1, 0, 0) {
		t.Error("illegal mask inverts")
	}
}

func TestLayout(t *testing.T) {
	for v := 1; v <= 40; v++ {
		lay := Layout(v)
		dim := Dim(v)
		if len(lay) != dim {
			t.Fatalf("v%d: dim", v)
		}
		nbits := 8*TotalCodewords(v) + RemainderBits(v)
		data := make([]int, nbits)
		var fcnt [15]int
		var vcnt [18]int
		var parts [5]int
		dark := 0
		for x := 0; x < dim; x++ {
			if len(lay[x]) != dim {
				t.Fatalf("v%d: column %d length", v, x)
			}
			for y := 0; y < dim; y++ {
				m := lay[x][y]
				switch m.Kind {
				case KData:
					if m.Index < 0 || m.Index >= nbits {
						t.Fatalf("v%d: data index %d out of range", v, m.Index)
					}
					data[m.Index]++
				case KFormat:
					fcnt[m.Index]++
				case KVersion:
					vcnt[m.Index]++
				case KFixedDark, KFixedLight:
					parts[m.Index]++
					if m.Kind == KFixedDark {
						dark++
					}
				default:
					t.Fatalf("v%d: bad kind", v)
				}
			}
		}
		for i, c := range data {
			if c != 1 {
				t.Fatalf("v%d: data bit %d placed %d times", v, i, c)
			}
		}
		for i, c := range fcnt {
			if c != 2 {
				t.Errorf("v%d: format bit %d occurs %d times", v, i, c)
			}
		}
		for i, c := range vcnt {
			if (v >= 7 && c != 2) || (v < 7 && c != 0) {
				t.Errorf("v%d: version bit %d occurs %d times", v, i, c)
			}
		}
		na := 0
		if v >= 2 {
			a := v/7 + 2
			na = a*a - 3
		}
		// timing modules not covered by alignment patterns
		wantTiming := 2 * (dim - 16)
		if v >= 7 {
			wantTiming -= 2 * (v / 7) * 5
		}
		if parts[PartFinder] != 3*49 || parts[PartSeparator] != 3*15 || parts[PartAlignment] != 25*na || parts[PartDarkModule] != 1 || parts[PartTiming] != wantTiming {
			t.Errorf("v%d: function pattern sizes %v (timing want %d, align want %d)", v, parts, wantTiming, 25*na)
		}
		if lay[8][4*v+9] != (Module{KFixedDark, PartDarkModule}) {
			t.Errorf("v%d: dark module", v)
		}
		// first data bits: lower right corner, going up in a 2 wide column
		for i, p := range [][2]int{{dim - 1, dim - 1}, {dim - 2, dim - 1}, {dim - 1, dim - 2}, {dim - 2, dim - 2}, {dim - 1, dim - 3}, {dim - 2, dim - 3}, {dim - 1, dim - 4}, {dim - 2, dim - 4}} {
			if lay[p[0]][p[1]] != (Module{KData, i}) {
				t.Errorf("v%d: data bit %d not at %v", v, i, p)
			}
		}
		// there are 8+2v column pairs, an even number, so the leftmost pair
		// runs downward and ends just above the lower left separator.
		// (above the version information for versions >= 7).
		ly := dim - 9
		if v >= 7 {
			ly = dim - 12
		}
		if lay[0][ly] != (Module{KData, nbits - 1}) || lay[1][ly] != (Module{KData, nbits - 2}) || lay[1][9].Kind != KData || lay[1][8].Kind != KFormat {
			t.Errorf("v%d: last bit at wrong place: %v", v, lay[0][ly])
		}
		// no data in column 6 and row 6 apart from what alignment leaves
		for i := 0; i < dim; i++ {
			if lay[6][i].Kind == KData || lay[i][6].Kind == KData {
				t.Errorf("v%d: data on timing line", v)
			}
		}
		// symmetric function patterns: finder/timing/alignment layout is
		// symmetric under transposition
		for x := 0; x < dim; x++ {
			for y := 0; y < dim; y++ {
				a, b := lay[x][y], lay[y][x]
				if a.Kind <= KFixedDark && a.Index != PartDarkModule && a != b {
					t.Fatalf("v%d: function patterns not symmetric at %d,%d", v, x, y)
				}
				if a.Kind == KVersion && a != b {
					t.Fatalf("v%d: version info not transposed copy", v)
				}
			}
		}
	}
	// spot checks of figure 25 / 28
	lay := Layout(7)
	dim := Dim(7)
	checks := []struct {
		x, y int
		m    Module
	}{
		{0, 8, Module{KFormat, 14}}, {5, 8, Module{KFormat, 9}}, {7, 8, Module{KFormat, 8}}, {8, 8, Module{KFormat, 7}}, {8, 7, Module{KFormat, 6}}, {8, 5, Module{KFormat, 5}}, {8, 0, Module{KFormat, 0}},
		{dim - 1, 8, Module{KFormat, 0}}, {dim - 8, 8, Module{KFormat, 7}}, {8, dim - 7, Module{KFormat, 8}}, {8, dim - 1, Module{KFormat, 14}},
		{6, 8, Module{KFixedDark, PartTiming}}, {8, 6, Module{KFixedDark, PartTiming}}, {9, 6, Module{KFixedLight, PartTiming}},
		{dim - 11, 0, Module{KVersion, 0}}, {dim - 9, 0, Module{KVersion, 2}}, {dim - 11, 1, Module{KVersion, 3}}, {dim - 9, 5, Module{KVersion, 17}},
		{0, dim - 11, Module{KVersion, 0}}, {0, dim - 9, Module{KVersion, 2}}, {1, dim - 11, Module{KVersion, 3}}, {5, dim - 9, Module{KVersion, 17}},
		{3, 3, Module{KFixedDark, PartFinder}}, {1, 1, Module{KFixedLight, PartFinder}}, {7, 7, Module{KFixedLight, PartSeparator}}, {dim - 8, 0, Module{KFixedLight, PartSeparator}},
		{22, 22, Module{KFixedDark, PartAlignment}}, {21, 22, Module{KFixedLight, PartAlignment}}, {20, 22, Module{KFixedDark, PartAlignment}},
		{6, 22, Module{KFixedDark, PartAlignment}}, {22, 6, Module{KFixedDark, PartAlignment}}, {38, 38, Module{KFixedDark, PartAlignment}},
	}
	for _, c := range checks {
		if lay[c.x][c.y] != c.m {
			t.Errorf("v7 module (%d,%d) = %v want %v", c.x, c.y, lay[c.x][c.y], c.m)
		}
	}
}

func TestReedSolomon(t *testing.T) {
	// generator polynomial for 7 check codewords (ISO Annex A):
	// x^7 + a^87 x^6 + a^229 x^5 + a^146 x^4 + a^149 x^3 + a^238 x^2 + a^102 x + a^21
	g := generatorPoly(7)
	exps := []int{0, 87, 229, 146, 149, 238, 102, 21}
	for i, e := range exps {
		if g[i] != gfPow(e) {
			t.Errorf("g7 coefficient %d = %#x want a^%d = %#x", i, g[i], e, gfPow(e))
		}
	}
	// a^8 = 0x1D, a^255 = 1, a is primitive
	if gfPow(8) != 0x1D || gfPow(255) != 1 {
		t.Error("field")
	}
	seen := map[byte]bool{}
	for e := 0; e < 255; e++ {
		seen[gfPow(e)] = true
	}
	if len(seen) != 255 || seen[0] {
		t.Error("alpha not primitive")
	}
	// ISO Annex I example: "01234567", version 1-M
	data := []byte{0x10, 0x20, 0x0C, 0x56, 0x61, 0x80, 0xEC, 0x11, 0xEC, 0x11, 0xEC, 0x11, 0xEC, 0x11, 0xEC, 0x11}
	want := []byte{0xA5, 0x24, 0xD4, 0xC1, 0xED, 0x36, 0xC7, 0x87, 0x2C, 0x55}
	if got := RSEncode(data, 10); !bytes.Equal(got, want) {
		t.Errorf("RSEncode ISO example: % X want % X", got, want)
	}
	// widely published "HELLO WORLD" 1-Q example
	data = []byte{32, 91, 11, 120, 209, 114, 220, 77, 67, 64, 236, 17, 236}
	want = []byte{168, 72, 22, 82, 217, 54, 156, 0, 46, 15, 180, 122, 16}
	if got := RSEncode(data, 13); !bytes.Equal(got, want) {
		t.Errorf("RSEncode HELLO WORLD example: %v want %v", got, want)
	}
	rng := rand.New(rand.NewSource(1))
	for _, ec := range []int{7, 10, 13, 15, 16, 17, 18, 20, 22, 24, 26, 28, 30} {
		for n := 0; n < 20; n++ {
			d := make([]byte, 1+rng.Intn(123))
			rng.Read(d)
			blk := append(append([]byte{}, d...), RSEncode(d, ec)...)
			for _, s := range Syndromes(blk, ec) {
				if s != 0 {
					t.Fatalf("ec=%d: encoded block has non-zero syndrome", ec)
				}
			}
			blk[rng.Intn(len(blk))] ^= byte(1 + rng.Intn(255))
			zero := true
			for _, s := range Syndromes(blk, ec) {
				zero = zero && s == 0
			}
			if zero {
				t.Fatalf("ec=%d: corrupted block has zero syndromes", ec)
			}
		}
	}
	if len(RSEncode([]byte{1, 2}, 0)) != 0 || len(Syndromes([]byte{1}, -3)) != 0 {
		t.Error("degenerate ec")
	}
}

func TestEncodeSegmentsKnown(t *testing.T) {
	// ISO Annex I: "01234567" 1-M
	got, err := EncodeSegments(1, M, []Segment{{Mode: ModeNumeric, Data: []byte("01234567")}})
	want := []byte{0x10, 0x20, 0x0C, 0x56, 0x61, 0x80, 0xEC, 0x11, 0xEC, 0x11, 0xEC, 0x11, 0xEC, 0x11, 0xEC, 0x11}
	if err != nil || !bytes.Equal(got, want) {
		t.Errorf("01234567: % X, %v", got, err)
	}
	got, err = EncodeSegments(1, Q, []Segment{{Mode: ModeAlpha, Data: []byte("HELLO WORLD")}})
	want = []byte{32, 91, 11, 120, 209, 114, 220, 77, 67, 64, 236, 17, 236}
	if err != nil || !bytes.Equal(got, want) {
		t.Errorf("HELLO WORLD: %v, %v", got, err)
	}
	// ISO 7.4.4 example: "AC-42" -> 00111001110 11100111001 000010 with count 000000101
	got, err = EncodeSegments(1, H, []Segment{{Mode: ModeAlpha, Data: []byte("AC-42")}})
	// 0010 000000101 00111001110 11100111001 000010 0000 -> bytes
	want = []byte{0x20, 0x29, 0xCE, 0xE7, 0x21, 0x00, 0xEC, 0x11, 0xEC}
	if err != nil || !bytes.Equal(got, want) {
		t.Errorf("AC-42: % X, %v", got, err)
	}
}

func matAt(m [][]bool) func(x, y int) bool { return func(x, y int) bool { return m[x][y] } }

func ruleOf(err error) string {
	var e *Error
	if errors.As(err, &e) {
		return e.Rule
	}
	if err == nil {
		return "<nil>"
	}
	return "<foreign: " + err.Error() + ">"
}

func TestRoundTripOwnEncoder(t *testing.T) {
	rng := rand.New(rand.NewSource(2))
	for v := 1; v <= 40; v++ {
		for l := L; l <= H; l++ {
			for _, mode := range []Mode{ModeNumeric, ModeAlpha, ModeByte} {
				max := MaxChars(v, l, mode)
				for _, n := range []int{max, max - 1, rng.Intn(max + 1), 0} {
					d := make([]byte, n)
					for i := range d {
						switch mode {
						case ModeNumeric:
							d[i] = byte('0' + rng.Intn(10))
						case ModeAlpha:
							d[i] = AlphanumericCharset[rng.Intn(45)]
						default:
							d[i] = byte(rng.Intn(256))
						}
					}
					cw, err := EncodeSegments(v, l, []Segment{{Mode: mode, Data: d}})
					if err != nil {
						t.Fatalf("%d-%v %v n=%d: %v", v, l, mode, n, err)
					}
					mask := rng.Intn(8)
					mat, err := Build(v, l, mask, cw)
					if err != nil {
						t.Fatal(err)
					}
					res, err := Decode(Dim(v), matAt(mat))
					if err != nil {
						t.Fatalf("%d-%v %v n=%d mask %d: %v", v, l, mode, n, mask, err)
					}
					if res.Version != v || res.Level != l || res.Mask != mask || !bytes.Equal(res.Payload, d) || !bytes.Equal(res.DataCodewords, cw) ||
						len(res.Segments) != 1 || res.Segments[0].Mode != mode || res.Segments[0].Count != n {
						t.Fatalf("%d-%v %v n=%d: wrong result %+v", v, l, mode, n, res)
					}
				}
				// one more character must not fit
				if max < 1<<uint(CharCountBits(v, mode))-1 {
					d := bytes.Repeat([]byte{'1'}, max+1)
					if _, err := EncodeSegments(v, l, []Segment{{Mode: mode, Data: d}}); err == nil {
						t.Fatalf("%d-%v %v: capacity+1 accepted", v, l, mode)
					}
				}
			}
		}
	}
	// mixed segments
	segs := []Segment{{Mode: ModeByte, Data: []byte("hello, ")}, {Mode: ModeNumeric, Data: []byte("0012345")}, {Mode: ModeAlpha, Data: []byte("AB $%*+-./:Z")}, {Mode: ModeByte, Data: []byte{}}}
	cw, err := EncodeSegments(3, M, segs)
	if err != nil {
		t.Fatal(err)
	}
	mat, _ := Build(3, M, 5, cw)
	res, err := Decode(Dim(3), matAt(mat))
	if err != nil || string(res.Payload) != "hello, 0012345AB $%*+-./:Z" || len(res.Segments) != 4 {
		t.Fatalf("mixed: %v %+v", err, res)
	}
}

func TestDecodeRejects(t *testing.T) {
	rng := rand.New(rand.NewSource(3))
	if _, err := Decode(20, func(x, y int) bool { return false }); ruleOf(err) != RuleDimension {
		t.Errorf("dim 20: %v", err)
	}
	if _, err := Decode(181, func(x, y int) bool { return false }); ruleOf(err) != RuleDimension {
		t.Errorf("dim 181: %v", err)
	}
	if _, err := Decode(17, func(x, y int) bool { return false }); ruleOf(err) != RuleDimension {
		t.Errorf("dim 17: %v", err)
	}
	if _, err := Decode(21, nil); err == nil {
		t.Errorf("nil accessor accepted")
	}
	if _, err := Decode(21, func(x, y int) bool { return false }); ruleOf(err) != RuleFinder {
		t.Errorf("blank symbol: %v", err)
	}
	for _, v := range []int{1, 2, 6, 7, 14, 22, 40} {
		for l := L; l <= H; l++ {
			dim := Dim(v)
			d := make([]byte, MaxChars(v, l, ModeByte)/2)
			rng.Read(d)
			cw, _ := EncodeSegments(v, l, []Segment{{Mode: ModeByte, Data: d}})
			mask := rng.Intn(8)
			mat, _ := Build(v, l, mask, cw)
			lay := Layout(v)
			if _, err := Decode(dim, matAt(mat)); err != nil {
				t.Fatalf("baseline: %v", err)
			}
			// flip every single module in turn (all of them for small
			// versions, a sample for the large ones): every flip must be
			// detected, with the rule matching the module's kind.
			step := 1
			if v > 7 || l != Level(v%4) {
				step = 7 + dim*dim/200 + rng.Intn(5)
			}
			k := 0
			for x := 0; x < dim; x++ {
				for y := 0; y < dim; y++ {
					k++
					if k%step != 0 {
						continue
					}
					mat[x][y] = !mat[x][y]
					_, err := Decode(dim, matAt(mat))
					mat[x][y] = !mat[x][y]
					m := lay[x][y]
					var want string
					switch m.Kind {
					case KFixedDark, KFixedLight:
						want = [...]string{RuleFinder, RuleSeparator, RuleTiming, RuleAlignment, RuleDarkModule}[m.Index]
					case KFormat:
						want = RuleFormatBCH
					case KVersion:
						want = RuleVersionBCH
					case KData:
						want = RuleRS
						if m.Index >= 8*TotalCodewords(v) {
							want = RuleRemainder
						}
					}
					if ruleOf(err) != want {
						t.Fatalf("v%d-%v flip (%d,%d) %v: got %v, want rule %s", v, l, x, y, m, err, want)
					}
				}
			}
			// consistent-but-different second format copy
			other := FormatWord(l, (mask+1)%8)
			saved := map[[2]int]bool{}
			for x := 0; x < dim; x++ {
				for y := 0; y < dim; y++ {
					if m := lay[x][y]; m.Kind == KFormat && !(x <= 8 && y <= 8) {
						saved[[2]int{x, y}] = mat[x][y]
						mat[x][y] = other>>uint(m.Index)&1 == 1
					}
				}
			}
			if _, err := Decode(dim, matAt(mat)); ruleOf(err) != RuleFormatMismatch {
				t.Fatalf("v%d format mismatch: %v", v, err)
			}
			for p, b := range saved {
				mat[p[0]][p[1]] = b
			}
			if v >= 7 {
				// both copies valid but wrong version; and mismatching copies
				wrong := v + 1
				if wrong > 40 {
					wrong = 39
				}
				for _, both := range []bool{true, false} {
					saved := map[[2]int]bool{}
					for x := 0; x < dim; x++ {
						for y := 0; y < dim; y++ {
							if m := lay[x][y]; m.Kind == KVersion && (both || y < 6) {
								saved[[2]int{x, y}] = mat[x][y]
								mat[x][y] = VersionWord(wrong)>>uint(m.Index)&1 == 1
							}
						}
					}
					want := RuleVersionMismatch
					if both {
						want = RuleVersionValue
					}
					if _, err := Decode(dim, matAt(mat)); ruleOf(err) != want {
						t.Fatalf("v%d version both=%v: %v", v, both, err)
					}
					for p, b := range saved {
						mat[p[0]][p[1]] = b
					}
				}
			}
		}
	}
}

func bitsOf(cw []byte) []bool {
	b := make([]bool, 8*len(cw))
	for i := range b {
		b[i] = cw[i/8]&(0x80>>uint(i%8)) != 0
	}
	return b
}

func bitString(s string) []bool {
	var b []bool
	for _, c := range s {
		switch c {
		case '0':
			b = append(b, false)
		case '1':
			b = append(b, true)
		}
	}
	return b
}

func TestParseStream(t *testing.T) {
	pad := func(s string, n int) string { // append zeros to length n
		for len(s) < n {
			s += "0"
		}
		return s
	}
	cases := []struct {
		name    string
		bits    string
		version int
		rule    string // "" = ok
		payload string
	}{
		{"iso 01234567", "0001 0000001000 0000001100 0101011001 1000011 0000 000 11101100 00010001", 1, "", "01234567"},
		{"AC-42", "0010 000000101 00111001110 11100111001 000010 0000 000 11101100", 1, "", "AC-42"},
		{"empty stream", "", 1, "", ""},
		{"only terminator+pads", "0000 0000 11101100 00010001 11101100", 1, "", ""},
		{"terminator omitted at capacity", "0100 00000001 01000001 0000", 1, "", "A"}, // 24 bits: 4+8+8, then 4 bits terminator exactly
		{"no room for terminator", "0100 00000001 01000001", 1, "", "A"},
		{"short terminator 3", "0100 00000001 01000001 000", 1, "", "A"},
		{"short terminator 1 bit set", "0100 00000001 01000001 010", 1, RuleTerminator, ""},
		{"short terminator first bit set", "0100 00000001 01000001 1", 1, RuleTerminator, ""},
		{"numeric 1000", "0001 0000000011 1111101000 0000", 1, RuleNumeric, ""},
		{"numeric 999", "0001 0000000011 1111100111 0000", 1, "", "999"},
		{"numeric 2-digit 100", "0001 0000000010 1100100 0000 0", 1, RuleNumeric, ""},
		{"numeric 2-digit 99", "0001 0000000010 1100011 0000 0", 1, "", "99"},
		{"numeric 1-digit 10", "0001 0000000001 1010 0000 00", 1, RuleNumeric, ""},
		{"numeric 1-digit 9", "0001 0000000001 1001 0000 00", 1, "", "9"},
		{"numeric leading zeros", "0001 0000000011 0000000000 0000", 1, "", "000"},
		{"alpha pair 2025", "0010 000000010 11111101001 0000", 1, RuleAlpha, ""},
		{"alpha pair 2024", "0010 000000010 11111101000 0000", 1, "", "::"},
		{"alpha single 45", "0010 000000001 101101 0000 0", 1, RuleAlpha, ""},
		{"alpha single 44", "0010 000000001 101100 0000 0", 1, "", ":"},
		{"kanji mode", "1000 00000001 0000000000000 0000", 1, RuleMode, ""},
		{"eci mode", "0111 00000011 0000", 1, RuleMode, ""},
		{"fnc1 first", "0101 0000", 1, RuleMode, ""},
		{"structured append", "0011 0000 0000 00000000 0000", 1, RuleMode, ""},
		{"mode 1111", "1111 0000", 1, RuleMode, ""},
		{"byte count beyond", "0100 00000011 01000001 01000001", 1, RuleTruncated, ""},
		{"count indicator cut", "0100 000000", 1, RuleTruncated, ""},
		{"pad bits nonzero", "0001 0000000001 1001 0000 01 11101100", 1, RulePadBits, ""},
		{"pad bits zero", "0001 0000000001 1001 0000 00 11101100", 1, "", "9"},
		{"pad wrong first", "0100 00000001 01000001 0000 00010001", 1, RulePadCodeword, ""},
		{"pad wrong second", "0100 00000001 01000001 0000 11101100 11101100", 1, RulePadCodeword, ""},
		{"pad zero", "0100 00000001 01000001 0000 00000000", 1, RulePadCodeword, ""},
		{"pad ok 3", "0100 00000001 01000001 0000 11101100 00010001 11101100", 1, "", "A"},
		{"stray bits", "0100 00000001 01000001 0000 11101100 0001", 1, RulePadCodeword, ""},
		{"zero length byte segment", "0100 00000000 0000", 1, "", ""},
		{"two segments", "0001 0000000001 0111 0100 00000001 01000010 0000 00", 1, "", "7B"},
		{"v10 widths", "0001 000000000001 0111 0100 0000000000000001 01000010 0000 0000", 10, "", "7B"},
		{"v27 widths", "0001 00000000000001 0111 0010 0000000000001 001010 0000 000", 27, "", "7A"},
		{"segment after terminator is padding", "0000 0000 0100 0000", 1, RulePadCodeword, ""},
		{"all zero capacity", pad("", 152), 1, RulePadCodeword, ""},
	}
	for _, c := range cases {
		segs, payload, err := ParseStream(bitString(c.bits), c.version)
		if c.rule == "" {
			if err != nil {
				t.Errorf("%s: unexpected error %v", c.name, err)
				continue
			}
			if string(payload) != c.payload {
				t.Errorf("%s: payload %q want %q (segments %v)", c.name, payload, c.payload, segs)
			}
		} else if ruleOf(err) != c.rule {
			t.Errorf("%s: got %v, want rule %s", c.name, err, c.rule)
		}
	}
	if _, _, err := ParseStream(nil, 0); err == nil {
		t.Error("version 0 accepted")
	}
	// random garbage never panics
	rng := rand.New(rand.NewSource(4))
	for i := 0; i < 20000; i++ {
		b := make([]bool, rng.Intn(300))
		for k := range b {
			b[k] = rng.Intn(2) == 0
		}
		ParseStream(b, 1+rng.Intn(40))
	}
}

// The parser checks embedded in Decode: a symbol whose blocks are valid RS
// codewords but whose data stream breaks a rule is rejected with that rule.
func TestDecodeStreamRules(t *testing.T) {
	base, _ := EncodeSegments(2, L, []Segment{{Mode: ModeByte, Data: []byte("abc")}})
	numBase, _ := EncodeSegments(2, L, []Segment{{Mode: ModeNumeric, Data: []byte("1")}}) // 18 bits + terminator = 22
	try := func(name string, mut func(cw []byte), rule string) {
		cw := append([]byte{}, base...)
		if name[0] == '#' {
			cw = append([]byte{}, numBase...)
		}
		mut(cw)
		mat, err := Build(2, L, 3, cw)
		if err != nil {
			t.Fatal(err)
		}
		_, err = Decode(Dim(2), matAt(mat))
		if rule == "" && err != nil || rule != "" && ruleOf(err) != rule {
			t.Errorf("%s: got %v want %q", name, err, rule)
		}
	}
	try("baseline", func(cw []byte) {}, "")
	try("pad swapped", func(cw []byte) { cw[len(cw)-1], cw[len(cw)-2] = cw[len(cw)-2], cw[len(cw)-1] }, RulePadCodeword)
	try("pad zero", func(cw []byte) { cw[len(cw)-1] = 0 }, RulePadCodeword)
	try("#baseline", func(cw []byte) {}, "")
	try("#pad bits", func(cw []byte) { cw[2] |= 1 }, RulePadBits)
	try("#pad bits 2", func(cw []byte) { cw[2] |= 2 }, RulePadBits)
	try("#terminator bit becomes mode", func(cw []byte) { cw[2] |= 4 }, RuleTruncated) // bits 18..21 = 0001 -> numeric, count = pad bytes -> too long
	try("numeric 1000", func(cw []byte) {                                              // 0001 0000000011 1111101000 0000
		copy(cw, []byte{0x10, 0x0F, 0xE8, 0x00})
		for i := 4; i < len(cw); i++ {
			cw[i] = []byte{0xEC, 0x11}[i%2]
		}
	}, RuleNumeric)
	try("alpha 2025", func(cw []byte) { // 0010 000000010 11111101001 0000 0000
		copy(cw, []byte{0x20, 0x17, 0xE9, 0x00})
		for i := 4; i < len(cw); i++ {
			cw[i] = []byte{0xEC, 0x11}[i%2]
		}
	}, RuleAlpha)
}

func TestNeverPanics(t *testing.T) {
	rng := rand.New(rand.NewSource(5))
	for i := 0; i < 300; i++ {
		dim := rng.Intn(60)
		if i%3 == 0 {
			dim = 17 + 4*(1+rng.Intn(12))
		}
		seed := rng.Int63()
		r2 := rand.New(rand.NewSource(seed))
		Decode(dim, func(x, y int) bool { return r2.Intn(2) == 0 })
	}
	// valid function patterns, random everything else
	for v := 1; v <= 40; v += 3 {
		lay := Layout(v)
		dim := Dim(v)
		for n := 0; n < 5; n++ {
			fw := FormatWord(Level(rng.Intn(4)), rng.Intn(8))
			_, err := Decode(dim, func(x, y int) bool {
				m := lay[x][y]
				switch m.Kind {
				case KFixedDark:
					return true
				case KFixedLight:
					return false
				case KFormat:
					return fw>>uint(m.Index)&1 == 1
				case KVersion:
					return VersionWord(v)>>uint(m.Index)&1 == 1
				}
				return rng.Intn(2) == 0
			})
			if err == nil {
				t.Errorf("random data accepted")
			}
		}
	}
}

func BenchmarkDecodeV40(b *testing.B) {
	d := make([]byte, MaxChars(40, L, ModeByte))
	cw, _ := EncodeSegments(40, L, []Segment{{Mode: ModeByte, Data: d}})
	mat, _ := Build(40, L, 2, cw)
	b.ResetTimer()
	for i := 0; i < b.N; i++ {
		if _, err := Decode(177, matAt(mat)); err != nil {
			b.Fatal(err)
		}
	}
}
