// Package qrspec is an independent reference implementation (tables, symbol
// layout and a strict reference reader) of QR Code Model 2 as specified by
// ISO/IEC 18004, versions 1..40, error correction levels L/M/Q/H.
//
// It is written from the standard and is meant to be used as an oracle; it
// only depends on the Go standard library.
//
// Coordinates: everywhere in this package x is the column (0 = left) and y
// is the row (0 = top). Two-dimensional slices are indexed [x][y].
package qrspec

// Level is the error correction level. The numeric values are the package's
// own ordering (L < M < Q < H), NOT the two-bit indicator of the format
// information (see LevelBits).
type Level int

const (
	L Level = iota // ~7% recovery
	M              // ~15%
	Q              // ~25%
	H              // ~30%
)

func (l Level) String() string {
	switch l {
	case L:
		return "L"
	case M:
		return "M"
	case Q:
		return "Q"
	case H:
		return "H"
	}
	return "Level(?)"
}

// Valid reports whether l is one of L, M, Q, H.
func (l Level) Valid() bool { return l >= L && l <= H }

// LevelBits returns the two-bit error correction level indicator used in the
// format information (ISO table 12 / 25): L=01, M=00, Q=11, H=10.
func LevelBits(l Level) int {
	switch l {
	case L:
		return 1
	case M:
		return 0
	case Q:
		return 3
	case H:
		return 2
	}
	return -1
}

// levelFromBits is the inverse of LevelBits.
func levelFromBits(b int) Level {
	switch b & 3 {
	case 1:
		return L
	case 0:
		return M
	case 3:
		return Q
	}
	return H
}

// Mode is the 4-bit mode indicator of a segment (ISO table 2).
type Mode int

const (
	ModeNumeric Mode = 1 // 0001
	ModeAlpha   Mode = 2 // 0010
	ModeByte    Mode = 4 // 0100
)

func (m Mode) String() string {
	switch m {
	case ModeNumeric:
		return "numeric"
	case ModeAlpha:
		return "alphanumeric"
	case ModeByte:
		return "byte"
	}
	return "mode(?)"
}

// MinVersion and MaxVersion bound the legal version numbers.
const (
	MinVersion = 1
	MaxVersion = 40
)

// ValidVersion reports whether v is in 1..40.
func ValidVersion(v int) bool { return v >= MinVersion && v <= MaxVersion }

// Dim returns the side length in modules of a version v symbol (17+4v).
func Dim(version int) int { return 17 + 4*version }

// VersionForDim returns the version for a side length, or 0,false if dim is
// not a legal QR Code size.
func VersionForDim(dim int) (int, bool) {
	if dim < 21 || dim > 177 || (dim-17)%4 != 0 {
		return 0, false
	}
	return (dim - 17) / 4, true
}

// ecRow is one cell of ISO/IEC 18004 table 9: number of error correction
// codewords per block, and the block structure.
type ecRow struct {
	ec     int // error correction codewords per block
	n1, d1 int // group 1: n1 blocks with d1 data codewords each
	n2, d2 int // group 2: n2 blocks with d2 (= d1+1) data codewords each
}

// ecTable is a transcription of ISO/IEC 18004 table 9 ("Error correction
// characteristics for QR Code"). Row index = version-1, column = Level
// (L, M, Q, H). Written as (c, k) pairs in the standard: c = d+ec, k = d.
var ecTable = [40][4]ecRow{
	/* 1*/ {{7, 1, 19, 0, 0}, {10, 1, 16, 0, 0}, {13, 1, 13, 0, 0}, {17, 1, 9, 0, 0}},
	/* 2*/ {{10, 1, 34, 0, 0}, {16, 1, 28, 0, 0}, {22, 1, 22, 0, 0}, {28, 1, 16, 0, 0}},
	/* 3*/ {{15, 1, 55, 0, 0}, {26, 1, 44, 0, 0}, {18, 2, 17, 0, 0}, {22, 2, 13, 0, 0}},
	/* 4*/ {{20, 1, 80, 0, 0}, {18, 2, 32, 0, 0}, {26, 2, 24, 0, 0}, {16, 4, 9, 0, 0}},
	/* 5*/ {{26, 1, 108, 0, 0}, {24, 2, 43, 0, 0}, {18, 2, 15, 2, 16}, {22, 2, 11, 2, 12}},
	/* 6*/ {{18, 2, 68, 0, 0}, {16, 4, 27, 0, 0}, {24, 4, 19, 0, 0}, {28, 4, 15, 0, 0}},
	/* 7*/ {{20, 2, 78, 0, 0}, {18, 4, 31, 0, 0}, {18, 2, 14, 4, 15}, {26, 4, 13, 1, 14}},
	/* 8*/ {{24, 2, 97, 0, 0}, {22, 2, 38, 2, 39}, {22, 4, 18, 2, 19}, {26, 4, 14, 2, 15}},
	/* 9*/ {{30, 2, 116, 0, 0}, {22, 3, 36, 2, 37}, {20, 4, 16, 4, 17}, {24, 4, 12, 4, 13}},
	/*10*/ {{18, 2, 68, 2, 69}, {26, 4, 43, 1, 44}, {24, 6, 19, 2, 20}, {28, 6, 15, 2, 16}},
	/*11*/ {{20, 4, 81, 0, 0}, {30, 1, 50, 4, 51}, {28, 4, 22, 4, 23}, {24, 3, 12, 8, 13}},
	/*12*/ {{24, 2, 92, 2, 93}, {22, 6, 36, 2, 37}, {26, 4, 20, 6, 21}, {28, 7, 14, 4, 15}},
	/*13*/ {{26, 4, 107, 0, 0}, {22, 8, 37, 1, 38}, {24, 8, 20, 4, 21}, {22, 12, 11, 4, 12}},
	/*14*/ {{30, 3, 115, 1, 116}, {24, 4, 40, 5, 41}, {20, 11, 16, 5, 17}, {24, 11, 12, 5, 13}},
	/*15*/ {{22, 5, 87, 1, 88}, {24, 5, 41, 5, 42}, {30, 5, 24, 7, 25}, {24, 11, 12, 7, 13}},
	/*16*/ {{24, 5, 98, 1, 99}, {28, 7, 45, 3, 46}, {24, 15, 19, 2, 20}, {30, 3, 15, 13, 16}},
	/*17*/ {{28, 1, 107, 5, 108}, {28, 10, 46, 1, 47}, {28, 1, 22, 15, 23}, {28, 2, 14, 17, 15}},
	/*18*/ {{30, 5, 120, 1, 121}, {26, 9, 43, 4, 44}, {28, 17, 22, 1, 23}, {28, 2, 14, 19, 15}},
	/*19*/ {{28, 3, 113, 4, 114}, {26, 3, 44, 11, 45}, {26, 17, 21, 4, 22}, {26, 9, 13, 16, 14}},
	/*20*/ {{28, 3, 107, 5, 108}, {26, 3, 41, 13, 42}, {30, 15, 24, 5, 25}, {28, 15, 15, 10, 16}},
	/*21*/ {{28, 4, 116, 4, 117}, {26, 17, 42, 0, 0}, {28, 17, 22, 6, 23}, {30, 19, 16, 6, 17}},
	/*22*/ {{28, 2, 111, 7, 112}, {28, 17, 46, 0, 0}, {30, 7, 24, 16, 25}, {24, 34, 13, 0, 0}},
	/*23*/ {{30, 4, 121, 5, 122}, {28, 4, 47, 14, 48}, {30, 11, 24, 14, 25}, {30, 16, 15, 14, 16}},
	/*24*/ {{30, 6, 117, 4, 118}, {28, 6, 45, 14, 46}, {30, 11, 24, 16, 25}, {30, 30, 16, 2, 17}},
	/*25*/ {{26, 8, 106, 4, 107}, {28, 8, 47, 13, 48}, {30, 7, 24, 22, 25}, {30, 22, 15, 13, 16}},
	/*26*/ {{28, 10, 114, 2, 115}, {28, 19, 46, 4, 47}, {28, 28, 22, 6, 23}, {30, 33, 16, 4, 17}},
	/*27*/ {{30, 8, 122, 4, 123}, {28, 22, 45, 3, 46}, {30, 8, 23, 26, 24}, {30, 12, 15, 28, 16}},
	/*28*/ {{30, 3, 117, 10, 118}, {28, 3, 45, 23, 46}, {30, 4, 24, 31, 25}, {30, 11, 15, 31, 16}},
	/*29*/ {{30, 7, 116, 7, 117}, {28, 21, 45, 7, 46}, {30, 1, 23, 37, 24}, {30, 19, 15, 26, 16}},
	/*30*/ {{30, 5, 115, 10, 116}, {28, 19, 47, 10, 48}, {30, 15, 24, 25, 25}, {30, 23, 15, 25, 16}},
	/*31*/ {{30, 13, 115, 3, 116}, {28, 2, 46, 29, 47}, {30, 42, 24, 1, 25}, {30, 23, 15, 28, 16}},
	/*32*/ {{30, 17, 115, 0, 0}, {28, 10, 46, 23, 47}, {30, 10, 24, 35, 25}, {30, 19, 15, 35, 16}},
	/*33*/ {{30, 17, 115, 1, 116}, {28, 14, 46, 21, 47}, {30, 29, 24, 19, 25}, {30, 11, 15, 46, 16}},
	/*34*/ {{30, 13, 115, 6, 116}, {28, 14, 46, 23, 47}, {30, 44, 24, 7, 25}, {30, 59, 16, 1, 17}},
	/*35*/ {{30, 12, 121, 7, 122}, {28, 12, 47, 26, 48}, {30, 39, 24, 14, 25}, {30, 22, 15, 41, 16}},
	/*36*/ {{30, 6, 121, 14, 122}, {28, 6, 47, 34, 48}, {30, 46, 24, 10, 25}, {30, 2, 15, 64, 16}},
	/*37*/ {{30, 17, 122, 4, 123}, {28, 29, 46, 14, 47}, {30, 49, 24, 10, 25}, {30, 24, 15, 46, 16}},
	/*38*/ {{30, 4, 122, 18, 123}, {28, 13, 46, 32, 47}, {30, 48, 24, 14, 25}, {30, 42, 15, 32, 16}},
	/*39*/ {{30, 20, 117, 4, 118}, {28, 40, 47, 7, 48}, {30, 43, 24, 22, 25}, {30, 10, 15, 67, 16}},
	/*40*/ {{30, 19, 118, 6, 119}, {28, 18, 47, 31, 48}, {30, 34, 24, 34, 25}, {30, 20, 15, 61, 16}},
}

// BlockInfo returns the row of ISO table 9 for (version, level): the number
// of error correction codewords per block and the block structure. When
// there is no second group n2 = 0 and d2 = 0. For an illegal version or
// level all results are 0.
func BlockInfo(version int, level Level) (ecPerBlock, n1, d1, n2, d2 int) {
	if !ValidVersion(version) || !level.Valid() {
		return 0, 0, 0, 0, 0
	}
	r := ecTable[version-1][level]
	return r.ec, r.n1, r.d1, r.n2, r.d2
}

// DataCodewords returns the number of data codewords of (version, level).
func DataCodewords(version int, level Level) int {
	_, n1, d1, n2, d2 := BlockInfo(version, level)
	return n1*d1 + n2*d2
}

// rawDataModules returns the number of modules available for data + error
// correction + remainder bits: dim^2 minus all function patterns, format and
// version information. Derived from the geometry of the symbol (ISO 6.3, 7.1,
// table 1), not from a table.
func rawDataModules(version int) int {
	if !ValidVersion(version) {
		return 0
	}
	dim := Dim(version)
	n := dim * dim
	n -= 3 * 8 * 8      // three finder patterns with their separators
	n -= 2 * (dim - 16) // two timing patterns between the separators
	n -= 2*15 + 1       // two copies of format information + dark module
	if version >= 2 {
		a := version/7 + 2 // number of alignment coordinates per axis
		n -= (a*a - 3) * 25
		// alignment patterns lying on a timing pattern cover 5 timing
		// modules each; those were subtracted twice.
		n += 2 * (a - 2) * 5
	}
	if version >= 7 {
		n -= 2 * 18 // two copies of version information
	}
	return n
}

// TotalCodewords returns the total number of codewords (data + error
// correction) of a symbol of the given version (ISO table 1). 0 for an
// illegal version.
func TotalCodewords(version int) int { return rawDataModules(version) / 8 }

// RemainderBits returns the number of remainder bits of the version (ISO
// table 1): 0, 3, 4 or 7.
func RemainderBits(version int) int { return rawDataModules(version) % 8 }

// CharCountBits returns the width of the character count indicator (ISO
// table 3). 0 for an illegal version or unsupported mode.
func CharCountBits(version int, mode Mode) int {
	if !ValidVersion(version) {
		return 0
	}
	var g int
	switch {
	case version <= 9:
		g = 0
	case version <= 26:
		g = 1
	default:
		g = 2
	}
	switch mode {
	case ModeNumeric:
		return [3]int{10, 12, 14}[g]
	case ModeAlpha:
		return [3]int{9, 11, 13}[g]
	case ModeByte:
		return [3]int{8, 16, 16}[g]
	}
	return 0
}

// alignTable is ISO/IEC 18004 Annex E, table E.1: row/column coordinates of
// the centre modules of the alignment patterns.
var alignTable = [40][]int{
	/* 1*/ {},
	/* 2*/ {6, 18},
	/* 3*/ {6, 22},
	/* 4*/ {6, 26},
	/* 5*/ {6, 30},
	/* 6*/ {6, 34},
	/* 7*/ {6, 22, 38},
	/* 8*/ {6, 24, 42},
	/* 9*/ {6, 26, 46},
	/*10*/ {6, 28, 50},
	/*11*/ {6, 30, 54},
	/*12*/ {6, 32, 58},
	/*13*/ {6, 34, 62},
	/*14*/ {6, 26, 46, 66},
	/*15*/ {6, 26, 48, 70},
	/*16*/ {6, 26, 50, 74},
	/*17*/ {6, 30, 54, 78},
	/*18*/ {6, 30, 56, 82},
	/*19*/ {6, 30, 58, 86},
	/*20*/ {6, 34, 62, 90},
	/*21*/ {6, 28, 50, 72, 94},
	/*22*/ {6, 26, 50, 74, 98},
	/*23*/ {6, 30, 54, 78, 102},
	/*24*/ {6, 28, 54, 80, 106},
	/*25*/ {6, 32, 58, 84, 110},
	/*26*/ {6, 30, 58, 86, 114},
	/*27*/ {6, 34, 62, 90, 118},
	/*28*/ {6, 26, 50, 74, 98, 122},
	/*29*/ {6, 30, 54, 78, 102, 126},
	/*30*/ {6, 26, 52, 78, 104, 130},
	/*31*/ {6, 30, 56, 82, 108, 134},
	/*32*/ {6, 34, 60, 86, 112, 138},
	/*33*/ {6, 30, 58, 86, 114, 142},
	/*34*/ {6, 34, 62, 90, 118, 146},
	/*35*/ {6, 30, 54, 78, 102, 126, 150},
	/*36*/ {6, 24, 50, 76, 102, 128, 154},
	/*37*/ {6, 28, 54, 80, 106, 132, 158},
	/*38*/ {6, 32, 58, 84, 110, 136, 162},
	/*39*/ {6, 26, 54, 82, 110, 138, 166},
	/*40*/ {6, 30, 58, 86, 114, 142, 170},
}

// AlignmentCenters returns the row/column coordinates of alignment pattern
// centres (ISO Annex E). Alignment patterns are centred on every pair of
// these coordinates except the three pairs that fall on a finder pattern.
// The returned slice is a fresh copy. nil for an illegal version.
func AlignmentCenters(version int) []int {
	if !ValidVersion(version) {
		return nil
	}
	src := alignTable[version-1]
	out := make([]int, len(src))
	copy(out, src)
	return out
}

// AlphanumericCharset is the 45 character alphanumeric mode character set in
// value order (ISO table 5).
const AlphanumericCharset = "0123456789ABCDEFGHIJKLMNOPQRSTUVWXYZ $%*+-./:"
