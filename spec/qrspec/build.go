package qrspec

import "fmt"

// This file contains the forward direction (segments -> data codewords ->
// final codeword sequence -> module matrix), written from the standard, so
// that the reader can be exercised without any external encoder and so that
// a caller can compute the expected symbol for given data codewords.

// DataCapacityBits returns 8 x the number of data codewords.
func DataCapacityBits(version int, level Level) int { return 8 * DataCodewords(version, level) }

// SegmentBits returns the number of bits a segment of `count` characters in
// the given mode occupies in a symbol of the given version (mode indicator +
// character count indicator + data), or -1 if the mode is unsupported or the
// count does not fit the character count indicator.
func SegmentBits(version int, mode Mode, count int) int {
	ccb := CharCountBits(version, mode)
	if ccb == 0 || count < 0 || count >= 1<<uint(ccb) {
		return -1
	}
	n := 4 + ccb
	switch mode {
	case ModeNumeric:
		n += 10*(count/3) + [3]int{0, 4, 7}[count%3]
	case ModeAlpha:
		n += 11*(count/2) + 6*(count%2)
	case ModeByte:
		n += 8 * count
	}
	return n
}

// MaxChars returns the largest number of characters that a single segment of
// the given mode can hold in a (version, level) symbol (ISO table 7).
func MaxChars(version int, level Level, mode Mode) int {
	ccb := CharCountBits(version, mode)
	if ccb == 0 || !level.Valid() {
		return 0
	}
	avail := DataCapacityBits(version, level) - 4 - ccb
	if avail < 0 {
		return 0
	}
	var n int
	switch mode {
	case ModeNumeric:
		n = 3 * (avail / 10)
		if r := avail % 10; r >= 7 {
			n += 2
		} else if r >= 4 {
			n++
		}
	case ModeAlpha:
		n = 2 * (avail / 11)
		if avail%11 >= 6 {
			n++
		}
	case ModeByte:
		n = avail / 8
	}
	if n >= 1<<uint(ccb) {
		n = 1<<uint(ccb) - 1
	}
	return n
}

// EncodeSegments builds the data codewords of a (version, level) symbol for
// the given segments (Segment.Data holds the characters; Count is ignored and
// taken from len(Data)): segments, terminator, bit padding, pad codewords.
func EncodeSegments(version int, level Level, segs []Segment) ([]byte, error) {
	if !ValidVersion(version) || !level.Valid() {
		return nil, fmt.Errorf("qrspec: illegal version %d / level %d", version, int(level))
	}
	capBits := DataCapacityBits(version, level)
	var bits []bool
	put := func(v, n int) {
		for i := n - 1; i >= 0; i-- {
			bits = append(bits, v>>uint(i)&1 == 1)
		}
	}
	for si, s := range segs {
		ccb := CharCountBits(version, s.Mode)
		if ccb == 0 {
			return nil, fmt.Errorf("qrspec: segment %d: unsupported mode %d", si, int(s.Mode))
		}
		if len(s.Data) >= 1<<uint(ccb) {
			return nil, fmt.Errorf("qrspec: segment %d: %d characters do not fit a %d bit count", si, len(s.Data), ccb)
		}
		put(int(s.Mode), 4)
		put(len(s.Data), ccb)
		switch s.Mode {
		case ModeNumeric:
			for i := 0; i < len(s.Data); i += 3 {
				end := i + 3
				if end > len(s.Data) {
					end = len(s.Data)
				}
				v := 0
				for _, c := range s.Data[i:end] {
					if c < '0' || c > '9' {
						return nil, fmt.Errorf("qrspec: segment %d: %q is not a digit", si, c)
					}
					v = v*10 + int(c-'0')
				}
				put(v, [4]int{0, 4, 7, 10}[end-i])
			}
		case ModeAlpha:
			val := func(c byte) int {
				for k := 0; k < len(AlphanumericCharset); k++ {
					if AlphanumericCharset[k] == c {
						return k
					}
				}
				return -1
			}
			for i := 0; i < len(s.Data); i += 2 {
				a := val(s.Data[i])
				if a < 0 {
					return nil, fmt.Errorf("qrspec: segment %d: %q is not alphanumeric", si, s.Data[i])
				}
				if i+1 < len(s.Data) {
					b := val(s.Data[i+1])
					if b < 0 {
						return nil, fmt.Errorf("qrspec: segment %d: %q is not alphanumeric", si, s.Data[i+1])
					}
					put(a*45+b, 11)
				} else {
					put(a, 6)
				}
			}
		case ModeByte:
			for _, c := range s.Data {
				put(int(c), 8)
			}
		}
	}
	if len(bits) > capBits {
		return nil, fmt.Errorf("qrspec: %d bits exceed the capacity %d of version %d-%v", len(bits), capBits, version, level)
	}
	for i := 0; i < 4 && len(bits) < capBits; i++ {
		bits = append(bits, false)
	}
	for len(bits)%8 != 0 {
		bits = append(bits, false)
	}
	out := make([]byte, len(bits)/8, capBits/8)
	for i, b := range bits {
		if b {
			out[i/8] |= 0x80 >> uint(i%8)
		}
	}
	for k := 0; len(out) < capBits/8; k++ {
		if k%2 == 0 {
			out = append(out, 0xEC)
		} else {
			out = append(out, 0x11)
		}
	}
	return out, nil
}

// FinalCodewords splits the data codewords into blocks, appends the error
// correction codewords to each and interleaves them (ISO 7.5, 7.6).
func FinalCodewords(version int, level Level, data []byte) ([]byte, error) {
	ec, n1, d1, n2, d2 := BlockInfo(version, level)
	if n1 == 0 {
		return nil, fmt.Errorf("qrspec: illegal version %d / level %d", version, int(level))
	}
	if len(data) != n1*d1+n2*d2 {
		return nil, fmt.Errorf("qrspec: %d data codewords, version %d-%v needs %d", len(data), version, level, n1*d1+n2*d2)
	}
	nb := n1 + n2
	dblk := make([][]byte, nb)
	eblk := make([][]byte, nb)
	p := 0
	maxd := d1
	for b := 0; b < nb; b++ {
		n := d1
		if b >= n1 {
			n = d2
		}
		if n > maxd {
			maxd = n
		}
		dblk[b] = data[p : p+n]
		p += n
		eblk[b] = RSEncode(dblk[b], ec)
	}
	out := make([]byte, 0, len(data)+nb*ec)
	for i := 0; i < maxd; i++ {
		for b := 0; b < nb; b++ {
			if i < len(dblk[b]) {
				out = append(out, dblk[b][i])
			}
		}
	}
	for i := 0; i < ec; i++ {
		for b := 0; b < nb; b++ {
			out = append(out, eblk[b][i])
		}
	}
	return out, nil
}

// Build returns the module matrix ([x][y], true = dark) of the symbol with
// the given version, level, mask pattern and data codewords. No mask
// evaluation is done: the caller chooses the mask.
func Build(version int, level Level, mask int, data []byte) ([][]bool, error) {
	if mask < 0 || mask > 7 {
		return nil, fmt.Errorf("qrspec: illegal mask %d", mask)
	}
	cw, err := FinalCodewords(version, level, data)
	if err != nil {
		return nil, err
	}
	return BuildFromFinal(version, level, mask, cw)
}

// BuildFromFinal is Build for an already interleaved final codeword sequence
// (len(final) must be TotalCodewords(version)).
func BuildFromFinal(version int, level Level, mask int, final []byte) ([][]bool, error) {
	if !ValidVersion(version) || !level.Valid() || mask < 0 || mask > 7 {
		return nil, fmt.Errorf("qrspec: illegal version %d / level %d / mask %d", version, int(level), mask)
	}
	if len(final) != TotalCodewords(version) {
		return nil, fmt.Errorf("qrspec: %d codewords, version %d has %d", len(final), version, TotalCodewords(version))
	}
	lay := Layout(version)
	dim := Dim(version)
	fw := FormatWord(level, mask)
	vw := VersionWord(version)
	out := make([][]bool, dim)
	for x := 0; x < dim; x++ {
		out[x] = make([]bool, dim)
		for y := 0; y < dim; y++ {
			m := lay[x][y]
			var d bool
			switch m.Kind {
			case KFixedDark:
				d = true
			case KFixedLight:
				d = false
			case KFormat:
				d = fw>>uint(m.Index)&1 == 1
			case KVersion:
				d = vw>>uint(m.Index)&1 == 1
			case KData:
				if m.Index < 8*len(final) {
					d = final[m.Index/8]&(0x80>>uint(m.Index%8)) != 0
				}
				d = d != MaskBit(mask, x, y)
			}
			out[x][y] = d
		}
	}
	return out, nil
}
