package qrspec

import "fmt"

// Error is returned by Decode and ParseStream. Rule is a short stable name of
// the violated rule (one of the Rule* constants), Msg the details.
type Error struct {
	Rule string
	Msg  string
}

func (e *Error) Error() string { return "qrspec: " + e.Rule + ": " + e.Msg }

// Rule names, in the order in which Decode checks them.
const (
	RuleDimension       = "dimension"       // side length is not 17+4v, v in 1..40
	RuleFinder          = "finder"          // finder pattern module wrong
	RuleSeparator       = "separator"       // separator module not light
	RuleTiming          = "timing"          // timing pattern module wrong
	RuleAlignment       = "alignment"       // alignment pattern module wrong
	RuleDarkModule      = "dark-module"     // module (8, 4v+9) not dark
	RuleFormatBCH       = "format-bch"      // a copy of the format information is not a BCH codeword
	RuleFormatMismatch  = "format-mismatch" // the two copies differ
	RuleVersionBCH      = "version-bch"     // a copy of the version information is not a BCH codeword
	RuleVersionMismatch = "version-mismatch"
	RuleVersionValue    = "version-value"  // version information does not name the version implied by the size
	RuleRemainder       = "remainder-bits" // remainder bits not zero
	RuleRS              = "rs-syndrome"    // a block is not a Reed-Solomon codeword
	RuleMode            = "mode"           // unknown / unsupported mode indicator
	RuleTruncated       = "truncated"      // segment runs past the capacity
	RuleNumeric         = "numeric-group"  // numeric group value out of range
	RuleAlpha           = "alnum-value"    // alphanumeric value out of range
	RuleTerminator      = "terminator"     // shortened terminator contains a one bit
	RulePadBits         = "padding-bits"   // bits up to the byte boundary not zero
	RulePadCodeword     = "pad-codeword"   // pad codewords not 0xEC,0x11,...
)

func errf(rule, format string, a ...interface{}) error {
	return &Error{Rule: rule, Msg: fmt.Sprintf(format, a...)}
}

// Segment is one decoded segment of the data bit stream.
type Segment struct {
	Mode  Mode
	Count int    // value of the character count indicator
	Data  []byte // decoded characters (numeric/alphanumeric as ASCII, byte mode raw)
}

// Result is what the reference reader extracted from a symbol.
type Result struct {
	Version       int
	Level         Level
	Mask          int
	DataCodewords []byte // de-interleaved data codewords, blocks concatenated in block order
	Segments      []Segment
	Payload       []byte // concatenation of the Data of all segments
}

// Decode is the reference reader. dim is the side length of the symbol in
// modules (no quiet zone), at(x, y) reports whether the module in column x,
// row y is dark. Decode performs every structural check of ISO/IEC 18004 on
// an (error free) symbol and returns an *Error naming the first violated
// rule. It does not correct errors: any deviation is reported.
func Decode(dim int, at func(x, y int) bool) (*Result, error) {
	version, ok := VersionForDim(dim)
	if !ok {
		return nil, errf(RuleDimension, "side length %d is not 17+4v for a version v in 1..40", dim)
	}
	if at == nil {
		return nil, errf(RuleDimension, "nil module accessor")
	}
	// Snapshot the modules once so that at() is called exactly once per module.
	dark := make([][]bool, dim)
	for x := 0; x < dim; x++ {
		dark[x] = make([]bool, dim)
		for y := 0; y < dim; y++ {
			dark[x][y] = at(x, y)
		}
	}
	lay := Layout(version)

	// 1. Function patterns, in the order finder, separator, timing,
	// alignment, dark module.
	rules := [...]string{RuleFinder, RuleSeparator, RuleTiming, RuleAlignment, RuleDarkModule}
	for part := PartFinder; part <= PartDarkModule; part++ {
		for y := 0; y < dim; y++ {
			for x := 0; x < dim; x++ {
				m := lay[x][y]
				if m.Kind > KFixedDark || m.Index != part {
					continue
				}
				want := m.Kind == KFixedDark
				if dark[x][y] != want {
					return nil, errf(rules[part], "%s module at column %d, row %d is %s, must be %s (version %d)",
						partNames[part], x, y, colour(dark[x][y]), colour(want), version)
				}
			}
		}
	}

	// 2. Format information: two copies. In each copy every bit 0..14 occurs
	// exactly once; copy 1 is the one around the upper left finder.
	var f1, f2 uint16
	for y := 0; y < dim; y++ {
		for x := 0; x < dim; x++ {
			m := lay[x][y]
			if m.Kind != KFormat || !dark[x][y] {
				continue
			}
			if x <= 8 && y <= 8 {
				f1 |= 1 << uint(m.Index)
			} else {
				f2 |= 1 << uint(m.Index)
			}
		}
	}
	level, mask, ok1 := formatValid(f1)
	if !ok1 {
		return nil, errf(RuleFormatBCH, "format information next to the upper left finder (%015b) is not a BCH(15,5) codeword", f1)
	}
	level2, mask2, ok2 := formatValid(f2)
	if !ok2 {
		return nil, errf(RuleFormatBCH, "second copy of the format information (%015b) is not a BCH(15,5) codeword", f2)
	}
	if f1 != f2 {
		return nil, errf(RuleFormatMismatch, "format copies differ: %015b (level %v mask %d) vs %015b (level %v mask %d)",
			f1, level, mask, f2, level2, mask2)
	}

	// 3. Version information (versions 7..40).
	if version >= 7 {
		var v1, v2 uint32 // v1: upper right block, v2: lower left block
		for y := 0; y < dim; y++ {
			for x := 0; x < dim; x++ {
				m := lay[x][y]
				if m.Kind != KVersion || !dark[x][y] {
					continue
				}
				if y < 6 {
					v1 |= 1 << uint(m.Index)
				} else {
					v2 |= 1 << uint(m.Index)
				}
			}
		}
		n1, ok1 := versionWordValid(v1)
		if !ok1 {
			return nil, errf(RuleVersionBCH, "version information at the upper right (%018b) is not a BCH(18,6) codeword", v1)
		}
		n2, ok2 := versionWordValid(v2)
		if !ok2 {
			return nil, errf(RuleVersionBCH, "version information at the lower left (%018b) is not a BCH(18,6) codeword", v2)
		}
		if v1 != v2 {
			return nil, errf(RuleVersionMismatch, "version information copies differ: %018b (version %d) vs %018b (version %d)", v1, n1, v2, n2)
		}
		if n1 != version {
			return nil, errf(RuleVersionValue, "version information says version %d but the symbol size %d is version %d", n1, dim, version)
		}
	}

	// 4. Unmask and read the bit stream in placement order.
	total := TotalCodewords(version)
	nbits := 8*total + RemainderBits(version)
	stream := make([]bool, nbits)
	seen := 0
	for y := 0; y < dim; y++ {
		for x := 0; x < dim; x++ {
			m := lay[x][y]
			if m.Kind != KData {
				continue
			}
			if m.Index < 0 || m.Index >= nbits {
				return nil, errf(RuleDimension, "internal: data module index %d out of range %d", m.Index, nbits)
			}
			stream[m.Index] = dark[x][y] != MaskBit(mask, x, y)
			seen++
		}
	}
	if seen != nbits {
		return nil, errf(RuleDimension, "internal: %d data modules, expected %d", seen, nbits)
	}
	for i := 8 * total; i < nbits; i++ {
		if stream[i] {
			return nil, errf(RuleRemainder, "remainder bit %d of %d (stream position %d) is 1 after unmasking with mask %d",
				i-8*total, RemainderBits(version), i, mask)
		}
	}
	cw := make([]byte, total)
	for i := 0; i < 8*total; i++ {
		if stream[i] {
			cw[i/8] |= 0x80 >> uint(i%8)
		}
	}

	// 5. De-interleave (ISO 7.6) and check every block.
	blocks, err := Deinterleave(version, level, cw)
	if err != nil {
		return nil, err
	}
	ec, _, _, _, _ := BlockInfo(version, level)
	var data []byte
	for bi, b := range blocks {
		syn := Syndromes(b, ec)
		for si, s := range syn {
			if s != 0 {
				return nil, errf(RuleRS, "block %d of %d (version %d-%v, %d data + %d ec codewords): syndrome S%d = 0x%02X, must be 0",
					bi+1, len(blocks), version, level, len(b)-ec, ec, si, s)
			}
		}
		data = append(data, b[:len(b)-ec]...)
	}

	// 6. Parse the data bit stream.
	bits := make([]bool, 8*len(data))
	for i := range bits {
		bits[i] = data[i/8]&(0x80>>uint(i%8)) != 0
	}
	segs, payload, err := ParseStream(bits, version)
	if err != nil {
		return nil, err
	}
	return &Result{Version: version, Level: level, Mask: mask, DataCodewords: data, Segments: segs, Payload: payload}, nil
}

func colour(dark bool) string {
	if dark {
		return "dark"
	}
	return "light"
}

// Deinterleave splits the final codeword sequence (ISO 7.6: data codewords
// of all blocks interleaved, then error correction codewords of all blocks
// interleaved) into its blocks. Each returned block is the block's data
// codewords followed by its error correction codewords; group 1 blocks come
// first.
func Deinterleave(version int, level Level, codewords []byte) ([][]byte, error) {
	ec, n1, d1, n2, d2 := BlockInfo(version, level)
	if n1 == 0 {
		return nil, errf(RuleDimension, "illegal version %d / level %d", version, int(level))
	}
	nb := n1 + n2
	if len(codewords) != n1*d1+n2*d2+nb*ec {
		return nil, errf(RuleDimension, "have %d codewords, version %d-%v needs %d", len(codewords), version, level, n1*d1+n2*d2+nb*ec)
	}
	dlen := func(b int) int {
		if b < n1 {
			return d1
		}
		return d2
	}
	blocks := make([][]byte, nb)
	for b := range blocks {
		blocks[b] = make([]byte, 0, dlen(b)+ec)
	}
	p := 0
	maxd := d1
	if n2 > 0 && d2 > maxd {
		maxd = d2
	}
	for i := 0; i < maxd; i++ {
		for b := 0; b < nb; b++ {
			if i < dlen(b) {
				blocks[b] = append(blocks[b], codewords[p])
				p++
			}
		}
	}
	for i := 0; i < ec; i++ {
		for b := 0; b < nb; b++ {
			blocks[b] = append(blocks[b], codewords[p])
			p++
		}
	}
	return blocks, nil
}

// ParseStream parses a data bit stream (ISO 7.4): a sequence of segments
// (mode indicator, character count indicator, data) in numeric, alphanumeric
// or byte mode, then the terminator 0000 (which may be shortened or omitted
// only when the stream ends before four bits are available), zero bits up to
// the next codeword boundary, and pad codewords 11101100 / 00010001
// alternating, starting with 11101100, up to the end.
//
// len(bits) is taken as the data capacity of the symbol in bits (8 x number
// of data codewords); version selects the character count indicator widths.
func ParseStream(bits []bool, version int) (segments []Segment, payload []byte, err error) {
	if !ValidVersion(version) {
		return nil, nil, errf(RuleDimension, "illegal version %d", version)
	}
	capBits := len(bits)
	pos := 0
	read := func(n int) int {
		v := 0
		for i := 0; i < n; i++ {
			v <<= 1
			if bits[pos] {
				v |= 1
			}
			pos++
		}
		return v
	}
	payload = []byte{}
	for {
		rest := capBits - pos
		if rest == 0 {
			// capacity exhausted: terminator omitted
			return segments, payload, nil
		}
		if rest < 4 {
			// shortened terminator: all remaining bits must be zero
			for i := 0; i < rest; i++ {
				if bits[pos+i] {
					return nil, nil, errf(RuleTerminator, "only %d bits left at bit %d, they must be a shortened terminator (all 0) but bit %d is 1", rest, pos, pos+i)
				}
			}
			return segments, payload, nil
		}
		at := pos
		mi := read(4)
		if mi == 0 {
			break // terminator
		}
		mode := Mode(mi)
		switch mode {
		case ModeNumeric, ModeAlpha, ModeByte:
		default:
			return nil, nil, errf(RuleMode, "mode indicator %04b at bit %d is not numeric (0001), alphanumeric (0010) or byte (0100)", mi, at)
		}
		ccb := CharCountBits(version, mode)
		if capBits-pos < ccb {
			return nil, nil, errf(RuleTruncated, "%v segment at bit %d: %d bits left, character count indicator needs %d", mode, at, capBits-pos, ccb)
		}
		count := read(ccb)
		var need int
		switch mode {
		case ModeNumeric:
			need = 10 * (count / 3)
			switch count % 3 {
			case 1:
				need += 4
			case 2:
				need += 7
			}
		case ModeAlpha:
			need = 11*(count/2) + 6*(count%2)
		case ModeByte:
			need = 8 * count
		}
		if capBits-pos < need {
			return nil, nil, errf(RuleTruncated, "%v segment at bit %d with count %d needs %d data bits, only %d left of capacity %d",
				mode, at, count, need, capBits-pos, capBits)
		}
		data := make([]byte, 0, count)
		switch mode {
		case ModeNumeric:
			left := count
			for left > 0 {
				gp := pos
				switch {
				case left >= 3:
					v := read(10)
					if v > 999 {
						return nil, nil, errf(RuleNumeric, "numeric 3-digit group at bit %d has value %d > 999", gp, v)
					}
					data = append(data, byte('0'+v/100), byte('0'+v/10%10), byte('0'+v%10))
					left -= 3
				case left == 2:
					v := read(7)
					if v > 99 {
						return nil, nil, errf(RuleNumeric, "numeric 2-digit group at bit %d has value %d > 99", gp, v)
					}
					data = append(data, byte('0'+v/10), byte('0'+v%10))
					left -= 2
				default:
					v := read(4)
					if v > 9 {
						return nil, nil, errf(RuleNumeric, "numeric 1-digit group at bit %d has value %d > 9", gp, v)
					}
					data = append(data, byte('0'+v))
					left--
				}
			}
		case ModeAlpha:
			left := count
			for left > 0 {
				gp := pos
				if left >= 2 {
					v := read(11)
					if v >= 45*45 {
						return nil, nil, errf(RuleAlpha, "alphanumeric pair at bit %d has value %d >= 2025", gp, v)
					}
					data = append(data, AlphanumericCharset[v/45], AlphanumericCharset[v%45])
					left -= 2
				} else {
					v := read(6)
					if v >= 45 {
						return nil, nil, errf(RuleAlpha, "alphanumeric single character at bit %d has value %d >= 45", gp, v)
					}
					data = append(data, AlphanumericCharset[v])
					left--
				}
			}
		case ModeByte:
			for i := 0; i < count; i++ {
				data = append(data, byte(read(8)))
			}
		}
		segments = append(segments, Segment{Mode: mode, Count: count, Data: data})
		payload = append(payload, data...)
	}
	// After a full terminator: zero bits to the codeword boundary.
	for pos%8 != 0 && pos < capBits {
		if bits[pos] {
			return nil, nil, errf(RulePadBits, "bit %d between terminator and codeword boundary is 1, must be 0", pos)
		}
		pos++
	}
	// Pad codewords.
	for k := 0; pos < capBits; k++ {
		if capBits-pos < 8 {
			return nil, nil, errf(RulePadCodeword, "%d stray bits after the last whole codeword (capacity %d bits is not a multiple of 8)", capBits-pos, capBits)
		}
		p := pos
		v := read(8)
		want := 0xEC
		if k%2 == 1 {
			want = 0x11
		}
		if v != want {
			return nil, nil, errf(RulePadCodeword, "pad codeword #%d (codeword %d, bit %d) is 0x%02X, must be 0x%02X", k+1, p/8, p, v, want)
		}
	}
	return segments, payload, nil
}
