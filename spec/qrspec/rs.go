package qrspec

// Reed-Solomon arithmetic over GF(2^8) with the primitive polynomial
// x^8+x^4+x^3+x^2+1 (0x11D) and primitive element alpha = 2 (ISO 7.5.2).
// The generator polynomial of an n-check-codeword code is
// g(x) = (x - alpha^0)(x - alpha^1)...(x - alpha^(n-1))  (ISO Annex A).

const gfPoly = 0x11D

// gfMul multiplies in GF(256) by shift-and-add ("Russian peasant"), without
// any tables, so that it is trivially auditable.
func gfMul(a, b byte) byte {
	var r int
	x, y := int(a), int(b)
	for y != 0 {
		if y&1 != 0 {
			r ^= x
		}
		x <<= 1
		if x&0x100 != 0 {
			x ^= gfPoly
		}
		y >>= 1
	}
	return byte(r)
}

// gfPow returns alpha^e for e >= 0.
func gfPow(e int) byte {
	r := byte(1)
	for i := 0; i < e%255; i++ {
		r = gfMul(r, 2)
	}
	return r
}

// Syndromes evaluates the block (data codewords followed by ec error
// correction codewords, first codeword = highest order coefficient) at
// alpha^0 .. alpha^(ec-1). A valid block yields all zeros.
func Syndromes(block []byte, ec int) []byte {
	if ec < 0 {
		ec = 0
	}
	out := make([]byte, ec)
	root := byte(1)
	for i := 0; i < ec; i++ {
		var s byte
		for _, c := range block { // Horner
			s = gfMul(s, root) ^ c
		}
		out[i] = s
		root = gfMul(root, 2)
	}
	return out
}

// generatorPoly returns the coefficients of g(x), highest order first,
// leading coefficient 1, length ec+1.
func generatorPoly(ec int) []byte {
	g := []byte{1}
	root := byte(1)
	for i := 0; i < ec; i++ {
		// g *= (x + root)   (minus is plus in characteristic 2)
		ng := make([]byte, len(g)+1)
		for k, c := range g {
			ng[k] ^= c
			ng[k+1] ^= gfMul(c, root)
		}
		g = ng
		root = gfMul(root, 2)
	}
	return g
}

// RSEncode returns the ec error correction codewords for data: the
// remainder of data(x)*x^ec divided by g(x).
func RSEncode(data []byte, ec int) []byte {
	if ec <= 0 {
		return []byte{}
	}
	g := generatorPoly(ec)
	rem := make([]byte, ec)
	for _, d := range data {
		f := d ^ rem[0]
		copy(rem, rem[1:])
		rem[ec-1] = 0
		if f != 0 {
			for k := 0; k < ec; k++ {
				rem[k] ^= gfMul(f, g[k+1])
			}
		}
	}
	return rem
}
