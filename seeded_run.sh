#!/bin/bash
# usage: seeded_run.sh <name e.g. C01-1> [property ...]   — runs the quick check(s) against a scratch copy of /repo with the seeded change applied
name=$1; shift
id=${name%-*}
props="$@"; [ -z "$props" ] && props=$id
d=/root/scratch/seed.$name
mkdir -p /root/scratch; rsync -a --delete --exclude .git /repo/ $d/
( cd $d && git init -q . 2>/dev/null; git apply /verif/seeded/$name/patch.diff ) || { echo "$name: patch does not apply to /repo"; rm -rf $d; exit 2; }
for p in $props; do
  out=$(cd /verif && GOVC_NOCACHE= timeout 1500 ./bin/govc check --tier quick -repo $d $p 2>&1)
  rc=$?
  nviol=$(echo "$out" | grep -c "^VIOLATION")
  ded=$(echo "$out" | grep '^VIOLATION' | grep -v "obligation=bounded/" | sed 's/.*obligation=//' | cut -c1-110 | head -4 | tr '\n' '|')
  bnd=$(echo "$out" | grep '^VIOLATION' | grep -c "obligation=bounded/")
  echo "$name $p exit=$rc violations=$nviol deductive=[$ded] bounded=$bnd"
done
rm -rf $d
