#!/bin/bash
# usage: seeded_run.sh <name e.g. C01-1> [property ...]
# Runs the quick check(s) of the property the seeded change breaks against a scratch copy of /repo
# with the change applied (the checks take -repo <dir>; /repo itself is not touched), prints one
# line per property and records the outcome in seeded/<name>/meta.json ("ran", "outcome").
name=$1; shift
id=${name%-*}
props="$@"; [ -z "$props" ] && props=$id
d=/root/scratch/seed.$name
mkdir -p /root/scratch; rsync -a --delete --exclude .git /repo/ $d/
( cd $d && git init -q . 2>/dev/null; git apply /verif/seeded/$name/patch.diff ) || { echo "$name: patch does not apply to /repo"; rm -rf $d; exit 2; }
for p in $props; do
  out=$(cd /verif && GOVC_NOCACHE= timeout 1500 ./bin/govc check --tier quick -repo $d $p 2>&1)
  rc=$?
  nviol=$(echo "$out" | grep -c "^VIOLATION")
  ded=$(echo "$out" | grep '^VIOLATION' | grep -v "obligation=bounded/" | sed 's/.*obligation=//' | cut -c1-110 | head -4 | tr '\n' '|')
  nded=$(echo "$out" | grep '^VIOLATION' | grep -vc "obligation=bounded/")
  bnd=$(echo "$out" | grep '^VIOLATION' | grep -c "obligation=bounded/")
  echo "$name $p exit=$rc violations=$nviol deductive=[$ded] bounded=$bnd"
  if [ "$p" = "$id" ]; then
    tmp=$(mktemp)
    jq --arg ran "rsync /repo -> scratch copy; git apply seeded/$name/patch.diff; govc check --tier quick -repo <copy> $p (same as ./check.sh $p --tier quick with the change applied)" \
       --argjson rc $rc --argjson nded $nded --argjson bnd $bnd --arg ded "$ded" \
       '.ran=$ran | .outcome={exit:$rc, deductive_violations:$nded, bounded_violations:$bnd, first_failed_obligations:($ded|split("|")|map(select(length>0)))}' \
       /verif/seeded/$name/meta.json > $tmp && mv $tmp /verif/seeded/$name/meta.json
  fi
done
rm -rf $d
