package main

// The registry: which functions, unwinding families, table lemmas and bounded stand-ins decide
// each property (DESIGN.md §4).

var props = []*PropDef{
	{
		ID: "C18",
		Funcs: []string{
			"utils.NewBitList", "utils.(*BitList).Len", "utils.(*BitList).grow", "utils.(*BitList).AddBit",
			"utils.(*BitList).SetBit", "utils.(*BitList).GetBit", "utils.(*BitList).AddByte", "utils.(*BitList).AddBits",
			"utils.(*BitList).GetBytes",
		},
		BV: true,
		Harness: []Harness{
			{Pkg: "utils", File: "c18_bitlist_test.go", Run: "TestVerifC18", Bound: "IterateBytes (goroutine+channel, outside the proof subset) compared with GetBytes and the bool-sequence model for every length 0..4200 and seeded random operation sequences across grow/word/byte boundaries"},
		},
		Assumptions: []string{
			"bit operators on symbolic operands are uninterpreted functions constrained by axioms; every axiom is re-proved in QF_BV at the operand width on each run (obligations axiom/*)",
			"IterateBytes (byte channel view) is only covered by the bounded stand-in, not by a discharged obligation",
		},
		Note: "Every BitList method is verified against the ghost bool-sequence model `model` with representation invariant inv(bl); the all-operation-sequences quantifier is the invariant (each method preserves inv and transforms model as the sequence semantics says).",
	},
	{
		ID: "C09",
		Funcs: []string{
			"barcode.scale2DCode$1", "barcode.scale1DCode$1", "barcode.newScaledBC", "barcode.scale2DCode", "barcode.scale1DCode",
			"barcode.ScaleWithFill", "barcode.Scale", "barcode.(*scaledBarcode).At", "barcode.(*scaledBarcode).Bounds",
			"barcode.(*scaledBarcode).Content", "barcode.(*scaledBarcode).Metadata", "barcode.(*scaledBarcode).ColorModel",
			"barcode.(*intCSscaledBC).CheckSum",
			"barcode.lemmaDivMul", "barcode.lemmaBlock2D", "barcode.lemmaFill2D", "barcode.lemmaBlock1D", "barcode.lemmaFill1D",
		},
		Harness: []Harness{
			{Pkg: ".", File: "c09_scale_test.go", Run: "TestVerifC09", Bound: "validation of assumption FL and of the interface contract on concrete fake barcodes: sources 1..40 modules, targets up to 5x incl. all residues, re-scaling of scaled results"},
		},
		Assumptions: []string{
			"FL: float64 arithmetic in scale*DCode is modelled by exact rationals and int(min(a/b, c/d)) == min(a div b, c div d); holds for operands < 2^52 (conversions exact, quotient error < 1/(2b)); the contracts restrict widths/heights to <= 2^30; validated boundedly by the harness",
			"interface contract: Bounds/At/Metadata/Content/ColorModel/CheckSum/ColorScheme of the source barcode are pure total functions (true of every library type: their contracts modify nothing; assumed for caller-supplied types)",
			"source bounds satisfy Min < Max within +-2^30 (every library barcode has at least one module)",
		},
		Note: "Scale/ScaleWithFill/scale1DCode/scale2DCode, the two pixel closures, newScaledBC and every scaledBarcode accessor are verified against contracts; ghost lemma functions (zz_lemmas_verif.go, build tag verif) compose them into the statement: block grid of f x f copies, f maximal, centred within one pixel, fill elsewhere, pass-through accessors.",
	},
}

func findProp(id string) *PropDef {
	for _, p := range props {
		if p.ID == id {
			return p
		}
	}
	return nil
}
