package main

// The registry: which functions, unwinding families, table lemmas and bounded stand-ins decide
// each property (DESIGN.md §4).

var props = []*PropDef{
	{
		ID: "C18",
		Funcs: []string{
			"utils.NewBitList", "utils.(*BitList).Len", "utils.(*BitList).grow", "utils.(*BitList).AddBit",
			"utils.(*BitList).SetBit", "utils.(*BitList).GetBit", "utils.(*BitList).AddByte", "utils.(*BitList).AddBits",
			"utils.(*BitList).GetBytes",
		},
		BV: true,
		Harness: []Harness{
			{Pkg: "utils", File: "c18_bitlist_test.go", Run: "TestVerifC18", Bound: "IterateBytes (goroutine+channel, outside the proof subset) compared with GetBytes and the bool-sequence model for every length 0..4200 and seeded random operation sequences across grow/word/byte boundaries"},
		},
		Assumptions: []string{
			"bit operators on symbolic operands are uninterpreted functions constrained by axioms; every axiom is re-proved in QF_BV at the operand width on each run (obligations axiom/*)",
			"IterateBytes (byte channel view) is only covered by the bounded stand-in, not by a discharged obligation",
		},
		Note: "Every BitList method is verified against the ghost bool-sequence model `model` with representation invariant inv(bl); the all-operation-sequences quantifier is the invariant (each method preserves inv and transforms model as the sequence semantics says).",
	},
	{
		ID: "C09",
		Funcs: []string{
			"barcode.scale2DCode$1", "barcode.scale1DCode$1", "barcode.newScaledBC", "barcode.scale2DCode", "barcode.scale1DCode",
			"barcode.ScaleWithFill", "barcode.Scale", "barcode.(*scaledBarcode).At", "barcode.(*scaledBarcode).Bounds",
			"barcode.(*scaledBarcode).Content", "barcode.(*scaledBarcode).Metadata", "barcode.(*scaledBarcode).ColorModel",
			"barcode.(*intCSscaledBC).CheckSum",
			"barcode.lemmaDivMul", "barcode.lemmaBlock2D", "barcode.lemmaFill2D", "barcode.lemmaBlock1D", "barcode.lemmaFill1D",
		},
		Harness: []Harness{
			{Pkg: ".", File: "c09_scale_test.go", Run: "TestVerifC09", Bound: "validation of assumption FL and of the interface contract on concrete fake barcodes: sources 1..40 modules, targets up to 5x incl. all residues, re-scaling of scaled results"},
		},
		Assumptions: []string{
			"FL: float64 arithmetic in scale*DCode is modelled by exact rationals and int(min(a/b, c/d)) == min(a div b, c div d); holds for operands < 2^52 (conversions exact, quotient error < 1/(2b)); the contracts restrict widths/heights to <= 2^30; validated boundedly by the harness",
			"interface contract: Bounds/At/Metadata/Content/ColorModel/CheckSum/ColorScheme of the source barcode are pure total functions (true of every library type: their contracts modify nothing; assumed for caller-supplied types)",
			"source bounds satisfy Min < Max within +-2^30 (every library barcode has at least one module)",
		},
		Note: "Scale/ScaleWithFill/scale1DCode/scale2DCode, the two pixel closures, newScaledBC and every scaledBarcode accessor are verified against contracts; ghost lemma functions (zz_lemmas_verif.go, build tag verif) compose them into the statement: block grid of f x f copies, f maximal, centred within one pixel, fill elsewhere, pass-through accessors.",
	},
	{
		ID: "C06",
		Funcs: []string{"utils.RuneToInt", "utils.IntToRune", "utils.New1DCodeIntCheckSumWithColor",
			"utils.(*base1DCode).Content", "utils.(*base1DCode).Metadata", "utils.(*base1DCode).Bounds", "utils.(*base1DCode).At", "utils.(*base1DCodeIntCS).CheckSum"},
		Unwind: []*Unwinder{unwEAN},
		Tables: []string{"ean/tables"},
		Harness: []Harness{
			{Pkg: "ean", File: "c06_ean_test.go", Run: "TestVerifC06", Bound: "replay search / cross-check with the independent reference decoder onedspec.EANDecode on random and boundary inputs (the proof itself is complete: all strings of length 7, 8, 12, 13 symbolically, every other length rejected)"},
		},
		Assumptions: []string{
			"string range decoding of bytes >= 0x80 is an uninterpreted UTF-8 decoder that returns a rune >= 0x80 and consumes 1..4 bytes (Go's decoder returns RuneError=0xFFFD or a rune >= 0x80 for such lead bytes)",
			"BitList methods are used through their contracts (C18); representation invariants of package utils are trusted across the package boundary (encapsulation: unexported fields)",
		},
		Note: "Complete unwinding [C]: for each length 7/8/12/13 and each position of the first non-ASCII byte the real ean.EncodeWithColor (with calcCheckNum, encodeEAN8/13, New1DCode... inlined) runs on symbolic bytes; acceptance, Content, kind, colour, CheckSum and all 67/95 modules are compared with the GS1 symbol built from the standard's L/G/R/parity tables. Other lengths: rejected (symbolic length).",
	},
	{
		ID: "C17",
		Funcs: []string{"utils.(*GaloisField).AddOrSub", "utils.(*GaloisField).Multiply", "utils.(*GaloisField).Divide", "utils.(*GaloisField).Invers",
			"utils.lemmaMulComm", "utils.lemmaMulAssoc", "utils.lemmaInverse", "utils.lemmaDivUndoesMul", "utils.lemmaDivIsMulInverse"},
		Tables: []string{"gf/fields"},
		Harness: []Harness{
			{Pkg: "utils", File: "c17_gf_test.go", Run: "TestVerifC17", Bound: "BOUNDED stand-in for the ring identities (dividend == q*d + r; Encode makes data||check vanish at alpha^(Base+i)): exhaustive for small degrees over GF(16), seeded random polynomials / data / request orders over all 7 fields, against independent carry-less arithmetic"},
		},
		Assumptions: []string{
			"polynomial division identity and Reed-Solomon syndrome-vanishing are NOT proved (needs ring-theory induction over convolution sums); they are covered by the bounded stand-in only",
		},
		Note: "Field tables of the 7 constructed fields are checked exhaustively against carry-less arithmetic modulo the standards' primitive polynomials [T]; commutativity, associativity, inverses and division for ALL operands follow from the table lemmas as discharged obligations (ghost lemma functions, split over the five field sizes).",
	},
}

func findProp(id string) *PropDef {
	for _, p := range props {
		if p.ID == id {
			return p
		}
	}
	return nil
}
