package main

// The registry: which functions, unwinding families, table lemmas and bounded stand-ins decide
// each property (DESIGN.md §4). Obligation classes: [P] contract proofs (Funcs), [C] complete
// unwinding per finite configuration (Unwind), [T] table lemmas (Tables), [B] bounded stand-ins
// (Harness; never counted as discharged obligations).

const (
	asmBitlist  = "BitList methods are used through their contracts (C18); representation invariants of package utils are trusted across the package boundary (encapsulation: unexported fields, every function of the package keeps inv)"
	asmUTF8     = "string range decoding of bytes >= 0x80 is an uninterpreted UTF-8 decoder returning a rune >= 0x80 and consuming 1..4 bytes"
	asmCoro     = "goroutines are executed as coroutines under one deterministic (lazy producer) schedule; unbuffered SPSC channel FIFO semantics and schedule independence of race-free pipelines are trusted (Go memory model)"
	asmStages   = "stage functions abstracted by contracts while unwinding (listed in the contract files with `abstract`): their results are fresh symbols, so the layout proof holds for whatever bits they produce; what the bits are is covered by the bounded round-trip stand-in only"
	asmRS       = "Reed-Solomon validity of the check words (ring identities of GFPoly/ReedSolomonEncoder) is a bounded stand-in (C17), not a discharged obligation"
	asmPenalty  = "qr calcPenalty is abstracted to `result < MaxUint` (mask choice does not affect validity); its loops are not under contract"
	baseVerify  = "contract-based deductive verification (VC generation over go/ssa, SMT discharge)"
	unwindTech  = "contract-based deductive verification: complete unwinding per finite configuration with symbolic data (loop-free VCs over go/ssa), table lemmas, SMT discharge"
	boundedNote = "BOUNDED stand-in (not a proof): "
)

var base1D = []string{"utils.New1DCode", "utils.New1DCodeWithColor", "utils.New1DCodeIntCheckSum", "utils.New1DCodeIntCheckSumWithColor",
	"utils.(*base1DCode).Content", "utils.(*base1DCode).Metadata", "utils.(*base1DCode).ColorModel", "utils.(*base1DCode).ColorScheme",
	"utils.(*base1DCode).Bounds", "utils.(*base1DCode).At", "utils.(*base1DCodeIntCS).CheckSum"}

var bitlistFuncs = []string{"utils.NewBitList", "utils.(*BitList).Len", "utils.(*BitList).grow", "utils.(*BitList).AddBit",
	"utils.(*BitList).SetBit", "utils.(*BitList).GetBit", "utils.(*BitList).AddByte", "utils.(*BitList).AddBits", "utils.(*BitList).GetBytes",
	"utils.(*BitList).IterateBytes", "utils.(*BitList).IterateBytes$1"}

var gfFuncs = []string{"utils.(*GaloisField).AddOrSub", "utils.(*GaloisField).Multiply", "utils.(*GaloisField).Divide", "utils.(*GaloisField).Invers",
	"utils.lemmaMulComm", "utils.lemmaMulAssoc", "utils.lemmaInverse", "utils.lemmaDivUndoesMul", "utils.lemmaDivIsMulInverse", "utils.NewGFPoly"}

var getters2D = []string{"qr.(*qrcode).Content", "qr.(*qrcode).Metadata", "qr.(*qrcode).ColorModel", "qr.(*qrcode).ColorScheme", "qr.(*qrcode).Bounds", "qr.(*qrcode).At", "datamatrix.(*datamatrixCode).Content", "datamatrix.(*datamatrixCode).Metadata", "datamatrix.(*datamatrixCode).ColorModel", "datamatrix.(*datamatrixCode).ColorScheme", "datamatrix.(*datamatrixCode).Bounds", "datamatrix.(*datamatrixCode).At", "aztec.(*aztecCode).Content", "aztec.(*aztecCode).Metadata", "aztec.(*aztecCode).ColorModel", "aztec.(*aztecCode).ColorScheme", "aztec.(*aztecCode).Bounds", "aztec.(*aztecCode).At", "pdf417.(*pdfBarcode).Content", "pdf417.(*pdfBarcode).Metadata", "pdf417.(*pdfBarcode).ColorModel", "pdf417.(*pdfBarcode).ColorScheme", "pdf417.(*pdfBarcode).Bounds", "pdf417.(*pdfBarcode).At"}

var props = []*PropDef{
	{
		ID:     "C01",
		Funcs:  []string{"qr.findSmallestVersionInfo", "qr.addPaddingAndTerminator", "qr.encodeNumeric", "qr.encodeUnicode", "qr.stringToAlphaIdx$1", "qr.encodeAlphaNumeric", "qr.encodeAuto", "qr.(Encoding).getEncoder"},
		Unwind: []*Unwinder{unwQR, unwQRBlocks, unwSelect},
		Tables: []string{"qr/versionInfos", "qr/charCountBits", "qr/formatInfos", "qr/alignment", "gf/fields"},
		Harness: []Harness{
			{Pkg: "qr", File: "c01_qr_test.go", Run: "^TestVerifC01$", Bound: boundedNote + "full round trip through the independent ISO 18004 reader qrspec.Decode (mode encoders, terminator/padding, block split + interleave, RS validity): all strings of length <= 3 over a 12-symbol alphabet, capacity n-1/n/n+1 of every version x level x mode, sign characters, invalid UTF-8, seeded random contents"},
		},
		Assumptions: []string{asmBitlist, asmCoro, asmPenalty, asmRS,
			"qr.Encode's glue between the stages (bit stream -> blocks -> render) is covered by the stages' contracts / unwinding families and the bounded round trip, not by a contract of its own",
			"encodeAlphaNumeric: proof-mode channel model (the consumer sees the producer's sent sequence in order; the producer goroutine is verified against its own contract and terminates)",
			"strconv.Atoi: ASSUMED contract for strings of 1..3 bytes (digits give their decimal value; no error and a leading digit imply digits only)", "inputs of at most 10 000 000 bytes"},
		Note: "[C] qr.render unwound for (version, level) configurations (quick: 7 versions, thorough: all 40 x 4) with symbolic codewords: the two producer goroutines of iterateModules run as coroutines; each of the 8 masked candidates equals the independent ISO layout (finder, separator, timing, alignment, dark module, format/version BCH words, zig-zag data placement, mask) module by module. [P] bit stream, for every content: encodeNumeric accepts only digit strings and emits 0001, the character count in the width of the version class, each group of three digits as 10 bits (two: 7, one: 4); encodeAlphaNumeric accepts only the 45-character set and emits 0010, the count, each pair as 11 bits (45*first+second) and a final single character as 6 bits (its producer goroutine sends the character values up to the first invalid one and closes); encodeUnicode emits 0100, the count and every byte; encodeAuto returns the bit stream of the mode its indicator names (numeric, alphanumeric or byte); addPaddingAndTerminator appends up to four zero bits, zeros to the codeword boundary and the pad codewords 11101100/00010001 alternately up to the capacity of the chosen row, leaving earlier bits untouched; findSmallestVersionInfo returns a row of the requested level that holds the bits (first fit: [C]). [T] 160-row block table, char-count widths, 32 format words, 34 version words, 40 alignment lists, GF(256)/0x11D tables against ISO.",
	},
	{
		ID:     "C02",
		Funcs:  []string{"datamatrix.encodeText", "datamatrix.addPadding"},
		Unwind: []*Unwinder{unwDM, unwSelect},
		Tables: []string{"dm/codeSizes", "gf/fields"},
		Harness: []Harness{
			{Pkg: "datamatrix", File: "c02_dm_test.go", Run: "^TestVerifC02$", Bound: boundedNote + "full round trip through the independent ISO 16022 reader dmspec.Decode (ASCII encodation, 253-state padding, RS validity): every codeword count 0..1561, capacity +-2 of all 24 sizes, all strings of length <= 4 over 9 bytes, seeded random contents"},
		},
		Assumptions: []string{asmBitlist, asmRS, "RS Encode is abstracted to its shape contract while unwinding calcECC", "that the ASCII encodation rules (pair -> 130+v, c -> c+1, upper shift 235) are uniquely decodable is the standard's design, not re-derived: the contract states the encoder side"},
		Note:        "[C] for all 24 sizes read from the current codeSizes table, with symbolic codewords: datamatrix.render (SetValues incl. the four corner cases and the fixed pattern, Merge with finder/clock tracks) equals the independent Annex F placement + symbol layout module by module; the explicit panic(\"Field already occupied\") is unreachable; calcECC hands block b exactly data[b], data[b+n], ... to the Reed-Solomon encoder (GF(256)/301, first root alpha^1, [T]) and stores the check words at the ISO interleaved positions without touching the caller's slice. [P] encodeText: for every content the codeword sequence is exactly the ISO 16022 ASCII encodation with greedy digit pairing from the left (recursive spec functions for step starts and output positions; loop invariant carries the uniqueness of step starts as its induction). [P] addPadding: for every input and every target count the result keeps the data codewords, then carries 129 and the ISO 16022 253-state randomised pads at every further position (loop invariants, unbounded).",
	},
	{
		ID:     "C03",
		Funcs:  []string{"aztec.stuffBits", "aztec.bitsToWords", "aztec.generateCheckWords", "aztec.generateModeMessage"},
		Unwind: []*Unwinder{unwAztec},
		Tables: []string{"aztec/tables", "gf/fields"},
		Harness: []Harness{
			{Pkg: "aztec", File: "c03_aztec_test.go", Run: "^TestVerifC03$", Bound: boundedNote + "full round trip through the independent ISO 24778 reader aztecspec.Decode (high-level encoder, stuffing, layer selection, check words, mode message): all 36 explicit sizes and automatic sizing, 13 alphabets, binary-shift boundaries 31/32/62/63/2078/2079, capacity +-2 per format, seeded random contents; empty payload excluded (known finding)"},
		},
		Assumptions: []string{asmBitlist, asmStages, asmRS, "NewGaloisField is used through a trusted shape contract (size and base as requested); the table contents are lemma gf/fields"},
		Note:        "[C] for all 36 explicit sizes: the drawing part of EncodeWithColor (data spiral through alignmentMap, mode message ring, bullseye, orientation marks, reference grid) equals the independent ISO layout module by module for symbolic message/mode bits; word size and total bits per size are the ISO values; explicit layer request honoured. [T] latch/shift/character tables decode (under the spec decoder) to what they claim; word_size and totalBitsInLayer against ISO. [P] generateModeMessage: layers-1 and data words-1 in binary at the head of a 28/40-bit message; generateCheckWords: the message is the data words followed by the Reed-Solomon words, totalBits in all, data bits unchanged (word sizes 4, 6, 8; for 10 and 12 only the length is claimed); bitsToWords: word values as binary numbers, most significant bit first (word sizes up to 8; value range for all); stuffBits: length bounds.",
	},
	{
		ID:     "C04",
		Funcs:  []string{"pdf417.(securitylevel).Compute"},
		Unwind: []*Unwinder{unwPDF},
		Tables: []string{"pdf417/tables", "pdf417/textmaps", "pdf417/pattern-values-pinned"},
		Harness: []Harness{
			{Pkg: "pdf417", File: "c04_pdf_test.go", Run: "^TestVerifC04$", Bound: boundedNote + "full round trip through the independent ISO 15438 reader pdfspec.Decode (text/byte/numeric compaction with all latches and shifts, RS over GF(929)): punctuation-pad family, all strings of length <= 4 over 8 symbols, digit/byte run boundaries, capacity limits, seeded random contents"},
		},
		Assumptions: []string{asmBitlist, asmStages, "PDF417 codeword pattern VALUES are trusted up to structure (17 modules, 4 bars/4 spaces, cluster number, distinct within cluster): the 2787-entry ISO listing cannot be reproduced offline", "RS over GF(929): Compute is proved equal to the standard's division circuit (recursive spec function) over the generator coefficients checked by [T]; that this circuit computes the polynomial remainder is the standard's own definition of the procedure, not re-derived"},
		Note:        "[C] EncodeWithColor unwound for (data codeword count, level) configurations (quick: ~120, thorough: every n for every level) with symbolic codewords: acceptance iff the codewords fit the library's 30x30 limit, dimension limits, padding < one row, length descriptor, pad codewords 900, 2^(level+1) check words, left/right row indicators per ISO 15438 (independent formulas), cluster 3*(row mod 3) patterns, start/stop, 17/18 modules, width. [T] correctionFactors = coefficients of prod(x-3^i) mod 929; pattern table structure; text sub-mode tables. [P] securitylevel.Compute for every level 0..8 and every data sequence: the result is the complement of the register of the ISO 15438 division circuit after all data codewords (loop invariants over the three real loops; in-place register update).",
	},
	{
		ID:     "C05",
		Level:  "other",
		Funcs:  base1D,
		Tables: []string{"code128/tables"},
		Harness: []Harness{
			{Pkg: "code128", File: "c05_code128_test.go", Run: "^TestVerifC05$", Bound: boundedNote + "round trip through the independent ISO 15417 decoder onedspec.C128Decode: lengths 1..80 over ASCII 0..127 + FNC1-4, every digit-run length with prefixes/suffixes, A/B/C switch mixtures, with and without checksum"},
		},
		Assumptions: []string{asmBitlist, "getCodeIndexList/shouldUseCTable/shouldUseATable and the assembly loops of EncodeWithColor are NOT under contract yet: the decode-back and check-character clauses rest on the bounded stand-in"},
		Note:        "[T] all 107 patterns equal the ISO table, A/B code set tables and the symbol constants are right; [P] the image type (base1DCode) renders exactly the bit list it is given. Code-set selection and check character: bounded.",
	},
	{
		ID:     "C06",
		Funcs:  append([]string{"utils.RuneToInt", "utils.IntToRune"}, base1D...),
		Unwind: []*Unwinder{unwEAN},
		Tables: []string{"ean/tables"},
		Harness: []Harness{
			{Pkg: "ean", File: "c06_ean_test.go", Run: "^TestVerifC06$", Bound: "replay search / cross-check with the independent decoder onedspec.EANDecode (the proof itself is complete: all strings of length 7, 8, 12, 13 symbolically, every other length rejected)"},
		},
		Assumptions: []string{asmUTF8, asmBitlist},
		Note:        "Complete unwinding [C]: for each length 7/8/12/13 and each position of the first non-ASCII byte the real ean.EncodeWithColor (with calcCheckNum, encodeEAN8/13, New1DCode... inlined) runs on symbolic bytes; acceptance, Content, kind, colour, CheckSum and all 67/95 modules are compared with the GS1 symbol built from the standard's L/G/R/parity tables. Other lengths: rejected (symbolic length).",
	},
	{
		ID:     "C07",
		Level:  "other",
		Funcs:  append([]string{"code39.getChecksum", "code39.prepare", "code39.EncodeWithColor", "code39.Encode", "code93.prepare", "code93.getChecksum"}, base1D...),
		Tables: []string{"code39/tables", "code93/tables"},
		Harness: []Harness{
			{Pkg: "code39", File: "c07_code39_test.go", Run: "^TestVerifC07Code39$", Bound: "cross-check of the Code 39 proof on the running code: round trip through onedspec.C39Decode/C39CheckChar/C39FullASCIIDecode in all four option combinations over all 128 ASCII characters"},
			{Pkg: "code93", File: "c07_code93_test.go", Run: "^TestVerifC07Code93$", Bound: boundedNote + "round trip through onedspec.C93Decode/C93Checks/C93FullASCIIDecode in all four option combinations"},
		},
		Assumptions: []string{asmBitlist, asmUTF8, "Code 39: inputs of at most 2 000 000 bytes (BitList capacity bound of the contracts)", "Code 93: getChecksum/EncodeWithColor are NOT under contract (rune-indexed weights over 2-byte function characters need a concrete UTF-8 model): check characters and assembly rest on the bounded stand-in"},
		Note:        "Code 39 [P], for every input and all four option combinations: accepted exactly when the drawn text consists of the 43 data characters (full ASCII mode: when the input is ASCII); the drawn text is the input resp. its full-ASCII spelling by the standard's pair table (prepare: recursive offset function); the symbol is * text [check] *, 12 modules per character from the standard's element table with narrow gaps; the check character is the modulo-43 character (getChecksum: recursive sum; the search over the map is proved order independent, the fall-through return unreachable). [T] both character tables and both full-ASCII tables; [P] the image type. Code 93: [P] prepare spells every ASCII text by the standard's table (shift characters as the bytes C3 B1..B4) and refuses exactly non-ASCII text; assembly and check characters: bounded.",
	},
	{
		ID:     "C08",
		Funcs:  append([]string{"twooffive.AddCheckSum", "twooffive.EncodeWithColor", "twooffive.Encode", "codabar.EncodeWithColor", "codabar.Encode"}, base1D...),
		Tables: []string{"codabar/tables", "twooffive/tables"},
		Harness: []Harness{
			{Pkg: "codabar", File: "c08_codabar_test.go", Run: "^TestVerifC08Codabar$", Bound: "cross-check of the Codabar proof and of the ASSUMED regexp contract on the running code: acceptance = [ABCD][0-9-$:/.+]*[ABCD] and round trip through onedspec.CodabarDecode"},
			{Pkg: "twooffive", File: "c08_twooffive_test.go", Run: "^TestVerifC08TwoOfFive$", Bound: "cross-check of the 2 of 5 proof: both variants through onedspec.TwoOfFiveDecodeLenient, AddCheckSum against the 3-1 weighted sum"},
		},
		Assumptions: []string{asmBitlist, asmUTF8, "inputs of at most 50 000 000 (2 of 5) / 90 000 000 (Codabar) bytes (BitList capacity bound of the contracts)",
			"Codabar: package regexp is outside the verified code; ASSUMED contract: the only pattern compiled is `[ABCD][0123456789\\-\\$\\:/\\.\\+]*[ABCD]$` (checked: precondition of regexp.Compile) and ReplaceAllString(s, \"!\") == \"!\" iff s as a whole matches it or s == \"!\"; cross-checked on the running code by the bounded stand-in"},
		Note: "2 of 5 (both variants) [P], for every input: EncodeWithColor/Encode accept exactly the non-empty digit strings (interleaved: of even length); the result carries text, kind, colours and, module by module, the standard's symbol (start, per digit five bars of width 3/1 by the 1-2-4-7-parity code with narrow spaces resp. per pair bars and spaces interleaved, stop) - loop invariants over the real loop with the pending-rune pointer; AddCheckSum returns content + the digit that makes the 3-1 weighted sum (recursive spec function) a multiple of ten and refuses exactly empty / non-digit input. Codabar [P], for every input: accepted exactly for start letter A-D, data characters, stop letter A-D (given the assumed regexp contract); the result carries text, kind, colours, and every character's modules (seven elements, narrow 1 / wide 2, from the standard's element table) at the position given by the recursive offset function, separated by narrow spaces. [T] Codabar patterns, 2 of 5 tables against the standards; [P] image type.",
	},
	{
		ID: "C09",
		Funcs: []string{
			"barcode.scale2DCode$1", "barcode.scale1DCode$1", "barcode.newScaledBC", "barcode.scale2DCode", "barcode.scale1DCode",
			"barcode.ScaleWithFill", "barcode.Scale", "barcode.(*scaledBarcode).At", "barcode.(*scaledBarcode).Bounds",
			"barcode.(*scaledBarcode).Content", "barcode.(*scaledBarcode).Metadata", "barcode.(*scaledBarcode).ColorModel",
			"barcode.(*intCSscaledBC).CheckSum",
			"barcode.lemmaDivMul", "barcode.lemmaBlock2D", "barcode.lemmaFill2D", "barcode.lemmaBlock1D", "barcode.lemmaFill1D",
		},
		Harness: []Harness{
			{Pkg: ".", File: "c09_scale_test.go", Run: "^TestVerifC09$", Bound: "validation of assumption FL and of the interface contract on concrete fake barcodes: sources 1..40 modules, targets up to 5x incl. all residues, re-scaling of scaled results"},
		},
		Assumptions: []string{
			"FL: float64 arithmetic in scale*DCode is modelled by exact rationals and int(min(a/b, c/d)) == min(a div b, c div d); holds for operands < 2^52 (conversions exact, quotient error < 1/(2b)); the contracts restrict widths/heights to <= 2^30; validated boundedly by the harness",
			"interface contract: Bounds/At/Metadata/Content/ColorModel/CheckSum/ColorScheme of the source barcode are pure total functions (true of every library type; assumed for caller-supplied types)",
			"source bounds satisfy Min < Max within +-2^30 (every library barcode has at least one module)",
		},
		Note: "Scale/ScaleWithFill/scale1DCode/scale2DCode, the two pixel closures, newScaledBC and every scaledBarcode accessor are verified against contracts; ghost lemma functions (zz_lemmas_verif.go, build tag verif) compose them into the statement: block grid of f x f copies, f maximal, centred within one pixel, fill elsewhere, pass-through accessors.",
	},
	{
		ID:     "C10",
		Level:  "other",
		Unwind: []*Unwinder{unwEAN, unwPDF, unwAztec, unwDM, unwSelect, unwQRBlocks},
		Funcs: append(append([]string{}, bitlistFuncs...), "utils.(*GaloisField).Multiply", "utils.(*GaloisField).Divide", "utils.(*GaloisField).Invers",
			"twooffive.EncodeWithColor", "twooffive.Encode", "twooffive.AddCheckSum", "codabar.EncodeWithColor", "codabar.Encode", "code39.EncodeWithColor", "code39.Encode", "datamatrix.addPadding", "datamatrix.encodeText",
			"qr.findSmallestVersionInfo", "qr.addPaddingAndTerminator", "qr.encodeNumeric", "qr.encodeUnicode", "qr.stringToAlphaIdx$1", "qr.encodeAlphaNumeric", "qr.encodeAuto", "qr.(Encoding).getEncoder", "code93.getChecksum"),
		Harness: []Harness{
			{Pkg: "qr", File: "c01_qr_test.go", Run: "^TestVerifC10QR$", Bound: boundedNote + "no panic, result xor error, accept iff expressible in the mode and within version-40 capacity"},
			{Pkg: "datamatrix", File: "c02_dm_test.go", Run: "^TestVerifC10DM$", Bound: boundedNote + "accept iff <= 1558 ASCII-encodation codewords"},
			{Pkg: "aztec", File: "c03_aztec_test.go", Run: "^TestVerifC10Aztec$", Bound: boundedNote + "illegal layers refused, fitting content accepted, percentages <= 1000"},
			{Pkg: "pdf417", File: "c04_pdf_test.go", Run: "^TestVerifC10PDF$", Bound: boundedNote + "levels >= 9 refused, capacity limits"},
			{Pkg: "code128", File: "c05_code128_test.go", Run: "^TestVerifC10Code128$", Bound: boundedNote + "1..80 runes of ASCII + FNC accepted, everything else refused"},
			{Pkg: "code39", File: "c07_code39_test.go", Run: "^TestVerifC10Code39$", Bound: boundedNote},
			{Pkg: "code93", File: "c07_code93_test.go", Run: "^TestVerifC10Code93$", Bound: boundedNote},
			{Pkg: "codabar", File: "c08_codabar_test.go", Run: "^TestVerifC10Codabar$", Bound: boundedNote},
			{Pkg: "twooffive", File: "c08_twooffive_test.go", Run: "^TestVerifC10TwoOfFive$", Bound: boundedNote},
		},
		Assumptions: []string{asmBitlist, asmStages, asmUTF8, "the zero-annotation no-panic sweep (bounds, nil, division, slice, conversion, explicit panic obligations) is discharged for the functions executed by the unwinding families (EAN completely; PDF417, Aztec drawing, DataMatrix render/ECC per configuration) and for the utils functions under contract; the string-processing front ends of the other symbologies are covered by the bounded stand-ins only"},
		Note:        "Safety obligations (index, slice, nil, division by zero, conversion, explicit panic, overflow) generated for every instruction executed by the [C] families and the [P] functions are all discharged; exact acceptance is proved for EAN, 2 of 5, Code 39 and Codabar (all inputs; Codabar under the assumed regexp contract), PDF417 (by codeword count), the QR/DataMatrix/Aztec size selections; bounded elsewhere.",
	},
	{
		ID:     "C11",
		Funcs:  append(append([]string{"twooffive.EncodeWithColor", "twooffive.Encode", "codabar.EncodeWithColor", "codabar.Encode", "code39.EncodeWithColor", "code39.Encode"}, base1D...), getters2D...),
		Unwind: []*Unwinder{unwEAN, unwAztec, unwDM, unwPDF, unwQR},
		// of the aztec family only the obligations about the result object's accessors belong here
		// (the empty-payload defect F6 shows up in the mode message: C03/C10)
		Only: map[string]string{"aztec": `/(dynamic-type|size|color|content-snapshot|modules|layout|result-xor-error[#0-9]*)$`},
		Harness: []Harness{
			{Pkg: "codabar", File: "c11_render_test.go", Run: "^TestVerifC11$", Bound: boundedNote + "every Encode/EncodeWithColor entry point x 5 colour schemes: bounds, pixel colours by value, ColorModel/ColorScheme, pattern independent of the scheme, Metadata, Content"},
		},
		Assumptions: []string{asmBitlist, "the 2-D getters are verified against the fields (size, colour scheme, bit model, content) that the unwinding families establish on the result objects"},
		Note:        "[P] the 1-D image types: constructors store exactly kind/content/bars/scheme (black on white for the plain constructors), getters return them, At(x,y) is Foreground iff bit x. [P] the getters of the four 2-D image types (Bounds from the stored size, At(x,y) = Foreground iff the module bit, ColorModel/ColorScheme/Metadata/Content from the stored fields; PDF417 rows moduleHeight pixels high). [C] the unwinding families show that the result objects of EAN, PDF417, Aztec, DataMatrix and QR carry the caller's colour scheme, the prescribed size and the scheme-independent module pattern.",
	},
	{
		ID:     "C12",
		Funcs:  []string{"pdf417.(securitylevel).Compute", "aztec.stuffBits", "aztec.generateCheckWords"},
		Unwind: []*Unwinder{unwPDF, unwDM, unwQR, unwQRBlocks, unwSelect, unwAztec},
		Only:   map[string]string{"aztec": `/(ecc-honoured|fits|words|totalbits|wordsize|stuff-wordsize)$|/pre/aztec\.generateCheckWords`},
		Tables: []string{"qr/versionInfos", "qr/formatInfos", "dm/codeSizes", "pdf417/tables"},
		Harness: []Harness{
			{Pkg: "qr", File: "c01_qr_test.go", Run: "^TestVerifC12QR$", Bound: boundedNote + "decoded level == requested, every block has the ISO number of check words"},
			{Pkg: "aztec", File: "c03_aztec_test.go", Run: "^TestVerifC12Aztec$", Bound: boundedNote + "check bits x 100 >= pct x data bits on decoded symbols"},
			{Pkg: "pdf417", File: "c04_pdf_test.go", Run: "^TestVerifC12PDF$", Bound: boundedNote + "decoded level == requested"},
			{Pkg: "datamatrix", File: "c02_dm_test.go", Run: "^TestVerifC12DM$", Bound: boundedNote},
		},
		Assumptions: []string{asmRS, "Aztec: stuffBits is used through its contract: the length bounds are proved [P]; that its result length is a function of (bits, wordSize) (spec function azStuffLen) is an assumed postcondition (determinism); payloads whose high-level encoding exceeds 2^29 bits are outside the verified domain; the check-word count is what generateCheckWords is asked for (its body: C17 / bounded)"},
		Note:        "QR: [C] drawFormatInfo writes the BCH word of the row's level ([T] formatInfos) into both copies, [T] block table = ISO check-word counts. PDF417: [C] indicators carry 3*level + (rows-1) mod 3 per ISO, Compute is asked for and the symbol holds 2^(level+1) check words, which [P] are the complemented remainder of the ISO division circuit over the [T]-checked generator. DataMatrix: [C]+[T] ECC 200 counts per size. Aztec: [C] for each of the 36 explicit sizes and for every path of the automatic selection, the accepted size holds the stuffed data plus eccBits = bits*pct/100 + 11 check bits within its usable bits (ecc-honoured / fits), for all payloads and every non-negative int percentage.",
	},
	{
		ID:     "C13",
		Funcs:  []string{"datamatrix.encodeText", "aztec.stuffBits"},
		Unwind: []*Unwinder{unwPDF, unwSelect, unwAztec},
		Only:   map[string]string{"aztec": `/(smallest|fits|too-large#[0-9]+)$`},
		Tables: []string{"qr/versionInfos", "dm/codeSizes", "aztec/tables"},
		Harness: []Harness{
			{Pkg: "qr", File: "c01_qr_test.go", Run: "^TestVerifC13QR$", Bound: boundedNote + "chosen version == smallest fitting version at every capacity boundary"},
			{Pkg: "datamatrix", File: "c02_dm_test.go", Run: "^TestVerifC13DM$", Bound: boundedNote + "smallest size at every capacity boundary"},
			{Pkg: "aztec", File: "c03_aztec_test.go", Run: "^TestVerifC13Aztec$", Bound: boundedNote + "every smaller explicit size is refused"},
			{Pkg: "pdf417", File: "c04_pdf_test.go", Run: "^TestVerifC13PDF$", Bound: boundedNote},
		},
		Assumptions: []string{"Aztec: the stuffed length per word size is the spec function azStuffLen; the bounds of stuffBits (multiple of the word size, never shorter than the input, at most ceil(n/(w-1)) words) are proved [P], that its length is a function of (bits, wordSize) is an assumed postcondition (determinism)"},
		Note:        "PDF417: [C] for every unwound (n, level): padding < one row and 2..30 rows/columns. QR/DataMatrix: [T] tables ordered with strictly increasing capacity and [C select] the search loops of qr.findSmallestVersionInfo (symbolic bit count and level) and datamatrix.EncodeWithColor (symbolic codeword count) return the FIRST table row that fits and an error iff none does, for all inputs; first fit + ordering = smallest. Aztec: [C] on every path of the automatic selection (33 candidates unwound, all payloads and percentages) the chosen symbol fits and NO symbol of ISO 24778 with a smaller side length fits (all 36 sizes incl. full-range 1..3 layers, capacities from the independent aztecspec tables); the too-large error is returned only if none of the 36 fits.",
	},
	{
		ID:     "C14",
		Funcs:  append([]string{"barcode.(*intCSscaledBC).CheckSum", "barcode.newScaledBC", "code39.getChecksum", "code39.EncodeWithColor", "code39.Encode"}, base1D...),
		Unwind: []*Unwinder{unwEAN},
		Tables: []string{"code128/tables", "code39/tables", "code93/tables"},
		Harness: []Harness{
			{Pkg: "code128", File: "c05_code128_test.go", Run: "^TestVerifC14Code128$", Bound: boundedNote + "CheckSum() == mod-103 value == drawn check symbol, unchanged by Scale"},
			{Pkg: "code39", File: "c07_code39_test.go", Run: "^TestVerifC14Code39$", Bound: boundedNote + "CheckSum() == mod-43 value in all four configurations, unchanged by Scale"},
			{Pkg: "ean", File: "c06_ean_test.go", Run: "^TestVerifC14EAN$", Bound: "cross-check of the complete EAN proof"},
		},
		Assumptions: []string{"Code 128 checksum computation is not under contract yet: bounded stand-in"},
		Note:        "EAN: [C] CheckSum() equals the GS1 check digit on every success path of every length (complete). Storage and forwarding: [P] base1DCodeIntCS.CheckSum returns the stored value, newScaledBC wraps iff the source has a checksum and intCSscaledBC.CheckSum forwards it. Code 39 [P]: CheckSum() is the modulo-43 value of the drawn text in every mode (the same text the check character is computed from). Code 128 value: bounded.",
	},
	{
		ID:     "C15",
		Level:  "other",
		Unwind: []*Unwinder{unwDM, unwAztec},
		Only:   map[string]string{"aztec": `/content-snapshot$|/frame`},
		Tables: []string{"code93/tables"},
		Funcs:  []string{"utils.NewBitList", "utils.(*BitList).GetBytes"},
		Harness: []Harness{
			{Pkg: "ean", File: "c15_pure_test.go", Run: "^TestVerifC15$", Bound: boundedNote + "same arguments encoded repeatedly between other encodes of varying RS degree and in fresh processes give identical pixels and accessors; inputs unmodified; result is a snapshot"},
		},
		Assumptions: []string{"frame conditions (modifies nothing pre-existing) are discharged only for the functions under contract and the unwound families; cache neutrality of getPolynomial is bounded; map-order independence of code93.getChecksum rests on the table lemma that encodeTable values are pairwise distinct [T]"},
		Note:        "frame obligations: every store executed by the functions under contract / unwound families targets an object allocated during the call or a location of the modifies clause (e.g. calcECC does not write the caller's slice [C]); aztec: the stored payload is a fresh copy of the input for every one of the 36 sizes [C content-snapshot]; determinism across histories and processes: bounded.",
	},
	{
		ID:     "C17",
		Funcs:  gfFuncs,
		Tables: []string{"gf/fields"},
		Harness: []Harness{
			{Pkg: "utils", File: "c17_gf_test.go", Run: "^TestVerifC17$", Bound: boundedNote + "ring identities (dividend == q*d + r; Encode makes data||check vanish at alpha^(Base+i)): exhaustive for small degrees over GF(16), seeded random polynomials / data / request orders over all 7 fields, against independent carry-less arithmetic"},
		},
		Assumptions: []string{"polynomial division identity and Reed-Solomon syndrome-vanishing are NOT proved (needs ring-theory induction over convolution sums); bounded stand-in only"},
		Note:        "Field tables of the 7 constructed fields are checked exhaustively against carry-less arithmetic modulo the standards' primitive polynomials [T]; commutativity, associativity, inverses and division for ALL operands follow from the table lemmas as discharged obligations (ghost lemma functions, split over the five field sizes).",
	},
	{
		ID:    "C18",
		Funcs: bitlistFuncs,
		BV:    true,
		Harness: []Harness{
			{Pkg: "utils", File: "c18_bitlist_test.go", Run: "^TestVerifC18$", Bound: "cross-check of the proofs on the running code: IterateBytes (real goroutine + channel) compared with GetBytes and the bool-sequence model for every length 0..4200 and seeded random operation sequences across grow/word/byte boundaries"},
		},
		Assumptions: []string{
			"bit operators on symbolic operands are uninterpreted functions constrained by axioms; every axiom is re-proved in QF_BV at the operand width on each run (obligations axiom/*)",
			"IterateBytes: proof-mode channel model (a channel is the sequence of values sent + a closed flag; a receiver sees that sequence in order: Go channel semantics, trusted); the goroutine is verified against its own contract, its precondition is checked at the go statement; the caller must not modify the list while the goroutine runs",
		},
		Note: "Every BitList method is verified against the ghost bool-sequence model `model` with representation invariant inv(bl); the all-operation-sequences quantifier is the invariant (each method preserves inv and transforms model as the sequence semantics says). IterateBytes: the goroutine it starts sends exactly (count+7)/8 bytes whose bits are the model, most significant bit first, zero padded, then closes the channel (loop invariant over the real loop; send on closed / double close unreachable).",
	},
}

func findProp(id string) *PropDef {
	for _, p := range props {
		if p.ID == id {
			return p
		}
	}
	return nil
}
