package main

// The registry: which functions, unwinding families, table lemmas and bounded stand-ins decide
// each property (DESIGN.md §4).

var props = []*PropDef{
	{
		ID: "C18",
		Funcs: []string{
			"utils.NewBitList", "utils.(*BitList).Len", "utils.(*BitList).grow", "utils.(*BitList).AddBit",
			"utils.(*BitList).SetBit", "utils.(*BitList).GetBit", "utils.(*BitList).AddByte", "utils.(*BitList).AddBits",
			"utils.(*BitList).GetBytes",
		},
		BV: true,
		Harness: []Harness{
			{Pkg: "utils", File: "c18_bitlist_test.go", Run: "TestVerifC18", Bound: "IterateBytes (goroutine+channel, outside the proof subset) compared with GetBytes and the bool-sequence model for every length 0..4200 and seeded random operation sequences across grow/word/byte boundaries"},
		},
		Assumptions: []string{
			"bit operators on symbolic operands are uninterpreted functions constrained by axioms; every axiom is re-proved in QF_BV at the operand width on each run (obligations axiom/*)",
			"IterateBytes (byte channel view) is only covered by the bounded stand-in, not by a discharged obligation",
		},
		Note: "Every BitList method is verified against the ghost bool-sequence model `model` with representation invariant inv(bl); the all-operation-sequences quantifier is the invariant (each method preserves inv and transforms model as the sequence semantics says).",
	},
}

func findProp(id string) *PropDef {
	for _, p := range props {
		if p.ID == id {
			return p
		}
	}
	return nil
}
