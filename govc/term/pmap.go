package term

import "sort"

// PMap is a persistent map int64 -> *Term (32-ary trie over the zig-zag encoded key,
// path copying). The nil *PMap is the empty map.
type PMap struct {
	root *pnode
	n    int
}

type pnode struct {
	kids [32]*pnode
	leaf map[uint64]*Term // only at the bottom level (collision-free: full key)
}

const pmapLevels = 4 // 20 bits of fan-out, then a small leaf map

func zz(k int64) uint64 { return uint64((k << 1) ^ (k >> 63)) }

func (m *PMap) Len() int {
	if m == nil {
		return 0
	}
	return m.n
}

func (m *PMap) Get(k int64) *Term {
	if m == nil || m.root == nil {
		return nil
	}
	u := zz(k)
	n := m.root
	for l := 0; l < pmapLevels; l++ {
		n = n.kids[(u>>(5*uint(l)))&31]
		if n == nil {
			return nil
		}
	}
	return n.leaf[u]
}

func (m *PMap) Set(k int64, v *Term) *PMap {
	u := zz(k)
	var root *pnode
	cnt := 0
	if m != nil {
		root = m.root
		cnt = m.n
	}
	added := false
	var rec func(n *pnode, l int) *pnode
	rec = func(n *pnode, l int) *pnode {
		nn := &pnode{}
		if n != nil {
			*nn = *n
		}
		if l == pmapLevels {
			nl := make(map[uint64]*Term, len(nn.leaf)+1)
			for a, b := range nn.leaf {
				nl[a] = b
			}
			if _, ok := nl[u]; !ok {
				added = true
			}
			nl[u] = v
			nn.leaf = nl
			return nn
		}
		i := (u >> (5 * uint(l))) & 31
		nn.kids[i] = rec(nn.kids[i], l+1)
		return nn
	}
	nr := rec(root, 0)
	if added {
		cnt++
	}
	return &PMap{root: nr, n: cnt}
}

// Each visits all entries (unordered) until f returns false.
func (m *PMap) Each(f func(k int64, v *Term) bool) {
	if m == nil || m.root == nil {
		return
	}
	var rec func(n *pnode, l int) bool
	rec = func(n *pnode, l int) bool {
		if n == nil {
			return true
		}
		if l == pmapLevels {
			for u, v := range n.leaf {
				k := int64(u>>1) ^ -int64(u&1)
				if !f(k, v) {
					return false
				}
			}
			return true
		}
		for _, c := range n.kids {
			if !rec(c, l+1) {
				return false
			}
		}
		return true
	}
	rec(m.root, 0)
}

// Keys returns all keys in increasing order.
func (m *PMap) Keys() []int64 {
	var ks []int64
	m.Each(func(k int64, _ *Term) bool { ks = append(ks, k); return true })
	sortInt64(ks)
	return ks
}

func sortInt64(a []int64) {
	sort.Slice(a, func(i, j int) bool { return a[i] < a[j] })
}

// DiffKeys returns the keys on which a and b differ (present in only one, or with different
// values), exploiting structural sharing; ok=false if there are more than limit such keys.
func DiffKeys(a, b *PMap, limit int) (keys []int64, ok bool) {
	var ra, rb *pnode
	if a != nil {
		ra = a.root
	}
	if b != nil {
		rb = b.root
	}
	ok = true
	var rec func(x, y *pnode, l int)
	rec = func(x, y *pnode, l int) {
		if x == y || !ok {
			return
		}
		if l == pmapLevels {
			seen := map[uint64]bool{}
			if x != nil {
				for u, v := range x.leaf {
					seen[u] = true
					var w *Term
					if y != nil {
						w = y.leaf[u]
					}
					if w != v {
						keys = append(keys, int64(u>>1)^-int64(u&1))
					}
				}
			}
			if y != nil {
				for u := range y.leaf {
					if !seen[u] {
						keys = append(keys, int64(u>>1)^-int64(u&1))
					}
				}
			}
			if len(keys) > limit {
				ok = false
			}
			return
		}
		for i := 0; i < 32; i++ {
			var cx, cy *pnode
			if x != nil {
				cx = x.kids[i]
			}
			if y != nil {
				cy = y.kids[i]
			}
			rec(cx, cy, l+1)
		}
	}
	rec(ra, rb, 0)
	return keys, ok
}
