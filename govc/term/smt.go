package term

import (
	"fmt"
	"sort"
	"strings"
)

// String gives a compact human-readable rendering (not SMT-LIB exact for big DAGs).
func (t *Term) String() string {
	var b strings.Builder
	p := &printer{b: &b, names: map[*Term]string{}, depthLimit: 12}
	p.print(t, 0)
	return b.String()
}

type printer struct {
	b          *strings.Builder
	names      map[*Term]string
	depthLimit int
}

func smtInt(v string) string {
	if strings.HasPrefix(v, "-") {
		return "(- " + v[1:] + ")"
	}
	return v
}

func smtName(n string) string {
	return "|" + n + "|"
}

func (p *printer) print(t *Term, depth int) {
	if n, ok := p.names[t]; ok {
		p.b.WriteString(n)
		return
	}
	if p.depthLimit > 0 && depth > p.depthLimit {
		fmt.Fprintf(p.b, "<#%d>", t.ID)
		return
	}
	w := func(s string) { p.b.WriteString(s) }
	args := func(op string) {
		w("(" + op)
		for _, a := range t.Args {
			w(" ")
			p.print(a, depth+1)
		}
		w(")")
	}
	switch t.Op {
	case OConst:
		if t.Sort == Bool {
			if t.Val.Sign() != 0 {
				w("true")
			} else {
				w("false")
			}
		} else {
			w(smtInt(t.Val.String()))
		}
	case OVar, OBound:
		w(smtName(t.Name))
	case OAdd:
		args("+")
	case OMul:
		if AbstractNL {
			// products of two or more non-constant factors as an uninterpreted function (an
			// over-approximation: unsat with it implies unsat with real multiplication); factors
			// are ordered so that commutativity is syntactic
			var cs, fs []*Term
			for _, a := range t.Args {
				if a.Op == OConst {
					cs = append(cs, a)
				} else {
					fs = append(fs, a)
				}
			}
			if len(fs) >= 2 {
				sort.Slice(fs, func(i, j int) bool { return fs[i].ID < fs[j].ID })
				if len(cs) > 0 {
					w("(*")
					for _, c := range cs {
						w(" ")
						p.print(c, depth+1)
					}
					w(" ")
				}
				for i := 0; i < len(fs)-1; i++ {
					w("(nlmul ")
					p.print(fs[i], depth+1)
					w(" ")
				}
				p.print(fs[len(fs)-1], depth+1)
				for i := 0; i < len(fs)-1; i++ {
					w(")")
				}
				if len(cs) > 0 {
					w(")")
				}
				break
			}
		}
		args("*")
	case ODiv:
		args("gdiv")
	case OMod:
		args("gmod")
	case OEDiv:
		args("div")
	case OEMod:
		args("mod")
	case OEq:
		args("=")
	case OLt:
		args("<")
	case OLe:
		args("<=")
	case OAnd:
		args("and")
	case OOr:
		args("or")
	case ONot:
		args("not")
	case OIte:
		args("ite")
	case OSelect:
		args("select")
	case OStore:
		args("store")
	case OConstArr:
		w("((as const " + t.Sort.s + ") ")
		p.print(t.Args[0], depth+1)
		w(")")
	case OArrMap:
		ks := t.M.Keys()
		for range ks {
			w("(store ")
		}
		p.print(t.Args[0], depth+1)
		for _, k := range ks {
			w(" " + smtInt(fmt.Sprint(k)) + " ")
			p.print(t.M.Get(k), depth+1)
			w(")")
		}
	case OApp:
		if len(t.Args) == 0 {
			w(smtName(t.Name))
		} else {
			args(smtName(t.Name))
		}
	case OForall, OExists:
		if t.Op == OForall {
			w("(forall (")
		} else {
			w("(exists (")
		}
		for _, v := range t.Bnd {
			w("(" + smtName(v.Name) + " " + v.Sort.s + ")")
		}
		w(") ")
		if len(t.Pat) > 0 {
			w("(! ")
		}
		p.print(t.Args[0], depth+1)
		if len(t.Pat) > 0 {
			for _, pt := range t.Pat {
				w(" :pattern (")
				for i, x := range pt {
					if i > 0 {
						w(" ")
					}
					p.print(x, depth+1)
				}
				w(")")
			}
			w(")")
		}
		w(")")
	default:
		panic("print: unknown op")
	}
}

const Prelude = `(set-logic ALL)
(define-fun gdiv ((a Int) (b Int)) Int
  (ite (>= a 0) (ite (> b 0) (div a b) (- (div a (- b))))
                (ite (> b 0) (- (div (- a) b)) (div (- a) (- b)))))
(define-fun gmod ((a Int) (b Int)) Int (- a (* b (gdiv a b))))
`

// Script renders an SMT-LIB2 query: assumptions ∧ ¬goal (if goal != nil) or just assumptions.
// Shared closed subterms are hoisted into define-fun's so the text is linear in the DAG size.
// AbstractNL switches the printer to the uninterpreted-product abstraction (see OMul).
var AbstractNL bool

func Script(assumptions []*Term, goal *Term, extraAxioms []string, wantModel bool) string {
	var roots []*Term
	roots = append(roots, assumptions...)
	if goal != nil {
		roots = append(roots, goal)
	}
	// count references
	refs := map[*Term]int{}
	var order []*Term
	var visit func(t *Term)
	visit = func(t *Term) {
		refs[t]++
		if refs[t] > 1 {
			return
		}
		for _, a := range t.Args {
			visit(a)
		}
		if t.Op == OArrMap {
			for _, k := range t.M.Keys() {
				visit(t.M.Get(k))
			}
		}
		for _, pt := range t.Pat {
			for _, x := range pt {
				visit(x)
			}
		}
		order = append(order, t)
	}
	for _, r := range roots {
		visit(r)
	}
	var b strings.Builder
	b.WriteString(Prelude)
	if AbstractNL {
		b.WriteString("(declare-fun nlmul (Int Int) Int)\n")
	}
	// declarations
	var vars []*Term
	funs := map[string]bool{}
	for _, t := range order {
		if t.Op == OVar {
			vars = append(vars, t)
		}
		if t.Op == OApp {
			funs[t.Name] = true
		}
	}
	sort.Slice(vars, func(i, j int) bool { return vars[i].Name < vars[j].Name })
	for _, v := range vars {
		fmt.Fprintf(&b, "(declare-fun %s () %s)\n", smtName(v.Name), v.Sort.s)
	}
	var fnames []string
	for f := range funs {
		fnames = append(fnames, f)
	}
	sort.Strings(fnames)
	for _, f := range fnames {
		sig := FunDecl[f]
		if sig == nil {
			panic("undeclared function " + f)
		}
		if sig.Def != "" {
			fmt.Fprintf(&b, "(define-fun %s (", smtName(f))
			for i, a := range sig.Args {
				fmt.Fprintf(&b, "(x%d %s)", i, a.s)
			}
			fmt.Fprintf(&b, ") %s %s)\n", sig.Ret.s, sig.Def)
			continue
		}
		fmt.Fprintf(&b, "(declare-fun %s (", smtName(f))
		for i, a := range sig.Args {
			if i > 0 {
				b.WriteByte(' ')
			}
			b.WriteString(a.s)
		}
		fmt.Fprintf(&b, ") %s)\n", sig.Ret.s)
	}
	for _, ax := range extraAxioms {
		b.WriteString(ax)
		b.WriteByte('\n')
	}
	p := &printer{b: &b, names: map[*Term]string{}}
	for _, t := range order {
		if refs[t] > 1 && len(t.Args) > 0 && !t.HasBound() || (t.Op == OArrMap && !t.HasBound()) {
			name := fmt.Sprintf("t!%d", t.ID)
			fmt.Fprintf(&b, "(define-fun %s () %s ", name, t.Sort.s)
			p.print(t, 0)
			b.WriteString(")\n")
			p.names[t] = name
		}
	}
	for _, a := range assumptions {
		b.WriteString("(assert ")
		p.print(a, 0)
		b.WriteString(")\n")
	}
	if goal != nil {
		b.WriteString("(assert (not ")
		p.print(goal, 0)
		b.WriteString("))\n")
	}
	b.WriteString("(check-sat)\n")
	if wantModel {
		b.WriteString("(get-model)\n")
	}
	return b.String()
}

// Size returns the number of distinct subterms reachable from the roots.
func Size(roots ...*Term) int {
	seen := map[*Term]bool{}
	var visit func(t *Term)
	visit = func(t *Term) {
		if seen[t] {
			return
		}
		seen[t] = true
		for _, a := range t.Args {
			visit(a)
		}
		if t.Op == OArrMap {
			t.M.Each(func(_ int64, v *Term) bool { visit(v); return true })
		}
	}
	for _, r := range roots {
		visit(r)
	}
	return len(seen)
}
