// Package term implements hash-consed SMT terms with eager simplification.
// With all-constant operands every constructor folds to a constant, so the
// symbolic executor doubles as a concrete interpreter.
package term

import (
	"fmt"
	"math/big"
	"sort"
	"strings"
)

type SortKind uint8

const (
	KInt SortKind = iota
	KBool
	KArr
)

type Sort struct {
	K         SortKind
	Idx, Elem *Sort
	s         string
}

var (
	Int   = &Sort{K: KInt, s: "Int"}
	Bool  = &Sort{K: KBool, s: "Bool"}
	arrSo = map[string]*Sort{}
)

func Arr(idx, elem *Sort) *Sort {
	k := "(Array " + idx.s + " " + elem.s + ")"
	if s, ok := arrSo[k]; ok {
		return s
	}
	s := &Sort{K: KArr, Idx: idx, Elem: elem, s: k}
	arrSo[k] = s
	return s
}
func (s *Sort) String() string { return s.s }

type Op uint8

const (
	OConst Op = iota // Int or Bool constant
	OVar             // free constant (declared)
	OBound           // bound variable
	OAdd             // n-ary, linear normal form
	OMul             // n-ary (const coefficient first if any)
	ODiv             // Go truncated division
	OMod             // Go truncated remainder
	OEDiv            // SMT div (floor for positive divisor)
	OEMod            // SMT mod
	OEq
	OLt
	OLe
	OAnd
	OOr
	ONot
	OIte
	OSelect
	OStore
	OConstArr // array with all elements = Args[0]
	OArrMap   // Args[0] base array, M concrete-index updates
	OApp      // uninterpreted / defined function application, Name
	OForall
	OExists
)

type Term struct {
	Op   Op
	Sort *Sort
	Args []*Term
	Val  *big.Int // OConst (Bool: 0/1)
	Name string   // OVar, OBound, OApp
	M    *PMap    // OArrMap
	Bnd  []*Term  // OForall/OExists bound vars
	Pat  [][]*Term
	ID   uint64
	fv   int8 // -1 unknown, 0 no bound vars, 1 has bound vars
}

var (
	table   = map[string]*Term{}
	nextID  uint64
	True    *Term
	False   *Term
	smallI  [1200]*Term
	Decls   = map[string]*Term{} // OVar by name
	FunDecl = map[string]*FunSig{}
)

type FunSig struct {
	Name string
	Args []*Sort
	Ret  *Sort
	Def  string // optional SMT body for define-fun (uses x0,x1,.. as params)
}

func init() {
	False = mk(&Term{Op: OConst, Sort: Bool, Val: big.NewInt(0)})
	True = mk(&Term{Op: OConst, Sort: Bool, Val: big.NewInt(1)})
}

func key(t *Term) string {
	var b strings.Builder
	b.WriteByte(byte(t.Op))
	b.WriteString(t.Sort.s)
	b.WriteByte('|')
	b.WriteString(t.Name)
	if t.Val != nil {
		b.WriteByte('#')
		b.WriteString(t.Val.String())
	}
	for _, a := range t.Args {
		fmt.Fprintf(&b, ",%d", a.ID)
	}
	if len(t.Bnd) > 0 {
		b.WriteByte(';')
		for _, a := range t.Bnd {
			fmt.Fprintf(&b, ",%d", a.ID)
		}
	}
	return b.String()
}

func mk(t *Term) *Term {
	if t.Op == OArrMap {
		nextID++
		t.ID = nextID
		t.fv = -1
		return t
	}
	k := key(t)
	if o, ok := table[k]; ok {
		return o
	}
	nextID++
	t.ID = nextID
	t.fv = -1
	table[k] = t
	return t
}

// NumTerms reports the number of distinct terms built so far.
func NumTerms() uint64 { return nextID }

func I(v int64) *Term {
	if v >= -100 && v < 1100 {
		if t := smallI[v+100]; t != nil {
			return t
		}
		t := mk(&Term{Op: OConst, Sort: Int, Val: big.NewInt(v)})
		smallI[v+100] = t
		return t
	}
	return mk(&Term{Op: OConst, Sort: Int, Val: big.NewInt(v)})
}
func Big(v *big.Int) *Term {
	if v.IsInt64() {
		return I(v.Int64())
	}
	return mk(&Term{Op: OConst, Sort: Int, Val: new(big.Int).Set(v)})
}
func B(v bool) *Term {
	if v {
		return True
	}
	return False
}

func (t *Term) IsConst() bool { return t.Op == OConst }
func (t *Term) IsTrue() bool  { return t == True }
func (t *Term) IsFalse() bool { return t == False }
func (t *Term) Int64() (int64, bool) {
	if t.Op == OConst && t.Sort == Int && t.Val.IsInt64() {
		return t.Val.Int64(), true
	}
	return 0, false
}

var freshCtr = map[string]int{}

// Var returns the (unique) free constant with that name.
func Var(name string, s *Sort) *Term {
	t := mk(&Term{Op: OVar, Sort: s, Name: name})
	Decls[name] = t
	return t
}

// Fresh returns a new free constant whose name starts with prefix.
func Fresh(prefix string, s *Sort) *Term {
	prefix = sanitize(prefix)
	for {
		freshCtr[prefix]++
		name := fmt.Sprintf("%s!%d", prefix, freshCtr[prefix])
		if _, ok := Decls[name]; !ok {
			return Var(name, s)
		}
	}
}

func sanitize(s string) string {
	var b strings.Builder
	for _, r := range s {
		if r >= 'a' && r <= 'z' || r >= 'A' && r <= 'Z' || r >= '0' && r <= '9' || r == '_' || r == '.' || r == '$' {
			b.WriteRune(r)
		} else {
			b.WriteByte('_')
		}
	}
	return b.String()
}

var bndCtr int

func Bound(name string, s *Sort) *Term {
	bndCtr++
	return mk(&Term{Op: OBound, Sort: s, Name: fmt.Sprintf("%s?%d", sanitize(name), bndCtr)})
}

// ---------------------------------------------------------------- arithmetic

type lin struct {
	c  *big.Int
	ts map[*Term]*big.Int
}

func newLin() *lin { return &lin{c: new(big.Int), ts: map[*Term]*big.Int{}} }
func (l *lin) addTerm(t *Term, k *big.Int) {
	switch {
	case t.Op == OConst:
		l.c.Add(l.c, new(big.Int).Mul(t.Val, k))
	case t.Op == OAdd:
		for _, a := range t.Args {
			l.addTerm(a, k)
		}
	case t.Op == OMul && len(t.Args) == 2 && t.Args[0].Op == OConst:
		l.addTerm(t.Args[1], new(big.Int).Mul(k, t.Args[0].Val))
	default:
		if o, ok := l.ts[t]; ok {
			o.Add(o, k)
		} else {
			l.ts[t] = new(big.Int).Set(k)
		}
	}
}
func (l *lin) build() *Term {
	var ts []*Term
	for t, k := range l.ts {
		if k.Sign() == 0 {
			continue
		}
		if k.Cmp(one) == 0 {
			ts = append(ts, t)
		} else {
			ts = append(ts, mk(&Term{Op: OMul, Sort: Int, Args: []*Term{Big(k), t}}))
		}
	}
	if len(ts) == 0 {
		return Big(l.c)
	}
	sort.Slice(ts, func(i, j int) bool { return ts[i].ID < ts[j].ID })
	if l.c.Sign() != 0 {
		ts = append([]*Term{Big(l.c)}, ts...)
	}
	if len(ts) == 1 {
		return ts[0]
	}
	return mk(&Term{Op: OAdd, Sort: Int, Args: ts})
}

var one = big.NewInt(1)
var mone = big.NewInt(-1)

func Add(ts ...*Term) *Term {
	if len(ts) == 2 && ts[0].Op == OConst && ts[1].Op == OConst {
		return Big(new(big.Int).Add(ts[0].Val, ts[1].Val))
	}
	l := newLin()
	for _, t := range ts {
		l.addTerm(t, one)
	}
	return l.build()
}
func Sub(a, b *Term) *Term {
	if a.Op == OConst && b.Op == OConst {
		return Big(new(big.Int).Sub(a.Val, b.Val))
	}
	l := newLin()
	l.addTerm(a, one)
	l.addTerm(b, mone)
	return l.build()
}
func Neg(a *Term) *Term { return Sub(I(0), a) }

func Mul(a, b *Term) *Term {
	if a.Op == OConst && b.Op == OConst {
		return Big(new(big.Int).Mul(a.Val, b.Val))
	}
	if b.Op == OConst {
		a, b = b, a
	}
	if a.Op == OConst {
		if a.Val.Sign() == 0 {
			return I(0)
		}
		l := newLin()
		l.addTerm(b, a.Val)
		return l.build()
	}
	// nonlinear: distribute over constant-coefficient factors
	if a.Op == OMul && a.Args[0].Op == OConst {
		return Mul(a.Args[0], Mul(a.Args[1], b))
	}
	if b.Op == OMul && b.Args[0].Op == OConst {
		return Mul(b.Args[0], Mul(a, b.Args[1]))
	}
	if a.ID > b.ID {
		a, b = b, a
	}
	return mk(&Term{Op: OMul, Sort: Int, Args: []*Term{a, b}})
}

// Div is Go's truncated division (caller guarantees b != 0 via an obligation).
func Div(a, b *Term) *Term {
	if a.Op == OConst && b.Op == OConst && b.Val.Sign() != 0 {
		return Big(new(big.Int).Quo(a.Val, b.Val))
	}
	if b.Op == OConst && b.Val.Cmp(one) == 0 {
		return a
	}
	return mk(&Term{Op: ODiv, Sort: Int, Args: []*Term{a, b}})
}
func Mod(a, b *Term) *Term {
	if a.Op == OConst && b.Op == OConst && b.Val.Sign() != 0 {
		return Big(new(big.Int).Rem(a.Val, b.Val))
	}
	if b.Op == OConst && b.Val.Cmp(one) == 0 {
		return I(0)
	}
	return mk(&Term{Op: OMod, Sort: Int, Args: []*Term{a, b}})
}

// EDiv / EMod are the SMT-LIB operators (floor semantics for positive divisors).
func EDiv(a, b *Term) *Term {
	if a.Op == OConst && b.Op == OConst && b.Val.Sign() != 0 {
		q, _ := new(big.Int).DivMod(a.Val, b.Val, new(big.Int))
		return Big(q)
	}
	return mk(&Term{Op: OEDiv, Sort: Int, Args: []*Term{a, b}})
}
func EMod(a, b *Term) *Term {
	if a.Op == OConst && b.Op == OConst && b.Val.Sign() != 0 {
		_, m := new(big.Int).DivMod(a.Val, b.Val, new(big.Int))
		return Big(m)
	}
	return mk(&Term{Op: OEMod, Sort: Int, Args: []*Term{a, b}})
}

// ---------------------------------------------------------------- comparisons

func Eq(a, b *Term) *Term {
	if a == b {
		return True
	}
	if a.Sort != b.Sort {
		panic(fmt.Sprintf("Eq sort mismatch %s vs %s: %s / %s", a.Sort, b.Sort, a, b))
	}
	if a.Op == OConst && b.Op == OConst {
		return B(a.Val.Cmp(b.Val) == 0)
	}
	if a.Sort == Bool {
		if a.Op == OConst {
			a, b = b, a
		}
		if b == True {
			return a
		}
		if b == False {
			return Not(a)
		}
	}
	if a.Sort == Int {
		// decide syntactically when the difference is a non-zero constant
		d := Sub(a, b)
		if d.Op == OConst {
			return B(d.Val.Sign() == 0)
		}
	}
	if a.Sort == Int {
		la, ha := Bounds(a)
		lb, hb := Bounds(b)
		if (ha != nil && lb != nil && ha.Cmp(lb) < 0) || (la != nil && hb != nil && la.Cmp(hb) > 0) {
			return False
		}
		if r := cmpIte(a, b, Eq); r != nil {
			return r
		}
	}
	if a.Sort == Int {
		// canonical form: non-constant part on the left (positive leading coefficient), constant on the right
		l := newLin()
		l.addTerm(a, one)
		l.addTerm(b, mone)
		c := new(big.Int).Neg(l.c)
		l.c = new(big.Int)
		lhs := l.build()
		if lhs.Op != OConst {
			neg := false
			switch {
			case lhs.Op == OMul && lhs.Args[0].Op == OConst:
				neg = lhs.Args[0].Val.Sign() < 0
			case lhs.Op == OAdd:
				f := lhs.Args[0]
				neg = f.Op == OMul && f.Args[0].Op == OConst && f.Args[0].Val.Sign() < 0
			}
			if neg {
				lhs = Neg(lhs)
				c.Neg(c)
			}
			return mk(&Term{Op: OEq, Sort: Bool, Args: []*Term{lhs, Big(c)}})
		}
	}
	if a.ID > b.ID {
		a, b = b, a
	}
	return mk(&Term{Op: OEq, Sort: Bool, Args: []*Term{a, b}})
}
func Ne(a, b *Term) *Term { return Not(Eq(a, b)) }
func Lt(a, b *Term) *Term {
	if a.Op == OConst && b.Op == OConst {
		return B(a.Val.Cmp(b.Val) < 0)
	}
	d := Sub(a, b)
	if d.Op == OConst {
		return B(d.Val.Sign() < 0)
	}
	if r := cmpByBounds(a, b, true); r != nil {
		return r
	}
	if r := cmpIte(a, b, Lt); r != nil {
		return r
	}
	return mk(&Term{Op: OLt, Sort: Bool, Args: []*Term{a, b}})
}
func Le(a, b *Term) *Term {
	if a.Op == OConst && b.Op == OConst {
		return B(a.Val.Cmp(b.Val) <= 0)
	}
	d := Sub(a, b)
	if d.Op == OConst {
		return B(d.Val.Sign() <= 0)
	}
	if r := cmpByBounds(a, b, false); r != nil {
		return r
	}
	if r := cmpIte(a, b, Le); r != nil {
		return r
	}
	return mk(&Term{Op: OLe, Sort: Bool, Args: []*Term{a, b}})
}

// Bounds returns cheap syntactic bounds of an integer term (nil = unknown).
func Bounds(t *Term) (lo, hi *big.Int) {
	return boundsDepth(t, 0)
}

type bnd struct{ lo, hi *big.Int }

var boundsMemo = map[*Term]bnd{}

func boundsDepth(t *Term, depth int) (lo, hi *big.Int) {
	if t.Op == OConst {
		return t.Val, t.Val
	}
	if b, ok := boundsMemo[t]; ok {
		return b.lo, b.hi
	}
	if depth > 200 {
		return nil, nil
	}
	lo, hi = bounds1(t, depth)
	if !t.HasBound() {
		boundsMemo[t] = bnd{lo, hi}
	}
	return
}

func bounds1(t *Term, depth int) (lo, hi *big.Int) {
	switch t.Op {
	case OConst:
		return t.Val, t.Val
	case OEMod:
		if c := t.Args[1]; c.Op == OConst && c.Val.Sign() > 0 {
			return new(big.Int), new(big.Int).Sub(c.Val, one)
		}
	case OIte:
		l1, h1 := boundsDepth(t.Args[1], depth+1)
		l2, h2 := boundsDepth(t.Args[2], depth+1)
		if l1 != nil && l2 != nil {
			lo = l1
			if l2.Cmp(lo) < 0 {
				lo = l2
			}
		}
		if h1 != nil && h2 != nil {
			hi = h1
			if h2.Cmp(hi) > 0 {
				hi = h2
			}
		}
		return
	case OAdd:
		lo, hi = new(big.Int), new(big.Int)
		for _, a := range t.Args {
			l, h := boundsDepth(a, depth+1)
			if l == nil {
				lo = nil
			} else if lo != nil {
				lo = new(big.Int).Add(lo, l)
			}
			if h == nil {
				hi = nil
			} else if hi != nil {
				hi = new(big.Int).Add(hi, h)
			}
		}
		return
	case OMul:
		if len(t.Args) == 2 && t.Args[0].Op == OConst {
			l, h := boundsDepth(t.Args[1], depth+1)
			k := t.Args[0].Val
			if k.Sign() >= 0 {
				if l != nil {
					lo = new(big.Int).Mul(k, l)
				}
				if h != nil {
					hi = new(big.Int).Mul(k, h)
				}
			} else {
				if h != nil {
					lo = new(big.Int).Mul(k, h)
				}
				if l != nil {
					hi = new(big.Int).Mul(k, l)
				}
			}
			return
		}
	case OMod:
		if c := t.Args[1]; c.Op == OConst && c.Val.Sign() > 0 {
			m := new(big.Int).Sub(c.Val, one)
			l, _ := boundsDepth(t.Args[0], depth+1)
			if l != nil && l.Sign() >= 0 {
				return new(big.Int), m
			}
			return new(big.Int).Neg(m), m
		}
	case ODiv:
		if c := t.Args[1]; c.Op == OConst && c.Val.Sign() > 0 {
			l, h := boundsDepth(t.Args[0], depth+1)
			if l != nil {
				lo = new(big.Int).Quo(l, c.Val)
			}
			if h != nil {
				hi = new(big.Int).Quo(h, c.Val)
			}
			return
		}
	case OEDiv:
		if c := t.Args[1]; c.Op == OConst && c.Val.Sign() > 0 {
			l, h := boundsDepth(t.Args[0], depth+1)
			if l != nil {
				lo, _ = new(big.Int).DivMod(l, c.Val, new(big.Int))
			}
			if h != nil {
				hi, _ = new(big.Int).DivMod(h, c.Val, new(big.Int))
			}
			return
		}
	}
	return nil, nil
}

func cmpByBounds(a, b *Term, strict bool) *Term {
	la, ha := Bounds(a)
	lb, hb := Bounds(b)
	if ha != nil && lb != nil {
		if c := ha.Cmp(lb); c < 0 || (!strict && c == 0) {
			return True
		}
	}
	if la != nil && hb != nil {
		if c := la.Cmp(hb); c > 0 || (strict && c == 0) {
			return False
		}
	}
	return nil
}

// constLeafIte reports whether t is an ite tree (bounded size) whose leaves are all constants.
func constLeafIte(t *Term, budget *int) bool {
	if t.Op == OConst {
		return true
	}
	if t.Op != OIte || *budget <= 0 {
		return false
	}
	*budget--
	return constLeafIte(t.Args[1], budget) && constLeafIte(t.Args[2], budget)
}

func cmpIte(a, b *Term, f func(x, y *Term) *Term) *Term {
	n := 24
	if a.Op == OIte && b.Op == OConst && constLeafIte(a, &n) {
		return Ite(a.Args[0], f(a.Args[1], b), f(a.Args[2], b))
	}
	n = 24
	if b.Op == OIte && a.Op == OConst && constLeafIte(b, &n) {
		return Ite(b.Args[0], f(a, b.Args[1]), f(a, b.Args[2]))
	}
	return nil
}
func Gt(a, b *Term) *Term { return Lt(b, a) }
func Ge(a, b *Term) *Term { return Le(b, a) }

// ---------------------------------------------------------------- booleans

func Not(a *Term) *Term {
	switch {
	case a == True:
		return False
	case a == False:
		return True
	case a.Op == ONot:
		return a.Args[0]
	case a.Op == OLt:
		return Le(a.Args[1], a.Args[0])
	case a.Op == OLe:
		return Lt(a.Args[1], a.Args[0])
	}
	return mk(&Term{Op: ONot, Sort: Bool, Args: []*Term{a}})
}

func nary(op Op, unit, zero *Term, ts []*Term) *Term {
	var out []*Term
	seen := map[*Term]bool{}
	var add func(t *Term) bool
	add = func(t *Term) bool {
		if t == unit {
			return true
		}
		if t == zero {
			return false
		}
		if t.Op == op {
			for _, a := range t.Args {
				if !add(a) {
					return false
				}
			}
			return true
		}
		if seen[t] {
			return true
		}
		if seen[Not(t)] {
			return false
		}
		seen[t] = true
		out = append(out, t)
		return true
	}
	for _, t := range ts {
		if t.Sort != Bool {
			panic("nary bool op on non-bool " + t.String())
		}
		if !add(t) {
			return zero
		}
	}
	if len(out) == 0 {
		return unit
	}
	if len(out) == 1 {
		return out[0]
	}
	return mk(&Term{Op: op, Sort: Bool, Args: out})
}
func And(ts ...*Term) *Term { return nary(OAnd, True, False, ts) }
func Or(ts ...*Term) *Term  { return nary(OOr, False, True, ts) }
func Imp(a, b *Term) *Term  { return Or(Not(a), b) }

func Ite(c, a, b *Term) *Term {
	if c == True {
		return a
	}
	if c == False {
		return b
	}
	if a == b {
		return a
	}
	if a.Sort != b.Sort {
		panic(fmt.Sprintf("Ite sort mismatch %s vs %s", a.Sort, b.Sort))
	}
	if a.Sort == Bool {
		if a == True && b == False {
			return c
		}
		if a == False && b == True {
			return Not(c)
		}
		if a == True {
			return Or(c, b)
		}
		if a == False {
			return And(Not(c), b)
		}
		if b == True {
			return Or(Not(c), a)
		}
		if b == False {
			return And(c, a)
		}
	}
	if c.Op == ONot {
		return Ite(c.Args[0], b, a)
	}
	if a.Sort.K == KArr {
		if r := iteArr(c, a, b); r != nil {
			return r
		}
	}
	// ite(c, x, ite(c, y, z)) = ite(c, x, z)
	if b.Op == OIte && b.Args[0] == c {
		return Ite(c, a, b.Args[2])
	}
	if a.Op == OIte && a.Args[0] == c {
		return Ite(c, a.Args[1], b)
	}
	return mk(&Term{Op: OIte, Sort: a.Sort, Args: []*Term{c, a, b}})
}

// ---------------------------------------------------------------- arrays

func ConstArr(s *Sort, def *Term) *Term {
	return mk(&Term{Op: OConstArr, Sort: s, Args: []*Term{def}})
}

// distinctIdx reports whether two index terms are syntactically known to differ.
func distinctIdx(i, j *Term) bool {
	if i.Sort != Int {
		return false
	}
	d := Sub(i, j)
	return d.Op == OConst && d.Val.Sign() != 0
}

func Select(a, i *Term) *Term {
	if i.Op == OIte {
		n := 40
		if constLeafIte(i, &n) {
			return Ite(i.Args[0], Select(a, i.Args[1]), Select(a, i.Args[2]))
		}
	}
	for {
		switch a.Op {
		case OStore:
			if a.Args[1] == i {
				return a.Args[2]
			}
			if distinctIdx(a.Args[1], i) {
				a = a.Args[0]
				continue
			}
		case OConstArr:
			return a.Args[0]
		case OArrMap:
			if k, ok := i.Int64(); ok {
				if v := a.M.Get(k); v != nil {
					return v
				}
				a = a.Args[0]
				continue
			}
			if a.M.Len() == 0 {
				a = a.Args[0]
				continue
			}
		case OIte:
			x := Select(a.Args[1], i)
			y := Select(a.Args[2], i)
			return Ite(a.Args[0], x, y)
		}
		break
	}
	if a.Sort.K != KArr {
		panic("select on non-array " + a.String())
	}
	return mk(&Term{Op: OSelect, Sort: a.Sort.Elem, Args: []*Term{a, i}})
}

func Store(a, i, v *Term) *Term {
	if a.Sort.K != KArr {
		panic("store on non-array")
	}
	if v.Sort != a.Sort.Elem {
		panic(fmt.Sprintf("store sort mismatch: array %s value %s", a.Sort, v.Sort))
	}
	if k, ok := i.Int64(); ok {
		switch a.Op {
		case OArrMap:
			return mk(&Term{Op: OArrMap, Sort: a.Sort, Args: a.Args, M: a.M.Set(k, v)})
		case OConstArr, OVar:
			return mk(&Term{Op: OArrMap, Sort: a.Sort, Args: []*Term{a}, M: (*PMap)(nil).Set(k, v)})
		}
	}
	if a.Op == OStore && a.Args[1] == i {
		return Store(a.Args[0], i, v)
	}
	return mk(&Term{Op: OStore, Sort: a.Sort, Args: []*Term{a, i, v}})
}

// ---------------------------------------------------------------- functions and quantifiers

func DeclareFun(name string, args []*Sort, ret *Sort) *FunSig {
	if f, ok := FunDecl[name]; ok {
		return f
	}
	f := &FunSig{Name: name, Args: args, Ret: ret}
	FunDecl[name] = f
	return f
}

func App(f *FunSig, args ...*Term) *Term {
	if len(args) != len(f.Args) {
		panic("arity mismatch for " + f.Name)
	}
	for i, a := range args {
		if a.Sort != f.Args[i] {
			panic(fmt.Sprintf("sort mismatch in %s arg %d: want %s got %s", f.Name, i, f.Args[i], a.Sort))
		}
	}
	return mk(&Term{Op: OApp, Sort: f.Ret, Name: f.Name, Args: args})
}

func Forall(bnd []*Term, body *Term) *Term { return quant(OForall, bnd, body, nil) }
func Exists(bnd []*Term, body *Term) *Term { return quant(OExists, bnd, body, nil) }
func ForallPat(bnd []*Term, body *Term, pat [][]*Term) *Term {
	return quant(OForall, bnd, body, pat)
}
func quant(op Op, bnd []*Term, body *Term, pat [][]*Term) *Term {
	if body.IsConst() {
		return body
	}
	if !body.HasBound() {
		return body
	}
	t := mk(&Term{Op: op, Sort: Bool, Args: []*Term{body}, Bnd: bnd})
	if pat != nil && t.Pat == nil {
		t.Pat = pat
	}
	return t
}

// HasBound reports whether t mentions any bound variable.
func (t *Term) HasBound() bool {
	if t.fv >= 0 {
		return t.fv == 1
	}
	r := false
	if t.Op == OBound {
		r = true
	}
	for _, a := range t.Args {
		if a.HasBound() {
			r = true
			break
		}
	}
	if !r && t.Op == OArrMap {
		t.M.Each(func(k int64, v *Term) bool {
			if v.HasBound() {
				r = true
				return false
			}
			return true
		})
	}
	if r {
		t.fv = 1
	} else {
		t.fv = 0
	}
	return r
}

// Subst replaces terms according to m (keys are typically OVar/OBound terms),
// rebuilding (and re-simplifying) bottom-up.
func Subst(t *Term, m map[*Term]*Term) *Term {
	memo := map[*Term]*Term{}
	var rec func(t *Term) *Term
	rec = func(t *Term) *Term {
		if r, ok := m[t]; ok {
			return r
		}
		if len(t.Args) == 0 && t.Op != OArrMap {
			return t
		}
		if r, ok := memo[t]; ok {
			return r
		}
		args := make([]*Term, len(t.Args))
		ch := false
		for i, a := range t.Args {
			args[i] = rec(a)
			if args[i] != a {
				ch = true
			}
		}
		var r *Term
		if t.Op == OArrMap {
			base := args[0]
			r = base
			first := true
			t.M.Each(func(k int64, v *Term) bool {
				nv := rec(v)
				if nv != v {
					ch = true
				}
				_ = first
				r = Store(r, I(k), nv)
				return true
			})
			if !ch {
				r = t
			}
		} else if !ch {
			r = t
		} else {
			r = Rebuild(t, args)
		}
		memo[t] = r
		return r
	}
	return rec(t)
}

// Rebuild re-applies the smart constructor of t's operator to new arguments.
func Rebuild(t *Term, args []*Term) *Term {
	switch t.Op {
	case OAdd:
		return Add(args...)
	case OMul:
		r := args[0]
		for _, a := range args[1:] {
			r = Mul(r, a)
		}
		return r
	case ODiv:
		return Div(args[0], args[1])
	case OMod:
		return Mod(args[0], args[1])
	case OEDiv:
		return EDiv(args[0], args[1])
	case OEMod:
		return EMod(args[0], args[1])
	case OEq:
		return Eq(args[0], args[1])
	case OLt:
		return Lt(args[0], args[1])
	case OLe:
		return Le(args[0], args[1])
	case OAnd:
		return And(args...)
	case OOr:
		return Or(args...)
	case ONot:
		return Not(args[0])
	case OIte:
		return Ite(args[0], args[1], args[2])
	case OSelect:
		return Select(args[0], args[1])
	case OStore:
		return Store(args[0], args[1], args[2])
	case OConstArr:
		return ConstArr(t.Sort, args[0])
	case OApp:
		if h, ok := AppHook[t.Name]; ok {
			if r := h(args); r != nil {
				return r
			}
		}
		return mk(&Term{Op: OApp, Sort: t.Sort, Name: t.Name, Args: args})
	case OForall, OExists:
		return quant(t.Op, t.Bnd, args[0], t.Pat)
	}
	panic(fmt.Sprintf("Rebuild: op %d", t.Op))
}

// AppHook lets the owner of an interpreted function fold constant applications.
var AppHook = map[string]func(args []*Term) *Term{}

// AppH builds an application, consulting AppHook first.
func AppH(f *FunSig, args ...*Term) *Term {
	if h, ok := AppHook[f.Name]; ok {
		if r := h(args); r != nil {
			return r
		}
	}
	return App(f, args...)
}

// iteArr merges two arrays that share their base and differ in a few concrete positions into one
// concrete-indexed array with pointwise ite's (keeps selects cheap after state merges).
func iteArr(c, a, b *Term) *Term {
	base := func(t *Term) (*Term, *PMap) {
		if t.Op == OArrMap {
			return t.Args[0], t.M
		}
		return t, nil
	}
	ba, ma := base(a)
	bb, mb := base(b)
	if ba != bb || (ma == nil && mb == nil) {
		return nil
	}
	keys, ok := DiffKeys(ma, mb, 64)
	if !ok {
		return nil
	}
	m := mb
	for _, k := range keys {
		va := ma.Get(k)
		if va == nil {
			va = Select(ba, I(k))
		}
		vb := mb.Get(k)
		if vb == nil {
			vb = Select(bb, I(k))
		}
		m = m.Set(k, Ite(c, va, vb))
	}
	return mk(&Term{Op: OArrMap, Sort: a.Sort, Args: []*Term{bb}, M: m})
}
