package main

// Table lemmas [T]: quantified facts about the constant tables of /repo, checked exhaustively on
// the values produced by running the package initialisers (and table-building functions) of the
// CURRENT working tree in govc's interpreter, against independently written spec tables
// (/verif/spec/*). A failed lemma names the offending entry.

import (
	"fmt"
	"sort"
	"strings"
	"time"

	"verif/govc/exec"
	"verif/spec/dmspec"
	"verif/spec/onedspec"
	"verif/spec/pdfspec"
	"verif/spec/qrspec"
)

type tlCtx struct {
	c     *exec.Conc
	n     int
	fails []string
}

func (t *tlCtx) check(ok bool, format string, args ...interface{}) {
	t.n++
	if !ok && len(t.fails) < 10 {
		t.fails = append(t.fails, fmt.Sprintf(format, args...))
	}
}

func runTableLemma(c *checkCtx, name string) []oblRes {
	f, ok := tableLemmas[name]
	if !ok {
		return []oblRes{{Name: "table/" + name, Kind: "table", Proved: false, Output: "unknown table lemma"}}
	}
	t0 := time.Now()
	t := &tlCtx{c: exec.NewConc(c.P)}
	var engineErr string
	func() {
		defer func() {
			if r := recover(); r != nil {
				if e, ok := r.(*exec.ExecError); ok {
					engineErr = e.Error()
					return
				}
				panic(r)
			}
		}()
		f(t)
	}()
	res := oblRes{Name: "table/" + name, Kind: "table", Solver: "exhaustive evaluation", Seconds: time.Since(t0).Seconds(), Size: t.n}
	switch {
	case engineErr != "":
		res.Output = "could not evaluate the table: " + engineErr
	case t.n == 0:
		res.Output = "lemma checked nothing"
	case len(t.fails) > 0:
		res.Output = strings.Join(t.fails, "; ")
	default:
		res.Proved = true
	}
	return []oblRes{res}
}

func must(v exec.Val, err error) exec.Val {
	if err != nil {
		panic(&exec.ExecError{Msg: err.Error()})
	}
	return v
}

func bitsToString(bs []bool) string {
	var b strings.Builder
	for _, x := range bs {
		if x {
			b.WriteByte('1')
		} else {
			b.WriteByte('0')
		}
	}
	return b.String()
}

// ---------------------------------------------------------------- Galois fields

// gfSpec builds antilog/log tables from the primitive polynomial by carry-less arithmetic.
func gfSpec(pp, size int) (alog, log []int64) {
	alog = make([]int64, size)
	log = make([]int64, size)
	x := 1
	for i := 0; i < size; i++ {
		alog[i] = int64(x)
		x <<= 1
		if x&size != 0 { // degree overflow: subtract (xor) the primitive polynomial
			x ^= pp
		}
	}
	for i := 0; i < size-1; i++ {
		log[alog[i]] = int64(i)
	}
	return
}

func checkField(t *tlCtx, what string, gf exec.Val, pp, size, base int) {
	c := t.c
	t.check(!c.IsNil(gf), "%s: field is nil", what)
	if c.IsNil(gf) {
		return
	}
	t.check(c.Int(c.Field(gf, "Size")) == int64(size), "%s: Size=%d want %d", what, c.Int(c.Field(gf, "Size")), size)
	t.check(c.Int(c.Field(gf, "Base")) == int64(base), "%s: Base=%d want %d", what, c.Int(c.Field(gf, "Base")), base)
	at, lt := c.Field(gf, "ALogTbl"), c.Field(gf, "LogTbl")
	t.check(c.Int(c.Field(at, "off")) == 0 && c.Int(c.Field(lt, "off")) == 0, "%s: tables are not whole slices", what)
	alog, log := c.Ints(at), c.Ints(lt)
	t.check(len(alog) == size && len(log) == size, "%s: table lengths %d/%d", what, len(alog), len(log))
	if len(alog) != size || len(log) != size {
		return
	}
	salog, slog := gfSpec(pp, size)
	n := int64(size - 1)
	for k := 0; k < size; k++ {
		t.check(alog[k] == salog[k], "%s: ALogTbl[%d]=%d, alpha^%d is %d in GF(%d)/%#x", what, k, alog[k], k, salog[k], size, pp)
		t.check(alog[k] >= 1 && alog[k] < int64(size), "%s: ALogTbl[%d]=%d out of range", what, k, alog[k])
	}
	t.check(alog[0] == 1 && alog[size-1] == 1, "%s: ALogTbl[0]/[Size-1] must be 1", what)
	for a := 1; a < size; a++ {
		// the implementation's quirk Log[1] == Size-1 is allowed: equality modulo Size-1
		t.check(log[a]%n == slog[a]%n, "%s: LogTbl[%d]=%d want %d (mod %d)", what, a, log[a], slog[a], n)
		t.check(log[a] >= 1 && log[a] <= n && alog[log[a]] == int64(a), "%s: ALogTbl[LogTbl[%d]] != %d", what, a, a)
	}
	for k := int64(1); k <= n; k++ {
		t.check(log[alog[k]] == k, "%s: LogTbl[ALogTbl[%d]]=%d", what, k, log[alog[k]])
	}
}

func init() {
	tableLemmas["gf/fields"] = func(t *tlCtx) {
		c := t.c
		// the two package-level encoders
		qrec := must(c.Global("qr.ec"))
		checkField(t, "qr.ec.rs.gf (ISO 18004: GF(256)/0x11D, first root alpha^0)", c.Field(c.Field(qrec, "rs"), "gf"), 285, 256, 0)
		dmec := must(c.Global("datamatrix.ec"))
		checkField(t, "datamatrix.ec.rs.gf (ISO 16022: GF(256)/0x12D, first root alpha^1)", c.Field(c.Field(dmec, "rs"), "gf"), 301, 256, 1)
		// Aztec: one field per codeword size (ISO 24778)
		for _, f := range []struct{ w, pp, size int }{{4, 0x13, 16}, {6, 0x43, 64}, {8, 0x12D, 256}, {10, 0x409, 1024}, {12, 0x1069, 4096}} {
			res, err := c.Call("aztec.getGF", exec.IntV(int64(f.w), c.ParamType("aztec.getGF", 0)))
			if err != nil {
				panic(&exec.ExecError{Msg: err.Error()})
			}
			checkField(t, fmt.Sprintf("aztec.getGF(%d)", f.w), res[0], f.pp, f.size, 1)
		}
		// and the constructor itself for the seven parameter triples
		for _, f := range [][3]int{{285, 256, 0}, {301, 256, 1}, {0x13, 16, 1}, {0x43, 64, 1}, {0x12D, 256, 1}, {0x409, 1024, 1}, {0x1069, 4096, 1}} {
			it := c.ParamType("utils.NewGaloisField", 0)
			res, err := c.Call("utils.NewGaloisField", exec.IntV(int64(f[0]), it), exec.IntV(int64(f[1]), it), exec.IntV(int64(f[2]), it))
			if err != nil {
				panic(&exec.ExecError{Msg: err.Error()})
			}
			checkField(t, fmt.Sprintf("NewGaloisField(%d,%d,%d)", f[0], f[1], f[2]), res[0], f[0], f[1], f[2])
		}
		// the RS encoders start with the generator polynomial of degree 0
		for _, g := range []string{"qr.ec", "datamatrix.ec"} {
			rs := c.Field(must(c.Global(g)), "rs")
			polys := c.Field(rs, "polynomes")
			t.check(c.Len(polys) >= 1, "%s.rs.polynomes is empty", g)
			if c.Len(polys) >= 1 {
				co := c.Ints(c.Field(c.Elem(polys, 0), "Coefficients"))
				t.check(len(co) == 1 && co[0] == 1, "%s.rs.polynomes[0] = %v, want [1]", g, co)
			}
			t.check(!c.IsNil(c.Field(rs, "m")), "%s.rs has no mutex", g)
		}
	}

	// ---------------------------------------------------------------- QR
	tableLemmas["qr/versionInfos"] = func(t *tlCtx) {
		c := t.c
		vis := must(c.Global("qr.versionInfos"))
		n := c.Len(vis)
		t.check(n == 160, "versionInfos has %d rows, want 160", n)
		for i := int64(0); i < n; i++ {
			row := c.Elem(vis, i)
			v := int(c.Int(c.Field(row, "Version")))
			lv := int(c.Int(c.Field(row, "Level")))
			t.check(v == int(i)/4+1 && lv == int(i)%4, "row %d is (version %d, level %d): rows must be ordered by version then L,M,Q,H", i, v, lv)
			if v < 1 || v > 40 || lv < 0 || lv > 3 {
				continue
			}
			ec, n1, d1, n2, d2 := qrspec.BlockInfo(v, qrspec.Level(lv))
			got := [5]int{int(c.Int(c.Field(row, "ErrorCorrectionCodewordsPerBlock"))), int(c.Int(c.Field(row, "NumberOfBlocksInGroup1"))), int(c.Int(c.Field(row, "DataCodeWordsPerBlockInGroup1"))), int(c.Int(c.Field(row, "NumberOfBlocksInGroup2"))), int(c.Int(c.Field(row, "DataCodeWordsPerBlockInGroup2")))}
			want := [5]int{ec, n1, d1, n2, d2}
			if n2 == 0 {
				want[4] = got[4] // group 2 size is irrelevant without group-2 blocks
				if got[3] != 0 {
					want[4] = d2
				}
			}
			t.check(got == want, "versionInfos[%d] (version %d level %s) = %v, ISO 18004 table 9 says %v (ec/block, blocks1, data1, blocks2, data2)", i, v, qrspec.Level(lv), got, want)
			t.check((n1+n2)*ec+n1*d1+n2*d2 == qrspec.TotalCodewords(v), "version %d level %d: codeword total", v, lv)
		}
	}
	tableLemmas["qr/charCountBits"] = func(t *tlCtx) {
		c := t.c
		vis := must(c.Global("qr.versionInfos"))
		mt := c.ParamType("qr.(*versionInfo).charCountBits", 1)
		for i := int64(0); i < c.Len(vis); i += 4 {
			row := c.Elem(vis, i)
			v := int(c.Int(c.Field(row, "Version")))
			for _, m := range []qrspec.Mode{qrspec.ModeNumeric, qrspec.ModeAlpha, qrspec.ModeByte} {
				res, err := c.Call("qr.(*versionInfo).charCountBits", row, exec.IntV(int64(m), mt))
				if err != nil {
					panic(&exec.ExecError{Msg: err.Error()})
				}
				t.check(int(c.Int(res[0])) == qrspec.CharCountBits(v, m), "charCountBits(version %d, mode %d) = %d, ISO table 3 says %d", v, m, c.Int(res[0]), qrspec.CharCountBits(v, m))
			}
			res, err := c.Call("qr.(*versionInfo).modulWidth", row)
			if err != nil {
				panic(&exec.ExecError{Msg: err.Error()})
			}
			t.check(int(c.Int(res[0])) == 17+4*v, "modulWidth(version %d) = %d", v, c.Int(res[0]))
		}
	}
	tableLemmas["qr/formatInfos"] = func(t *tlCtx) {
		c := t.c
		fi := must(c.Global("qr.formatInfos"))
		lvKeys, lvVals := c.MapEntries(fi)
		t.check(len(lvKeys) == 4, "formatInfos has %d levels", len(lvKeys))
		for i, lv := range lvKeys {
			mKeys, mVals := c.MapEntries(lvVals[i])
			t.check(len(mKeys) == 8, "formatInfos[%d] has %d masks", lv, len(mKeys))
			for j, m := range mKeys {
				bits := c.Bools(mVals[j])
				w := qrspec.FormatWord(qrspec.Level(lv), int(m))
				want := make([]bool, 15)
				for k := 0; k < 15; k++ {
					want[k] = (w>>uint(14-k))&1 == 1
				}
				t.check(bitsToString(bits) == bitsToString(want), "formatInfos[%s][%d] = %s, BCH(15,5) xor 0x5412 gives %s", qrspec.Level(lv), m, bitsToString(bits), bitsToString(want))
			}
		}
		vb := must(c.Global("qr.versionInfoBitsByVersion"))
		vKeys, vVals := c.MapEntries(vb)
		t.check(len(vKeys) == 34, "versionInfoBitsByVersion has %d entries, want 34 (versions 7..40)", len(vKeys))
		for i, v := range vKeys {
			bits := c.Bools(vVals[i])
			w := qrspec.VersionWord(int(v))
			want := make([]bool, 18)
			for k := 0; k < 18; k++ {
				want[k] = (w>>uint(17-k))&1 == 1
			}
			t.check(v >= 7 && v <= 40 && bitsToString(bits) == bitsToString(want), "versionInfoBitsByVersion[%d] = %s, BCH(18,6) gives %s", v, bitsToString(bits), bitsToString(want))
		}
	}
	tableLemmas["qr/alignment"] = func(t *tlCtx) {
		c := t.c
		vis := must(c.Global("qr.versionInfos"))
		for i := int64(0); i < c.Len(vis); i += 4 {
			row := c.Elem(vis, i)
			v := int(c.Int(c.Field(row, "Version")))
			res, err := c.Call("qr.(*versionInfo).alignmentPatternPlacements", row)
			if err != nil {
				panic(&exec.ExecError{Msg: err.Error()})
			}
			got := c.Ints(res[0])
			want := qrspec.AlignmentCenters(v)
			t.check(fmt.Sprint(got) == fmt.Sprint(toI64(want)), "alignmentPatternPlacements(version %d) = %v, ISO Annex E says %v", v, got, want)
		}
	}

	// ---------------------------------------------------------------- DataMatrix
	tableLemmas["dm/codeSizes"] = func(t *tlCtx) {
		c := t.c
		cs := must(c.Global("datamatrix.codeSizes"))
		want := dmspec.Sizes()
		t.check(int(c.Len(cs)) == len(want), "codeSizes has %d rows, ISO 16022 table 7 has %d square sizes", c.Len(cs), len(want))
		prev := int64(-1)
		for i := int64(0); i < c.Len(cs) && int(i) < len(want); i++ {
			row := c.Elem(cs, i)
			w := want[i]
			got := [6]int64{c.Int(c.Field(row, "Rows")), c.Int(c.Field(row, "Columns")), c.Int(c.Field(row, "RegionCountHorizontal")), c.Int(c.Field(row, "RegionCountVertical")), c.Int(c.Field(row, "ECCCount")), c.Int(c.Field(row, "BlockCount"))}
			exp := [6]int64{int64(w.Rows), int64(w.Cols), int64(w.RegionCols), int64(w.RegionRows), int64(w.ECCodewords), int64(w.Blocks)}
			t.check(got == exp, "codeSizes[%d] = %v, ISO says %v (rows, cols, regionsH, regionsV, ecc, blocks)", i, got, exp)
			for _, m := range []struct {
				name string
				want int
			}{{"DataCodewords", w.DataCodewords}, {"MatrixRows", w.MatrixRows}, {"MatrixColumns", w.MatrixCols}, {"ErrorCorrectionCodewordsPerBlock", w.ECCodewords / w.Blocks}} {
				res, err := c.Call("datamatrix.(*dmCodeSize)."+m.name, row)
				if err != nil {
					panic(&exec.ExecError{Msg: err.Error()})
				}
				t.check(c.Int(res[0]) == int64(m.want), "codeSizes[%d].%s() = %d, want %d", i, m.name, c.Int(res[0]), m.want)
			}
			it := c.ParamType("datamatrix.(*dmCodeSize).DataCodewordsForBlock", 1)
			sum := int64(0)
			for b := 0; b < w.Blocks; b++ {
				res, err := c.Call("datamatrix.(*dmCodeSize).DataCodewordsForBlock", row, exec.IntV(int64(b), it))
				if err != nil {
					panic(&exec.ExecError{Msg: err.Error()})
				}
				t.check(c.Int(res[0]) == int64(w.BlockDataLen(b)), "codeSizes[%d].DataCodewordsForBlock(%d) = %d, want %d", i, b, c.Int(res[0]), w.BlockDataLen(b))
				sum += c.Int(res[0])
			}
			t.check(sum == int64(w.DataCodewords), "codeSizes[%d]: block data lengths sum to %d, want %d", i, sum, w.DataCodewords)
			dc := int64(w.DataCodewords)
			t.check(dc > prev, "codeSizes[%d]: capacity must increase strictly", i)
			prev = dc
		}
	}

	// ---------------------------------------------------------------- Code 128
	tableLemmas["code128/tables"] = func(t *tlCtx) {
		c := t.c
		et := must(c.Global("code128.encodingTable"))
		want := onedspec.C128Patterns()
		t.check(c.Len(et) == 107, "encodingTable has %d entries", c.Len(et))
		for i := int64(0); i < c.Len(et) && i < 107; i++ {
			got := bitsToString(c.Bools(c.Elem(et, i)))
			t.check(got == want[i], "encodingTable[%d] = %s, ISO 15417 says %s", i, got, want[i])
		}
		// code set tables: B = ASCII 32..127, A = ASCII 32..95 then 0..31
		bt := c.Str(must(c.Global("code128.bTable")))
		at := c.Str(must(c.Global("code128.aTable")))
		t.check(len(bt) == 96, "bTable has %d characters", len(bt))
		for k := 0; k < len(bt) && k < 96; k++ {
			t.check(int(bt[k]) == k+32, "bTable[%d] = %d, want %d", k, bt[k], k+32)
		}
		t.check(len(at) == 96, "aTable has %d characters", len(at))
		for k := 0; k < len(at) && k < 96; k++ {
			w := k + 32
			if k >= 64 {
				w = k - 64
			}
			t.check(int(at[k]) == w, "aTable[%d] = %d, want %d", k, at[k], w)
		}
		for name, w := range map[string]int64{"startASymbol": 103, "startBSymbol": 104, "startCSymbol": 105, "codeASymbol": 101, "codeBSymbol": 100, "codeCSymbol": 99, "stopSymbol": 106} {
			v := must(c.Global("code128." + name))
			t.check(c.Int(v) == w, "%s = %d, want %d", name, c.Int(v), w)
		}
		for name, w := range map[string]int64{"FNC1": 0xF1, "FNC2": 0xF2, "FNC3": 0xF3, "FNC4": 0xF4} {
			v := must(c.Global("code128." + name))
			t.check(c.Int(v) == w, "%s = %d", name, c.Int(v))
		}
	}

	// ---------------------------------------------------------------- PDF417
	tableLemmas["pdf417/tables"] = func(t *tlCtx) {
		c := t.c
		cw := must(c.Global("pdf417.codewords"))
		t.check(c.Len(cw) == 3, "codewords has %d clusters", c.Len(cw))
		var tbl [3][]uint32
		for k := int64(0); k < 3 && k < c.Len(cw); k++ {
			for _, v := range c.Ints(c.Elem(cw, k)) {
				tbl[k] = append(tbl[k], uint32(v))
			}
		}
		err := pdfspec.CheckPatternTable(tbl)
		t.check(err == nil, "codewords table: %v", err)
		t.check(c.Int(must(c.Global("pdf417.start_word"))) == pdfspec.StartPattern, "start_word")
		t.check(c.Int(must(c.Global("pdf417.stop_word"))) == pdfspec.StopPattern, "stop_word")
		cf := must(c.Global("pdf417.correctionFactors"))
		t.check(c.Len(cf) == 9, "correctionFactors has %d levels", c.Len(cf))
		for lv := int64(0); lv < 9 && lv < c.Len(cf); lv++ {
			got := c.Ints(c.Elem(cf, lv))
			want := pdfspec.GeneratorCoefficients(int(lv))
			t.check(fmt.Sprint(got) == fmt.Sprint(toI64(want)), "correctionFactors[%d] differs from the coefficients of prod_{i=1..%d}(x-3^i) mod 929 (first difference at %d)", lv, len(want), firstDiff(got, toI64(want)))
		}
	}
}

func toI64(a []int) []int64 {
	out := make([]int64, len(a))
	for i, v := range a {
		out[i] = int64(v)
	}
	return out
}

func firstDiff(a, b []int64) int {
	for i := 0; i < len(a) && i < len(b); i++ {
		if a[i] != b[i] {
			return i
		}
	}
	if len(a) != len(b) {
		if len(a) < len(b) {
			return len(a)
		}
		return len(b)
	}
	return -1
}

var tableLemmas = map[string]func(t *tlCtx){}

func sortedLemmaNames() []string {
	var ns []string
	for n := range tableLemmas {
		ns = append(ns, n)
	}
	sort.Strings(ns)
	return ns
}
