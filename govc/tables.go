package main

// Table lemmas [T]: quantified facts about the constant tables of /repo, checked exhaustively on
// the values produced by running the package initialisers in govc's interpreter.

func runTableLemma(c *checkCtx, name string) []oblRes {
	f, ok := tableLemmas[name]
	if !ok {
		return []oblRes{{Name: "table/" + name, Kind: "table", Proved: false, Output: "unknown table lemma"}}
	}
	return f(c)
}

var tableLemmas = map[string]func(c *checkCtx) []oblRes{}
