package main

// [C] complete unwinding for DataMatrix (C02, C12): for each of the 24 sizes of the current
// codeSizes table, with symbolic codewords,
//  - datamatrix.render (SetValues + Merge) is compared module by module with the ISO 16022
//    Annex F placement and finder/clock layout written independently in verif/spec/dmspec;
//  - (*errorCorrection).calcECC is checked to hand block b exactly data[b], data[b+n], ... to the
//    Reed-Solomon encoder and to put its check words at the interleaved positions.

import (
	"fmt"
	"strings"
	"time"

	"verif/govc/exec"
	"verif/govc/term"
	"verif/spec/dmspec"
)

func dischargeConc(cc *checkCtx, c *exec.Conc, label string) []oblRes {
	var out []oblRes
	for _, o := range c.X.Obls {
		if o.Kind != "config" {
			o.Name = label + "/" + o.Name
		}
	}
	for _, r := range c.X.Discharge(cc.cfg) {
		out = append(out, oblRes{Name: r.Obl.Name, Kind: r.Obl.Kind, Proved: r.Verdict == exec.Proved, Solver: r.Solver, Seconds: r.Seconds, Output: r.Output, Model: r.Model, Size: r.Size, Trivial: r.Trivial})
	}
	for k, n := range c.ExtraTrivial() {
		out = append(out, oblRes{Name: fmt.Sprintf("%s/%s(x%d)", label, k, n), Kind: k, Proved: true, Solver: "syntactic", Trivial: true, Count: n})
	}
	cc.Notes = append(cc.Notes, c.X.Notes...)
	return out
}

func bitOfByte(b *T, bit int) *T { // bit 1 = most significant
	return term.Eq(term.EMod(term.EDiv(b, term.I(1<<uint(8-bit))), term.I(2)), term.I(1))
}

func unwindDMRender(cc *checkCtx, idx int) []oblRes {
	spec := dmspec.Sizes()
	label := fmt.Sprintf("config/datamatrix.render[%d]", idx)
	if idx < len(spec) {
		label = fmt.Sprintf("config/datamatrix.render[%dx%d]", spec[idx].Rows, spec[idx].Cols)
	}
	t0 := time.Now()
	c := exec.NewConc(cc.P)
	var out []oblRes
	nfail, compared := 0, 0
	bad := func(name, msg string) {
		nfail++
		if nfail <= 5 {
			out = append(out, oblRes{Name: label + "/" + name, Kind: "config", Proved: false, Output: msg})
		}
	}
	err := c.Try(func() {
		sizes := must(c.Global("datamatrix.codeSizes"))
		if int64(idx) >= c.Len(sizes) || idx >= len(spec) {
			panic(&exec.ExecError{Msg: "size index outside the table (see table/dm/codeSizes)"})
		}
		size := c.Elem(sizes, int64(idx))
		s := spec[idx]
		total := s.DataCodewords + s.ECCodewords
		data, bytes := c.SymBytes("dm.cw", total)
		color := c.SymParam("datamatrix.render", 2, "color")
		res, e := c.Call("datamatrix.render", data, size, color)
		if e != nil {
			panic(&exec.ExecError{Msg: e.Error()})
		}
		code := res[0]
		if c.IsNil(code) {
			panic(&exec.ExecError{Msg: "render returned nil"})
		}
		if c.Term(c.Field(code, "dmCodeSize")) != c.Term(size) {
			bad("size", "result does not point to the requested size row")
		}
		got, want := c.Flat(c.Field(code, "color")), c.Flat(color)
		for i := range got {
			if got[i] != want[i] {
				bad("color", "result does not carry the caller's colour scheme")
				break
			}
		}
		bl := c.Field(code, "BitList")
		rows, cols := s.Rows, s.Cols
		if c.Int(c.Field(bl, "count")) != int64(rows*cols) {
			bad("size", "bit list length is not rows*cols")
			return
		}
		model := c.MathArr(c.Field(bl, "model"))
		layout := dmspec.SymbolLayout(s)
		place := dmspec.Placement(s.MatrixRows, s.MatrixCols)
		for y := 0; y < rows; y++ {
			for x := 0; x < cols; x++ {
				m := layout[y][x]
				var want *T
				switch m.Kind {
				case dmspec.KLight:
					want = term.False
				case dmspec.KDark:
					want = term.True
				default:
					cell := place[m.MRow][m.MCol]
					if cell.Codeword == 0 {
						want = term.B(cell.Fixed)
					} else {
						want = bitOfByte(bytes[cell.Codeword-1], cell.Bit)
					}
				}
				got := term.Select(model, term.I(int64(x*rows+y)))
				compared++
				if got != want {
					c.Oblige("config", fmt.Sprintf("%s/module(col %d,row %d)", label, x, y), term.True, term.Eq(got, want))
				}
			}
		}
	})
	if err != nil {
		return []oblRes{{Name: label + "/unwinding", Kind: "config", Proved: false, Output: err.Error()}}
	}
	out = append(out, dischargeConc(cc, c, label)...)
	if nfail == 0 {
		out = append(out, oblRes{Name: label + "/layout", Kind: "config", Proved: true, Solver: "syntactic", Size: compared, Seconds: time.Since(t0).Seconds()})
	}
	return out
}

func unwindDMECC(cc *checkCtx, idx int) []oblRes {
	spec := dmspec.Sizes()
	label := fmt.Sprintf("config/datamatrix.calcECC[%d]", idx)
	if idx < len(spec) {
		label = fmt.Sprintf("config/datamatrix.calcECC[%dx%d]", spec[idx].Rows, spec[idx].Cols)
	}
	c := exec.NewConc(cc.P)
	c.X.LogCalls = true
	var out []oblRes
	nfail := 0
	bad := func(name, msg string) {
		nfail++
		if nfail <= 5 {
			out = append(out, oblRes{Name: label + "/" + name, Kind: "config", Proved: false, Output: msg})
		}
	}
	err := c.Try(func() {
		sizes := must(c.Global("datamatrix.codeSizes"))
		if int64(idx) >= c.Len(sizes) || idx >= len(spec) {
			panic(&exec.ExecError{Msg: "size index outside the table"})
		}
		size := c.Elem(sizes, int64(idx))
		s := spec[idx]
		data, bytes := c.SymBytes("dm.data", s.DataCodewords)
		ecv := must(c.Global("datamatrix.ec"))
		res, e := c.Call("datamatrix.(*errorCorrection).calcECC", ecv, data, size)
		if e != nil {
			panic(&exec.ExecError{Msg: e.Error()})
		}
		outSl := res[0]
		if c.Len(outSl) != int64(s.DataCodewords+s.ECCodewords) {
			bad("length", fmt.Sprintf("result has %d codewords, the size carries %d data + %d check codewords (C12)", c.Len(outSl), s.DataCodewords, s.ECCodewords))
			return
		}
		// the caller's slice must not be written (C15): its elements are still the input symbols
		for i := 0; i < s.DataCodewords; i++ {
			if c.Term(c.Elem(data, int64(i))) != bytes[i] {
				bad("input-modified", fmt.Sprintf("input codeword %d was overwritten", i))
				break
			}
			if c.Term(c.Elem(outSl, int64(i))) != bytes[i] {
				bad("data-prefix", fmt.Sprintf("output codeword %d is not the input codeword", i))
				break
			}
		}
		// one Reed-Solomon call per block, over GF(256)/301 with the size's check word count
		var calls []exec.CallRec
		for _, cr := range c.X.Calls {
			if cr.Fn == "utils.(*ReedSolomonEncoder).Encode" {
				calls = append(calls, cr)
			}
		}
		if len(calls) != s.Blocks {
			bad("blocks", fmt.Sprintf("%d Reed-Solomon calls, ISO 16022 prescribes %d interleaved blocks", len(calls), s.Blocks))
			return
		}
		ecPer := s.ECCodewords / s.Blocks
		for b, cr := range calls {
			if c.Term(cr.Args[0]) != c.Term(c.Field(ecv, "rs")) {
				bad("field", "Reed-Solomon encoder is not datamatrix.ec.rs")
			}
			if c.Int(cr.Args[2]) != int64(ecPer) {
				bad("ecc-count", fmt.Sprintf("block %d asks for %d check words, want %d", b, c.Int(cr.Args[2]), ecPer))
			}
			elems := cr.ArgElems[1]
			wantLen := s.BlockDataLen(b)
			if len(elems) != wantLen {
				bad("block-length", fmt.Sprintf("block %d has %d data codewords, want %d", b, len(elems), wantLen))
				continue
			}
			for k := 0; k < wantLen; k++ {
				if elems[k] != bytes[b+k*s.Blocks] {
					bad("block-membership", fmt.Sprintf("block %d word %d is not data codeword %d", b, k, b+k*s.Blocks))
					break
				}
			}
			// check words of block b go to stream positions data + b + k*blocks (ISO interleaving)
			for k := 0; k < ecPer; k++ {
				got := c.Term(c.Elem(outSl, int64(s.DataCodewords+b+k*s.Blocks)))
				want := c.Term(c.Elem(cr.Res, int64(k)))
				if got != want {
					bad("ecc-position", fmt.Sprintf("check word %d of block %d is not at stream position %d (found %s, want %s)", k, b, s.DataCodewords+b+k*s.Blocks, got, want))
					break
				}
			}
		}
	})
	if err != nil {
		return []oblRes{{Name: label + "/unwinding", Kind: "config", Proved: false, Output: err.Error()}}
	}
	out = append(out, dischargeConc(cc, c, label)...)
	if nfail == 0 {
		out = append(out, oblRes{Name: label + "/interleave", Kind: "config", Proved: true, Solver: "syntactic"})
	}
	return out
}

var unwDM = &Unwinder{
	Name: "dm",
	Jobs: func(tier string) []string {
		var jobs []string
		for i := len(dmspec.Sizes()) - 1; i >= 0; i-- { // largest first (load balancing)
			jobs = append(jobs, fmt.Sprintf("render:%d", i), fmt.Sprintf("ecc:%d", i))
		}
		return jobs
	},
	Run: func(c *checkCtx, job string) []oblRes {
		var kind string
		var i int
		if _, err := fmt.Sscanf(strings.Replace(job, ":", " ", 1), "%s %d", &kind, &i); err != nil {
			return []oblRes{{Name: "config/dm/" + job, Kind: "config", Output: "bad job"}}
		}
		if kind == "ecc" {
			return unwindDMECC(c, i)
		}
		return unwindDMRender(c, i)
	},
}
