package main

import (
	"crypto/sha256"
	"encoding/hex"
	"fmt"
	"strings"

	"verif/govc/exec"
	"verif/spec/aztecspec"
	"verif/spec/onedspec"
	"verif/spec/pdfspec"
)

func nwToModules(nw string, wide int) string {
	var b strings.Builder
	for i := 0; i < len(nw); i++ {
		c := "1"
		if i%2 == 1 {
			c = "0"
		}
		n := 1
		if nw[i] == 'w' {
			n = wide
		}
		b.WriteString(strings.Repeat(c, n))
	}
	return b.String()
}

func call1(t *tlCtx, ref string, args ...exec.Val) exec.Val {
	res, err := t.c.Call(ref, args...)
	if err != nil {
		panic(&exec.ExecError{Msg: err.Error()})
	}
	return res[0]
}

func init() {
	// ---------------------------------------------------------------- Code 39
	tableLemmas["code39/tables"] = func(t *tlCtx) {
		c := t.c
		keys, vals := c.MapEntries(must(c.Global("code39.encodeTable")))
		spec := onedspec.C39Table()
		t.check(len(keys) == len(spec), "encodeTable has %d characters, the standard has %d (43 + start/stop)", len(keys), len(spec))
		seenVal := map[int64]bool{}
		for i, k := range keys {
			r := rune(k)
			got := bitsToString(c.Bools(c.Field(vals[i], "data")))
			want, ok := spec[r]
			t.check(ok && got == nwToModules(want, 2), "encodeTable[%q].data = %s, ISO 16388 says %s", r, got, nwToModules(want, 2))
			v := c.Int(c.Field(vals[i], "value"))
			if r == '*' {
				t.check(v < 0, "encodeTable['*'].value must be negative (start/stop is not a data character)")
				continue
			}
			sv, ok := onedspec.C39Value(r)
			t.check(ok && int64(sv) == v, "encodeTable[%q].value = %d, want %d", r, v, sv)
			t.check(!seenVal[v], "encodeTable: check value %d occurs twice", v)
			seenVal[v] = true
		}
		// full ASCII: every entry must decode (under the standard's table) to its key; missing keys are
		// the characters of the basic alphabet
		ekeys, evals := c.MapEntries(must(c.Global("code39.extendedTable")))
		ext := map[rune]string{}
		for i, k := range ekeys {
			ext[rune(k)] = c.Str(evals[i])
		}
		for ch := rune(0); ch < 128; ch++ {
			s, ok := ext[ch]
			if !ok {
				_, basic := onedspec.C39Value(ch)
				t.check(basic, "extendedTable has no entry for %q and it is not in the basic alphabet", ch)
				continue
			}
			dec, err := onedspec.C39FullASCIIDecode(s)
			t.check(err == nil && len(dec) == 1 && rune(dec[0]) == ch, "extendedTable[%d] = %q decodes to %q", ch, s, dec)
		}
	}
	// ---------------------------------------------------------------- Code 93
	tableLemmas["code93/tables"] = func(t *tlCtx) {
		c := t.c
		keys, vals := c.MapEntries(must(c.Global("code93.encodeTable")))
		spec := onedspec.C93Table()
		shift := map[rune]rune{0xF1: onedspec.C93ShiftDollar, 0xF2: onedspec.C93ShiftPercent, 0xF3: onedspec.C93ShiftSlash, 0xF4: onedspec.C93ShiftPlus}
		t.check(len(keys) == 48, "encodeTable has %d characters, want 47 + start/stop", len(keys))
		seen := map[int64]bool{}
		for i, k := range keys {
			r := rune(k)
			sr := r
			if m, ok := shift[r]; ok {
				sr = m
			}
			data := c.Int(c.Field(vals[i], "data"))
			got := fmt.Sprintf("%09b", data)
			want, ok := spec[sr]
			t.check(ok && got == want, "encodeTable[%q].data = %s, the Code 93 table says %s", r, got, want)
			v := c.Int(c.Field(vals[i], "value"))
			// values must be pairwise distinct over the WHOLE table: getChecksum looks a character up
			// by value while ranging over the map (order unspecified), so a duplicate makes the
			// result depend on the iteration order
			t.check(!seen[v], "encodeTable: value %d occurs twice (%q): the check character lookup becomes order dependent", v, r)
			seen[v] = true
			if r == '*' {
				t.check(v == 47, "encodeTable['*'].value = %d, want 47 (start/stop is not one of the 47 data values)", v)
				continue
			}
			sv, ok := onedspec.C93Value(sr)
			t.check(ok && int64(sv) == v, "encodeTable[%q].value = %d, want %d", r, v, sv)
		}
		et := must(c.Global("code93.extendedTable"))
		t.check(c.Len(et) == 128, "extendedTable has %d entries", c.Len(et))
		for ch := int64(0); ch < c.Len(et) && ch < 128; ch++ {
			s := c.Str(c.Elem(et, ch))
			var vs []int
			okAll := true
			for _, r := range s {
				sr := r
				if m, ok := shift[r]; ok {
					sr = m
				}
				v, ok := onedspec.C93Value(sr)
				if !ok {
					okAll = false
				}
				vs = append(vs, v)
			}
			dec, err := onedspec.C93FullASCIIDecode(vs)
			t.check(okAll && err == nil && len(dec) == 1 && int64(dec[0]) == ch, "extendedTable[%d] = %q decodes to %q", ch, s, dec)
		}
	}
	// ---------------------------------------------------------------- Codabar
	tableLemmas["codabar/tables"] = func(t *tlCtx) {
		c := t.c
		keys, vals := c.MapEntries(must(c.Global("codabar.encodingTable")))
		spec := onedspec.CodabarTable()
		t.check(len(keys) == len(spec) && len(keys) == 20, "encodingTable has %d characters, want 20", len(keys))
		for i, k := range keys {
			got := bitsToString(c.Bools(vals[i]))
			t.check(got == spec[rune(k)], "encodingTable[%q] = %s, the Codabar table says %s", rune(k), got, spec[rune(k)])
		}
	}
	// ---------------------------------------------------------------- 2 of 5
	tableLemmas["twooffive/tables"] = func(t *tlCtx) {
		c := t.c
		keys, vals := c.MapEntries(must(c.Global("twooffive.encodingTable")))
		spec := onedspec.TwoOfFiveDigitPatterns()
		t.check(len(keys) == 10, "encodingTable has %d digits", len(keys))
		for i, k := range keys {
			d := int(k - '0')
			if d < 0 || d > 9 {
				t.check(false, "encodingTable has non-digit key %q", rune(k))
				continue
			}
			got := ""
			for _, w := range c.Bools(vals[i]) {
				if w {
					got += "w"
				} else {
					got += "n"
				}
			}
			t.check(got == spec[d], "encodingTable['%d'] = %s, want %s", d, got, spec[d])
		}
		mk, mv := c.MapEntries(must(c.Global("twooffive.modes")))
		t.check(len(mk) == 2, "modes has %d entries", len(mk))
		for i, k := range mk {
			start, end := bitsToString(c.Bools(c.Field(mv[i], "start"))), bitsToString(c.Bools(c.Field(mv[i], "end")))
			wk, wv := c.MapEntries(c.Field(mv[i], "widths"))
			widths := map[int64]int64{}
			for j := range wk {
				widths[wk[j]] = c.Int(wv[j])
			}
			t.check(widths[0] == 1 && widths[1] == 3 && len(wk) == 2, "modes[%v].widths = %v, want narrow 1 / wide 3", k == 1, widths)
			if k == 1 { // interleaved: narrow bar/space/bar/space; wide bar, narrow space, narrow bar
				t.check(start == "1010" && end == "11101", "interleaved start/stop = %s / %s, want 1010 / 11101", start, end)
			} else { // standard: bars w,w,n / w,n,w separated by narrow spaces (drawn with 2-module wide bars)
				t.check(start == "11011010" && end == "1101011", "standard start/stop = %s / %s, want 11011010 / 1101011", start, end)
			}
		}
		ns := c.Bools(must(c.Global("twooffive.nonInterleavedSpace")))
		t.check(bitsToString(ns) == "00000", "nonInterleavedSpace must be five narrow spaces")
	}
	// ---------------------------------------------------------------- EAN
	tableLemmas["ean/tables"] = func(t *tlCtx) {
		c := t.c
		lcodes := []string{"0001101", "0011001", "0010011", "0111101", "0100011", "0110001", "0101111", "0111011", "0110111", "0001011"}
		parity := []string{"LLLLLL", "LLGLGG", "LLGGLG", "LLGGGL", "LGLLGG", "LGGLLG", "LGGGLL", "LGLGLG", "LGLGGL", "LGGLGL"}
		keys, vals := c.MapEntries(must(c.Global("ean.encoderTable")))
		t.check(len(keys) == 10, "encoderTable has %d digits", len(keys))
		for i, k := range keys {
			d := int(k - '0')
			if d < 0 || d > 9 {
				t.check(false, "encoderTable has non-digit key %q", rune(k))
				continue
			}
			l := lcodes[d]
			r := ""
			for _, ch := range l {
				if ch == '0' {
					r += "1"
				} else {
					r += "0"
				}
			}
			g := ""
			for j := len(r) - 1; j >= 0; j-- {
				g += string(r[j])
			}
			t.check(bitsToString(c.Bools(c.Field(vals[i], "LeftOdd"))) == l, "encoderTable['%d'].LeftOdd != L-code %s", d, l)
			t.check(bitsToString(c.Bools(c.Field(vals[i], "LeftEven"))) == g, "encoderTable['%d'].LeftEven != G-code %s", d, g)
			t.check(bitsToString(c.Bools(c.Field(vals[i], "Right"))) == r, "encoderTable['%d'].Right != R-code %s", d, r)
			p := ""
			for _, e := range c.Bools(c.Field(vals[i], "CheckSum")) {
				if e {
					p += "G"
				} else {
					p += "L"
				}
			}
			t.check(p == parity[d], "encoderTable['%d'] first-digit parity = %s, GS1 says %s", d, p, parity[d])
		}
	}
	// ---------------------------------------------------------------- Aztec
	tableLemmas["aztec/tables"] = func(t *tlCtx) {
		c := t.c
		// repo mode numbers -> spec modes
		modes := []aztecspec.Mode{aztecspec.Upper, aztecspec.Lower, aztecspec.Digit, aztecspec.Mixed, aztecspec.Punct}
		names := []string{"upper", "lower", "digit", "mixed", "punct"}
		width := func(m int) int { return aztecspec.CodeBits(modes[m]) }
		bitsOf := func(v, w int) []bool {
			out := make([]bool, w)
			for i := 0; i < w; i++ {
				out[i] = (v>>uint(w-1-i))&1 == 1
			}
			return out
		}
		lk, lv := c.MapEntries(must(c.Global("aztec.latchTable")))
		latch := map[[2]int]int{}
		for i, a := range lk {
			bk, bv := c.MapEntries(lv[i])
			for j, b := range bk {
				latch[[2]int{int(a), int(b)}] = int(c.Int(bv[j]))
			}
		}
		t.check(len(latch) == 25, "latchTable has %d entries, want 25", len(latch))
		ck, cv := c.MapEntries(must(c.Global("aztec.charMap")))
		charMap := map[int][]int64{}
		for i, m := range ck {
			charMap[int(m)] = c.Ints(cv[i])
		}
		// a representative character of each mode
		rep := map[int]int{}
		for m := 0; m < 5; m++ {
			t.check(len(charMap[m]) == 256, "charMap[%s] has %d entries", names[m], len(charMap[m]))
			for ch, v := range charMap[m] {
				if v > 1 && (m != 4 || v > 5) {
					rep[m] = ch
					break
				}
			}
		}
		latchBits := func(a, b int) []bool {
			e := latch[[2]int{a, b}]
			return bitsOf(e&0xFFFF, e>>16)
		}
		// every character code decodes (after latching from Upper) to its character
		for m := 0; m < 5; m++ {
			for ch, v := range charMap[m] {
				if v <= 0 {
					continue
				}
				bits := append(append([]bool{}, latchBits(0, m)...), bitsOf(int(v), width(m))...)
				dec, err := aztecspec.DecodeBits(bits)
				t.check(err == nil && len(dec) == 1 && int(dec[0]) == ch, "charMap[%s][%d] = %d decodes to %v (%v)", names[m], ch, v, dec, err)
			}
		}
		// every latch sequence really ends in the target mode (and the bit count is right): latch
		// Upper->a, a->b, then a character of b
		for a := 0; a < 5; a++ {
			for b := 0; b < 5; b++ {
				bits := append([]bool{}, latchBits(0, a)...)
				bits = append(bits, latchBits(a, b)...)
				bits = append(bits, bitsOf(int(charMap[b][rep[b]]), width(b))...)
				dec, err := aztecspec.DecodeBits(bits)
				t.check(err == nil && len(dec) == 1 && int(dec[0]) == rep[b], "latchTable[%s][%s] = %#x does not lead to mode %s: decoded %v (%v)", names[a], names[b], latch[[2]int{a, b}], names[b], dec, err)
			}
		}
		// shift codes: from a, shift to b for one character, then back in a
		sk, sv := c.MapEntries(must(c.Global("aztec.shiftTable")))
		nshift := 0
		for i, a := range sk {
			bk, bv := c.MapEntries(sv[i])
			for j, b := range bk {
				nshift++
				code := int(c.Int(bv[j]))
				bits := append([]bool{}, latchBits(0, int(a))...)
				bits = append(bits, bitsOf(code, width(int(a)))...)
				bits = append(bits, bitsOf(int(charMap[int(b)][rep[int(b)]]), width(int(b)))...)
				bits = append(bits, bitsOf(int(charMap[int(a)][rep[int(a)]]), width(int(a)))...)
				dec, err := aztecspec.DecodeBits(bits)
				t.check(err == nil && len(dec) == 2 && int(dec[0]) == rep[int(b)] && int(dec[1]) == rep[int(a)], "shiftTable[%s][%s] = %d is not the shift code: decoded %v (%v)", names[a], names[b], code, dec, err)
			}
		}
		t.check(nshift == 6, "shiftTable has %d entries, want 6", nshift)
		// codeword sizes and layer capacities
		ws := c.Ints(must(c.Global("aztec.word_size")))
		t.check(len(ws) == 33, "word_size has %d entries", len(ws))
		for l := 1; l <= 32 && l < len(ws); l++ {
			t.check(int(ws[l]) == aztecspec.WordSize(false, l), "word_size[%d] = %d, ISO 24778 says %d", l, ws[l], aztecspec.WordSize(false, l))
			if l <= 4 {
				t.check(int(ws[l]) == aztecspec.WordSize(true, l), "word_size[%d] = %d, compact needs %d", l, ws[l], aztecspec.WordSize(true, l))
			}
		}
		it := c.ParamType("aztec.totalBitsInLayer", 0)
		for l := 1; l <= 32; l++ {
			for _, compact := range []bool{false, true} {
				if compact && l > 4 {
					continue
				}
				got := c.Int(call1(t, "aztec.totalBitsInLayer", exec.IntV(int64(l), it), exec.BoolV(compact)))
				t.check(int(got) == aztecspec.TotalBits(compact, l), "totalBitsInLayer(%d,%v) = %d, want %d", l, compact, got, aztecspec.TotalBits(compact, l))
			}
		}
	}
	// ---------------------------------------------------------------- PDF417 pattern VALUES (pinned)
	// The value->pattern assignment is ISO 15438's 2787-entry listing, which cannot be re-derived
	// offline. Assumption [A]: the table delivered with the pinned tree IS that listing (it passes
	// every structural rule). The lemma pins its digest, so that any later change of a value - e.g.
	// two entries of one cluster exchanged, which no structural rule can see - is reported.
	tableLemmas["pdf417/pattern-values-pinned"] = func(t *tlCtx) {
		c := t.c
		cw := must(c.Global("pdf417.codewords"))
		h := sha256.New()
		for k := int64(0); k < c.Len(cw); k++ {
			for _, v := range c.Ints(c.Elem(cw, k)) {
				fmt.Fprintf(h, "%d,", v)
			}
			fmt.Fprint(h, ";")
		}
		got := hex.EncodeToString(h.Sum(nil))
		t.check(got == pdfPatternDigest, "codewords table digest %s differs from the pinned ISO 15438 table %s (a pattern value was changed)", got, pdfPatternDigest)
	}
	// ---------------------------------------------------------------- PDF417 text sub-mode tables
	tableLemmas["pdf417/textmaps"] = func(t *tlCtx) {
		c := t.c
		mk, mv := c.MapEntries(must(c.Global("pdf417.mixedMap")))
		t.check(len(mk) == 25+1 || len(mk) == 26 || len(mk) == 25, "mixedMap has %d entries", len(mk))
		for i, k := range mk {
			v := int(c.Int(mv[i]))
			// alpha --ml(28)--> mixed, value v, then pad with al (28 in mixed = latch alpha)
			dec, err := pdfspec.DecodeCodewords([]int{28*30 + v})
			t.check(v >= 0 && v < 25 || v == 26, "mixedMap[%q] = %d collides with a latch/shift value", rune(k), v)
			t.check(err == nil && len(dec) == 1 && int64(dec[0]) == k, "mixedMap[%q] = %d decodes to %q (%v)", rune(k), v, dec, err)
		}
		pk, pv := c.MapEntries(must(c.Global("pdf417.punctMap")))
		for i, k := range pk {
			v := int(c.Int(pv[i]))
			// alpha: ps(29) then punctuation value v
			dec, err := pdfspec.DecodeCodewords([]int{29*30 + v})
			t.check(v >= 0 && v < 29, "punctMap[%q] = %d collides with the latch value 29", rune(k), v)
			t.check(err == nil && len(dec) == 1 && int64(dec[0]) == k, "punctMap[%q] = %d decodes to %q (%v)", rune(k), v, dec, err)
		}
		t.check(len(pk) == 29, "punctMap has %d entries, ISO 15438 table 5 has 29", len(pk))
		for name, w := range map[string]int64{"latch_to_text": 900, "latch_to_byte_padded": 901, "latch_to_numeric": 902, "latch_to_byte": 924, "shift_to_byte": 913, "padding_codeword": 900} {
			t.check(c.Int(must(c.Global("pdf417."+name))) == w, "%s = %d, want %d", name, c.Int(must(c.Global("pdf417."+name))), w)
		}
	}
}

var pdfPatternDigest = "cac8c67618a033eff842154174a51d50152b2b1afab35f2a00bd73ca2a804da4"
