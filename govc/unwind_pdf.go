package main

// [C] complete unwinding of pdf417.EncodeWithColor for a fixed (number of data codewords n,
// security level): compaction and check-word computation are abstracted to fresh codewords, the
// rest is the real code. Checked per configuration: acceptance, dimensions (limits, padding
// less than one row: C13), length descriptor, pad codewords, number of check words (C12), row
// indicators per ISO 15438 (independent formulas in verif/spec/pdfspec), cluster per row,
// start/stop patterns and every module of the rendered rows.

import (
	"fmt"
	"time"

	"verif/govc/exec"
	"verif/govc/term"
	"verif/spec/pdfspec"
)

func pdfFits(total int) bool { // library limits: 2..30 columns, 2..30 rows
	for c := 2; c <= 30; c++ {
		r := (total + c - 1) / c
		if r < 2 {
			r = 2
		}
		if r <= 30 && c*r >= total {
			return true
		}
	}
	return false
}

func unwindPDF(cc *checkCtx, n, level int) []oblRes {
	label := fmt.Sprintf("config/pdf417.EncodeWithColor[n=%d,level=%d]", n, level)
	t0 := time.Now()
	c := exec.NewConc(cc.P)
	c.X.LogCalls = true
	c.SetConfig("n", int64(n))
	var out []oblRes
	nfail, compared := 0, 0
	bad := func(name, msg string) {
		nfail++
		if nfail <= 5 {
			out = append(out, oblRes{Name: label + "/" + name, Kind: "config", Proved: false, Output: msg})
		}
	}
	err := c.Try(func() {
		ref := "pdf417.EncodeWithColor"
		data := c.SymParam(ref, 0, "data")
		color := c.SymParam(ref, 2, "color")
		rets, e := c.CallRets(ref, data, exec.IntV(int64(level), c.ParamType(ref, 1)), color)
		if e != nil {
			panic(&exec.ExecError{Msg: e.Error()})
		}
		k := 0
		if level <= 8 {
			k = 1 << uint(level+1)
		}
		total := n + 1 + k
		accept := level <= 8 && pdfFits(total)
		var succ *exec.Ret
		for i := range rets {
			r := &rets[i]
			errTag, _ := r.C.IfaceParts(r.Vals[1])
			resTag, _ := r.C.IfaceParts(r.Vals[0])
			if errTag == term.I(0) {
				succ = r
				if resTag == term.I(0) {
					bad("result-xor-error", "success path returns a nil barcode")
				}
				continue
			}
			if !errTag.IsConst() || resTag != term.I(0) {
				bad("result-xor-error", "error path does not return (nil, non-nil error)")
			}
		}
		if (succ != nil) != accept {
			bad("accept-iff-fits", fmt.Sprintf("accepted=%v but %d codewords (n+1+%d) fit the library's 30x30 limit: %v", succ != nil, total, k, accept))
		}
		if succ == nil {
			return
		}
		c = succ.C
		obj := c.PtrAs(succ.Vals[0], "*pdf417.pdfBarcode")
		rt, _ := c.IfaceParts(succ.Vals[0])
		if rt != term.I(c.TypeID("*pdf417.pdfBarcode")) {
			bad("dynamic-type", "result is not a *pdfBarcode")
			return
		}
		// content and colour
		gl, ga := c.StrParts(c.Field(obj, "data"))
		dl, da := c.StrParts(data)
		if gl != dl || ga != da {
			bad("content", "Content() is not the input string")
		}
		got, want := c.Flat(c.Field(obj, "color")), c.Flat(color)
		for i := range got {
			if got[i] != want[i] {
				bad("color", "result does not carry the caller's colour scheme")
				break
			}
		}
		width := int(c.Int(c.Field(obj, "width")))
		if (width-1)%17 != 0 {
			bad("width", fmt.Sprintf("width %d is not 17*(cols+4)+1", width))
			return
		}
		cols := (width-1)/17 - 4
		bl := c.Field(obj, "code")
		count := int(c.Int(c.Field(bl, "count")))
		if cols < 1 || count%width != 0 {
			bad("rows", fmt.Sprintf("%d modules are not a whole number of rows of %d", count, width))
			return
		}
		rows := count / width
		// C13 / C10: limits and less than one row of padding
		if cols < 2 || cols > 30 || rows < 2 || rows > 30 {
			bad("limits", fmt.Sprintf("%d columns x %d rows is outside the 2..30 limits", cols, rows))
		}
		pad := rows*cols - total
		if pad < 0 || pad >= cols {
			bad("padding", fmt.Sprintf("%d x %d symbol for %d codewords: padding %d is not in [0, cols)", cols, rows, total, pad))
			return
		}
		// the abstract stages
		var dataCW, ecCW exec.Val
		for _, cr := range c.X.Calls {
			switch cr.Fn {
			case "pdf417.highlevelEncode":
				dataCW = cr.Res.(exec.VTuple)[0]
			case "pdf417.(securitylevel).Compute":
				ecCW = cr.Res
				// what is protected: length descriptor, data, padding
				el := cr.ArgElems[1]
				if len(el) != n+1+pad {
					bad("rs-input", fmt.Sprintf("check words are computed over %d codewords, want %d", len(el), n+1+pad))
				} else {
					if el[0] != term.I(int64(n+1+pad)) {
						bad("length-descriptor", fmt.Sprintf("symbol length descriptor is %s, want %d", el[0], n+1+pad))
					}
					for i := 0; i < n; i++ {
						if el[1+i] != c.Term(c.Elem(dataCW, int64(i))) {
							bad("rs-input", fmt.Sprintf("codeword %d handed to Compute is not data codeword %d", 1+i, i))
							break
						}
					}
					for i := 0; i < pad; i++ {
						if el[1+n+i] != term.I(900) {
							bad("pad-codeword", fmt.Sprintf("pad codeword %d is %s, want 900", i, el[1+n+i]))
							break
						}
					}
				}
				if c.Int(cr.Args[0]) != int64(level) {
					bad("level", "check words are computed for a different security level")
				}
			}
		}
		if dataCW == nil || ecCW == nil || c.Len(ecCW) != int64(k) {
			bad("stages", "highlevelEncode / Compute not called as expected")
			return
		}
		seq := []*T{term.I(int64(n + 1 + pad))}
		for i := 0; i < n; i++ {
			seq = append(seq, c.Term(c.Elem(dataCW, int64(i))))
		}
		for i := 0; i < pad; i++ {
			seq = append(seq, term.I(900))
		}
		for i := 0; i < k; i++ {
			seq = append(seq, c.Term(c.Elem(ecCW, int64(i))))
		}
		model := c.MathArr(c.Field(bl, "model"))
		tbl := must(c.Global("pdf417.codewords"))
		bitOf := func(v *T, w, b int) *T { // bit b (0 = first drawn) of a w-bit value
			sh := int64(w - 1 - b)
			return term.Eq(term.EMod(term.EDiv(v, term.I(1<<uint(sh))), term.I(2)), term.I(1))
		}
		var conj []*T
		for r := 0; r < rows; r++ {
			cluster := r % 3
			row := c.Elem(tbl, int64(cluster))
			pat := func(cw *T) *T { return c.Term(c.ElemT(row, cw)) }
			var vals []*T
			var widths []int
			add := func(v *T, w int) { vals = append(vals, v); widths = append(widths, w) }
			add(term.I(pdfspec.StartPattern), 17)
			add(pat(term.I(int64(pdfspec.LeftIndicator(r, rows, cols, level)))), 17)
			for j := 0; j < cols; j++ {
				add(pat(seq[r*cols+j]), 17)
			}
			add(pat(term.I(int64(pdfspec.RightIndicator(r, rows, cols, level)))), 17)
			add(term.I(pdfspec.StopPattern), 18)
			pos := r * width
			for j, v := range vals {
				for b := 0; b < widths[j]; b++ {
					want := bitOf(v, widths[j], b)
					got := term.Select(model, term.I(int64(pos)))
					pos++
					compared++
					if got != want {
						conj = append(conj, term.Eq(got, want))
						if len(conj) >= 200 {
							c.Oblige("config", fmt.Sprintf("%s/modules-upto(row %d,code %d)", label, r, j), term.True, term.And(conj...))
							conj = nil
						}
					}
				}
			}
		}
		if len(conj) > 0 {
			c.Oblige("config", label+"/modules-rest", term.True, term.And(conj...))
		}
	})
	if err != nil {
		return []oblRes{{Name: label + "/unwinding", Kind: "config", Proved: false, Output: err.Error()}}
	}
	out = append(out, dischargeConc(cc, c, label)...)
	if nfail == 0 {
		out = append(out, oblRes{Name: label + "/symbol", Kind: "config", Proved: true, Solver: "syntactic+smt", Size: compared, Seconds: time.Since(t0).Seconds()})
	}
	return out
}

var unwPDF = &Unwinder{
	Name: "pdf",
	Jobs: func(tier string) []string {
		var jobs []string
		if tier == "thorough" {
			for lv := 0; lv <= 9; lv++ {
				for n := 0; n <= 905; n++ {
					if n+1+(2<<uint(lv)) > 910 && lv <= 8 {
						break
					}
					jobs = append(jobs, fmt.Sprintf("n:%d:%d", n, lv))
					if lv == 9 && n >= 2 {
						break
					}
				}
			}
			return jobs
		}
		for lv := 0; lv <= 9; lv++ {
			k := 2 << uint(lv)
			cand := []int{0, 1, 2, 3, 4, 5, 7, 8, 11, 17, 26, 27, 28, 29, 30, 57, 58, 59, 60, 61, 88, 89, 90, 91, 200, 447, 448, 449, 450, 451, 897 - k, 898 - k, 899 - k, 900 - k, 901 - k}
			for i, n := range cand {
				if n < 0 || (lv == 9 && i > 1) {
					continue
				}
				if (i+lv)%3 != 0 && n > 5 && n < 890-k { // thin out the middle
					continue
				}
				jobs = append(jobs, fmt.Sprintf("n:%d:%d", n, lv))
			}
		}
		return jobs
	},
	Run: func(c *checkCtx, job string) []oblRes {
		var n, lv int
		if _, err := fmt.Sscanf(job, "n:%d:%d", &n, &lv); err != nil {
			return []oblRes{{Name: "config/pdf/" + job, Kind: "config", Output: "bad job"}}
		}
		return unwindPDF(c, n, lv)
	},
}
