package exec

import (
	"go/token"

	"golang.org/x/tools/go/ssa"
)

// Channels and goroutines (DESIGN §2.9). Placeholder: filled in by the coroutine scheduler.
type coroSched struct{}

func (c *coroSched) finish(x *Exec) {}

func (x *Exec) doMakeChan(st *State, ins *ssa.MakeChan) {
	x.fail("channels are outside the subset supported in this mode")
}
func (x *Exec) doSend(st *State, ins *ssa.Send) bool {
	x.fail("channel send outside the supported subset")
	return false
}
func (x *Exec) doRecv(st *State, ins *ssa.UnOp) {
	x.fail("channel receive outside the supported subset")
}
func (x *Exec) doGo(st *State, ins *ssa.Go) { x.fail("go statement outside the supported subset") }
func (x *Exec) doClose(st *State, ch Val)   { x.fail("close outside the supported subset") }

func (x *Exec) lockAcquired(st *State, m *T)                {}
func (x *Exec) lockReleased(st *State, m *T, pos token.Pos) {}
