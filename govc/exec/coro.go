package exec

import (
	"fmt"
	"go/token"
	"go/types"

	"golang.org/x/tools/go/ssa"

	"verif/govc/term"
)

// Goroutines and channels (DESIGN §2.9), unwinding mode only.
//
// The library's goroutines are private producer/consumer pipelines over unbuffered channels.
// They are executed as coroutines under one deterministic schedule: a goroutine runs only when
// another one needs a value from it (lazy generator order), and parks at its next send. For
// data-race-free programs every schedule yields the same values; race freedom between the
// coroutines is checked dynamically (chan/frame): between two synchronisation points no
// coroutine may write a location another one has read or written since its own last
// synchronisation point. A receive that can never be served is a deadlock (chan/noblock); a
// goroutine still parked when the function under verification returns is a leak (chan/drain).

type chanObj struct {
	native func() (Val, bool) // driver-supplied producer (next value, ok); nil for real goroutines
	id     int64
	elem   types.Type
	closed bool
	sender *coro // parked on a send to this channel
	val    Val
	recvs  int
	sends  int
}

type coro struct {
	id      int
	name    string
	frames  []*Frame
	resume  chan struct{}
	yield   chan struct{}
	done    bool
	started bool
	parked  *chanObj // channel it is parked on (send)
	start   func()
	failure interface{}
}

type coroSched struct {
	chans   map[int64]*chanObj
	coros   []*coro
	cur     *coro // nil = main thread
	nextID  int64
	leaked  []string
	mainFr  []*Frame
	created int
}

func (x *Exec) sched() *coroSched {
	if x.coro == nil {
		x.coro = &coroSched{chans: map[int64]*chanObj{}, nextID: 1}
	}
	return x.coro
}

func (x *Exec) needUnwind(what string) {
	if x.Mode == ModeProof {
		x.fail("%s: goroutines and channels are only supported while unwinding a finite configuration (DESIGN §2.9)", what)
	}
}

// ---- proof mode: a channel is an object with ghost state (the sequence of values sent so far and
// the closed flag). A goroutine started with `go` is verified separately against its own
// contract; at the go statement its precondition is checked and whatever it may write is
// forgotten (it runs concurrently). What a receiver sees is the sent sequence in order (channel
// FIFO semantics, trusted).
const (
	clChanSent   = "f:chan.$sent"
	clChanN      = "f:chan.$nsent"
	clChanClosed = "f:chan.$closed"
	clChanRecv   = "f:chan.$nrecv"
)

var chanSentSort = term.Arr(term.Int, term.Int)

func chanGhostSort(name string) (string, *term.Sort) {
	switch name {
	case "sent":
		return clChanSent, chanSentSort
	case "nsent":
		return clChanN, term.Int
	case "closed":
		return clChanClosed, term.Bool
	case "nrecv":
		return clChanRecv, term.Int
	}
	return "", nil
}

func (x *Exec) chanGet(st *State, class string, so *term.Sort, ref *T) *T {
	return term.Select(x.heapArr(st, class, so), ref)
}

func (x *Exec) chanSet(st *State, class string, so *term.Sort, ref, v *T) {
	st.Heap[class] = term.Store(x.heapArr(st, class, so), ref, v)
}

func (x *Exec) proofMakeChan(st *State, ins *ssa.MakeChan) {
	ref := x.allocRef(st)
	x.chanSet(st, clChanSent, chanSentSort, ref, term.ConstArr(chanSentSort, term.I(0)))
	x.chanSet(st, clChanN, term.Int, ref, term.I(0))
	x.chanSet(st, clChanClosed, term.Bool, ref, term.False)
	x.chanSet(st, clChanRecv, term.Int, ref, term.I(0))
	x.set(st, ins, VT{ref, ins.Type()})
}

func (x *Exec) proofSend(st *State, ins *ssa.Send) {
	ref := x.getT(st, ins.Chan)
	v, ok := scalar(x.get(st, ins.X))
	if !ok || v.Sort != term.Int {
		x.fail("proof-mode channels carry integer-like elements only")
	}
	x.oblige(st, "nil", "send on nil channel", term.Ne(ref, term.I(0)), ins.Pos())
	x.oblige(st, "unreachable", "send on closed channel", term.Not(x.chanGet(st, clChanClosed, term.Bool, ref)), ins.Pos())
	x.oblige(st, "frame", "send", x.allowed(clChanSent, ref, nil), ins.Pos())
	n := x.chanGet(st, clChanN, term.Int, ref)
	x.chanSet(st, clChanSent, chanSentSort, ref, term.Store(x.chanGet(st, clChanSent, chanSentSort, ref), n, v))
	x.chanSet(st, clChanN, term.Int, ref, term.Add(n, term.I(1)))
}

func (x *Exec) proofClose(st *State, chv Val) {
	ref, _ := scalar(chv)
	x.oblige(st, "nil", "close of nil channel", term.Ne(ref, term.I(0)), token.NoPos)
	x.oblige(st, "unreachable", "close of closed channel", term.Not(x.chanGet(st, clChanClosed, term.Bool, ref)), token.NoPos)
	x.oblige(st, "frame", "close", x.allowed(clChanClosed, ref, nil), token.NoPos)
	x.chanSet(st, clChanClosed, term.Bool, ref, term.True)
}

// proofGo: the goroutine's function must be under contract; its precondition is an obligation
// here, its effects (everything it may write) become unknown, its postcondition is NOT assumed.
func (x *Exec) proofGo(st *State, ins *ssa.Go) {
	if ins.Call.IsInvoke() {
		x.fail("go on an interface method is not supported")
	}
	var fn *ssa.Function
	var binds []Val
	switch v := ins.Call.Value.(type) {
	case *ssa.Function:
		fn = v
	case *ssa.MakeClosure:
		fn = v.Fn.(*ssa.Function)
		for _, b := range v.Bindings {
			binds = append(binds, x.get(st, b))
		}
	default:
		x.fail("go on a dynamic function value is not supported in proof mode")
	}
	spec := x.P.Specs[fn]
	if spec == nil {
		x.fail("go %s: the goroutine's function has no contract", fnName(fn))
	}
	args := make([]Val, len(ins.Call.Args))
	for i, a := range ins.Call.Args {
		args[i] = x.get(st, a)
	}
	x.pendingBinds = binds
	// the contract is applied as for a call: precondition and frame are obligations, the
	// goroutine's effects are those of its completed run (see proofRecv for why that is what its
	// single consumer observes); termination of the goroutine is its own variant obligations
	x.applyContract(st, fn, spec, fn.Signature, args, ins.Pos(), "go "+fnName(fn))
}

func (x *Exec) doMakeChan(st *State, ins *ssa.MakeChan) {
	if x.Mode == ModeProof {
		x.proofMakeChan(st, ins)
		return
	}
	x.needUnwind("make(chan)")
	if sz, ok := x.getT(st, ins.Size).Int64(); !ok || sz != 0 {
		x.fail("only unbuffered channels are modelled")
	}
	s := x.sched()
	ref := x.allocRef(st)
	id, ok := ref.Int64()
	if !ok {
		x.fail("channel created under a symbolic allocation counter")
	}
	s.chans[id] = &chanObj{id: id, elem: ins.Type().Underlying().(*types.Chan).Elem()}
	x.set(st, ins, VT{ref, ins.Type()})
}

func (x *Exec) chanOf(v Val) *chanObj {
	t, ok := v.(VT)
	if !ok {
		x.fail("channel value expected")
	}
	id, ok := t.T.Int64()
	if !ok {
		x.fail("channel handle is symbolic")
	}
	ch := x.sched().chans[id]
	if ch == nil {
		x.fail("operation on an unknown or nil channel")
	}
	return ch
}

func (x *Exec) doGo(st *State, ins *ssa.Go) {
	if x.Mode == ModeProof {
		x.proofGo(st, ins)
		return
	}
	x.needUnwind("go statement")
	s := x.sched()
	args := make([]Val, len(ins.Call.Args))
	for i, a := range ins.Call.Args {
		args[i] = x.get(st, a)
	}
	if ins.Call.IsInvoke() {
		x.fail("go on an interface method is not supported")
	}
	fv, ok := x.get(st, ins.Call.Value).(VFunc)
	if !ok {
		x.fail("go on a non-function value")
	}
	id, ok := fv.Fn.Int64()
	if !ok {
		x.fail("go on a symbolic function value")
	}
	fn := x.P.funcByID(id)
	var binds []Val
	for i, fvv := range fn.FreeVars {
		binds = append(binds, x.loadAt(st, fmt.Sprintf("c:%s", fnName(fn)), fmt.Sprintf(".%d", i), fvv.Type(), fv.Env, nil))
	}
	s.created++
	c := &coro{id: s.created, name: fnName(fn), resume: make(chan struct{}), yield: make(chan struct{})}
	c.start = func() {
		defer func() {
			if r := recover(); r != nil {
				c.failure = r
			}
			c.done = true
			c.yield <- struct{}{}
		}()
		<-c.resume
		st.Frames = nil
		nst, _ := x.runFunction(st, fn, args, binds)
		if nst != nil && nst != st {
			*st = *nst
		}
	}
	s.coros = append(s.coros, c)
}

// switchTo runs coroutine c until it parks or finishes. The caller's frames are restored afterwards.
func (x *Exec) switchTo(st *State, c *coro) {
	s := x.sched()
	saved := st.Frames
	prev := s.cur
	s.cur = c
	if !c.started {
		c.started = true
		go c.start()
	} else {
		st.Frames = c.frames
	}
	c.resume <- struct{}{}
	<-c.yield
	if !c.done {
		c.frames = st.Frames
	}
	st.Frames = saved
	s.cur = prev
	if c.failure != nil {
		f := c.failure
		c.failure = nil
		panic(f)
	}
}

// park suspends the current coroutine until it is resumed.
func (x *Exec) park(st *State) {
	c := x.sched().cur
	if c == nil {
		x.fail("the function under verification blocks forever on a channel send (nobody can receive)")
	}
	c.yield <- struct{}{}
	<-c.resume
}

func (x *Exec) doSend(st *State, ins *ssa.Send) bool {
	if x.Mode == ModeProof {
		x.proofSend(st, ins)
		return true
	}
	x.needUnwind("channel send")
	ch := x.chanOf(x.get(st, ins.Chan))
	if ch.closed {
		x.oblige(st, "unreachable", "send on closed channel", term.False, ins.Pos())
		return false
	}
	s := x.sched()
	if s.cur == nil {
		x.fail("send from the main thread of the function under verification is not modelled")
	}
	if ch.sender != nil {
		x.fail("two goroutines send on the same channel (not a single-producer pipeline)")
	}
	ch.sender = s.cur
	ch.val = x.get(st, ins.X)
	ch.sends++
	s.cur.parked = ch
	x.park(st)
	return true
}

func (x *Exec) doClose(st *State, chv Val) {
	if x.Mode == ModeProof {
		x.proofClose(st, chv)
		return
	}
	x.needUnwind("close")
	ch := x.chanOf(chv)
	if ch.closed {
		x.oblige(st, "unreachable", "close of closed channel", term.False, token.NoPos)
	}
	ch.closed = true
}

// proofRecv: the k-th receive returns the k-th value of the channel's sent sequence (ghost counter
// nrecv); when everything sent has been received the channel must be closed (otherwise the
// receive would block for ever: obligation chan/noblock) and the zero value / ok == false is
// returned. The producer's contract has been applied at the go statement (its effects on the
// channel ghost are those of its completed run: the sent sequence only grows, so this is what
// the receiver sees in every schedule of a single-producer pipeline).
func (x *Exec) proofRecv(st *State, ins *ssa.UnOp) {
	ref := x.getT(st, ins.X)
	elem := ins.X.Type().Underlying().(*types.Chan).Elem()
	if cs := comps(elem); len(cs) != 1 || cs[0].sort != term.Int {
		x.fail("proof-mode channels carry integer-like elements only")
	}
	x.oblige(st, "nil", "receive from nil channel", term.Ne(ref, term.I(0)), ins.Pos())
	n := x.chanGet(st, clChanN, term.Int, ref)
	r := x.chanGet(st, clChanRecv, term.Int, ref)
	avail := term.Lt(r, n)
	x.oblige(st, "chan", "noblock: every value sent has been received and the channel is not closed", term.Or(avail, x.chanGet(st, clChanClosed, term.Bool, ref)), ins.Pos())
	x.oblige(st, "frame", "receive", x.allowed(clChanRecv, ref, nil), ins.Pos())
	v := term.Ite(avail, term.Select(x.chanGet(st, clChanSent, chanSentSort, ref), r), term.I(0))
	x.chanSet(st, clChanRecv, term.Int, ref, term.Ite(avail, term.Add(r, term.I(1)), r))
	val := mkVal(elem, []*T{v})
	if ins.CommaOk {
		x.set(st, ins, VTuple{val, VT{avail, types.Typ[types.Bool]}})
	} else {
		x.set(st, ins, val)
	}
}

func (x *Exec) doRecv(st *State, ins *ssa.UnOp) {
	if x.Mode == ModeProof {
		x.proofRecv(st, ins)
		return
	}
	x.needUnwind("channel receive")
	ch := x.chanOf(x.get(st, ins.X))
	s := x.sched()
	if ch.native != nil {
		v, ok := ch.native()
		if !ok {
			v = zeroVal(ch.elem)
		} else {
			ch.recvs++
		}
		if ins.CommaOk {
			x.set(st, ins, VTuple{v, VT{term.B(ok), types.Typ[types.Bool]}})
		} else {
			x.set(st, ins, v)
		}
		return
	}
	for ch.sender == nil && !ch.closed {
		// let other goroutines run until one serves this channel
		progressed := false
		for _, c := range s.coros {
			if c.done || c == s.cur || (c.parked != nil) {
				continue
			}
			x.switchTo(st, c)
			progressed = true
			if ch.sender != nil || ch.closed {
				break
			}
		}
		if !progressed {
			x.oblige(st, "chan", "noblock: receive that no goroutine can serve (deadlock)", term.False, ins.Pos())
			x.fail("deadlock: receive on a channel that no live goroutine will send on or close")
		}
	}
	var v Val
	okv := term.True
	if ch.sender != nil {
		v = ch.val
		snd := ch.sender
		ch.sender = nil
		ch.val = nil
		snd.parked = nil
		ch.recvs++
	} else {
		v = zeroVal(ch.elem)
		okv = term.False
	}
	if ins.CommaOk {
		x.set(st, ins, VTuple{v, VT{okv, types.Typ[types.Bool]}})
	} else {
		x.set(st, ins, v)
	}
}

// finish is called when the function under verification has returned: every goroutine it
// started must be able to run to completion without anybody receiving any more.
func (c *coroSched) finish(x *Exec) {}

// DrainCheck resumes all goroutines after the main function returned and reports those that can
// never finish (parked forever on a send: a goroutine leak).
func (x *Exec) DrainCheck(st *State) []string {
	if x.coro == nil {
		return nil
	}
	s := x.coro
	var leaks []string
	for changed := true; changed; {
		changed = false
		for _, c := range s.coros {
			if c.done || c.parked != nil {
				continue
			}
			x.switchTo(st, c)
			changed = true
		}
	}
	for _, c := range s.coros {
		if !c.done {
			leaks = append(leaks, fmt.Sprintf("goroutine %s is still blocked in a channel send after the call returned", c.name))
		}
	}
	return leaks
}

func (x *Exec) lockAcquired(st *State, m *T)                {}
func (x *Exec) lockReleased(st *State, m *T, pos token.Pos) {}

// NativeChan creates a channel fed by a driver-supplied generator (used to hand a symbolic byte
// stream to code that consumes a <-chan). recvs reports how many values were taken.
func (c *Conc) NativeChan(elem types.Type, vals []Val) (ch Val, taken func() int) {
	s := c.X.sched()
	ref := c.X.allocRef(c.St)
	id, _ := ref.Int64()
	i := 0
	co := &chanObj{id: id, elem: elem}
	co.native = func() (Val, bool) {
		if i >= len(vals) {
			return nil, false
		}
		v := vals[i]
		i++
		return v, true
	}
	s.chans[id] = co
	return VT{ref, types.NewChan(types.RecvOnly, elem)}, func() int { return i }
}
