package exec

import (
	"go/types"
	"unicode/utf8"

	"golang.org/x/tools/go/ssa"

	"verif/govc/term"
)

var (
	arrII     = term.Arr(term.Int, term.Int)
	fUtf8Rune = term.DeclareFun("utf8_rune", []*term.Sort{arrII, term.Int, term.Int}, term.Int)
	fUtf8Size = term.DeclareFun("utf8_size", []*term.Sort{arrII, term.Int, term.Int}, term.Int)
	fRuneLen  = term.DeclareFun("rune_utf8len", []*term.Sort{term.Int}, term.Int)
)

// constStr extracts the Go string when length and all bytes are constants.
func constStr(s VStr) (string, bool) {
	n, ok := s.Len.Int64()
	if !ok || n > 1<<16 {
		return "", false
	}
	b := make([]byte, n)
	for i := int64(0); i < n; i++ {
		c, ok := term.Select(s.Arr, term.I(i)).Int64()
		if !ok {
			return "", false
		}
		b[i] = byte(c)
	}
	return string(b), true
}

func (x *Exec) strConcat(a, b VStr) VStr {
	if sa, ok := constStr(a); ok {
		if sb, ok := constStr(b); ok {
			return x.strConst(sa + sb)
		}
	}
	if a.Len == term.I(0) {
		return b
	}
	if b.Len == term.I(0) {
		return a
	}
	// short constant-length right operand appended to anything: explicit stores
	if lb, ok := b.Len.Int64(); ok && lb <= 8 {
		arr := a.Arr
		for i := int64(0); i < lb; i++ {
			arr = term.Store(arr, term.Add(a.Len, term.I(i)), term.Select(b.Arr, term.I(i)))
		}
		return VStr{term.Add(a.Len, b.Len), arr}
	}
	cat := term.Fresh("strcat", arrII)
	j := term.Bound("j", term.Int)
	x.assumeOnce(term.ForallPat([]*T{j},
		term.Eq(term.Select(cat, j), term.Ite(term.Lt(j, a.Len), term.Select(a.Arr, j), term.Select(b.Arr, term.Sub(j, a.Len)))),
		[][]*T{{term.Select(cat, j)}}))
	return VStr{term.Add(a.Len, b.Len), cat}
}

func (x *Exec) strEq(a, b VStr) *T {
	if sa, ok := constStr(a); ok {
		if sb, ok := constStr(b); ok {
			return term.B(sa == sb)
		}
	}
	if _, ok := a.Len.Int64(); ok {
		a, b = b, a
	}
	if n, ok := b.Len.Int64(); ok && n <= 64 {
		cs := []*T{term.Eq(a.Len, b.Len)}
		for i := int64(0); i < n; i++ {
			cs = append(cs, term.Eq(term.Select(a.Arr, term.I(i)), term.Select(b.Arr, term.I(i))))
		}
		return term.And(cs...)
	}
	j := term.Bound("j", term.Int)
	return term.And(term.Eq(a.Len, b.Len), term.Forall([]*T{j},
		term.Imp(term.And(term.Le(term.I(0), j), term.Lt(j, a.Len)), term.Eq(term.Select(a.Arr, j), term.Select(b.Arr, j)))))
}

// decodeRune models utf8.DecodeRuneInString(s[pos:]).
func (x *Exec) decodeRune(s VStr, pos *T) (r, size *T) {
	b0 := x.strByte(s, pos)
	if c, ok := b0.Int64(); ok && c < 0x80 {
		return b0, term.I(1)
	}
	if str, ok := constStr(s); ok {
		if p, ok := pos.Int64(); ok && p < int64(len(str)) {
			rr, sz := utf8.DecodeRuneInString(str[p:])
			return term.I(int64(rr)), term.I(int64(sz))
		}
	}
	ascii := term.Lt(b0, term.I(0x80))
	ur := term.App(fUtf8Rune, s.Arr, pos, s.Len)
	us := term.App(fUtf8Size, s.Arr, pos, s.Len)
	x.assumeOnce(term.Imp(term.And(term.Le(term.I(0), pos), term.Lt(pos, s.Len)),
		term.And(term.Le(term.I(0x80), ur), term.Le(ur, term.I(0x10FFFF)), term.Le(term.I(1), us), term.Le(us, term.I(4)), term.Le(term.Add(pos, us), s.Len))))
	return term.Ite(ascii, b0, ur), term.Ite(ascii, term.I(1), us)
}

func (x *Exec) doRange(st *State, ins *ssa.Range) {
	switch v := x.get(st, ins.X).(type) {
	case VStr:
		x.set(st, ins, VRange{Str: &v, Pos: term.I(0)})
	case VT:
		mt := ins.X.Type().Underlying().(*types.Map)
		x.set(st, ins, VRange{Map: v.T, Pos: term.I(0), MapT: mt, Vis: term.ConstArr(term.Arr(term.Int, term.Bool), term.False)})
	default:
		x.fail("range over %T", v)
	}
}

func (x *Exec) doNext(st *State, ins *ssa.Next) {
	it := x.get(st, ins.Iter).(VRange)
	if it.Str != nil {
		s := *it.Str
		ok := term.Lt(it.Pos, s.Len)
		r, size := x.decodeRune(s, it.Pos)
		x.set(st, ins, VTuple{VT{ok, types.Typ[types.Bool]}, VT{it.Pos, types.Typ[types.Int]}, VT{r, types.Typ[types.Rune]}})
		nit := it
		nit.Pos = term.Ite(ok, term.Add(it.Pos, size), it.Pos)
		x.set(st, ins.Iter, nit)
		return
	}
	x.mapNext(st, ins, it)
}

func (x *Exec) doConvert(st *State, ins *ssa.Convert) {
	from, to := ins.X.Type(), ins.Type()
	v := x.get(st, ins.X)
	switch {
	case isInteger(from) && isInteger(to):
		x.set(st, ins, VT{x.convertInt(st, v.(VT).T, from, to, ins.Pos()), to})
	case isInteger(from) && isFloat(to):
		x.set(st, ins, VFlt{N: v.(VT).T, D: term.I(1)})
	case isFloat(from) && isFloat(to):
		x.set(st, ins, v)
	case isFloat(from) && isInteger(to):
		x.oblige(st, "fnan", "integer conversion of a non-finite float", term.Ne(v.(VFlt).D, term.I(0)), ins.Pos())
		r := fltTrunc(v.(VFlt))
		if lo, hi, ok := intRange(to); ok && !r.IsConst() && x.Mode != ModeInit {
			x.oblige(st, "conv", "float->"+typeKey(to), term.And(term.Le(lo, r), term.Le(r, hi)), ins.Pos())
		}
		x.set(st, ins, VT{r, to})
	case isInteger(from) && isString(to): // string(rune)
		x.set(st, ins, x.runeToStr(v.(VT).T))
	case isString(from) && isByteSlice(to):
		s := v.(VStr)
		ref := x.allocRef(st)
		a := x.heapArr(st, "e:uint8", term.Int)
		st.Heap["e:uint8"] = term.Store(a, ref, s.Arr)
		x.set(st, ins, VSlice{ref, term.I(0), s.Len, s.Len, to})
	case isByteSlice(from) && isString(to):
		sl := v.(VSlice)
		arr := term.Select(x.heapArr(st, "e:uint8", term.Int), sl.Ref)
		if v, ok := x.initObj("e:uint8", sl.Ref); ok {
			arr = v
		}
		x.set(st, ins, x.substr(VStr{term.Add(sl.Off, sl.Len), arr}, sl.Off, term.Add(sl.Off, sl.Len)))
	case isString(from) && isRuneSlice(to):
		x.set(st, ins, x.strToRunes(st, v.(VStr), to))
	case isRuneSlice(from) && isString(to):
		sl := v.(VSlice)
		if n, ok := sl.Len.Int64(); ok && n == 1 {
			r := x.loadAt(st, "e:int32", "", types.Typ[types.Rune], sl.Ref, sl.Off).(VT).T
			x.set(st, ins, x.runeToStr(r))
			return
		}
		res := freshVal("runes2str", to).(VStr)
		x.assumeTyped(st, res, to)
		x.note("string([]rune) of symbolic length modelled as an unconstrained string")
		x.set(st, ins, res)
	default:
		if types.Identical(from.Underlying(), to.Underlying()) {
			x.set(st, ins, retype(v, to))
			return
		}
		if _, ok := to.Underlying().(*types.Pointer); ok {
			x.set(st, ins, retype(v, to))
			return
		}
		x.fail("unsupported conversion %s -> %s", from, to)
	}
}

func isByteSlice(t types.Type) bool {
	s, ok := t.Underlying().(*types.Slice)
	if !ok {
		return false
	}
	b, ok := s.Elem().Underlying().(*types.Basic)
	return ok && b.Kind() == types.Uint8
}
func isRuneSlice(t types.Type) bool {
	s, ok := t.Underlying().(*types.Slice)
	if !ok {
		return false
	}
	b, ok := s.Elem().Underlying().(*types.Basic)
	return ok && b.Kind() == types.Int32
}

func (x *Exec) runeToStr(r *T) VStr {
	if c, ok := r.Int64(); ok {
		if c < 0 || c > 0x10FFFF {
			c = 0xFFFD
		}
		return x.strConst(string(rune(c)))
	}
	if lo, hi := term.Bounds(r); lo != nil && hi != nil && lo.Sign() >= 0 && hi.Int64() < 0x80 {
		return VStr{term.I(1), term.Store(term.ConstArr(arrII, term.I(0)), term.I(0), r)}
	}
	ascii := term.And(term.Le(term.I(0), r), term.Lt(r, term.I(0x80)))
	n := term.App(fRuneLen, r)
	arr := term.Fresh("runestr", arrII)
	x.assumeOnce(term.And(term.Le(term.I(1), n), term.Le(n, term.I(4)), term.Imp(ascii, term.Eq(n, term.I(1)))))
	x.assumeOnce(term.Imp(ascii, term.Eq(term.Select(arr, term.I(0)), r)))
	x.assumeOnce(term.Imp(term.Not(ascii), term.Le(term.I(0x80), term.Select(arr, term.I(0)))))
	return VStr{n, arr}
}

func (x *Exec) strToRunes(st *State, s VStr, to types.Type) Val {
	ref := x.newBacking(st, types.Typ[types.Rune])
	if str, ok := constStr(s); ok {
		rs := []rune(str)
		a := x.heapArr(st, "e:int32", term.Int)
		inner := term.Select(a, ref)
		for i, r := range rs {
			inner = term.Store(inner, term.I(int64(i)), term.I(int64(r)))
		}
		st.Heap["e:int32"] = term.Store(a, ref, inner)
		n := term.I(int64(len(rs)))
		return VSlice{ref, term.I(0), n, n, to}
	}
	n := term.Fresh("nrunes", term.Int)
	ra := term.Fresh("runes", arrII)
	a := x.heapArr(st, "e:int32", term.Int)
	st.Heap["e:int32"] = term.Store(a, ref, ra)
	j := term.Bound("j", term.Int)
	k := term.Bound("k", term.Int)
	inb := func(v *T) *T { return term.And(term.Le(term.I(0), v), term.Lt(v, s.Len)) }
	allASCII := term.Forall([]*T{j}, term.Imp(inb(j), term.Lt(term.Select(s.Arr, j), term.I(0x80))))
	x.assumeOnce(term.And(term.Le(term.I(0), n), term.Le(n, s.Len), term.Imp(term.Lt(term.I(0), s.Len), term.Lt(term.I(0), n))))
	x.assumeOnce(term.ForallPat([]*T{k}, term.And(term.Le(term.I(0), term.Select(ra, k)), term.Le(term.Select(ra, k), term.I(0x10FFFF))), [][]*T{{term.Select(ra, k)}}))
	x.assumeOnce(term.Imp(allASCII, term.And(term.Eq(n, s.Len),
		term.ForallPat([]*T{k}, term.Imp(inb(k), term.Eq(term.Select(ra, k), term.Select(s.Arr, k))), [][]*T{{term.Select(ra, k)}}))))
	return VSlice{ref, term.I(0), n, n, to}
}
