package exec

import (
	"fmt"
	"go/token"
	"go/types"
	"strconv"
	"strings"

	"golang.org/x/tools/go/ssa"

	"verif/govc/contract"
	"verif/govc/term"
)

// modLoc is one modifiable location set: all components whose class has prefix Class, of the
// object Ref, (for element classes) at indices in [Lo, Hi).
type modLoc struct {
	Class  string
	Ref    *T
	Lo, Hi *T // nil: all indices
	Ty     types.Type
	Ghost  *term.Sort // ghost field component sort (nil for real locations)
	Text   string
	Exact  bool // from a `sets` clause: the new value is given exactly
}

func classMatches(class, prefix string) bool {
	if !strings.HasPrefix(class, prefix) {
		return false
	}
	rest := class[len(prefix):]
	return rest == "" || rest[0] == '.' || rest[0] == '['
}

// evalLoc interprets a location expression of a modifies/sets clause.
func (e *Env) evalLoc(ex contract.Expr, single bool) modLoc {
	text := contract.String(ex)
	switch n := ex.(type) {
	case *contract.Sel:
		base := e.eval(n.X)
		bt, ok := base.(VT)
		if !ok {
			e.fail("modifies: %T is not a pointer", base)
		}
		if _, isChan := bt.Ty.Underlying().(*types.Chan); isChan {
			class, so := chanGhostSort(n.Name)
			if so == nil {
				e.fail("modifies: a channel has the ghost fields sent, nsent, closed")
			}
			return modLoc{Class: class, Ref: bt.T, Ghost: so, Text: text}
		}
		pt, ok := bt.Ty.Underlying().(*types.Pointer)
		if !ok {
			e.fail("modifies: base of .%s is not a pointer", n.Name)
		}
		return e.fieldLoc(bt.T, pt.Elem(), n.Name, text)
	case *contract.Unary:
		if n.Op == "*" {
			base := e.eval(n.X)
			bt := base.(VT)
			elem := bt.Ty.Underlying().(*types.Pointer).Elem()
			if isStruct(elem) {
				return modLoc{Class: classFor(elem), Ref: bt.T, Ty: elem, Text: text}
			}
			return modLoc{Class: classFor(elem), Ref: bt.T, Lo: term.I(0), Hi: term.I(1), Ty: elem, Text: text}
		}
	case *contract.Index:
		base := e.eval(n.X)
		sl, ok := base.(VSlice)
		if !ok {
			e.fail("modifies: index on %T", base)
		}
		i := e.evalInt(n.I)
		et := sl.Ty.Underlying().(*types.Slice).Elem()
		return modLoc{Class: "e:" + typeKey(et), Ref: sl.Ref, Lo: term.Add(sl.Off, i), Hi: term.Add(sl.Off, i, term.I(1)), Ty: et, Text: text}
	case *contract.Slice:
		base := e.eval(n.X)
		sl, ok := base.(VSlice)
		if !ok {
			e.fail("modifies: slice on %T", base)
		}
		et := sl.Ty.Underlying().(*types.Slice).Elem()
		lo, hi := sl.Off, term.Add(sl.Off, sl.Cap)
		if n.Lo != nil {
			lo = term.Add(sl.Off, e.evalInt(n.Lo))
		}
		if n.Hi != nil {
			hi = term.Add(sl.Off, e.evalInt(n.Hi))
		}
		return modLoc{Class: "e:" + typeKey(et), Ref: sl.Ref, Lo: lo, Hi: hi, Ty: et, Text: text}
	}
	e.fail("unsupported location expression in modifies/sets")
	return modLoc{}
}

func (e *Env) fieldLoc(ref *T, elem types.Type, name, text string) modLoc {
	stt, ok := elem.Underlying().(*types.Struct)
	if !ok {
		e.fail("modifies: %s is not a struct", elem)
	}
	class := classFor(elem)
	for i := 0; i < stt.NumFields(); i++ {
		f := stt.Field(i)
		if f.Name() == name {
			return modLoc{Class: class + "." + name, Ref: ref, Ty: f.Type(), Text: text}
		}
	}
	if g := e.x.P.ghostField(typeKey(elem), name); g != nil {
		return modLoc{Class: class + ".$" + name, Ref: ref, Ghost: g, Text: text}
	}
	for i := 0; i < stt.NumFields(); i++ {
		f := stt.Field(i)
		if !f.Embedded() {
			continue
		}
		if pt, ok := f.Type().Underlying().(*types.Pointer); ok {
			inner := e.x.loadAt(e.st, class, "."+f.Name(), f.Type(), ref, nil).(VT)
			if _, ok := pt.Elem().Underlying().(*types.Struct); ok {
				if e.hasField(pt.Elem(), name) {
					return e.fieldLoc(inner.T, pt.Elem(), name, text)
				}
			}
		}
	}
	e.fail("modifies: no field %s in %s", name, elem)
	return modLoc{}
}

func (e *Env) hasField(t types.Type, name string) bool {
	stt, ok := t.Underlying().(*types.Struct)
	if !ok {
		return false
	}
	for i := 0; i < stt.NumFields(); i++ {
		if stt.Field(i).Name() == name {
			return true
		}
	}
	return e.x.P.ghostField(typeKey(t), name) != nil
}

func (e *Env) evalMods(spec *contract.FuncSpec, withRep bool) []modLoc {
	out := e.evalMods0(spec, withRep)
	for i := range out {
		out[i].Class = canon(out[i].Class)
	}
	return out
}

func (e *Env) evalMods0(spec *contract.FuncSpec, withRep bool) []modLoc {
	var out []modLoc
	for _, m := range spec.Modifies {
		out = append(out, e.evalLoc(m, false))
	}
	if withRep {
		for _, m := range spec.ModRep {
			out = append(out, e.evalLoc(m, false))
		}
	}
	for _, s := range spec.Sets {
		if _, ok := e.vars["result"]; !ok && mentions(s.E, "result") {
			continue // a location inside the (fresh) result
		}
		l := e.evalLoc(s.E, true)
		l.Exact = true
		out = append(out, l)
	}
	return out
}

// allowed builds the condition under which a write to (class, ref, idx) is permitted by the
// function's own modifies clause, or targets an object allocated during the call.
func (x *Exec) allowed(class string, ref, idx *T) *T {
	class = canon(class)
	alts := []*T{term.Le(x.entryAlloc, ref)}
	for _, m := range x.mods {
		if !classMatches(class, m.Class) {
			continue
		}
		c := term.Eq(ref, m.Ref)
		if m.Lo != nil && idx != nil {
			c = term.And(c, term.Le(m.Lo, idx), term.Lt(idx, m.Hi))
		}
		alts = append(alts, c)
	}
	return term.Or(alts...)
}

func (x *Exec) checkFrame(st *State, a VAddr) {
	if x.Mode == ModeInit || a.Alloc != nil {
		return
	}
	if strings.HasPrefix(a.Class, "c:") || strings.HasPrefix(a.Class, "b:") {
		return
	}
	x.oblige(st, "frame", "", x.allowed(a.Class+a.Path, a.Ref, a.Idx), token.NoPos)
}

func (x *Exec) checkFrameLoc(st *State, m modLoc, what string, pos token.Pos) {
	if x.Mode == ModeInit {
		return
	}
	var c *T
	if m.Lo != nil {
		// every index in [Lo,Hi) must be allowed: check both ends (ranges in own mods are intervals)
		alts := []*T{term.Le(x.entryAlloc, m.Ref), term.Le(m.Hi, m.Lo)}
		for _, own := range x.mods {
			if !classMatches(m.Class, own.Class) && !classMatches(own.Class, m.Class) {
				continue
			}
			if own.Class != m.Class && !classMatches(m.Class, own.Class) {
				continue
			}
			k := term.Eq(m.Ref, own.Ref)
			if own.Lo != nil {
				k = term.And(k, term.Le(own.Lo, m.Lo), term.Le(m.Hi, own.Hi))
			}
			alts = append(alts, k)
		}
		c = term.Or(alts...)
	} else {
		alts := []*T{term.Le(x.entryAlloc, m.Ref)}
		for _, own := range x.mods {
			if classMatches(m.Class, own.Class) && own.Lo == nil {
				alts = append(alts, term.Eq(m.Ref, own.Ref))
			}
		}
		c = term.Or(alts...)
	}
	x.oblige(st, "frame", what+" modifies "+m.Text, c, pos)
}

// havocClass replaces heap class `class` by a fresh array that agrees with the old one on every
// pre-existing object the callee's modifies clause does not mention.
func (x *Exec) havocClass(st *State, old *State, class string, mods []modLoc, allocBefore *T) {
	class = canon(class)
	s := x.classSorts[class]
	if s == nil {
		if _, ok := st.Heap[class]; !ok {
			return // class never touched in this function: nothing known, nothing to forget
		}
		x.fail("internal: no sort recorded for class %s", class)
	}
	oldArr := x.heapArr(st, class, s)
	newArr := term.Fresh("H."+class, oldArr.Sort)
	x.rangeAxiom(class, newArr)
	r := term.Bound("r", term.Int)
	var whole []*T // refs modified completely
	type part struct {
		ref, lo, hi *T
	}
	var parts []part
	for _, m := range mods {
		if !classMatches(class, m.Class) {
			continue
		}
		if m.Lo == nil || !strings.HasPrefix(class, "e:") {
			whole = append(whole, m.Ref)
		} else {
			parts = append(parts, part{m.Ref, m.Lo, m.Hi})
		}
	}
	conds := []*T{term.Lt(r, allocBefore)}
	for _, w := range whole {
		conds = append(conds, term.Ne(r, w))
	}
	for _, p := range parts {
		conds = append(conds, term.Ne(r, p.ref))
	}
	x.assumeOnce(term.ForallPat([]*T{r}, term.Imp(term.And(conds...), term.Eq(term.Select(newArr, r), term.Select(oldArr, r))), [][]*T{{term.Select(newArr, r)}}))
	for _, p := range parts {
		i := term.Bound("i", term.Int)
		out := term.Or(term.Lt(i, p.lo), term.Le(p.hi, i))
		for _, q := range parts {
			if q != p && q.ref == p.ref {
				out = term.And(out, term.Or(term.Lt(i, q.lo), term.Le(q.hi, i)))
			}
		}
		x.assumeOnce(term.ForallPat([]*T{i}, term.Imp(out,
			term.Eq(term.Select(term.Select(newArr, p.ref), i), term.Select(term.Select(oldArr, p.ref), i))),
			[][]*T{{term.Select(term.Select(newArr, p.ref), i)}}))
	}
	st.Heap[class] = newArr
}

// assignLoc performs `loc = v` (used for `sets` clauses).
func (x *Exec) assignLoc(st *State, m modLoc, v Val) {
	if m.Ghost != nil {
		t, ok := scalar(v)
		if !ok {
			x.fail("sets: ghost value expected for %s", m.Text)
		}
		a := x.heapArr(st, m.Class, m.Ghost)
		st.Heap[canon(m.Class)] = term.Store(a, m.Ref, t)
		return
	}
	if m.Lo != nil {
		x.storeAt(st, m.Class, "", m.Ty, m.Ref, m.Lo, v)
		return
	}
	// m.Class = "f:T.field": split into class prefix and path
	x.storeAt(st, m.Class, "", m.Ty, m.Ref, nil, v)
}

func (x *Exec) locValue(st *State, m modLoc) Val {
	if m.Ghost != nil {
		return VMath{x.loadComp(st, m.Class, m.Ghost, m.Ref, nil)}
	}
	if m.Lo != nil {
		return x.loadAt(st, m.Class, "", m.Ty, m.Ref, m.Lo)
	}
	return x.loadAt(st, m.Class, "", m.Ty, m.Ref, nil)
}

// ---------------------------------------------------------------- entry and exit of the function under verification

// Start builds the entry state of x.Fn: symbolic parameters, preconditions assumed.
func (x *Exec) Start() (*State, []Val) {
	st := &State{PC: term.True, Heap: map[string]*T{}, Alloc: term.I(FreshBase), Open: map[*ssa.BasicBlock]*loopEntry{}, Locks: map[string]bool{}, Ghost: map[string]Val{}}
	x.entryAlloc = st.Alloc
	args := make([]Val, len(x.Fn.Params))
	x.params = map[string]Val{}
	// `attr split <param> v1 v2 ...` on a plain integer parameter: the parameter IS the constant in
	// this run (so that everything depending on it folds); exhaustiveness is checked once with a
	// symbolic stand-in below
	splitParam, splitSym := "", Val(nil)
	if x.Spec != nil {
		if f := strings.Fields(x.Spec.Attrs["split"]); len(f) >= 2 {
			for _, p := range x.Fn.Params {
				if p.Name() == f[0] {
					if b, ok := p.Type().Underlying().(*types.Basic); ok && b.Info()&types.IsInteger != 0 {
						splitParam = f[0]
					}
				}
			}
		}
	}
	for i, p := range x.Fn.Params {
		v := freshVal("p."+p.Name(), p.Type())
		if p.Name() == splitParam && x.SplitIdx >= 0 {
			f := strings.Fields(x.Spec.Attrs["split"])
			if x.SplitIdx < len(f)-1 {
				if k, err := strconv.ParseInt(f[1+x.SplitIdx], 0, 64); err == nil {
					splitSym = v
					v = VT{term.I(k), p.Type()}
				}
			}
		}
		args[i] = v
		x.params[p.Name()] = v
		x.params[p.Name()+"0"] = v
	}
	for i, p := range x.Fn.Params {
		x.assumeParam(st, args[i], p.Type())
	}
	if splitSym != nil {
		x.assumeParam(st, splitSym, splitSym.(VT).Ty)
	}
	var binds []Val
	for _, fv := range x.Fn.FreeVars {
		// free variables are pointers to captured cells
		ref := term.Fresh("fv."+fv.Name(), term.Int)
		x.assumeOnce(term.And(term.Lt(term.I(0), ref), term.Lt(ref, term.I(InitBase))))
		binds = append(binds, VT{ref, fv.Type()})
		elem := fv.Type().(*types.Pointer).Elem()
		x.params[fv.Name()] = x.load(st, x.ptrAddr(ref, elem))
	}
	x.entry = st.clone()
	if x.Spec != nil {
		env := x.newEnv(st, x.Fn, x.Spec)
		for k, v := range x.params {
			env.vars[k] = v
		}
		for _, r := range x.Spec.Requires {
			x.assume(st, env.evalBool(r.E))
		}
		if sp := x.Spec.Attrs["split"]; sp != "" {
			// finite case split declared by the contract: this run covers one case
			fields := strings.Fields(sp)
			ex, err := contract.ParseExpr(fields[0])
			if err != nil {
				x.fail("attr split: %v", err)
			}
			if x.SplitIdx < 0 || x.SplitIdx >= len(fields)-1 {
				x.fail("attr split: case index out of range")
			}
			v, err2 := contract.ParseExpr(fields[1+x.SplitIdx])
			if err2 != nil {
				x.fail("attr split: %v", err2)
			}
			if x.SplitIdx == 0 {
				cenv := env
				var hyp []*T
				if splitSym != nil {
					// exhaustiveness over the symbolic parameter: requires(sym) ==> sym is one of the cases
					ce := *env
					ce.vars = map[string]Val{}
					for k, v := range env.vars {
						ce.vars[k] = v
					}
					ce.vars[splitParam] = splitSym
					ce.vars[splitParam+"0"] = splitSym
					cenv = &ce
					for _, r := range x.Spec.Requires {
						hyp = append(hyp, term.Not(cenv.evalBool(r.E)))
					}
				}
				var alts []*T
				for _, f := range fields[1:] {
					fv, err := contract.ParseExpr(f)
					if err != nil {
						x.fail("attr split: %v", err)
					}
					alts = append(alts, term.Eq(cenv.evalInt(ex), cenv.evalInt(fv)))
				}
				x.oblige(st, "split", "exhaustive", term.Or(append(hyp, alts...)...), token.NoPos)
			}
			x.assume(st, term.Eq(env.evalInt(ex), env.evalInt(v)))
			x.Label = fmt.Sprintf("[%s=%s]", fields[0], fields[1+x.SplitIdx])
		}
		x.mods = env.evalMods(x.Spec, true)
		x.entry = st.clone()
		x.cover(st, "pre", term.True)
	}
	return st, append(args, binds...)
}

// assumeParam: arguments are well-typed values living in the pre-existing region.
func (x *Exec) assumeParam(st *State, v Val, ty types.Type) {
	x.assumeTyped(st, v, ty)
	switch a := v.(type) {
	case VT:
		if _, ok := ty.Underlying().(*types.Pointer); ok {
			x.assumeOnce(term.Lt(a.T, term.I(InitBase)))
		}
	case VSlice:
		x.assumeOnce(term.Lt(a.Ref, term.I(InitBase)))
	case VIface:
		x.assumeOnce(term.And(term.Le(term.I(0), a.Data), term.Lt(a.Data, term.I(InitBase))))
	case VStruct:
		stt := ty.Underlying().(*types.Struct)
		for i, f := range a.F {
			x.assumeParam(st, f, stt.Field(i).Type())
		}
	}
}

// Run verifies the function under contract: returns nothing, obligations accumulate in x.Obls.
func (x *Exec) Run() (err error) {
	defer func() {
		if r := recover(); r != nil {
			if e, ok := r.(*ExecError); ok {
				err = e
				return
			}
			panic(r)
		}
	}()
	st, args := x.Start()
	np := len(x.Fn.Params)
	x.runFunction(st, x.Fn, args[:np], args[np:])
	if x.coro != nil {
		x.coro.finish(x)
	}
	return nil
}

func (x *Exec) checkPost(st *State, vals []Val) {
	x.retCount++
	if x.Spec == nil {
		return
	}
	env := x.newEnv(st, x.Fn, x.Spec)
	env.old = x.entry
	env.allocBefore = x.entryAlloc
	for k, v := range x.params {
		env.vars[k] = v
	}
	switch len(vals) {
	case 0:
	case 1:
		env.vars["result"] = vals[0]
	default:
		env.vars["result"] = VTuple(vals)
	}
	res := x.Fn.Signature.Results()
	for i := 0; i < res.Len(); i++ {
		if n := res.At(i).Name(); n != "" && n != "_" {
			env.vars[n] = vals[i]
		}
		env.vars[fmt.Sprintf("result%d", i)] = vals[i]
	}
	// ghost `sets` of leaf functions are applied here (they define the ghost update); real
	// locations and ghost locations updated through callees are checked for equality.
	for i, s := range x.Spec.Sets {
		sub := *env
		sub.st = x.entry
		if mentions(s.E, "result") {
			sub.st = st
		}
		loc := sub.evalLoc(s.E, true)
		want := env.eval(s.E2)
		if loc.Ghost != nil && !x.P.bodyTouchesGhost(x.Fn, loc.Class) {
			x.assignLoc(st, loc, want)
			continue
		}
		got := x.locValue(st, loc)
		eq := env.equal(got, want)
		if g, ok := got.(VMath); ok && g.T.Sort.K == term.KArr {
			// pointwise form: easier for the solvers than extensionality on the negated goal
			j := term.Bound("j", term.Int)
			eq = term.Forall([]*T{j}, term.Eq(term.Select(g.T, j), term.Select(want.(VMath).T, j)))
		}
		x.oblige(st, "post", fmt.Sprintf("sets#%s@return#%d", clauseLabel(s, i), x.retCount), eq, token.NoPos)
	}
	unreach := false
	for _, f := range strings.Fields(x.Spec.Attrs["unreachable_returns"]) {
		if f == fmt.Sprint(x.retCount) {
			unreach = true
		}
	}
	if unreach {
		// `attr unreachable_returns k ...`: the contract claims that return statement k is never
		// executed; that is an obligation (instead of the reachability cover of ordinary returns)
		x.oblige(st, "unreachable", fmt.Sprintf("return#%d declared unreachable", x.retCount), term.False, token.NoPos)
		return
	}
	x.cover(st, fmt.Sprintf("return#%d", x.retCount), term.True)
	for i, e := range x.Spec.Ensures {
		if e.Name == "assumed" {
			// `ensures#assumed`: stated for callers, NOT proved here (e.g. "the result is a
			// function of the arguments" for a deterministic function); listed as an assumption
			x.note("ASSUMED postcondition of %s (not proved): %s", fnName(x.Fn), e.Text)
			continue
		}
		c := env.evalBool(e.E)
		x.oblige(st, "post", fmt.Sprintf("%s@return#%d", clauseLabel(e, i), x.retCount), c, token.NoPos)
	}
	if len(st.Locks) > 0 {
		for l := range st.Locks {
			x.oblige(st, "lock", "released at return "+l, term.False, token.NoPos)
		}
	}
}

// ---------------------------------------------------------------- pure calls and locks

// pureCall returns the uninterpreted-function value of a pure method applied to recv/args.
func (x *Exec) pureCall(st *State, recv Val, name string, args []Val) Val {
	var sig *types.Signature
	var key string
	switch r := recv.(type) {
	case VIface:
		it := r.Ty.Underlying().(*types.Interface)
		for i := 0; i < it.NumMethods(); i++ {
			if it.Method(i).Name() == name {
				sig = it.Method(i).Type().(*types.Signature)
			}
		}
		if sig == nil {
			// a method of another interface of the module (used after a type assertion in the code)
			for _, t := range x.P.allNamed {
				if it2, ok := t.Underlying().(*types.Interface); ok {
					for i := 0; i < it2.NumMethods(); i++ {
						if it2.Method(i).Name() == name {
							sig = it2.Method(i).Type().(*types.Signature)
						}
					}
				}
			}
		}
		if sig == nil {
			x.fail("pure call: no method %s in %s", name, r.Ty)
		}
		key = "pure!iface." + name
	case VT:
		ms := x.P.SSA.MethodSets.MethodSet(r.Ty)
		sel := ms.Lookup(nil, name)
		if sel == nil {
			for i := 0; i < ms.Len(); i++ {
				if ms.At(i).Obj().Name() == name {
					sel = ms.At(i)
				}
			}
		}
		if sel == nil {
			x.fail("pure call: no method %s on %s", name, r.Ty)
		}
		sig = sel.Type().(*types.Signature)
		key = "pure!" + typeKey(r.Ty) + "." + name
	default:
		x.fail("pure call on %T", recv)
	}
	var in []*T
	in = append(in, flatten(recv)...)
	for _, a := range args {
		in = append(in, flatten(a)...)
	}
	sorts := make([]*term.Sort, len(in))
	for i, t := range in {
		sorts[i] = t.Sort
	}
	rt := sig.Results().At(0).Type()
	cs := comps(rt)
	ts := make([]*T, len(cs))
	for i, c := range cs {
		f := term.DeclareFun(key+c.suffix, sorts, c.sort)
		ts[i] = term.App(f, in...)
	}
	v := mkVal(rt, ts)
	x.assumeTyped(st, v, rt)
	return v
}

func (x *Exec) lockOp(st *State, m *T, lock bool, pos token.Pos) {
	k := m.String()
	if lock {
		if st.Locks[k] {
			x.oblige(st, "lock", "double lock", term.False, pos)
		}
		st.Locks[k] = true
		x.lockAcquired(st, m)
		return
	}
	if !st.Locks[k] {
		x.oblige(st, "lock", "unlock of unlocked mutex", term.False, pos)
	}
	x.lockReleased(st, m, pos)
	delete(st.Locks, k)
}

// applyGhostSets performs the ghost updates that the `sets` clauses of an inlined leaf function
// define (its body contains no ghost code; the clauses are the ghost code).
func (x *Exec) applyGhostSets(st *State, fn *ssa.Function, spec *contract.FuncSpec, entry *State, args, results []Val) {
	env := x.newEnv(st, fn, spec)
	env.old = entry
	for i, p := range fn.Params {
		env.vars[p.Name()] = args[i]
		env.vars[p.Name()+"0"] = args[i]
	}
	if len(results) == 1 {
		env.vars["result"] = results[0]
	} else if len(results) > 1 {
		env.vars["result"] = VTuple(results)
	}
	for _, s := range spec.Sets {
		sub := *env
		sub.st = entry
		if mentions(s.E, "result") {
			sub.st = st
		}
		loc := sub.evalLoc(s.E, true)
		if loc.Ghost == nil || x.P.bodyTouchesGhost(fn, loc.Class) {
			continue
		}
		x.assignLoc(st, loc, env.eval(s.E2))
	}
}

// mentions reports whether identifier name occurs in e.
func mentions(e contract.Expr, name string) bool {
	switch n := e.(type) {
	case *contract.Ident:
		return n.Name == name
	case *contract.Unary:
		return mentions(n.X, name)
	case *contract.Binary:
		return mentions(n.X, name) || mentions(n.Y, name)
	case *contract.Cond:
		return mentions(n.C, name) || mentions(n.A, name) || mentions(n.B, name)
	case *contract.Call:
		for _, a := range n.Args {
			if mentions(a, name) {
				return true
			}
		}
		return mentions(n.Fun, name)
	case *contract.Index:
		return mentions(n.X, name) || mentions(n.I, name)
	case *contract.Slice:
		return mentions(n.X, name) || (n.Lo != nil && mentions(n.Lo, name)) || (n.Hi != nil && mentions(n.Hi, name))
	case *contract.Sel:
		return mentions(n.X, name)
	case *contract.Quant:
		return mentions(n.Body, name)
	case *contract.Old:
		return mentions(n.X, name)
	}
	return false
}

// hasQuantExpr: the contract expression contains a quantifier (syntactically).
func hasQuantExpr(e contract.Expr) bool {
	switch n := e.(type) {
	case *contract.Unary:
		return hasQuantExpr(n.X)
	case *contract.Binary:
		return hasQuantExpr(n.X) || hasQuantExpr(n.Y)
	case *contract.Cond:
		return hasQuantExpr(n.C) || hasQuantExpr(n.A) || hasQuantExpr(n.B)
	case *contract.Call:
		for _, a := range n.Args {
			if hasQuantExpr(a) {
				return true
			}
		}
	case *contract.Index:
		return hasQuantExpr(n.X) || hasQuantExpr(n.I)
	case *contract.Sel:
		return hasQuantExpr(n.X)
	case *contract.Quant:
		return true
	case *contract.Old:
		return hasQuantExpr(n.X)
	}
	return false
}
