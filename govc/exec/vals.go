// Package exec is the symbolic executor over go/ssa: it turns one function plus its
// contract into named proof obligations.
package exec

import (
	"fmt"
	"go/types"
	"strings"

	"golang.org/x/tools/go/ssa"

	"verif/govc/term"
)

type T = term.Term

// Val is a Go value during symbolic execution.
type Val interface{}

type (
	// VT is a scalar: integers (Int), booleans (Bool), pointers / maps / chans (Int handle),
	// floats (opaque Int).
	VT struct {
		T  *T
		Ty types.Type
	}
	VStr   struct{ Len, Arr *T }
	VSlice struct {
		Ref, Off, Len, Cap *T
		Ty                 types.Type // slice type
	}
	VIface struct {
		Tag, Data *T
		Ty        types.Type
	}
	VFunc struct {
		Fn, Env *T
		Ty      types.Type
	}
	VStruct struct {
		F  []Val
		Ty types.Type
	}
	// VArr is an array value; one array-sorted term per scalar component of the element type.
	VArr struct {
		C  []*T
		Ty types.Type
	}
	VTuple []Val
	// VAddr is a transient lvalue (never stored in memory, never merged unless identical).
	VAddr struct {
		Alloc *ssa.Alloc // local cell root (nil for heap)
		Class string     // heap class prefix ("f:pkg.T" or "e:elemtype")
		Ref   *T
		Idx   *T     // element index for e: classes
		Path  string // component path below the root
		Sub   []int  // field path inside a local cell value
		Ty    types.Type
	}
	// VRange is the iterator of a range-over-string / range-over-map loop.
	VRange struct {
		Str  *VStr
		Map  *T
		Pos  *T // strings: next byte position; maps: visit counter
		Vis  *T // maps: visited set (Array Int Bool)
		MapT *types.Map
	}
)

// ---------------------------------------------------------------- types -> components

type comp struct {
	suffix string
	sort   *term.Sort
	ty     types.Type // leaf Go type (integers: used for range axioms)
}

var compCache = map[types.Type][]comp{}

func comps(t types.Type) []comp {
	if c, ok := compCache[t]; ok {
		return c
	}
	var out []comp
	switch u := t.Underlying().(type) {
	case *types.Basic:
		switch {
		case u.Info()&types.IsBoolean != 0:
			out = []comp{{suffix: "", sort: term.Bool}}
		case u.Info()&types.IsString != 0:
			out = []comp{{suffix: ".len", sort: term.Int}, {suffix: ".arr", sort: term.Arr(term.Int, term.Int)}}
		case u.Info()&types.IsFloat != 0:
			out = []comp{{suffix: ".n", sort: term.Int}, {suffix: ".d", sort: term.Int}}
		default:
			out = []comp{{"", term.Int, t}}
		}
	case *types.Pointer, *types.Map, *types.Chan:
		out = []comp{{suffix: "", sort: term.Int}}
	case *types.Slice:
		out = []comp{{suffix: ".ref", sort: term.Int}, {suffix: ".off", sort: term.Int}, {suffix: ".len", sort: term.Int}, {suffix: ".cap", sort: term.Int}}
	case *types.Interface:
		out = []comp{{suffix: ".tag", sort: term.Int}, {suffix: ".data", sort: term.Int}}
	case *types.Signature:
		out = []comp{{suffix: ".fn", sort: term.Int}, {suffix: ".env", sort: term.Int}}
	case *types.Struct:
		for i := 0; i < u.NumFields(); i++ {
			f := u.Field(i)
			for _, c := range comps(f.Type()) {
				out = append(out, comp{"." + f.Name() + c.suffix, c.sort, c.ty})
			}
		}
	case *types.Array:
		for _, c := range comps(u.Elem()) {
			out = append(out, comp{"[]" + c.suffix, term.Arr(term.Int, c.sort), c.ty})
		}
	case *types.Tuple:
		for i := 0; i < u.Len(); i++ {
			for _, c := range comps(u.At(i).Type()) {
				out = append(out, comp{fmt.Sprintf(".%d%s", i, c.suffix), c.sort, c.ty})
			}
		}
	default:
		panic(fmt.Sprintf("comps: unsupported type %s (%T)", t, u))
	}
	compCache[t] = out
	return out
}

func flatten(v Val) []*T {
	switch v := v.(type) {
	case VT:
		return []*T{v.T}
	case VStr:
		return []*T{v.Len, v.Arr}
	case VFlt:
		return []*T{v.N, v.D}
	case VSlice:
		return []*T{v.Ref, v.Off, v.Len, v.Cap}
	case VIface:
		return []*T{v.Tag, v.Data}
	case VFunc:
		return []*T{v.Fn, v.Env}
	case VStruct:
		var out []*T
		for _, f := range v.F {
			out = append(out, flatten(f)...)
		}
		return out
	case VArr:
		return v.C
	case VTuple:
		var out []*T
		for _, f := range v {
			out = append(out, flatten(f)...)
		}
		return out
	}
	panic(fmt.Sprintf("flatten: %T", v))
}

// unflatten consumes terms from ts to build a value of type t.
func unflatten(t types.Type, ts []*T) (Val, []*T) {
	switch u := t.Underlying().(type) {
	case *types.Basic:
		if u.Info()&types.IsString != 0 {
			return VStr{ts[0], ts[1]}, ts[2:]
		}
		if u.Info()&types.IsFloat != 0 {
			return VFlt{N: ts[0], D: ts[1]}, ts[2:]
		}
		return VT{ts[0], t}, ts[1:]
	case *types.Pointer, *types.Map, *types.Chan:
		return VT{ts[0], t}, ts[1:]
	case *types.Slice:
		return VSlice{ts[0], ts[1], ts[2], ts[3], t}, ts[4:]
	case *types.Interface:
		return VIface{ts[0], ts[1], t}, ts[2:]
	case *types.Signature:
		return VFunc{ts[0], ts[1], t}, ts[2:]
	case *types.Struct:
		s := VStruct{Ty: t}
		for i := 0; i < u.NumFields(); i++ {
			var f Val
			f, ts = unflatten(u.Field(i).Type(), ts)
			s.F = append(s.F, f)
		}
		return s, ts
	case *types.Array:
		n := len(comps(u.Elem()))
		return VArr{C: ts[:n:n], Ty: t}, ts[n:]
	case *types.Tuple:
		var tu VTuple
		for i := 0; i < u.Len(); i++ {
			var f Val
			f, ts = unflatten(u.At(i).Type(), ts)
			tu = append(tu, f)
		}
		return tu, ts
	}
	panic(fmt.Sprintf("unflatten: unsupported type %s", t))
}

func mkVal(t types.Type, ts []*T) Val {
	v, rest := unflatten(t, ts)
	if len(rest) != 0 {
		panic("mkVal: leftover components")
	}
	return v
}

func zeroTerm(s *term.Sort) *T {
	switch s.K {
	case term.KInt:
		return term.I(0)
	case term.KBool:
		return term.False
	default:
		return term.ConstArr(s, zeroTerm(s.Elem))
	}
}

func zeroVal(t types.Type) Val {
	cs := comps(t)
	ts := make([]*T, len(cs))
	for i, c := range cs {
		ts[i] = zeroTerm(c.sort)
	}
	return fixZero(mkVal(t, ts))
}

// fixZero repairs the denominator of zero floats (0/0 -> 0/1).
func fixZero(v Val) Val {
	switch x := v.(type) {
	case VFlt:
		if x.D == term.I(0) {
			return VFlt{N: x.N, D: term.I(1)}
		}
	case VStruct:
		nf := make([]Val, len(x.F))
		for i, f := range x.F {
			nf[i] = fixZero(f)
		}
		return VStruct{nf, x.Ty}
	case VTuple:
		nf := make(VTuple, len(x))
		for i, f := range x {
			nf[i] = fixZero(f)
		}
		return nf
	}
	return v
}

// freshVal creates an unconstrained symbolic value of type t.
func freshVal(name string, t types.Type) Val {
	cs := comps(t)
	ts := make([]*T, len(cs))
	for i, c := range cs {
		ts[i] = term.Fresh(name+c.suffix, c.sort)
	}
	return mkVal(t, ts)
}

// iteVal merges two values of identical shape.
func iteVal(c *T, a, b Val) Val {
	if a == nil {
		return b
	}
	if b == nil {
		return a
	}
	switch x := a.(type) {
	case VAddr:
		y, ok := b.(VAddr)
		if ok && x.Alloc == y.Alloc && x.Class == y.Class && x.Path == y.Path && x.Ty == y.Ty && fmt.Sprint(x.Sub) == fmt.Sprint(y.Sub) {
			r := x
			if x.Ref != nil {
				r.Ref = term.Ite(c, x.Ref, y.Ref)
			}
			if x.Idx != nil {
				r.Idx = term.Ite(c, x.Idx, y.Idx)
			}
			return r
		}
		return a // dead after join by SSA dominance
	case VRange:
		y, ok := b.(VRange)
		if !ok {
			return a
		}
		r := x
		r.Pos = term.Ite(c, x.Pos, y.Pos)
		if x.Vis != nil && y.Vis != nil {
			r.Vis = term.Ite(c, x.Vis, y.Vis)
		}
		return r
	}
	if _, ok := b.(VAddr); ok {
		return b
	}
	if ma, ok := a.(VMath); ok {
		if mb, ok := b.(VMath); ok && ma.T.Sort == mb.T.Sort {
			return VMath{term.Ite(c, ma.T, mb.T)}
		}
		return a
	}
	if _, ok := b.(VMath); ok {
		return a
	}
	fa, fb := flatten(a), flatten(b)
	if len(fa) != len(fb) {
		return a // differently shaped registers are dead after the join
	}
	out := make([]*T, len(fa))
	same := true
	for i := range fa {
		if fa[i].Sort != fb[i].Sort {
			return a
		}
		out[i] = term.Ite(c, fa[i], fb[i])
		if out[i] != fa[i] {
			same = false
		}
	}
	if same {
		return a
	}
	return rebuildLike(a, out)
}

func rebuildLike(a Val, ts []*T) Val {
	v, _ := rebuildLike2(a, ts)
	return v
}

func rebuildLike2(a Val, ts []*T) (Val, []*T) {
	switch x := a.(type) {
	case VT:
		return VT{ts[0], x.Ty}, ts[1:]
	case VStr:
		return VStr{ts[0], ts[1]}, ts[2:]
	case VFlt:
		return VFlt{N: ts[0], D: ts[1]}, ts[2:]
	case VSlice:
		return VSlice{ts[0], ts[1], ts[2], ts[3], x.Ty}, ts[4:]
	case VIface:
		return VIface{ts[0], ts[1], x.Ty}, ts[2:]
	case VFunc:
		return VFunc{ts[0], ts[1], x.Ty}, ts[2:]
	case VStruct:
		r := VStruct{Ty: x.Ty}
		for _, f := range x.F {
			var nf Val
			nf, ts = rebuildLike2(f, ts)
			r.F = append(r.F, nf)
		}
		return r, ts
	case VArr:
		n := len(x.C)
		return VArr{C: ts[:n:n], Ty: x.Ty}, ts[n:]
	case VTuple:
		var r VTuple
		for _, f := range x {
			var nf Val
			nf, ts = rebuildLike2(f, ts)
			r = append(r, nf)
		}
		return r, ts
	}
	panic(fmt.Sprintf("rebuildLike: %T", a))
}

// ---------------------------------------------------------------- type helpers

func typeKey(t types.Type) string {
	switch u := t.(type) {
	case *types.Basic:
		switch u.Kind() {
		case types.Uint8:
			return "uint8"
		case types.Int32:
			return "int32"
		}
		return u.Name()
	case *types.Named:
		o := u.Obj()
		if o.Pkg() != nil {
			return o.Pkg().Name() + "." + o.Name()
		}
		return o.Name()
	case *types.Alias:
		return typeKey(types.Unalias(t))
	case *types.Pointer:
		return "*" + typeKey(u.Elem())
	case *types.Slice:
		return "[]" + typeKey(u.Elem())
	case *types.Array:
		return fmt.Sprintf("[%d]%s", u.Len(), typeKey(u.Elem()))
	case *types.Map:
		return "map[" + typeKey(u.Key()) + "]" + typeKey(u.Elem())
	case *types.Struct:
		var b strings.Builder
		b.WriteString("struct{")
		for i := 0; i < u.NumFields(); i++ {
			b.WriteString(u.Field(i).Name() + " " + typeKey(u.Field(i).Type()) + ";")
		}
		b.WriteString("}")
		return b.String()
	}
	return types.TypeString(t, func(p *types.Package) string { return p.Name() })
}

func isStruct(t types.Type) bool { _, ok := t.Underlying().(*types.Struct); return ok }

// classFor returns the heap class prefix under which an object of type t
// (the pointee of a *t pointer) lives.
func classFor(t types.Type) string {
	if isStruct(t) {
		return "f:" + typeKey(t)
	}
	if a, ok := t.Underlying().(*types.Array); ok {
		return "e:" + typeKey(a.Elem())
	}
	return "e:" + typeKey(t)
}

// intRange returns the inclusive range of an integer type, or ok=false.
func intRange(t types.Type) (lo, hi *T, ok bool) {
	b, isB := t.Underlying().(*types.Basic)
	if !isB || b.Info()&types.IsInteger == 0 {
		return nil, nil, false
	}
	bits := 64
	switch b.Kind() {
	case types.Int8, types.Uint8:
		bits = 8
	case types.Int16, types.Uint16:
		bits = 16
	case types.Int32, types.Uint32:
		bits = 32
	}
	if b.Info()&types.IsUnsigned != 0 {
		return term.I(0), term.Big(pow2m1(bits)), true
	}
	return term.Big(negPow2(bits - 1)), term.Big(pow2m1(bits - 1)), true
}
