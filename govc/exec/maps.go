package exec

import (
	"go/types"

	"golang.org/x/tools/go/ssa"

	"verif/govc/term"
)

// MapObj is a Go map built by a package initialiser. After initialisation maps are constants
// (obligation: no MapUpdate outside init; checked by Program.checkConstGlobals).
type MapObj struct {
	Ty   *types.Map
	Keys []*T  // constant keys, insertion order
	Vals []Val // same order
	idx  map[*T]int
}

func (x *Exec) doMakeMap(st *State, ins *ssa.MakeMap) {
	if !x.building {
		x.fail("maps may only be created by package initialisers (outside the supported subset)")
	}
	ref := x.allocRef(st)
	k, _ := ref.Int64()
	x.Init.Maps[k] = &MapObj{Ty: ins.Type().Underlying().(*types.Map), idx: map[*T]int{}}
	x.set(st, ins, VT{ref, ins.Type()})
}

func (x *Exec) mapObj(h *T) *MapObj {
	k, ok := h.Int64()
	if !ok {
		x.fail("map handle is not a constant: %s", h)
	}
	if k == 0 {
		return &MapObj{idx: map[*T]int{}}
	}
	m := x.Init.Maps[k]
	if m == nil {
		x.fail("unknown map object %d", k)
	}
	return m
}

func (x *Exec) doMapUpdate(st *State, ins *ssa.MapUpdate) {
	if !x.building {
		x.fail("map update outside package initialisation: maps are treated as constants")
	}
	m := x.mapObj(x.getT(st, ins.Map))
	key := x.mapKey(x.get(st, ins.Key))
	if !key.IsConst() {
		x.fail("map update with non-constant key during initialisation")
	}
	v := x.get(st, ins.Value)
	if i, ok := m.idx[key]; ok {
		m.Vals[i] = v
		return
	}
	m.idx[key] = len(m.Keys)
	m.Keys = append(m.Keys, key)
	m.Vals = append(m.Vals, v)
}

func (x *Exec) mapKey(v Val) *T {
	switch k := v.(type) {
	case VT:
		return k.T
	}
	x.fail("unsupported map key type %T", v)
	return nil
}

// mapLookup returns (value, ok) for key k in the map designated by handle h.
func (x *Exec) mapLookup(h *T, k *T, mt *types.Map) (Val, *T) {
	if h.Op == term.OIte {
		v1, o1 := x.mapLookup(h.Args[1], k, mt)
		v2, o2 := x.mapLookup(h.Args[2], k, mt)
		return iteVal(h.Args[0], v1, v2), term.Ite(h.Args[0], o1, o2)
	}
	m := x.mapObj(h)
	zero := zeroVal(mt.Elem())
	if k.IsConst() {
		if i, ok := m.idx[k]; ok {
			return m.Vals[i], term.True
		}
		return zero, term.False
	}
	if k.Op == term.OIte {
		v1, o1 := x.mapLookup(h, k.Args[1], mt)
		v2, o2 := x.mapLookup(h, k.Args[2], mt)
		return iteVal(k.Args[0], v1, v2), term.Ite(k.Args[0], o1, o2)
	}
	val := zero
	found := term.False
	for i := len(m.Keys) - 1; i >= 0; i-- {
		c := term.Eq(k, m.Keys[i])
		val = iteVal(c, m.Vals[i], val)
		found = term.Or(c, found)
	}
	return val, found
}

func (x *Exec) doLookup(st *State, ins *ssa.Lookup) {
	switch c := x.get(st, ins.X).(type) {
	case VStr:
		idx := x.getT(st, ins.Index)
		x.oblige(st, "bounds", "string", term.And(term.Le(term.I(0), idx), term.Lt(idx, c.Len)), ins.Pos())
		x.set(st, ins, VT{x.strByte(c, idx), ins.Type()})
	case VT:
		mt := ins.X.Type().Underlying().(*types.Map)
		v, ok := x.mapLookup(c.T, x.mapKey(x.get(st, ins.Index)), mt)
		if ins.CommaOk {
			x.set(st, ins, VTuple{v, VT{ok, types.Typ[types.Bool]}})
		} else {
			x.set(st, ins, v)
		}
	default:
		x.fail("Lookup on %T", c)
	}
}

// mapNext models one step of `range m`. Go's iteration order is unspecified: in proof mode the
// next key is an arbitrary not-yet-visited key (so nothing order-dependent can be proved); in
// unwinding/init mode the keys are visited in insertion order AND the function is flagged
// order-sensitive unless a proof-mode contract covers it.
func (x *Exec) mapNext(st *State, ins *ssa.Next, it VRange) {
	m := x.mapObj(it.Map)
	kt, vt := it.MapT.Key(), it.MapT.Elem()
	if x.Mode != ModeProof || len(st.Frames) > 1 {
		p, ok := it.Pos.Int64()
		if !ok {
			x.fail("map iteration position is symbolic")
		}
		if x.Mode != ModeInit {
			x.note("map range in %s executed in insertion order (order independence must be shown by a proof-mode contract)", fnName(st.top().Fn))
		}
		if int(p) >= len(m.Keys) {
			x.set(st, ins, VTuple{VT{term.False, types.Typ[types.Bool]}, zeroVal(kt), zeroVal(vt)})
			return
		}
		x.set(st, ins, VTuple{VT{term.True, types.Typ[types.Bool]}, VT{m.Keys[p], kt}, m.Vals[p]})
		nit := it
		nit.Pos = term.I(p + 1)
		x.set(st, ins.Iter, nit)
		return
	}
	ok := term.Fresh("mapnext.ok", term.Bool)
	k := term.Fresh("mapnext.key", term.Int)
	var inDom []*T
	var allVis []*T
	for _, key := range m.Keys {
		inDom = append(inDom, term.Eq(k, key))
		allVis = append(allVis, term.Select(it.Vis, key))
	}
	x.assume(st, term.Imp(ok, term.And(term.Or(inDom...), term.Not(term.Select(it.Vis, k)))))
	x.assume(st, term.Imp(term.Not(ok), term.And(allVis...)))
	v, _ := x.mapLookup(it.Map, k, it.MapT)
	x.set(st, ins, VTuple{VT{ok, types.Typ[types.Bool]}, VT{k, kt}, v})
	nit := it
	nit.Vis = term.Ite(ok, term.Store(it.Vis, k, term.True), it.Vis)
	nit.Pos = term.Ite(ok, term.Add(it.Pos, term.I(1)), it.Pos)
	x.set(st, ins.Iter, nit)
	st.Ghost["visited"] = VMath{nit.Vis}
	st.Ghost["nvisited"] = VMath{nit.Pos}
}

// VMath is a mathematical (ghost) value: an SMT term of any sort.
type VMath struct{ T *T }
