package exec

import (
	"fmt"

	"verif/govc/term"
)

// Quantifier help for the solvers (sound strengthening only):
//
//  1. the goal's positively occurring universal quantifiers are skolemised (forall k. P(k) is
//     valid iff P(sk) is, for a fresh constant sk);
//  2. every relevant hypothesis of the form `forall j:Int. Q(j)` without a user trigger is
//     additionally asserted at each skolem constant (an instance of an asserted universal is a
//     consequence of it, so the query's meaning does not change).
//
// E-matching fails on hypotheses indexed `off + k` when the goal's index only becomes `off + sk`
// after case splits over ite-valued offsets; the ground instances close those goals.

var skCount int

func skolemize(t *T, sks *[]*T) *T {
	switch t.Op {
	case term.OForall:
		m := map[*T]*T{}
		for _, b := range t.Bnd {
			skCount++
			sk := term.Var(fmt.Sprintf("sk!%d", skCount), b.Sort)
			m[b] = sk
			if b.Sort == term.Int {
				*sks = append(*sks, sk)
			}
		}
		return skolemize(term.Subst(t.Args[0], m), sks)
	case term.OAnd, term.OOr:
		args := make([]*T, len(t.Args))
		ch := false
		for i, a := range t.Args {
			args[i] = skolemize(a, sks)
			ch = ch || args[i] != a
		}
		if !ch {
			return t
		}
		if t.Op == term.OAnd {
			return term.And(args...)
		}
		return term.Or(args...)
	}
	return t
}

// instances returns ground instances of the single-Int-variable universals among hyps.
func instances(hyps []*T, sks []*T) []*T {
	if len(sks) == 0 || len(sks) > 4 {
		return nil
	}
	var out []*T
	var visit func(h *T)
	visit = func(h *T) {
		switch h.Op {
		case term.OAnd:
			for _, a := range h.Args {
				visit(a)
			}
		case term.OForall:
			if len(h.Bnd) != 1 || h.Bnd[0].Sort != term.Int || h.Pat != nil {
				return
			}
			for _, sk := range sks {
				out = append(out, term.Subst(h.Args[0], map[*T]*T{h.Bnd[0]: sk}))
			}
		}
	}
	for _, h := range hyps {
		visit(h)
		if len(out) > 64 {
			break
		}
	}
	return out
}

// defInstances unfolds the `specdef` definitions once at every ground application occurring in
// ts (and once more in the results: the unfolding of f(i+1) mentions f(i)).
func (p *Program) defInstances(x *Exec, ts []*T) []*T {
	axs := p.specDefAxioms(x)
	if len(axs) == 0 {
		return nil
	}
	byName := map[string]*T{}
	for _, a := range axs {
		byName[a.Pat[0][0].Name] = a
	}
	seenApp := map[*T]bool{}
	var out []*T
	var apps []*T
	seen := map[*T]bool{}
	var walk func(t *T)
	walk = func(t *T) {
		if seen[t] {
			return
		}
		seen[t] = true
		if t.Op == term.OApp && byName[t.Name] != nil && !t.HasBound() && !seenApp[t] {
			seenApp[t] = true
			apps = append(apps, t)
		}
		for _, a := range t.Args {
			walk(a)
		}
		if t.Op == term.OArrMap {
			t.M.Each(func(_ int64, v *T) bool { walk(v); return true })
		}
	}
	for _, t := range ts {
		walk(t)
	}
	for round := 0; round < 2 && len(apps) > 0 && len(out) < 200; round++ {
		cur := apps
		apps = nil
		for _, app := range cur {
			ax := byName[app.Name]
			m := map[*T]*T{}
			for i, b := range ax.Bnd {
				m[b] = app.Args[i]
			}
			inst := term.Subst(ax.Args[0], m)
			out = append(out, inst)
			walk(inst)
		}
	}
	return out
}
