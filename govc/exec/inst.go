package exec

import (
	"fmt"
	"os"
	"strings"

	"verif/govc/term"
)

// Quantifier help for the solvers (sound strengthening only):
//
//  1. the goal's positively occurring universal quantifiers are skolemised (forall k. P(k) is
//     valid iff P(sk) is, for a fresh constant sk);
//  2. every relevant hypothesis of the form `forall j:Int. Q(j)` without a user trigger is
//     additionally asserted at each skolem constant (an instance of an asserted universal is a
//     consequence of it, so the query's meaning does not change).
//
// E-matching fails on hypotheses indexed `off + k` when the goal's index only becomes `off + sk`
// after case splits over ite-valued offsets; the ground instances close those goals.

var skCount int

func skolemize(t *T, sks *[]*T) *T {
	switch t.Op {
	case term.OForall:
		m := map[*T]*T{}
		for _, b := range t.Bnd {
			skCount++
			sk := term.Var(fmt.Sprintf("sk!%d", skCount), b.Sort)
			m[b] = sk
			if b.Sort == term.Int {
				*sks = append(*sks, sk)
			}
		}
		return skolemize(term.Subst(t.Args[0], m), sks)
	case term.OAnd, term.OOr:
		args := make([]*T, len(t.Args))
		ch := false
		for i, a := range t.Args {
			args[i] = skolemize(a, sks)
			ch = ch || args[i] != a
		}
		if !ch {
			return t
		}
		if t.Op == term.OAnd {
			return term.And(args...)
		}
		return term.Or(args...)
	}
	return t
}

// instances returns ground instances of the single-Int-variable universals among hyps.
func instances(hyps []*T, sks []*T, neighbours bool) []*T {
	if len(sks) == 0 || len(sks) > 6 {
		return nil
	}
	var out []*T
	// ctx: the other disjuncts when the universal sits under a disjunction (facts assumed under a
	// path condition have the shape `not pc or forall ...`)
	var visit func(h *T, ctx []*T)
	emit := func(t *T, ctx []*T) {
		if len(ctx) > 0 {
			t = term.Or(append(append([]*T(nil), ctx...), t)...)
		}
		out = append(out, t)
	}
	visit = func(h *T, ctx []*T) {
		switch h.Op {
		case term.OAnd:
			for _, a := range h.Args {
				visit(a, ctx)
			}
		case term.OOr:
			for i, a := range h.Args {
				if a.Op != term.OForall && a.Op != term.OAnd {
					continue
				}
				var rest []*T
				rest = append(rest, ctx...)
				for k, b := range h.Args {
					if k != i {
						rest = append(rest, b)
					}
				}
				visit(a, rest)
			}
		case term.OForall:
			if h.Pat != nil {
				return
			}
			if n := len(h.Bnd); n > 1 && n <= len(sks) {
				// several bound variables: positional instantiation with every window of the goal's
				// skolems (they are created in the order of the goal's quantifiers; the invariant
				// "forall k, t" is proved from the same invariant one iteration earlier)
				for w := 0; w+n <= len(sks); w++ {
					m := map[*T]*T{}
					ok := true
					for i, b := range h.Bnd {
						if b.Sort != sks[w+i].Sort {
							ok = false
							break
						}
						m[b] = sks[w+i]
					}
					if ok {
						emit(term.Subst(h.Args[0], m), ctx)
					}
				}
				return
			}
			if len(h.Bnd) != 1 || h.Bnd[0].Sort != term.Int {
				return
			}
			for _, sk := range sks {
				// the neighbours too: recursive definitions and in-place updates relate position j to j-1 / j+1
				ds := []int64{0, -1, 1}
				if !neighbours {
					ds = ds[:1]
				}
				for _, d := range ds {
					emit(term.Subst(h.Args[0], map[*T]*T{h.Bnd[0]: term.Add(sk, term.I(d))}), ctx)
				}
			}
		}
	}
	for _, h := range hyps {
		visit(h, nil)
		if len(out) > 200 {
			break
		}
	}
	return out
}

// defInstances unfolds the `specdef` definitions once at every ground application occurring in
// ts (and once more in the results: the unfolding of f(i+1) mentions f(i)).
func (p *Program) defInstances(x *Exec, ts []*T) []*T {
	axs := p.specDefAxioms(x)
	if len(axs) == 0 {
		return nil
	}
	byName := map[string]*T{}
	for _, a := range axs {
		byName[a.Pat[0][0].Name] = a
	}
	seenApp := map[*T]bool{}
	var out []*T
	var apps []*T
	seen := map[*T]bool{}
	var walk func(t *T)
	walk = func(t *T) {
		if seen[t] {
			return
		}
		seen[t] = true
		if t.Op == term.OApp && byName[t.Name] != nil && !t.HasBound() && !seenApp[t] {
			seenApp[t] = true
			apps = append(apps, t)
		}
		for _, a := range t.Args {
			walk(a)
		}
		if t.Op == term.OArrMap {
			t.M.Each(func(_ int64, v *T) bool { walk(v); return true })
		}
	}
	for _, t := range ts {
		walk(t)
	}
	for round := 0; round < 2 && len(apps) > 0 && len(out) < 200; round++ {
		cur := apps
		apps = nil
		for _, app := range cur {
			ax := byName[app.Name]
			m := map[*T]*T{}
			for i, b := range ax.Bnd {
				m[b] = app.Args[i]
			}
			inst := term.Subst(ax.Args[0], m)
			out = append(out, inst)
			walk(inst)
		}
	}
	return out
}

// matchInstances: E-matching modulo linear arithmetic for the most common shape. For a hypothesis
// forall i. ... select(X, i + r) ... (X and r ground) and every ground term select(X, J) of the
// query, the instance i := J - r is added. The solvers' own E-matching does not see through the
// addition (slice offsets), which left simple range facts about data[k] unusable.
func matchInstances(hyps []*T, extra ...*T) []*T {
	if os.Getenv("GOVC_NO_MATCH") != "" {
		return nil
	}
	// array term -> index terms. Inner arrays of the same object in different versions of the heap
	// (select(H0!c, ref), select(L.c!3, ref), select(store(...), ref)) share one key: facts stated
	// on the entry heap must be instantiated for reads from a later heap (the frame instances make
	// the versions equal).
	ground := map[interface{}][]*T{}
	heapRoot := func(t *T) string {
		for t.Op == term.OStore || t.Op == term.OArrMap || t.Op == term.OIte {
			if t.Op == term.OIte {
				t = t.Args[1]
			} else {
				t = t.Args[0]
			}
		}
		if t.Op != term.OVar {
			return ""
		}
		n := t.Name
		n = strings.TrimPrefix(strings.TrimPrefix(n, "H0!"), "L.")
		if i := strings.LastIndexByte(n, '!'); i >= 0 {
			n = n[:i]
		}
		return strings.NewReplacer(":", "_").Replace(n)
	}
	arrKey := func(a *T) interface{} {
		if a.Op == term.OSelect && a.Args[0].Sort.K == term.KArr && a.Args[0].Sort.Elem != nil && a.Args[0].Sort.Elem.K == term.KArr {
			if r := heapRoot(a.Args[0]); r != "" {
				return [2]interface{}{r, a.Args[1]}
			}
		}
		return a
	}
	seenSel := map[*T]bool{}
	seen := map[*T]bool{}
	var walk func(t *T)
	walk = func(t *T) {
		if seen[t] {
			return
		}
		seen[t] = true
		if t.Op == term.OForall || t.Op == term.OExists {
			return
		}
		if t.Op == term.OSelect && !t.HasBound() && !seenSel[t] {
			seenSel[t] = true
			k := arrKey(t.Args[0])
			ground[k] = append(ground[k], t.Args[1])
			// a read through updates also concerns the arrays underneath (frame axioms speak about those)
			for a := t.Args[0]; a.Op == term.OStore || a.Op == term.OArrMap; {
				a = a.Args[0]
				ground[arrKey(a)] = append(ground[arrKey(a)], t.Args[1])
			}
		}
		for _, a := range t.Args {
			walk(a)
		}
	}
	for _, h := range hyps {
		walk(h)
	}
	for _, e := range extra {
		walk(e)
	}
	var out []*T
	dedupe := map[*T]bool{}
	var visit func(h *T, ctx []*T)
	visit = func(h *T, ctx []*T) {
		switch h.Op {
		case term.OAnd:
			for _, a := range h.Args {
				visit(a, ctx)
			}
		case term.OOr:
			for i, a := range h.Args {
				if a.Op != term.OForall && a.Op != term.OAnd {
					continue
				}
				var rest []*T
				rest = append(rest, ctx...)
				for k, b := range h.Args {
					if k != i {
						rest = append(rest, b)
					}
				}
				visit(a, rest)
			}
		case term.OForall:
			if len(h.Bnd) != 1 || h.Bnd[0].Sort != term.Int {
				return
			}
			b := h.Bnd[0]
			// candidates in discovery order (deterministic scripts: solver behaviour depends on it)
			var candList []*T
			candSeen := map[*T]bool{}
			addCand := func(c *T) {
				if !candSeen[c] {
					candSeen[c] = true
					candList = append(candList, c)
				}
			}
			s2 := map[*T]bool{}
			var find func(t *T)
			find = func(t *T) {
				if s2[t] || !t.HasBound() {
					return
				}
				s2[t] = true
				if t.Op == term.OSelect && !t.Args[0].HasBound() {
					if rest := term.Sub(t.Args[1], b); !rest.HasBound() {
						// index = b + rest
						for _, j := range ground[arrKey(t.Args[0])] {
							addCand(term.Sub(j, rest))
						}
					} else if rest := term.Add(t.Args[1], b); !rest.HasBound() {
						// index = rest - b
						for _, j := range ground[arrKey(t.Args[0])] {
							addCand(term.Sub(rest, j))
						}
					}
				}
				for _, a := range t.Args {
					find(a)
				}
			}
			find(h.Args[0])
			if os.Getenv("GOVC_DEBUG_INST") != "" {
				fmt.Fprintf(os.Stderr, "  hyp %.120s : %d candidates\n", h.String(), len(candList))
			}
			n := 0
			for _, c := range candList {
				if n >= 80 {
					break
				}
				inst := term.Subst(h.Args[0], map[*T]*T{b: c})
				if len(ctx) > 0 {
					inst = term.Or(append(append([]*T(nil), ctx...), inst)...)
				}
				if !dedupe[inst] && inst != term.True {
					dedupe[inst] = true
					out = append(out, inst)
					n++
				}
			}
		}
	}
	for _, h := range hyps {
		visit(h, nil)
		if len(out) > 2000 {
			break
		}
	}
	if os.Getenv("GOVC_DEBUG_INST") != "" {
		fmt.Fprintf(os.Stderr, "matchInstances: %d hyps, %d ground arrays, %d instances\n", len(hyps), len(ground), len(out))
		for _, o := range out {
			fmt.Fprintf(os.Stderr, "   inst %.200s\n", o.String())
		}
	}
	return out
}

// axiomInstances instantiates the background axioms about the uninterpreted bit operators at the
// ground applications of the query (each axiom has a trigger f(x, y, ..) over all its bound
// variables). The quantifier-free variant of a query needs them spelled out.
func (p *Program) axiomInstances(x *Exec, ts []*T) []*T {
	type trig struct {
		ax  *T
		pat *T
	}
	byName := map[string][]trig{}
	for _, ax := range p.axiomTerms(x) {
		if ax.Op != term.OForall {
			continue
		}
		for _, pt := range ax.Pat {
			if len(pt) != 1 || pt[0].Op != term.OApp {
				continue
			}
			byName[pt[0].Name] = append(byName[pt[0].Name], trig{ax, pt[0]})
		}
	}
	var out []*T
	seen := map[*T]bool{}
	dedupe := map[*T]bool{}
	var match func(pat, g *T, m map[*T]*T) bool
	match = func(pat, g *T, m map[*T]*T) bool {
		if pat.Op == term.OBound {
			if old, ok := m[pat]; ok {
				return old == g
			}
			m[pat] = g
			return true
		}
		if !pat.HasBound() {
			return pat == g
		}
		if pat.Op != g.Op || pat.Name != g.Name || len(pat.Args) != len(g.Args) {
			return false
		}
		for i := range pat.Args {
			if !match(pat.Args[i], g.Args[i], m) {
				return false
			}
		}
		return true
	}
	var walk func(t *T)
	walk = func(t *T) {
		if seen[t] || len(out) > 300 {
			return
		}
		seen[t] = true
		if t.Op == term.OForall || t.Op == term.OExists {
			return
		}
		if t.Op == term.OApp && !t.HasBound() {
			for _, tr := range byName[t.Name] {
				m := map[*T]*T{}
				if match(tr.pat, t, m) && len(m) == len(tr.ax.Bnd) {
					inst := term.Subst(tr.ax.Args[0], m)
					if !dedupe[inst] && inst != term.True {
						dedupe[inst] = true
						out = append(out, inst)
					}
				}
			}
		}
		for _, a := range t.Args {
			walk(a)
		}
		if t.Op == term.OArrMap {
			t.M.Each(func(_ int64, v *T) bool { walk(v); return true })
		}
	}
	for _, t := range ts {
		walk(t)
	}
	return out
}
