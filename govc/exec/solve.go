package exec

import (
	"bytes"
	"context"
	"fmt"
	"os"
	"os/exec"
	"path/filepath"
	"sort"
	"strings"
	"sync"
	"sync/atomic"
	"time"

	"verif/govc/term"
)

type Verdict int

const (
	Proved    Verdict = iota
	Refuted           // solver returned sat: a model is attached
	Undecided         // unknown / timeout
	Vacuous           // cover obligation unsat
)

func (v Verdict) String() string {
	return [...]string{"proved", "refuted", "undecided", "vacuous"}[v]
}

type Result struct {
	Obl     *Obligation
	Verdict Verdict
	Solver  string
	Seconds float64
	Model   string
	Output  string
	Script  string
	Size    int
	Trivial bool
}

type SolverCfg struct {
	Timeout   time.Duration
	Workers   int
	KeepDir   string // where to write scripts of non-proved obligations
	Confirm   bool   // re-check unsat with a second solver
	TimeBySol map[string]float64
	CountBy   map[string]int
	mu        sync.Mutex
}

type solverDef struct {
	name string
	args func(to int, file string) []string
}

var solvers = []solverDef{
	{"z3-new", func(to int, f string) []string { return []string{"z3-new", fmt.Sprintf("-T:%d", to), f} }},
	{"cvc5", func(to int, f string) []string {
		return []string{"cvc5", "--produce-models", fmt.Sprintf("--tlimit=%d", to*1000), "--enum-inst-interleave", f}
	}},
	{"z3", func(to int, f string) []string { return []string{"z3", fmt.Sprintf("-T:%d", to), f} }},
}

// symbols collects the free symbol names of t.
func symbols(t *T, into map[string]bool, seen map[*T]bool) {
	if seen[t] {
		return
	}
	seen[t] = true
	switch t.Op {
	case term.OVar:
		into[t.Name] = true
	case term.OApp:
		into["@"+t.Name] = true
	}
	for _, a := range t.Args {
		symbols(a, into, seen)
	}
	if t.Op == term.OArrMap {
		t.M.Each(func(_ int64, v *T) bool { symbols(v, into, seen); return true })
	}
}

var symCache = map[*T]map[string]bool{}

// relevant selects the assumptions connected (through shared symbols) to the goal.
func relevant(assumptions []*T, roots ...*T) []*T {
	want := map[string]bool{}
	seen := map[*T]bool{}
	for _, r := range roots {
		symbols(r, want, seen)
	}
	type info struct {
		t    *T
		syms map[string]bool
		in   bool
	}
	infos := make([]*info, len(assumptions))
	for i, a := range assumptions {
		m, ok := symCache[a]
		if !ok {
			m = map[string]bool{}
			symbols(a, m, map[*T]bool{})
			symCache[a] = m
		}
		infos[i] = &info{t: a, syms: m}
	}
	changed := true
	for changed {
		changed = false
		for _, in := range infos {
			if in.in {
				continue
			}
			hit := len(in.syms) == 0
			for s := range in.syms {
				if want[s] {
					hit = true
					break
				}
			}
			if hit {
				in.in = true
				changed = true
				for s := range in.syms {
					want[s] = true
				}
			}
		}
	}
	var out []*T
	for _, in := range infos {
		if in.in {
			out = append(out, in.t)
		}
	}
	return out
}

// Discharge runs all obligations through the solver portfolio.
func (x *Exec) Discharge(cfg *SolverCfg) []*Result {
	if cfg.Workers <= 0 {
		cfg.Workers = 8
	}
	if cfg.Timeout == 0 {
		cfg.Timeout = 10 * time.Second
	}
	results := make([]*Result, len(x.Obls))
	// A query is tried in several logically equivalent or weaker-hypothesis forms ("variants"):
	//   exact    the obligation as generated (+ sound instances); only this form can REFUTE
	//   ground   quantified hypotheses dropped, nonlinear products abstracted: a quick sufficient check
	//   nl       nonlinear products abstracted to an uninterpreted function
	// at two instantiation levels (A: goal skolems only, B: + neighbours and index matching).
	// "unsat" of any variant proves the obligation.
	type variant struct {
		name   string
		script string
		quick  bool // short timeout, first solver only
		exact  bool
	}
	type job struct {
		i        int
		script   string
		variants []variant
	}
	var jobs []job
	axioms := x.P.axiomTerms(x)
	if os.Getenv("GOVC_DEBUG") != "" {
		for i, a := range x.Assumptions {
			if sz := term.Size(a); sz > 2000 {
				fmt.Fprintf(os.Stderr, "big assumption #%d size %d: %.200s\n", i, sz, a.String())
			}
		}
	}
	groundOf := func(rel []*T, goal *T) string {
		if hasQuant(goal) {
			return ""
		}
		var qf []*T
		nq := 0
		for _, h := range rel {
			if hasQuant(h) {
				nq++
				continue
			}
			qf = append(qf, h)
		}
		if nq == 0 {
			return ""
		}
		term.AbstractNL = true
		defer func() { term.AbstractNL = false }()
		return term.Script(qf, goal, nil, false)
	}
	for i, o := range x.Obls {
		r := &Result{Obl: o}
		results[i] = r
		if !o.Cover && (o.Cond == term.True || o.PC == term.False) {
			r.Verdict = Proved
			r.Trivial = true
			r.Solver = "syntactic"
			continue
		}
		as := append([]*T(nil), x.Assumptions[:o.NAssume]...)
		as = append(as, axioms...)
		as = append(as, x.P.specDefAxioms(x)...)
		var script string
		var variants []variant
		if o.Cover {
			rel := append(append([]*T(nil), x.Assumptions[:o.NAssume]...), o.PC, o.Cond)
			script = term.Script(rel, nil, nil, false)
			r.Size = term.Size(rel...)
		} else {
			base := relevant(as, o.PC, o.Cond)
			base = append(base, o.PC)
			goal := o.Cond
			relA := base
			var relB []*T
			if x.Mode == ModeProof {
				var sks []*T
				goal = skolemize(goal, &sks)
				relA = append(append([]*T(nil), base...), instances(base, sks, false)...)
				relB = append(append([]*T(nil), base...), instances(base, sks, true)...)
				relB = append(relB, matchInstances(relB, goal)...)
				// a second round: the instances expose further reads (nested string concatenations,
				// copies of copies)
				relB = append(relB, matchInstances(relB, goal)...)
			}
			if x.Mode == ModeProof {
				// bit-operator axioms at the ground applications (for the quantifier-free variants)
				relA = append(relA, x.P.axiomInstances(x, append(append([]*T(nil), relA...), goal))...)
				relB = append(relB, x.P.axiomInstances(x, append(append([]*T(nil), relB...), goal))...)
			}
			if len(x.P.SpecDefs) > 0 {
				d := x.P.defInstances(x, []*T{o.PC, goal})
				relA = append(relA, d...)
				if relB != nil {
					relB = append(relB, d...)
				}
			}
			script = term.Script(relA, goal, nil, true)
			r.Size = term.Size(append(relA, goal)...)
			if x.Mode == ModeProof {
				if g := groundOf(relA, goal); g != "" {
					variants = append(variants, variant{name: "ground-instances", script: g, quick: true})
				}
				if g := groundOf(relB, goal); g != "" {
					variants = append(variants, variant{name: "ground-instances+", script: g, quick: true})
				}
			}
			variants = append(variants, variant{name: "", script: script, exact: true})
			if relB != nil && len(relB) != len(relA) {
				variants = append(variants, variant{name: "instances+", script: term.Script(relB, goal, nil, true), exact: true})
			}
			last := relA
			if relB != nil {
				last = relB
			}
			if hasNL(append(last, goal)) {
				term.AbstractNL = true
				variants = append(variants, variant{name: "nl-abstracted", script: term.Script(last, goal, nil, false)})
				term.AbstractNL = false
			}
		}
		r.Script = script
		if os.Getenv("GOVC_DEBUG") != "" && len(script) > 20000 {
			fmt.Fprintf(os.Stderr, "big script %s: %d bytes\n", o.Name, len(script))
		}
		jobs = append(jobs, job{i, script, variants})
	}
	tmp, err := os.MkdirTemp("", "govc")
	if err != nil {
		panic(err)
	}
	defer os.RemoveAll(tmp)
	var wg sync.WaitGroup
	var exhausted int32
	ch := make(chan job)
	for w := 0; w < cfg.Workers; w++ {
		wg.Add(1)
		go func(w int) {
			defer wg.Done()
			for j := range ch {
				r := results[j.i]
				file := filepath.Join(tmp, fmt.Sprintf("q%d.smt2", j.i))
				if len(j.variants) == 0 {
					os.WriteFile(file, []byte(j.script), 0o644)
					runPortfolio(cfg, r, file)
					os.Remove(file)
					continue
				}
				total := 0.0
				for _, v := range j.variants {
					// once a few obligations of this batch resisted every variant, the function has
					// most likely changed: the rest get the exact query only (bounded check time)
					if atomic.LoadInt32(&exhausted) >= 2 && !v.exact {
						continue
					}
					os.WriteFile(file, []byte(v.script), 0o644)
					if v.quick {
						to := 8 * time.Second
						if cfg.Timeout < to {
							to = cfg.Timeout
						}
						st, _, secs := runSolver(context.Background(), solvers[0], to, file)
						cfg.addTime(solvers[0].name, secs)
						total += secs
						if st == "unsat" {
							r.Verdict, r.Solver = Proved, solvers[0].name+"("+v.name+")"
							cfg.count(solvers[0].name)
							break
						}
						continue
					}
					r.Seconds = 0
					runPortfolio(cfg, r, file)
					total += r.Seconds
					if r.Verdict == Proved {
						if v.name != "" {
							r.Solver += "(" + v.name + ")"
						}
						break
					}
					if r.Verdict == Refuted && v.exact {
						break
					}
					r.Verdict, r.Model = Undecided, ""
				}
				r.Seconds = total
				if r.Verdict != Proved {
					atomic.AddInt32(&exhausted, 1)
				}
				os.Remove(file)
			}
		}(w)
	}
	for _, j := range jobs {
		ch <- j
	}
	close(ch)
	wg.Wait()
	// second chance: an obligation that was only UNDECIDED (solver timeout, e.g. on a loaded
	// machine) is retried with a much longer timeout before it is reported. The budget is small
	// (at most 6 obligations per call, 3 at a time, 4x the timeout): many undecided obligations are not a load
	// effect, and a changed function must not make the check run for an hour.
	var retry []job
	for _, j := range jobs {
		if r := results[j.i]; r.Verdict == Undecided && !r.Obl.Cover {
			retry = append(retry, j)
		}
	}
	if len(retry) > 6 {
		retry = nil // many undecided obligations are not a load effect
	}
	if len(retry) > 0 {
		long := &SolverCfg{Timeout: cfg.Timeout * 4, Workers: 3}
		rch := make(chan job)
		var rwg sync.WaitGroup
		for w := 0; w < 3; w++ {
			rwg.Add(1)
			go func() {
				defer rwg.Done()
				for j := range rch {
					r := results[j.i]
					file := filepath.Join(tmp, fmt.Sprintf("retry%d.smt2", j.i))
					first := r.Seconds
					r.Seconds = 0
					os.WriteFile(file, []byte(j.script), 0o644)
					runPortfolio(long, r, file)
					r.Seconds += first
					if r.Verdict == Proved {
						r.Solver += "(retry)"
					}
					os.Remove(file)
				}
			}()
		}
		for _, j := range retry {
			rch <- j
		}
		close(rch)
		rwg.Wait()
		for k, v := range long.TimeBySol {
			cfg.addTime(k, v)
		}
		for k, v := range long.CountBy {
			for i := 0; i < v; i++ {
				cfg.count(k)
			}
		}
	}
	if cfg.KeepDir != "" {
		for _, r := range results {
			if r.Verdict != Proved && !r.Trivial {
				os.MkdirAll(cfg.KeepDir, 0o755)
				os.WriteFile(filepath.Join(cfg.KeepDir, sanitizeFile(r.Obl.Name)+".smt2"), []byte(r.Script), 0o644)
			}
		}
		for _, j := range jobs {
			if r := results[j.i]; r.Verdict != Proved {
				for _, v := range j.variants {
					if v.name != "" {
						os.WriteFile(filepath.Join(cfg.KeepDir, sanitizeFile(r.Obl.Name)+"."+v.name+".smt2"), []byte(v.script), 0o644)
					}
				}
			}
		}
	}
	return results
}

func sanitizeFile(s string) string {
	return strings.Map(func(r rune) rune {
		if r >= 'a' && r <= 'z' || r >= 'A' && r <= 'Z' || r >= '0' && r <= '9' || r == '.' || r == '-' || r == '_' {
			return r
		}
		return '_'
	}, s)
}

func runSolver(ctx context.Context, sd solverDef, to time.Duration, file string) (status, out string, secs float64) {
	secsTo := int(to.Seconds())
	if secsTo < 1 {
		secsTo = 1
	}
	args := sd.args(secsTo, file)
	ctx2, cancel := context.WithTimeout(ctx, to+3*time.Second)
	defer cancel()
	cmd := exec.CommandContext(ctx2, args[0], args[1:]...)
	var buf bytes.Buffer
	cmd.Stdout = &buf
	cmd.Stderr = &buf
	t0 := time.Now()
	cmd.Run()
	secs = time.Since(t0).Seconds()
	out = buf.String()
	for _, ln := range strings.Split(out, "\n") {
		ln = strings.TrimSpace(ln)
		if ln == "sat" || ln == "unsat" {
			return ln, out, secs
		}
		if ln == "unknown" || ln == "timeout" {
			return "unknown", out, secs
		}
	}
	if strings.Contains(out, "(error") {
		return "error", out, secs
	}
	return "unknown", out, secs
}

// runPortfolio races z3-new and cvc5 (then falls back to z3 4.8); the first definitive answer wins.
func runPortfolio(cfg *SolverCfg, r *Result, file string) {
	type ans struct {
		name, status, out string
		secs              float64
	}
	ctx, cancel := context.WithCancel(context.Background())
	defer cancel()
	race := solvers[:2]
	ch := make(chan ans, len(race))
	for _, sd := range race {
		go func(sd solverDef) {
			to := cfg.Timeout
			if r.Obl.Cover && to > time.Second {
				to = time.Second
			}
			st, out, secs := runSolver(ctx, sd, to, file)
			ch <- ans{sd.name, st, out, secs}
		}(sd)
	}
	var got *ans
	var lastOut string
	for i := 0; i < len(race); i++ {
		a := <-ch
		cfg.addTime(a.name, a.secs)
		if a.secs > r.Seconds {
			r.Seconds = a.secs
		}
		lastOut += a.name + ": " + strings.TrimSpace(firstLines(a.out, 3)) + "\n"
		if a.status == "sat" || a.status == "unsat" {
			got = &a
			cancel()
			break
		}
	}
	if got == nil && !r.Obl.Cover {
		st, out, secs := runSolver(context.Background(), solvers[2], cfg.Timeout/2+time.Second, file)
		cfg.addTime(solvers[2].name, secs)
		r.Seconds += secs
		lastOut += solvers[2].name + ": " + strings.TrimSpace(firstLines(out, 3)) + "\n"
		if st == "sat" || st == "unsat" {
			got = &ans{solvers[2].name, st, out, secs}
		}
	}
	if r.Obl.Cover {
		switch {
		case got == nil:
			r.Verdict, r.Solver = Proved, "unknown(accepted)"
		case got.status == "sat":
			r.Verdict, r.Solver = Proved, got.name
			cfg.count(got.name)
		default:
			r.Verdict, r.Solver, r.Output = Vacuous, got.name, got.out
		}
		return
	}
	if got == nil {
		r.Verdict = Undecided
		r.Output = lastOut
		return
	}
	if got.status == "sat" {
		r.Verdict, r.Solver, r.Model, r.Output = Refuted, got.name, got.out, got.out
		return
	}
	r.Verdict, r.Solver = Proved, got.name
	cfg.count(got.name)
	if cfg.Confirm {
		for _, sd2 := range solvers {
			if sd2.name == got.name {
				continue
			}
			s2, _, secs2 := runSolver(context.Background(), sd2, cfg.Timeout, file)
			cfg.addTime(sd2.name, secs2)
			if s2 == "unsat" {
				r.Solver += "+" + sd2.name
				break
			}
			if s2 == "sat" {
				r.Verdict = Undecided
				r.Output = "solvers disagree: " + got.name + " unsat, " + sd2.name + " sat"
				return
			}
		}
	}
}

func firstLines(s string, n int) string {
	ls := strings.Split(s, "\n")
	if len(ls) > n {
		ls = ls[:n]
	}
	return strings.Join(ls, "\n")
}

func (c *SolverCfg) addTime(name string, secs float64) {
	c.mu.Lock()
	if c.TimeBySol == nil {
		c.TimeBySol = map[string]float64{}
		c.CountBy = map[string]int{}
	}
	c.TimeBySol[name] += secs
	c.mu.Unlock()
}

func (c *SolverCfg) count(name string) {
	c.mu.Lock()
	if c.CountBy == nil {
		c.TimeBySol = map[string]float64{}
		c.CountBy = map[string]int{}
	}
	c.CountBy[name]++
	c.mu.Unlock()
}

// Summary groups results for reporting.
func Summary(rs []*Result) (proved, failed int, byKind map[string]int) {
	byKind = map[string]int{}
	for _, r := range rs {
		byKind[r.Obl.Kind]++
		if r.Verdict == Proved {
			proved++
		} else {
			failed++
		}
	}
	return
}

func SortedKinds(m map[string]int) []string {
	var ks []string
	for k := range m {
		ks = append(ks, k)
	}
	sort.Strings(ks)
	return ks
}

// SplitCases returns the number of cases of the contract's `attr split` (1 if none) and, since the
// disjunction of the cases must cover the precondition, the exhaustiveness obligation text.
func SplitCases(spec interface{ GetAttr(string) string }) int {
	sp := spec.GetAttr("split")
	if sp == "" {
		return 1
	}
	return len(strings.Fields(sp)) - 1
}

// implied asks the solvers (synchronously, short timeout) whether the assumptions and the path
// condition of st entail goal. Used to fold loop-exit tests while unwinding.
func (x *Exec) implied(st *State, goal *T) bool {
	if goal == term.True {
		return true
	}
	if st.PC == term.False {
		return true
	}
	as := append([]*T(nil), x.Assumptions...)
	as = append(as, x.P.axiomTerms(x)...)
	rel := relevant(as, st.PC, goal)
	rel = append(rel, st.PC)
	// Only the quantifier-free hypotheses are used: dropping hypotheses keeps "unsat" (= implied)
	// sound, and without quantifiers the solvers answer "sat" at once instead of running into the
	// timeout. "Not implied" merely means that both arms of the test are followed.
	qf := rel[:0:0]
	for _, r := range rel {
		if !hasQuant(r) {
			qf = append(qf, r)
		}
	}
	rel = qf
	script := term.Script(rel, goal, nil, false)
	f, err := os.CreateTemp("", "govc-fold*.smt2")
	if err != nil {
		return false
	}
	f.WriteString(script)
	f.Close()
	defer os.Remove(f.Name())
	x.FoldQueries++
	for _, sd := range solvers[:2] {
		st, _, _ := runSolver(context.Background(), sd, 3*time.Second, f.Name())
		if st == "unsat" {
			return true
		}
		if st == "sat" {
			return false
		}
	}
	return false
}

var quantMemo = map[*T]bool{}

func hasQuant(t *T) bool {
	if v, ok := quantMemo[t]; ok {
		return v
	}
	r := t.Op == term.OForall || t.Op == term.OExists
	if !r {
		for _, a := range t.Args {
			if hasQuant(a) {
				r = true
				break
			}
		}
	}
	if !r && t.Op == term.OArrMap {
		t.M.Each(func(_ int64, v *T) bool {
			if hasQuant(v) {
				r = true
				return false
			}
			return true
		})
	}
	quantMemo[t] = r
	return r
}

var nlMemo = map[*T]bool{}

// hasNL reports whether any term contains a product of two non-constant factors.
func hasNL(ts []*T) bool {
	var rec func(t *T) bool
	rec = func(t *T) bool {
		if v, ok := nlMemo[t]; ok {
			return v
		}
		r := false
		if t.Op == term.OMul {
			n := 0
			for _, a := range t.Args {
				if a.Op != term.OConst {
					n++
				}
			}
			r = n >= 2
		}
		if !r {
			for _, a := range t.Args {
				if rec(a) {
					r = true
					break
				}
			}
		}
		nlMemo[t] = r
		return r
	}
	for _, t := range ts {
		if rec(t) {
			return true
		}
	}
	return false
}
