package exec

import (
	"fmt"
	"go/constant"
	"go/token"
	"go/types"
	"strings"

	"golang.org/x/tools/go/ssa"

	"verif/govc/contract"
	"verif/govc/term"
)

// Env evaluates contract expressions against a symbolic state.
type Env struct {
	x           *Exec
	st, old     *State
	fn          *ssa.Function // function whose locals are in scope (nil: none)
	spec        *contract.FuncSpec
	vars        map[string]Val
	pkg         *types.Package
	allocBefore *T
	loopHead    *ssa.BasicBlock
	locals      bool // resolve names against the cells of the top frame
}

func (x *Exec) newEnv(st *State, fn *ssa.Function, spec *contract.FuncSpec) *Env {
	e := &Env{x: x, st: st, old: st, fn: fn, spec: spec, vars: map[string]Val{}}
	if fn != nil && fn.Pkg != nil {
		e.pkg = fn.Pkg.Pkg
	} else if spec != nil {
		e.pkg = x.P.pkgOfSpec(spec)
	}
	return e
}

func (e *Env) fail(format string, args ...interface{}) {
	where := ""
	if e.spec != nil {
		where = fmt.Sprintf("%s (%s): ", e.spec.Ref, e.spec.File)
	}
	e.x.fail("contract %s%s", where, fmt.Sprintf(format, args...))
}

func (e *Env) evalBool(ex contract.Expr) *T {
	v := e.eval(ex)
	switch b := v.(type) {
	case VT:
		if b.T.Sort == term.Bool {
			return b.T
		}
	case VMath:
		if b.T.Sort == term.Bool {
			return b.T
		}
	}
	e.fail("expression is not boolean: %T", v)
	return nil
}

func (e *Env) evalInt(ex contract.Expr) *T {
	v := e.eval(ex)
	switch b := v.(type) {
	case VT:
		if b.T.Sort == term.Int {
			return b.T
		}
	case VMath:
		if b.T.Sort == term.Int {
			return b.T
		}
	}
	e.fail("expression is not an integer: %T", v)
	return nil
}

func scalar(v Val) (*T, bool) {
	switch b := v.(type) {
	case VT:
		return b.T, true
	case VMath:
		return b.T, true
	}
	return nil, false
}

var tyInt = types.Typ[types.Int]
var tyBool = types.Typ[types.Bool]

func (e *Env) eval(ex contract.Expr) Val {
	switch n := ex.(type) {
	case *contract.IntLit:
		return VT{term.Big(n.Val), tyInt}
	case *contract.BoolLit:
		return VT{term.B(n.Val), tyBool}
	case *contract.StrLit:
		return e.x.strConst(n.Val)
	case *contract.Ident:
		return e.ident(n.Name)
	case *contract.Old:
		sub := *e
		sub.st = e.old
		if e.locals {
			// inside old(), parameter names denote their entry values
			sub.locals = false
			sub.vars = map[string]Val{}
			for k, v := range e.vars {
				sub.vars[k] = v
			}
			for k, v := range e.x.params {
				if _, ok := sub.vars[k]; !ok {
					sub.vars[k] = v
				}
			}
		}
		return sub.eval(n.X)
	case *contract.Unary:
		if n.Op == "*" {
			p := e.eval(n.X)
			pt, ok := p.(VT)
			if !ok {
				e.fail("dereference of %T", p)
			}
			elem := pt.Ty.Underlying().(*types.Pointer).Elem()
			return e.x.load(e.st, e.x.ptrAddr(pt.T, elem))
		}
		v := e.eval(n.X)
		t, ok := scalar(v)
		if !ok {
			e.fail("unary %s on %T", n.Op, v)
		}
		switch n.Op {
		case "!":
			return VT{term.Not(t), tyBool}
		case "-":
			return VT{term.Neg(t), tyInt}
		case "+":
			return v
		case "^":
			return VT{term.Sub(term.I(-1), t), tyInt}
		}
	case *contract.Binary:
		return e.binary(n)
	case *contract.Cond:
		c := e.evalBool(n.C)
		a, b := e.eval(n.A), e.eval(n.B)
		_, am := a.(VMath)
		_, bm := b.(VMath)
		if am || bm {
			// ghost / spec-function values are plain terms
			at, ok1 := scalar(a)
			bt, ok2 := scalar(b)
			if !ok1 || !ok2 || at.Sort != bt.Sort {
				e.fail("conditional over incompatible ghost values")
			}
			return VMath{term.Ite(c, at, bt)}
		}
		return iteVal(c, a, b)
	case *contract.Quant:
		if v := e.expandQuant(n); v != nil {
			return v
		}
		sub := *e
		sub.vars = map[string]Val{}
		for k, v := range e.vars {
			sub.vars[k] = v
		}
		var bnd []*T
		var guards []*T
		for _, p := range n.Vars {
			b := term.Bound(p.Name, term.Int)
			ty := e.parseType(p.Type)
			if ty == tyBool {
				b = term.Bound(p.Name, term.Bool)
			}
			bnd = append(bnd, b)
			sub.vars[p.Name] = VT{b, ty}
			if lo, hi, ok := intRange(ty); ok && ty != tyInt {
				guards = append(guards, term.Le(lo, b), term.Le(b, hi))
			}
		}
		body := sub.evalBool(n.Body)
		if n.Forall {
			return VT{term.Forall(bnd, term.Imp(term.And(guards...), body)), tyBool}
		}
		return VT{term.Exists(bnd, term.And(append(guards, body)...)), tyBool}
	case *contract.Index:
		return e.index(e.eval(n.X), e.evalInt(n.I), n)
	case *contract.Slice:
		base := e.eval(n.X)
		var lo, hi *T
		if n.Lo != nil {
			lo = e.evalInt(n.Lo)
		} else {
			lo = term.I(0)
		}
		switch b := base.(type) {
		case VSlice:
			if n.Hi != nil {
				hi = e.evalInt(n.Hi)
			} else {
				hi = b.Len
			}
			return VSlice{b.Ref, term.Add(b.Off, lo), term.Sub(hi, lo), term.Sub(b.Cap, lo), b.Ty}
		case VStr:
			if n.Hi != nil {
				hi = e.evalInt(n.Hi)
			} else {
				hi = b.Len
			}
			return e.x.substr(b, lo, hi)
		}
		e.fail("slice expression on %T", base)
	case *contract.Sel:
		return e.sel(n)
	case *contract.Call:
		return e.call(n)
	}
	e.fail("unsupported expression %T", ex)
	return nil
}

func (e *Env) ident(name string) Val {
	if v, ok := e.vars[name]; ok {
		return v
	}
	if e.locals && len(e.st.Frames) > 0 && name == "rangeindex" && e.loopHead != nil && e.fn != nil {
		// the hidden index of a `for ... range slice` loop: several loops of a function have one
		// each; take the one of the innermost range loop around the invariant's loop head
		if a := e.x.rangeIndexAlloc(e.fn, e.loopHead); a != nil {
			if v, ok := e.st.Frames[0].Cells[a]; ok {
				return v
			}
		}
	}
	if e.locals && len(e.st.Frames) > 0 {
		fr := e.st.Frames[0]
		var best *ssa.Alloc
		for a := range fr.Cells {
			if a.Comment == name && (best == nil || a.Pos() > best.Pos()) {
				best = a
			}
		}
		if best != nil {
			return fr.Cells[best]
		}
		// escaping locals live on the heap: find the Alloc register
		for v, val := range fr.Regs {
			if a, ok := v.(*ssa.Alloc); ok && a.Heap && a.Comment == name {
				elem := a.Type().(*types.Pointer).Elem()
				return e.x.load(e.st, e.x.ptrAddr(val.(VT).T, elem))
			}
		}
	}
	if g, ok := e.st.Ghost[name]; ok {
		return g
	}
	switch name {
	case "nil":
		return VNil{}
	case "MaxInt":
		return VT{term.I(1<<63 - 1), tyInt}
	}
	if e.pkg != nil {
		if obj := e.pkg.Scope().Lookup(name); obj != nil {
			return e.object(obj)
		}
	}
	if obj := types.Universe.Lookup(name); obj != nil {
		if c, ok := obj.(*types.Const); ok {
			return e.constObj(c)
		}
	}
	e.fail("unknown identifier %q", name)
	return nil
}

// VNil is the untyped nil of contract expressions.
type VNil struct{}

func (e *Env) constObj(c *types.Const) Val {
	switch c.Val().Kind() {
	case constant.Bool:
		return VT{term.B(constant.BoolVal(c.Val())), c.Type()}
	case constant.Int:
		i, ok := constant.Int64Val(c.Val())
		if !ok {
			e.fail("constant %s too large", c.Name())
		}
		return VT{term.I(i), c.Type()}
	case constant.String:
		return e.x.strConst(constant.StringVal(c.Val()))
	}
	e.fail("unsupported constant %s", c.Name())
	return nil
}

func (e *Env) object(obj types.Object) Val {
	switch o := obj.(type) {
	case *types.Const:
		return e.constObj(o)
	case *types.Var:
		g := e.x.P.globalFor(o)
		if g == nil {
			e.fail("no SSA global for %s", o.Name())
		}
		elem := g.Type().(*types.Pointer).Elem()
		ref := e.x.P.globalRef(g)
		if arr, ok := elem.Underlying().(*types.Array); ok {
			return e.x.loadArray(e.st, e.x.ptrAddr(ref, elem), arr)
		}
		return e.x.load(e.st, e.x.ptrAddr(ref, elem))
	}
	e.fail("identifier %s does not denote a value", obj.Name())
	return nil
}

func (e *Env) sel(n *contract.Sel) Val {
	// qualified identifier pkg.Name
	if id, ok := n.X.(*contract.Ident); ok {
		if _, isVar := e.vars[id.Name]; !isVar && e.pkg != nil {
			for _, imp := range e.pkg.Imports() {
				if imp.Name() == id.Name {
					obj := imp.Scope().Lookup(n.Name)
					if obj == nil {
						e.fail("%s.%s not found", id.Name, n.Name)
					}
					return e.object(obj)
				}
			}
			if e.pkg.Name() == id.Name {
				if obj := e.pkg.Scope().Lookup(n.Name); obj != nil {
					return e.object(obj)
				}
			}
		}
	}
	base := e.eval(n.X)
	return e.field(base, n.Name)
}

func (e *Env) field(base Val, name string) Val {
	if bt, ok := base.(VT); ok && bt.Ty != nil {
		if _, isChan := bt.Ty.Underlying().(*types.Chan); isChan {
			class, so := chanGhostSort(name)
			if so == nil {
				e.fail("a channel has the ghost fields sent, nsent, closed (not %s)", name)
			}
			return VMath{e.x.chanGet(e.st, class, so, bt.T)}
		}
	}
	switch b := base.(type) {
	case VStruct:
		stt := b.Ty.Underlying().(*types.Struct)
		for i := 0; i < stt.NumFields(); i++ {
			if stt.Field(i).Name() == name {
				return b.F[i]
			}
		}
		// promoted through embedded fields
		for i := 0; i < stt.NumFields(); i++ {
			if stt.Field(i).Embedded() {
				if v := e.tryField(b.F[i], name); v != nil {
					return v
				}
			}
		}
		e.fail("no field %s in %s", name, b.Ty)
	case VT:
		pt, ok := b.Ty.Underlying().(*types.Pointer)
		if !ok {
			e.fail("field %s of non-pointer scalar %s", name, b.Ty)
		}
		if v := e.ptrField(b.T, pt.Elem(), name); v != nil {
			return v
		}
		e.fail("no field %s in %s", name, pt.Elem())
	case VTuple:
		var i int
		if _, err := fmt.Sscanf(name, "r%d", &i); err == nil && i < len(b) {
			return b[i]
		}
	case VSlice:
		switch name {
		case "ref":
			return VT{b.Ref, tyInt}
		case "off":
			return VT{b.Off, tyInt}
		}
	case VIface:
		switch name {
		case "tag":
			return VT{b.Tag, tyInt}
		case "data":
			return VT{b.Data, tyInt}
		}
	case VFunc:
		switch name {
		case "fn":
			return VT{b.Fn, tyInt}
		case "env":
			return VT{b.Env, tyInt}
		}
	}
	e.fail("selector .%s on %T", name, base)
	return nil
}

func (e *Env) tryField(base Val, name string) (res Val) {
	defer func() {
		if r := recover(); r != nil {
			if _, ok := r.(*ExecError); ok {
				res = nil
				return
			}
			panic(r)
		}
	}()
	return e.field(base, name)
}

// ptrField loads field `name` (real, promoted or ghost) of the struct object at ref.
func (e *Env) ptrField(ref *T, elem types.Type, name string) Val {
	stt, ok := elem.Underlying().(*types.Struct)
	if !ok {
		return nil
	}
	class := classFor(elem)
	for i := 0; i < stt.NumFields(); i++ {
		f := stt.Field(i)
		if f.Name() == name {
			return e.x.loadAt(e.st, class, "."+name, f.Type(), ref, nil)
		}
	}
	if g := e.x.P.ghostField(typeKey(elem), name); g != nil {
		return VMath{e.x.loadComp(e.st, class+".$"+name, g, ref, nil)}
	}
	for i := 0; i < stt.NumFields(); i++ {
		f := stt.Field(i)
		if !f.Embedded() {
			continue
		}
		if pt, ok := f.Type().Underlying().(*types.Pointer); ok {
			inner := e.x.loadAt(e.st, class, "."+f.Name(), f.Type(), ref, nil).(VT)
			if v := e.ptrField(inner.T, pt.Elem(), name); v != nil {
				return v
			}
		} else if _, ok := f.Type().Underlying().(*types.Struct); ok {
			sv := e.x.loadAt(e.st, class, "."+f.Name(), f.Type(), ref, nil)
			if v := e.tryField(sv, name); v != nil {
				return v
			}
		}
	}
	return nil
}

func (e *Env) index(base Val, i *T, n contract.Expr) Val {
	switch b := base.(type) {
	case VSlice:
		et := b.Ty.Underlying().(*types.Slice).Elem()
		return e.x.loadAt(e.st, "e:"+typeKey(et), "", et, b.Ref, term.Add(b.Off, i))
	case VStr:
		return VT{e.x.strByte(b, i), types.Typ[types.Uint8]}
	case VArr:
		et := b.Ty.Underlying().(*types.Array).Elem()
		ts := make([]*T, len(b.C))
		for k := range b.C {
			ts[k] = term.Select(b.C[k], i)
		}
		return mkVal(et, ts)
	case VMath:
		if b.T.Sort.K != term.KArr {
			e.fail("indexing a non-array ghost value")
		}
		return VMath{term.Select(b.T, i)}
	case VT:
		if mt, ok := b.Ty.Underlying().(*types.Map); ok {
			v, _ := e.x.mapLookup(b.T, i, mt)
			return v
		}
	}
	e.fail("index on %T", base)
	return nil
}

func (e *Env) binary(n *contract.Binary) Val {
	switch n.Op {
	case "&&":
		return VT{term.And(e.evalBool(n.X), e.evalBool(n.Y)), tyBool}
	case "||":
		return VT{term.Or(e.evalBool(n.X), e.evalBool(n.Y)), tyBool}
	case "==>":
		return VT{term.Imp(e.evalBool(n.X), e.evalBool(n.Y)), tyBool}
	case "<==>":
		return VT{term.Eq(e.evalBool(n.X), e.evalBool(n.Y)), tyBool}
	}
	a, b := e.eval(n.X), e.eval(n.Y)
	if n.Op == "==" || n.Op == "!=" {
		eq := e.equal(a, b)
		if n.Op == "!=" {
			eq = term.Not(eq)
		}
		return VT{eq, tyBool}
	}
	p, ok1 := scalar(a)
	q, ok2 := scalar(b)
	if !ok1 || !ok2 {
		if sa, ok := a.(VStr); ok && n.Op == "+" {
			return e.x.strConcat(sa, b.(VStr))
		}
		e.fail("operator %s on %T, %T", n.Op, a, b)
	}
	ty := types.Type(tyInt)
	if at, ok := a.(VT); ok && at.Ty != nil && isInteger(at.Ty) {
		ty = at.Ty
	}
	switch n.Op {
	case "+":
		return VT{term.Add(p, q), tyInt}
	case "-":
		return VT{term.Sub(p, q), tyInt}
	case "*":
		return VT{term.Mul(p, q), tyInt}
	case "/":
		return VT{term.Div(p, q), tyInt}
	case "%":
		return VT{term.Mod(p, q), tyInt}
	case "<":
		return VT{term.Lt(p, q), tyBool}
	case "<=":
		return VT{term.Le(p, q), tyBool}
	case ">":
		return VT{term.Lt(q, p), tyBool}
	case ">=":
		return VT{term.Le(q, p), tyBool}
	case "&":
		return VT{e.x.bitAnd(p, q, tyInt), tyInt}
	case "|":
		return VT{term.AppH(fBor, p, q), tyInt}
	case "^":
		return VT{term.AppH(fBxor, p, q), tyInt}
	case "<<":
		if k, ok := q.Int64(); ok {
			return VT{term.Mul(p, pow2(k)), tyInt}
		}
		return VT{term.AppH(fShl, p, q), tyInt}
	case ">>":
		if k, ok := q.Int64(); ok {
			return VT{term.EDiv(p, pow2(k)), tyInt}
		}
		return VT{term.AppH(fShr, p, q), ty}
	}
	e.fail("unsupported operator %s", n.Op)
	return nil
}

func (e *Env) equal(a, b Val) *T {
	if _, ok := a.(VNil); ok {
		a, b = b, a
	}
	if _, ok := b.(VNil); ok {
		switch v := a.(type) {
		case VT:
			return term.Eq(v.T, term.I(0))
		case VSlice:
			return term.Eq(v.Ref, term.I(0))
		case VIface:
			return term.Eq(v.Tag, term.I(0))
		case VFunc:
			return term.Eq(v.Fn, term.I(0))
		case VNil:
			return term.True
		}
		e.fail("comparison of %T with nil", a)
	}
	if sa, ok := a.(VStr); ok {
		return e.x.strEq(sa, b.(VStr))
	}
	// comparing an interface value with a concrete value: box the concrete one
	if ia, ok := a.(VIface); ok {
		if sb, ok := b.(VStruct); ok {
			b = e.x.makeIface(e.st, sb, sb.Ty, ia.Ty)
		}
	} else if ib, ok := b.(VIface); ok {
		if sa, ok := a.(VStruct); ok {
			a = e.x.makeIface(e.st, sa, sa.Ty, ib.Ty)
		}
	}
	p, ok1 := scalar(a)
	q, ok2 := scalar(b)
	if ok1 && ok2 {
		return term.Eq(p, q)
	}
	fa, fb := flatten(a), flatten(b)
	if len(fa) != len(fb) {
		e.fail("comparison of differently shaped values %T, %T", a, b)
	}
	cs := make([]*T, len(fa))
	for i := range fa {
		cs[i] = term.Eq(fa[i], fb[i])
	}
	return term.And(cs...)
}

func (e *Env) call(n *contract.Call) Val {
	// method-like or qualified calls
	if s, ok := n.Fun.(*contract.Sel); ok {
		if id, ok := s.X.(*contract.Ident); ok {
			if _, isVar := e.vars[id.Name]; !isVar {
				if d := e.x.P.lookupDefine(id.Name + "." + s.Name); d != nil {
					return e.expand(d, n.Args)
				}
			}
		}
		recv := e.eval(s.X)
		return e.pureMethod(recv, s.Name, n.Args)
	}
	id, ok := n.Fun.(*contract.Ident)
	if !ok {
		e.fail("unsupported call form")
	}
	switch id.Name {
	case "len":
		v := e.eval(n.Args[0])
		switch a := v.(type) {
		case VSlice:
			return VT{a.Len, tyInt}
		case VStr:
			return VT{a.Len, tyInt}
		case VArr:
			return VT{term.I(a.Ty.Underlying().(*types.Array).Len()), tyInt}
		case VT:
			if _, ok := a.Ty.Underlying().(*types.Map); ok {
				return VT{term.I(int64(len(e.x.mapObj(a.T).Keys))), tyInt}
			}
		}
		e.fail("len of %T", v)
	case "cap":
		if a, ok := e.eval(n.Args[0]).(VSlice); ok {
			return VT{a.Cap, tyInt}
		}
		e.fail("cap of non-slice")
	case "fresh":
		v := e.eval(n.Args[0])
		var ref *T
		switch a := v.(type) {
		case VT:
			ref = a.T
		case VSlice:
			ref = a.Ref
		case VIface:
			ref = a.Data
		default:
			e.fail("fresh of %T", v)
		}
		ab := e.allocBefore
		if ab == nil {
			ab = e.x.entryAlloc
		}
		return VT{term.Le(ab, ref), tyBool}
	case "store":
		a, ok := e.eval(n.Args[0]).(VMath)
		if !ok {
			e.fail("store on non-ghost array")
		}
		v, _ := scalar(e.eval(n.Args[2]))
		return VMath{term.Store(a.T, e.evalInt(n.Args[1]), v)}
	case "select":
		a, ok := e.eval(n.Args[0]).(VMath)
		if !ok {
			e.fail("select on non-ghost array")
		}
		return VMath{term.Select(a.T, e.evalInt(n.Args[1]))}
	case "arrcopy":
		// arrcopy(m, at, src): ghost array m with len(src) elements of slice src written at offset at
		return e.arrCopy(n)
	case "putbits":
		// putbits(m, at, v, w): ghost bit array m with the low w bits of v written msb-first at offset at
		return e.putBits(n)
	case "constmap":
		v, _ := scalar(e.eval(n.Args[0]))
		return VMath{term.ConstArr(term.Arr(term.Int, v.Sort), v)}
	case "emod":
		return VT{term.EMod(e.evalInt(n.Args[0]), e.evalInt(n.Args[1])), tyInt}
	case "ediv":
		return VT{term.EDiv(e.evalInt(n.Args[0]), e.evalInt(n.Args[1])), tyInt}
	case "typeis":
		v, ok := e.eval(n.Args[0]).(VIface)
		if !ok {
			e.fail("typeis on non-interface")
		}
		name := n.Args[1].(*contract.StrLit).Val
		t := e.parseType(name)
		return VT{term.Eq(v.Tag, term.I(e.x.P.typeID(t))), tyBool}
	case "implements":
		v, ok := e.eval(n.Args[0]).(VIface)
		if !ok {
			e.fail("implements on non-interface")
		}
		t := e.parseType(n.Args[1].(*contract.StrLit).Val)
		return VT{e.x.P.implementsTerm(e.x, v.Tag, t), tyBool}
	case "asptr":
		v, ok := e.eval(n.Args[0]).(VIface)
		if !ok {
			e.fail("asptr on non-interface")
		}
		t := e.parseType(n.Args[1].(*contract.StrLit).Val)
		return VT{v.Data, t}
	case "unbox":
		v, ok := e.eval(n.Args[0]).(VIface)
		if !ok {
			e.fail("unbox on non-interface")
		}
		t := e.parseType(n.Args[1].(*contract.StrLit).Val)
		return e.x.unbox(e.st, v, t)
	case "captured":
		// captured(f, "name"): current value of the variable `name` captured by closure value f
		f, ok := e.eval(n.Args[0]).(VFunc)
		if !ok {
			e.fail("captured: first argument is not a function value")
		}
		return e.captured(f, n.Args[1].(*contract.StrLit).Val, n.Args[2].(*contract.StrLit).Val)
	case "funcid":
		fn, err := e.x.P.FindFunc(e.qual(n.Args[0].(*contract.StrLit).Val))
		if err != nil {
			e.fail("funcid: %v", err)
		}
		return VT{term.I(e.x.P.funcID(fn)), tyInt}
	case "iterpos":
		return e.iterPos()
	case "config":
		// config("name"): a parameter of the finite configuration being unwound
		k := n.Args[0].(*contract.StrLit).Val
		v, ok := e.x.Config[k]
		if !ok {
			e.fail("config(%q) is not set by the unwinding driver", k)
		}
		return VT{term.I(v), tyInt}
	case "arrof":
		// arrof(s): the backing array of an integer slice as a mathematical array; element k of s
		// is arrof(s)[s.off + k]
		v := e.eval(n.Args[0])
		sl, ok := v.(VSlice)
		if !ok {
			e.fail("arrof() of a non-slice")
		}
		et := sl.Ty.Underlying().(*types.Slice).Elem()
		cs := comps(et)
		if len(cs) != 1 || cs[0].sort != term.Int {
			e.fail("arrof(): only slices of integer-like elements")
		}
		// (tables built by package initialisers are immutable: read from the initial snapshot, as loads do)
		return VMath{e.x.loadComp(e.st, "e:"+typeKey(et), term.Int, sl.Ref, nil)}
	case "bytes":
		// bytes(s): the byte sequence of a string as a mathematical array (index 0 = first byte)
		v := e.eval(n.Args[0])
		if sv, ok := v.(VStr); ok {
			return VMath{sv.Arr}
		}
		e.fail("bytes() of a non-string")
	case "lockheld":
		v, _ := scalar(e.eval(n.Args[0]))
		return VT{term.B(e.st.Locks[v.String()]), tyBool}
	case "int":
		v := e.eval(n.Args[0])
		if f, ok := v.(VFlt); ok {
			return VT{fltTrunc(f), tyInt}
		}
		return v
	}
	if d := e.x.P.lookupDefine(e.qual(id.Name)); d != nil {
		return e.expand(d, n.Args)
	}
	if f := e.x.P.specFun(id.Name); f != nil {
		args := make([]*T, len(n.Args))
		for i, a := range n.Args {
			v, ok := scalar(e.eval(a))
			if !ok {
				e.fail("spec function %s: non-scalar argument", id.Name)
			}
			args[i] = v
		}
		return VMath{term.AppH(f, args...)}
	}
	e.fail("unknown function %q in contract", id.Name)
	return nil
}

func (e *Env) qual(name string) string {
	if e.pkg != nil {
		return e.pkg.Name() + "." + name
	}
	return name
}

func (e *Env) expand(d *contract.Define, args []contract.Expr) Val {
	if len(args) != len(d.Params) {
		e.fail("define %s: %d arguments for %d parameters", d.Name, len(args), len(d.Params))
	}
	sub := *e
	sub.vars = map[string]Val{}
	for i, p := range d.Params {
		sub.vars[p.Name] = e.eval(args[i])
	}
	sub.locals = false
	sub.pkg = e.x.P.pkgOfDefine(d)
	return sub.eval(d.Body)
}

// pureMethod evaluates a method call in a specification: only methods whose contract is `pure`
// are allowed; the result is the uninterpreted function that the purity contract licenses.
func (e *Env) pureMethod(recv Val, name string, args []contract.Expr) Val {
	var argv []Val
	for _, a := range args {
		argv = append(argv, e.eval(a))
	}
	return e.x.pureCall(e.st, recv, name, argv)
}

func (e *Env) iterPos() Val {
	if e.loopHead == nil {
		e.fail("iterpos outside a loop invariant")
	}
	for _, ins := range e.loopHead.Instrs {
		if nx, ok := ins.(*ssa.Next); ok {
			if it, ok := e.st.Frames[0].Regs[nx.Iter].(VRange); ok {
				return VT{it.Pos, tyInt}
			}
		}
	}
	e.fail("iterpos: loop is not a range over a string or map")
	return nil
}

func (e *Env) parseType(s string) types.Type {
	s = strings.TrimSpace(s)
	switch s {
	case "int":
		return tyInt
	case "bool":
		return tyBool
	case "byte", "uint8":
		return types.Typ[types.Uint8]
	case "rune", "int32":
		return types.Typ[types.Int32]
	case "string":
		return types.Typ[types.String]
	case "uint":
		return types.Typ[types.Uint]
	case "int64":
		return types.Typ[types.Int64]
	}
	if strings.HasPrefix(s, "*") {
		return types.NewPointer(e.parseType(s[1:]))
	}
	if strings.HasPrefix(s, "[]") {
		return types.NewSlice(e.parseType(s[2:]))
	}
	if i := strings.Index(s, "."); i >= 0 {
		if p := e.x.P.pkgByName(s[:i]); p != nil {
			if obj := p.Scope().Lookup(s[i+1:]); obj != nil {
				return obj.Type()
			}
		}
		e.fail("unknown type %s", s)
	}
	if e.pkg != nil {
		if obj := e.pkg.Scope().Lookup(s); obj != nil {
			if tn, ok := obj.(*types.TypeName); ok {
				return tn.Type()
			}
		}
	}
	e.fail("unknown type %q", s)
	return nil
}

var _ = token.NoPos

func (e *Env) arrCopy(n *contract.Call) Val {
	m, ok := e.eval(n.Args[0]).(VMath)
	if !ok || m.T.Sort.K != term.KArr {
		e.fail("arrcopy: first argument must be a ghost array")
	}
	at := e.evalInt(n.Args[1])
	src, ok := e.eval(n.Args[2]).(VSlice)
	if !ok {
		e.fail("arrcopy: third argument must be a slice")
	}
	et := src.Ty.Underlying().(*types.Slice).Elem()
	get := func(i *T) *T {
		v, ok := scalar(e.x.loadAt(e.st, "e:"+typeKey(et), "", et, src.Ref, term.Add(src.Off, i)))
		if !ok {
			e.fail("arrcopy: non-scalar elements")
		}
		return v
	}
	if k, ok := src.Len.Int64(); ok && k <= 4096 {
		r := m.T
		for i := int64(0); i < k; i++ {
			r = term.Store(r, term.Add(at, term.I(i)), get(term.I(i)))
		}
		return VMath{r}
	}
	na := term.Fresh("arrcopy", m.T.Sort)
	j := term.Bound("j", term.Int)
	in := term.And(term.Le(at, j), term.Lt(j, term.Add(at, src.Len)))
	e.x.assumeOnce(term.ForallPat([]*T{j}, term.Eq(term.Select(na, j), term.Ite(in, get(term.Sub(j, at)), term.Select(m.T, j))), [][]*T{{term.Select(na, j)}}))
	return VMath{na}
}

// bitOfInt is the term the executor builds for ((v >> k) & 1) == 1.
func bitOfInt(v, k *T) *T {
	if c, ok := k.Int64(); ok {
		return term.Eq(term.EMod(term.EDiv(v, pow2(c)), term.I(2)), term.I(1))
	}
	return term.Eq(term.EMod(term.AppH(fShr, v, k), term.I(2)), term.I(1))
}

func (e *Env) putBits(n *contract.Call) Val {
	m, ok := e.eval(n.Args[0]).(VMath)
	if !ok || m.T.Sort != term.Arr(term.Int, term.Bool) {
		e.fail("putbits: first argument must be a ghost bit array")
	}
	at := e.evalInt(n.Args[1])
	v := e.evalInt(n.Args[2])
	w := e.evalInt(n.Args[3])
	var fixed func(w *T) *T
	fixed = func(w *T) *T {
		if k, ok := w.Int64(); ok && k <= 64 {
			r := m.T
			for i := int64(0); i < k; i++ {
				r = term.Store(r, term.Add(at, term.I(i)), bitOfInt(v, term.I(k-1-i)))
			}
			return r
		}
		if w.Op == term.OIte {
			// a width chosen among constants (e.g. the character count field of a QR version class)
			a, b := fixed(w.Args[1]), fixed(w.Args[2])
			if a != nil && b != nil {
				return term.Ite(w.Args[0], a, b)
			}
		}
		return nil
	}
	if r := fixed(w); r != nil {
		return VMath{r}
	}
	na := term.Fresh("putbits", m.T.Sort)
	j := term.Bound("j", term.Int)
	in := term.And(term.Le(at, j), term.Lt(j, term.Add(at, w)))
	e.x.assumeOnce(term.ForallPat([]*T{j}, term.Eq(term.Select(na, j),
		term.Ite(in, bitOfInt(v, term.Sub(term.Add(at, w), term.Add(j, term.I(1)))), term.Select(m.T, j))), [][]*T{{term.Select(na, j)}}))
	return VMath{na}
}

// captured loads the variable `name` captured by the closure `fnref` whose environment is f.Env.
func (e *Env) captured(f VFunc, fnref, name string) Val {
	fn, err := e.x.P.FindFunc(e.qual(fnref))
	if err != nil {
		e.fail("captured: %v", err)
	}
	for i, fv := range fn.FreeVars {
		if fv.Name() == name {
			ptr := e.x.loadAt(e.st, fmt.Sprintf("c:%s", fnName(fn)), fmt.Sprintf(".%d", i), fv.Type(), f.Env, nil).(VT)
			elem := fv.Type().(*types.Pointer).Elem()
			return e.x.load(e.st, e.x.ptrAddr(ptr.T, elem))
		}
	}
	e.fail("captured: %s has no free variable %s", fnref, name)
	return nil
}

// expandQuant instantiates `forall i :: lo <= i && i < hi ==> P(i)` when the range is concrete
// and small (unwinding mode: the instances usually fold to constants).
func (e *Env) expandQuant(q *contract.Quant) Val {
	if e.x.Mode == ModeProof || !q.Forall || len(q.Vars) != 1 {
		return nil
	}
	imp, ok := q.Body.(*contract.Binary)
	if !ok || imp.Op != "==>" {
		return nil
	}
	guard, ok := imp.X.(*contract.Binary)
	if !ok || guard.Op != "&&" {
		return nil
	}
	name := q.Vars[0].Name
	var lo, hi *T
	for _, g := range []contract.Expr{guard.X, guard.Y} {
		b, ok := g.(*contract.Binary)
		if !ok {
			return nil
		}
		xi, xIsVar := b.X.(*contract.Ident)
		yi, yIsVar := b.Y.(*contract.Ident)
		switch {
		case b.Op == "<=" && yIsVar && yi.Name == name && !mentions(b.X, name):
			lo = e.evalInt(b.X)
		case b.Op == "<" && xIsVar && xi.Name == name && !mentions(b.Y, name):
			hi = e.evalInt(b.Y)
		case b.Op == "<=" && xIsVar && xi.Name == name && !mentions(b.Y, name):
			hi = term.Add(e.evalInt(b.Y), term.I(1))
		default:
			return nil
		}
	}
	if lo == nil || hi == nil {
		return nil
	}
	l, ok1 := lo.Int64()
	h, ok2 := hi.Int64()
	if !ok1 || !ok2 || h-l > 1<<16 {
		return nil
	}
	sub := *e
	sub.vars = map[string]Val{}
	for k, v := range e.vars {
		sub.vars[k] = v
	}
	var cs []*T
	for i := l; i < h; i++ {
		sub.vars[name] = VT{term.I(i), tyInt}
		c := sub.evalBool(imp.Y)
		if c == term.False {
			return VT{term.False, tyBool}
		}
		if c != term.True {
			cs = append(cs, c)
		}
	}
	return VT{term.And(cs...), tyBool}
}

// rangeIndexAlloc finds the "rangeindex" local of the innermost range-over-slice loop whose body
// contains block b (or whose header is b).
func (x *Exec) rangeIndexAlloc(fn *ssa.Function, b *ssa.BasicBlock) *ssa.Alloc {
	info := x.P.funcInfo(fn)
	var best *Loop
	var bestA *ssa.Alloc
	for _, l := range info.headers {
		if !l.Blocks[b] {
			continue
		}
		var a *ssa.Alloc
		for _, ins := range l.Head.Instrs {
			if u, ok := ins.(*ssa.UnOp); ok && u.Op == token.MUL {
				if al, ok := u.X.(*ssa.Alloc); ok && al.Comment == "rangeindex" {
					a = al
					break
				}
			}
		}
		if a == nil {
			continue
		}
		if best == nil || len(l.Blocks) < len(best.Blocks) {
			best, bestA = l, a
		}
	}
	return bestA
}
