package exec

import (
	"fmt"
	"go/types"
	"sort"

	"golang.org/x/tools/go/ssa"

	"verif/govc/term"
)

const initAllocBase = InitBase + 1<<16

// RunInit executes the package initialisers of the module concretely and records the resulting
// objects (tables, maps, Galois fields ...) as the init region.
func (p *Program) RunInit() (err error) {
	defer func() {
		if r := recover(); r != nil {
			if e, ok := r.(*ExecError); ok {
				err = fmt.Errorf("package initialisation: %v", e)
				return
			}
			panic(r)
		}
	}()
	p.Init = &InitState{Heap: map[string]map[int64]*T{}, Maps: map[int64]*MapObj{}}
	x := NewExec(p, nil, ModeInit)
	x.building = true
	st := &State{PC: term.True, Heap: map[string]*T{}, Alloc: term.I(initAllocBase), Open: map[*ssa.BasicBlock]*loopEntry{}, Locks: map[string]bool{}, Ghost: map[string]Val{}}
	var paths []string
	for path := range p.SSAPkgs {
		if p.isRepoPath(path) {
			paths = append(paths, path)
		}
	}
	sort.Strings(paths)
	// zero-initialise all globals of the module
	for _, path := range paths {
		sp := p.SSAPkgs[path]
		var names []string
		for n, m := range sp.Members {
			if _, ok := m.(*ssa.Global); ok {
				names = append(names, n)
			}
		}
		sort.Strings(names)
		for _, n := range names {
			g := sp.Members[n].(*ssa.Global)
			x.initObject(st, g.Type().(*types.Pointer).Elem(), p.globalRef(g))
		}
	}
	for _, path := range paths {
		fn := p.SSAPkgs[path].Func("init")
		if fn == nil {
			continue
		}
		nst, _ := x.runFunction(st, fn, nil, nil)
		if nst == nil {
			return fmt.Errorf("init of %s does not return", path)
		}
		st = nst
	}
	// snapshot
	for class, h := range st.Heap {
		m := map[int64]*T{}
		type symStore struct{ i, v *T }
		var syms []symStore
		for h.Op == term.OStore {
			k, ok := h.Args[1].Int64()
			if !ok {
				// boxed interface payloads are keyed by box!T(contents): kept as a store chain
				syms = append(syms, symStore{h.Args[1], h.Args[2]})
				h = h.Args[0]
				continue
			}
			if _, dup := m[k]; !dup {
				m[k] = h.Args[2]
			}
			h = h.Args[0]
		}
		if len(syms) > 0 {
			base := term.Var("H0!"+class, st.Heap[class].Sort)
			for i := len(syms) - 1; i >= 0; i-- {
				base = term.Store(base, syms[i].i, syms[i].v)
			}
			if p.Init.Extra == nil {
				p.Init.Extra = map[string]*T{}
			}
			p.Init.Extra[class] = base
		}
		if h.Op == term.OArrMap {
			h.M.Each(func(k int64, v *T) bool {
				if _, dup := m[k]; !dup {
					m[k] = v
				}
				return true
			})
			h = h.Args[0]
		}
		if h.Op != term.OVar {
			return fmt.Errorf("init heap class %s has unexpected shape", class)
		}
		p.Init.Heap[class] = m
	}
	a, _ := st.Alloc.Int64()
	p.Init.Alloc = a
	for c, s := range x.classSorts {
		if p.initSorts == nil {
			p.initSorts = map[string]*term.Sort{}
		}
		p.initSorts[c] = s
	}
	return nil
}

// axiomTerms: background axioms about the uninterpreted bit operators. Each is validated
// separately against the bit-vector reading (obligation family axiom/*, see bvcheck.go).
func (p *Program) axiomTerms(x *Exec) []*T {
	if p.axioms != nil {
		return p.axioms
	}
	a := term.Bound("x", term.Int)
	b := term.Bound("y", term.Int)
	nn := term.And(term.Le(term.I(0), a), term.Le(term.I(0), b))
	band := term.App(fBand, a, b)
	bor := term.App(fBor, a, b)
	bxor := term.App(fBxor, a, b)
	var out []*T
	out = append(out, term.ForallPat([]*T{a, b}, term.Imp(nn, term.And(term.Le(term.I(0), band), term.Le(band, a), term.Le(band, b))), [][]*T{{band}}))
	out = append(out, term.ForallPat([]*T{a, b}, term.Imp(nn, term.And(term.Le(a, bor), term.Le(b, bor), term.Le(bor, term.Add(a, b)))), [][]*T{{bor}}))
	out = append(out, term.ForallPat([]*T{a, b}, term.Imp(nn, term.And(term.Le(term.I(0), bxor), term.Le(bxor, term.Add(a, b)))), [][]*T{{bxor}}))
	for _, k := range []int64{1, 2, 3, 4, 5, 6, 7, 8, 10, 12, 16, 32} {
		lim := pow2(k)
		in := term.And(nn, term.Lt(a, lim), term.Lt(b, lim))
		out = append(out, term.ForallPat([]*T{a, b}, term.Imp(in, term.And(term.Lt(bor, lim), term.Lt(bxor, lim))), [][]*T{{bor}, {bxor}}))
	}
	// single-bit set / clear / test on 32-bit words (BitList), s and t are bit numbers
	w := term.Bound("w", term.Int)
	sb := term.Bound("s", term.Int)
	tb := term.Bound("t", term.Int)
	rng := term.And(term.Le(term.I(0), sb), term.Le(sb, term.I(31)), term.Le(term.I(0), tb), term.Le(tb, term.I(31)),
		term.Le(term.I(-(1<<31)), w), term.Le(w, term.I(1<<31-1)))
	bit := func(v, k *T) *T { return term.Eq(term.EMod(term.App(fShr, v, k), term.I(2)), term.I(1)) }
	one := term.App(fShl, term.I(1), sb)
	setw := term.App(fBor, w, one)
	clrw := term.App(fBand, w, term.Sub(term.I(-1), one))
	out = append(out, term.ForallPat([]*T{w, sb, tb}, term.Imp(rng, term.Eq(bit(setw, tb), term.Or(term.Eq(sb, tb), bit(w, tb)))), [][]*T{{term.App(fShr, setw, tb)}}))
	out = append(out, term.ForallPat([]*T{w, sb, tb}, term.Imp(rng, term.Eq(bit(clrw, tb), term.And(term.Ne(sb, tb), bit(w, tb)))), [][]*T{{term.App(fShr, clrw, tb)}}))
	// byte extraction: bit t of ((w >> s) & 0xFF) is bit s+t of w
	rng2 := term.And(term.Le(term.I(0), sb), term.Le(sb, term.I(24)), term.Le(term.I(0), tb), term.Le(tb, term.I(7)),
		term.Le(term.I(-(1<<31)), w), term.Le(w, term.I(1<<31-1)))
	byteOf := term.EMod(term.App(fShr, w, sb), term.I(256))
	out = append(out, term.ForallPat([]*T{w, sb, tb}, term.Imp(rng2, term.Eq(bit(byteOf, tb), bit(w, term.Add(sb, tb)))), [][]*T{{term.App(fShr, byteOf, tb)}}))
	out = append(out, term.ForallPat([]*T{sb}, term.Eq(term.App(fShr, term.I(0), sb), term.I(0)), [][]*T{{term.App(fShr, term.I(0), sb)}}))
	out = append(out, term.ForallPat([]*T{sb}, term.Eq(term.App(fShl, term.I(0), sb), term.I(0)), [][]*T{{term.App(fShl, term.I(0), sb)}}))
	// setting a bit that is known to be clear is an addition: a | 2^k == a + 2^k when a is a
	// multiple of 2^(k+1) (bits are set from the most significant one downwards)
	for k := int64(0); k <= 15; k++ {
		c := pow2(k)
		orc := term.App(fBor, a, c)
		out = append(out, term.ForallPat([]*T{a}, term.Imp(term.And(term.Le(term.I(0), a), term.Eq(term.EMod(a, pow2(k+1)), term.I(0))),
			term.Eq(orc, term.Add(a, c))), [][]*T{{orc}}))
	}
	p.axioms = out
	return out
}

// specDefAxioms returns the defining equations of the `specdef` functions:
// forall params. f(params) == body, with f(params) as trigger.
func (p *Program) specDefAxioms(x *Exec) []*T {
	if p.specDefAx != nil || len(p.SpecDefs) == 0 {
		return p.specDefAx
	}
	st := &State{PC: term.True, Heap: map[string]*T{}, Alloc: term.I(FreshBase), Locks: map[string]bool{}, Ghost: map[string]Val{}}
	for _, d := range p.SpecDefs {
		env := x.newEnv(st, nil, nil)
		env.pkg = p.pkgOfDefine(d)
		sig := p.specFuns[d.Name]
		var bnd []*T
		for i, pa := range d.Params {
			b := term.Bound(fmt.Sprintf("%s?%s", d.Name, pa.Name), sig.Args[i])
			bnd = append(bnd, b)
			switch pa.Type {
			case "int":
				env.vars[pa.Name] = VT{b, tyInt}
			case "bool":
				env.vars[pa.Name] = VT{b, tyBool}
			default:
				env.vars[pa.Name] = VMath{b}
			}
		}
		body, ok := scalar(env.eval(d.Body))
		if !ok {
			x.fail("specdef %s: body is not a scalar", d.Name)
		}
		app := term.App(sig, bnd...)
		p.specDefAx = append(p.specDefAx, term.ForallPat(bnd, term.Eq(app, body), [][]*T{{app}}))
	}
	return p.specDefAx
}
