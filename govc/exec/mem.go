package exec

import (
	"fmt"
	"go/types"
	"math/big"
	"sort"
	"strings"

	"golang.org/x/tools/go/ssa"

	"verif/govc/term"
)

func pow2m1(bits int) *big.Int {
	v := new(big.Int).Lsh(big.NewInt(1), uint(bits))
	return v.Sub(v, big.NewInt(1))
}
func negPow2(bits int) *big.Int {
	v := new(big.Int).Lsh(big.NewInt(1), uint(bits))
	return v.Neg(v)
}

// Reference regions (see DESIGN §2.3): [1, InitBase) objects that exist at function entry and are
// reachable from the arguments (symbolic), [InitBase, FreshBase) objects built by package
// initialisers (concrete, evaluated by running the init functions), [FreshBase, ...) objects
// allocated by the function under verification.
const (
	InitBase  = int64(1) << 20
	FreshBase = int64(1) << 40
)

// Frame holds the registers and local cells of one (possibly inlined) function activation.
type Frame struct {
	Fn    *ssa.Function
	Regs  map[ssa.Value]Val
	Cells map[*ssa.Alloc]Val
	Defer []deferred
}

type deferred struct {
	call *ssa.CallCommon
	args []Val
	fn   Val
}

func (f *Frame) clone() *Frame {
	n := &Frame{Fn: f.Fn, Regs: make(map[ssa.Value]Val, len(f.Regs)), Cells: make(map[*ssa.Alloc]Val, len(f.Cells))}
	for k, v := range f.Regs {
		n.Regs[k] = v
	}
	for k, v := range f.Cells {
		n.Cells[k] = v
	}
	n.Defer = append([]deferred(nil), f.Defer...)
	return n
}

// State is one symbolic path (or a merge of paths) through the function.
type State struct {
	PC     *T // path condition
	Heap   map[string]*T
	Alloc  *T // allocation counter (next fresh reference)
	Frames []*Frame
	Open   map[*ssa.BasicBlock]*loopEntry // loops whose body we are currently in
	Died   bool                           // some sub-path of this state has ended (return, panic, back edge)
	Locks  map[string]bool                // held mutexes (by canonical term string)
	Ghost  map[string]Val
}

type loopEntry struct {
	variant []*T
}

func (s *State) top() *Frame { return s.Frames[len(s.Frames)-1] }

func (s *State) clone() *State {
	n := &State{PC: s.PC, Alloc: s.Alloc, Died: s.Died}
	n.Heap = make(map[string]*T, len(s.Heap))
	for k, v := range s.Heap {
		n.Heap[k] = v
	}
	// only the active frame can change before the two copies are merged again (forks join inside
	// one function activation; returns are merged by the activation's own runFunction), so the
	// suspended caller frames are shared
	n.Frames = make([]*Frame, len(s.Frames))
	copy(n.Frames, s.Frames)
	if k := len(s.Frames) - 1; k >= 0 {
		n.Frames[k] = s.Frames[k].clone()
	}
	n.Open = make(map[*ssa.BasicBlock]*loopEntry, len(s.Open))
	for k, v := range s.Open {
		n.Open[k] = v
	}
	n.Locks = make(map[string]bool, len(s.Locks))
	for k, v := range s.Locks {
		n.Locks[k] = v
	}
	n.Ghost = make(map[string]Val, len(s.Ghost))
	for k, v := range s.Ghost {
		n.Ghost[k] = v
	}
	return n
}

// ---------------------------------------------------------------- heap access

func classSort(class string, s *term.Sort) *term.Sort {
	if strings.HasPrefix(class, "e:") {
		return term.Arr(term.Int, term.Arr(term.Int, s))
	}
	return term.Arr(term.Int, s)
}

// embedCanon maps the class prefix of a by-value embedded first field to the class of the
// embedded struct type: an object and its first embedded struct share the reference (like a C
// struct prefix), so *Outer and *Embedded views of the same memory use the same heap arrays.
var embedCanon = map[string]string{}

func canon(class string) string {
	if len(embedCanon) == 0 || !strings.HasPrefix(class, "f:") {
		return class
	}
	for changed := true; changed; {
		changed = false
		for from, to := range embedCanon {
			if classMatches(class, from) {
				class = to + class[len(from):]
				changed = true
			}
		}
	}
	return class
}

func (x *Exec) heapArr(st *State, class string, s *term.Sort) *T {
	class = canon(class)
	if a, ok := st.Heap[class]; ok {
		return a
	}
	a := term.Var("H0!"+class, classSort(class, s))
	if x.Init != nil && !x.building {
		if e, ok := x.Init.Extra[class]; ok {
			a = e
		} else if m := x.Init.Heap[class]; len(m) > 0 && len(m) <= 400 && x.wantsInitTable(class) {
			// `attr init_tables <type name> ...` of the function under verification: the objects of
			// these classes built by the package initialisers are part of the initial heap term, so
			// that a load through a SYMBOLIC reference (e.g. the loop variable of a range over a
			// table of pointers) still sees the constant rows
			ks := make([]int64, 0, len(m))
			for k := range m {
				ks = append(ks, k)
			}
			sort.Slice(ks, func(i, j int) bool { return ks[i] < ks[j] })
			for _, k := range ks {
				if m[k].Sort == a.Sort.Elem {
					a = term.Store(a, term.I(k), m[k])
				}
			}
		}
	}
	st.Heap[class] = a
	x.classSorts[class] = s
	x.rangeAxiom(class, a)
	return a
}

// rangeAxiom: every element of an integer-typed heap class lies in its Go type's range.
func (x *Exec) rangeAxiom(class string, arr *T) {
	ty := x.classTy[class]
	if ty == nil {
		return
	}
	lo, hi, ok := intRange(ty)
	if !ok {
		return
	}
	r := term.Bound("r", term.Int)
	if strings.HasPrefix(class, "e:") {
		i := term.Bound("i", term.Int)
		e := term.Select(term.Select(arr, r), i)
		if e.Sort != term.Int {
			return
		}
		x.assumeOnce(term.ForallPat([]*T{r, i}, term.And(term.Le(lo, e), term.Le(e, hi)), [][]*T{{e}}))
		return
	}
	e := term.Select(arr, r)
	if e.Sort != term.Int {
		return
	}
	x.assumeOnce(term.ForallPat([]*T{r}, term.And(term.Le(lo, e), term.Le(e, hi)), [][]*T{{e}}))
}

// initObj returns the init-region content for (class, ref) if ref is a constant in the init region.
func (x *Exec) initObj(class string, ref *T) (*T, bool) {
	class = canon(class)
	k, ok := ref.Int64()
	if !ok || k < InitBase || k >= FreshBase {
		return nil, false
	}
	if x.Init == nil {
		return nil, false
	}
	m := x.Init.Heap[class]
	if m == nil {
		return nil, false
	}
	v, ok := m[k]
	return v, ok
}

// loadComp reads one scalar component.
func (x *Exec) loadComp(st *State, class string, s *term.Sort, ref, idx *T) *T {
	class = canon(class)
	if ref.Op == term.OIte {
		return x.loadCompIte(st, class, s, ref, idx, map[*T]*T{})
	}
	return x.loadComp1(st, class, s, ref, idx)
}

// loadCompIte distributes a load over a conditional reference (memoised: merged pointers are DAGs).
func (x *Exec) loadCompIte(st *State, class string, s *term.Sort, ref, idx *T, memo map[*T]*T) *T {
	if ref.Op != term.OIte {
		return x.loadComp1(st, class, s, ref, idx)
	}
	if r, ok := memo[ref]; ok {
		return r
	}
	a := x.loadCompIte(st, class, s, ref.Args[1], idx, memo)
	b := x.loadCompIte(st, class, s, ref.Args[2], idx, memo)
	r := term.Ite(ref.Args[0], a, b)
	memo[ref] = r
	return r
}

func (x *Exec) loadComp1(st *State, class string, s *term.Sort, ref, idx *T) *T {
	if !x.building {
		if v, ok := x.initObj(class, ref); ok && !st.dirtyInit(class) {
			if idx != nil {
				return term.Select(v, idx)
			}
			return v
		}
	}
	a := x.heapArr(st, class, s)
	r := term.Select(a, ref)
	if idx != nil {
		r = term.Select(r, idx)
	}
	return r
}

func (st *State) dirtyInit(class string) bool { return false }

func (x *Exec) storeComp(st *State, class string, s *term.Sort, ref, idx, v *T) {
	class = canon(class)
	if ref.Op == term.OIte {
		// store through a conditional reference: split
		c := ref.Args[0]
		old := st.Heap[class]
		x.storeComp(st, class, s, ref.Args[1], idx, v)
		h1 := st.Heap[class]
		if old == nil {
			delete(st.Heap, class)
		} else {
			st.Heap[class] = old
		}
		x.storeComp(st, class, s, ref.Args[2], idx, v)
		h2 := st.Heap[class]
		st.Heap[class] = term.Ite(c, h1, h2)
		return
	}
	if k, ok := ref.Int64(); ok && k >= InitBase && k < FreshBase && !x.building {
		x.fail("write to an object created by a package initialiser (class %s, ref %d): constant tables must not be modified", class, k)
	}
	a := x.heapArr(st, class, s)
	if idx != nil {
		inner := term.Select(a, ref)
		st.Heap[class] = term.Store(a, ref, term.Store(inner, idx, v))
	} else {
		st.Heap[class] = term.Store(a, ref, v)
	}
}

// loadAt reads a value of type ty stored under class+path at (ref, idx).
func (x *Exec) loadAt(st *State, class, path string, ty types.Type, ref, idx *T) Val {
	cs := comps(ty)
	ts := make([]*T, len(cs))
	for i, c := range cs {
		if c.ty != nil {
			x.classTy[canon(class+path+c.suffix)] = c.ty
		}
		ts[i] = x.loadComp(st, class+path+c.suffix, c.sort, ref, idx)
	}
	v := mkVal(ty, ts)
	x.assumeTyped(st, v, ty)
	return v
}

func (x *Exec) storeAt(st *State, class, path string, ty types.Type, ref, idx *T, v Val) {
	cs := comps(ty)
	ts := flatten(v)
	if len(ts) != len(cs) {
		panic(fmt.Sprintf("storeAt: %d components for type %s (%d expected)", len(ts), ty, len(cs)))
	}
	for i, c := range cs {
		x.storeComp(st, class+path+c.suffix, c.sort, ref, idx, ts[i])
	}
}

// Load / Store through an address value.
func (x *Exec) load(st *State, a VAddr) Val {
	if a.Alloc != nil {
		v := st.cell(a.Alloc)
		if v == nil {
			panic("load from unallocated local " + a.Alloc.Name())
		}
		for _, i := range a.Sub {
			v = v.(VStruct).F[i]
		}
		if a.Idx != nil {
			arr := v.(VArr)
			et := arr.Ty.Underlying().(*types.Array).Elem()
			ts := make([]*T, len(arr.C))
			for i := range arr.C {
				ts[i] = term.Select(arr.C[i], a.Idx)
			}
			return mkVal(et, ts)
		}
		return v
	}
	return x.loadAt(st, a.Class, a.Path, a.Ty, a.Ref, a.Idx)
}

func (st *State) cell(a *ssa.Alloc) Val {
	for i := len(st.Frames) - 1; i >= 0; i-- {
		if v, ok := st.Frames[i].Cells[a]; ok {
			return v
		}
	}
	return nil
}
func (st *State) setCell(a *ssa.Alloc, v Val) {
	for i := len(st.Frames) - 1; i >= 0; i-- {
		if _, ok := st.Frames[i].Cells[a]; ok {
			st.Frames[i].Cells[a] = v
			return
		}
	}
	st.top().Cells[a] = v
}

func setSub(v Val, sub []int, idx *T, nv Val) Val {
	if len(sub) == 0 {
		if idx != nil {
			arr := v.(VArr)
			ts := flatten(nv)
			nc := make([]*T, len(arr.C))
			for i := range arr.C {
				nc[i] = term.Store(arr.C[i], idx, ts[i])
			}
			return VArr{C: nc, Ty: arr.Ty}
		}
		return nv
	}
	s := v.(VStruct)
	nf := append([]Val(nil), s.F...)
	nf[sub[0]] = setSub(nf[sub[0]], sub[1:], idx, nv)
	return VStruct{F: nf, Ty: s.Ty}
}

func (x *Exec) store(st *State, a VAddr, v Val) {
	if a.Alloc != nil {
		old := st.cell(a.Alloc)
		st.setCell(a.Alloc, setSub(old, a.Sub, a.Idx, v))
		return
	}
	x.checkFrame(st, a)
	x.storeAt(st, a.Class, a.Path, a.Ty, a.Ref, a.Idx, v)
}

// allocRef returns a fresh reference.
func (x *Exec) allocRef(st *State) *T {
	r := st.Alloc
	st.Alloc = term.Add(st.Alloc, term.I(1))
	return r
}

// newObject allocates a zero-initialised object of type t and returns its reference.
func (x *Exec) newObject(st *State, t types.Type) *T {
	ref := x.allocRef(st)
	x.initObject(st, t, ref)
	return ref
}

func (x *Exec) initObject(st *State, t types.Type, ref *T) {
	class := classFor(t)
	if isStruct(t) {
		for _, c := range comps(t) {
			a := x.heapArr(st, class+c.suffix, c.sort)
			st.Heap[canon(class+c.suffix)] = term.Store(a, ref, zeroTerm(c.sort))
		}
		// ghost fields start at their zero value too
		for name, gs := range x.P.ghostFieldsOf(typeKey(t)) {
			a := x.heapArr(st, class+".$"+name, gs)
			st.Heap[canon(class+".$"+name)] = term.Store(a, ref, zeroTerm(gs))
		}
		return
	}
	et := t
	if a, ok := t.Underlying().(*types.Array); ok {
		et = a.Elem()
	}
	for _, c := range comps(et) {
		a := x.heapArr(st, class+c.suffix, c.sort)
		st.Heap[class+c.suffix] = term.Store(a, ref, term.ConstArr(term.Arr(term.Int, c.sort), zeroTerm(c.sort)))
	}
}

// newBacking allocates a zeroed backing array with element type et.
func (x *Exec) newBacking(st *State, et types.Type) *T {
	ref := x.allocRef(st)
	class := "e:" + typeKey(et)
	for _, c := range comps(et) {
		a := x.heapArr(st, class+c.suffix, c.sort)
		st.Heap[class+c.suffix] = term.Store(a, ref, term.ConstArr(term.Arr(term.Int, c.sort), zeroTerm(c.sort)))
	}
	return ref
}

// assumeTyped records the typing invariants of a freshly read / havocked value.
func (x *Exec) assumeTyped(st *State, v Val, ty types.Type) {
	switch v := v.(type) {
	case VT:
		if v.T.IsConst() {
			return
		}
		if lo, hi, ok := intRange(ty); ok {
			x.assumeOnce(term.And(term.Le(lo, v.T), term.Le(v.T, hi)))
		} else if _, isP := ty.Underlying().(*types.Pointer); isP {
			x.assumeOnce(term.And(term.Le(term.I(0), v.T)))
			x.assumeRefBelow(st, v.T)
		}
	case VStr:
		if !v.Len.IsConst() {
			x.assumeOnce(term.And(term.Le(term.I(0), v.Len), term.Lt(v.Len, term.I(1<<31))))
		}
	case VSlice:
		if !(v.Len.IsConst() && v.Cap.IsConst() && v.Off.IsConst()) {
			x.assumeOnce(term.And(term.Le(term.I(0), v.Off), term.Le(term.I(0), v.Len), term.Le(v.Len, v.Cap), term.Lt(v.Cap, term.I(1<<31)), term.Le(term.I(0), v.Ref)))
			x.assumeOnce(term.Imp(term.Eq(v.Ref, term.I(0)), term.Eq(v.Cap, term.I(0))))
		}
		x.assumeRefBelow(st, v.Ref)
	case VIface:
		if !v.Tag.IsConst() {
			x.assumeOnce(term.Le(term.I(0), v.Tag))
			// the nil interface is (no type, no data): a value without dynamic type carries no data
			if v.Data != nil && !v.Data.IsConst() {
				x.assumeOnce(term.Imp(term.Eq(v.Tag, term.I(0)), term.Eq(v.Data, term.I(0))))
			}
		}
	case VStruct:
		st2 := ty.Underlying().(*types.Struct)
		for i, f := range v.F {
			x.assumeTyped(st, f, st2.Field(i).Type())
		}
	}
}

// assumeRefBelow: a reference read from memory or passed in points below the allocation counter.
func (x *Exec) assumeRefBelow(st *State, r *T) {
	if r.IsConst() {
		return
	}
	x.assumeOnce(term.Lt(r, st.Alloc))
}

func sortedKeys(m map[string]*T) []string {
	ks := make([]string, 0, len(m))
	for k := range m {
		ks = append(ks, k)
	}
	sort.Strings(ks)
	return ks
}

// wantsInitTable: the contract of the function under verification asked for the init objects of
// this class to be part of the initial heap (`attr init_tables T1 T2 ...`, matched as substrings).
func (x *Exec) wantsInitTable(class string) bool {
	if x.Spec == nil {
		return false
	}
	for _, t := range strings.Fields(x.Spec.Attrs["init_tables"]) {
		if strings.Contains(class, t) {
			return true
		}
	}
	return false
}
