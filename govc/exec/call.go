package exec

import (
	"fmt"
	"go/token"
	"go/types"
	"strings"

	"golang.org/x/tools/go/ssa"

	"verif/govc/contract"
	"verif/govc/term"
)

// doCall evaluates a call instruction. ok=false: the path ended (callee never returns).
func (x *Exec) doCall(st *State, ins ssa.Instruction, c *ssa.CallCommon) (Val, bool) {
	args := make([]Val, len(c.Args))
	for i, a := range c.Args {
		args[i] = x.get(st, a)
		if ad, ok := args[i].(VAddr); ok {
			p, ok := addrToPtr(ad)
			if !ok {
				x.fail("interior pointer passed to a call (outside the supported subset)")
			}
			args[i] = p
		}
	}
	if b, ok := c.Value.(*ssa.Builtin); ok {
		return x.builtin(st, b, c, args, ins.Pos()), true
	}
	var fv Val
	fv = x.get(st, c.Value)
	return x.callValue(st, c, fv, args, ins)
}

// callValue dispatches on the callee value (static function, closure, interface method).
func (x *Exec) callValue(st *State, c *ssa.CallCommon, fv Val, args []Val, ins ssa.Instruction) (Val, bool) {
	pos := token.NoPos
	if ins != nil {
		pos = ins.Pos()
	}
	if b, ok := c.Value.(*ssa.Builtin); ok {
		return x.builtin(st, b, c, args, pos), true
	}
	if c.IsInvoke() {
		return x.invoke(st, c, fv.(VIface), args, pos)
	}
	f := fv.(VFunc)
	id, ok := f.Fn.Int64()
	if !ok {
		return x.callSymbolicFunc(st, c, f, args, pos)
	}
	if id == 0 {
		x.oblige(st, "nil", "call of nil func", term.False, pos)
		return nil, false
	}
	fn := x.P.funcByID(id)
	var binds []Val
	if len(fn.FreeVars) > 0 {
		for i, fvv := range fn.FreeVars {
			binds = append(binds, x.loadAt(st, fmt.Sprintf("c:%s", fnName(fn)), fmt.Sprintf(".%d", i), fvv.Type(), f.Env, nil))
		}
	}
	return x.callFunc(st, fn, args, binds, pos)
}

func (x *Exec) callSymbolicFunc(st *State, c *ssa.CallCommon, f VFunc, args []Val, pos token.Pos) (Val, bool) {
	if f.Fn.Op == term.OIte {
		cnd := f.Fn.Args[0]
		s1 := st.clone()
		s1.PC = term.And(st.PC, cnd)
		s2 := st
		pcB := st.PC
		s2.PC = term.And(st.PC, term.Not(cnd))
		r1, ok1 := x.callValue(s1, c, VFunc{f.Fn.Args[1], envOf(f.Env, 1), f.Ty}, args, nil)
		r2, ok2 := x.callValue(s2, c, VFunc{f.Fn.Args[2], envOf(f.Env, 2), f.Ty}, args, nil)
		switch {
		case !ok1 && !ok2:
			return nil, false
		case !ok1:
			*st = *s2
			return r2, true
		case !ok2:
			*st = *s1
			return r1, true
		}
		m := x.mergeStates(cnd, s1, s2, len(s1.Frames))
		m.PC = pcB
		*st = *m
		return iteVal(cnd, r1, r2), true
	}
	// unknown function value: a function-type contract, or a closed-world split over the
	// functions of that signature whose address is taken in the module
	spec := x.P.funcTypeSpec(c.Value.Type())
	if spec != nil {
		return x.applyContract(st, nil, spec, c.Signature(), args, pos, "funcvalue")
	}
	cands := x.P.addressTaken(c.Signature())
	if len(cands) == 0 {
		x.fail("call through a symbolic function value of type %s: no candidate targets", c.Value.Type())
	}
	var known []*T
	for _, cf := range cands {
		known = append(known, term.Eq(f.Fn, term.I(x.P.funcID(cf))))
	}
	x.oblige(st, "funcvalue", "target is one of the module's functions of this type", term.Or(known...), pos)
	var outSt *State
	var outVal Val
	pcB := st.PC
	for i := len(cands) - 1; i >= 0; i-- {
		cf := cands[i]
		cnd := term.Eq(f.Fn, term.I(x.P.funcID(cf)))
		si := st.clone()
		si.PC = term.And(pcB, cnd)
		r, ok := x.callValue(si, c, VFunc{term.I(x.P.funcID(cf)), f.Env, f.Ty}, args, nil)
		if !ok {
			continue
		}
		if outSt == nil {
			outSt, outVal = si, r
			continue
		}
		outSt = x.mergeStates(cnd, si, outSt, len(si.Frames))
		if r != nil {
			outVal = iteVal(cnd, r, outVal)
		}
	}
	if outSt == nil {
		return nil, false
	}
	outSt.PC = pcB
	*st = *outSt
	return outVal, true
}

func envOf(env *T, arm int) *T {
	if env.Op == term.OIte {
		return env.Args[arm]
	}
	return env
}

func (x *Exec) callFunc(st *State, fn *ssa.Function, args []Val, binds []Val, pos token.Pos) (Val, bool) {
	// synthetic wrappers (bound method closures, promoted-method thunks): just run them
	if fn.Synthetic != "" && len(fn.Blocks) > 0 && (fn.Pkg == nil || x.P.isRepoPkg(fn.Pkg.Pkg)) && x.P.Specs[fn] == nil {
		nst, vals := x.runFunction(st, fn, args, binds)
		if nst == nil {
			return nil, false
		}
		*st = *nst
		switch len(vals) {
		case 0:
			return nil, true
		case 1:
			return vals[0], true
		}
		return VTuple(vals), true
	}
	// external (no SSA body, or outside the module): built-in models
	if fn.Pkg == nil || !x.P.isRepoPkg(fn.Pkg.Pkg) {
		if fn.Name() == "init" {
			return nil, true // initialisers of other modules: their globals stay opaque constants
		}
		if r, handled := x.external(st, fn, args, pos); handled {
			return r, true
		}
		if len(fn.Blocks) == 0 || !x.P.inlineExternal(fn) {
			x.fail("call of external function %s without a model (assumed contracts are listed in DESIGN §2.8)", fn.String())
		}
	}
	spec := x.P.Specs[fn]
	useContract := false
	if spec != nil {
		switch x.Mode {
		case ModeProof:
			useContract = !spec.Inline
		case ModeUnwind:
			useContract = spec.Abstract
			// `attr unwind_abstract <driver>...`: abstract only for the named unwinding drivers
			for _, d := range strings.Fields(spec.Attrs["unwind_abstract"]) {
				if d == x.Driver {
					useContract = true
				}
			}
		}
		if x.Spec != nil && len(st.Frames) == 1 {
			for _, n := range strings.Fields(x.Spec.Attrs["inline"]) {
				if n == fn.Name() {
					useContract = false
				}
			}
		}
	}
	if useContract {
		x.callCount[fnName(fn)]++
		x.pendingBinds = binds
		return x.applyContract(st, fn, spec, fn.Signature, args, pos, fmt.Sprintf("%s#%d", fnName(fn), x.callCount[fnName(fn)]))
	}
	if x.Mode == ModeProof && spec == nil && !x.P.autoInline(fn) {
		x.fail("callee %s has neither a contract nor is small enough to inline", fnName(fn))
	}
	nst, vals := x.runFunction(st, fn, args, binds)
	if nst == nil {
		return nil, false
	}
	*st = *nst
	switch len(vals) {
	case 0:
		return nil, true
	case 1:
		return vals[0], true
	}
	return VTuple(vals), true
}

func (x *Exec) invoke(st *State, c *ssa.CallCommon, recv VIface, args []Val, pos token.Pos) (Val, bool) {
	x.nilCheck(st, recv.Tag, "interface method call", pos)
	if id, ok := recv.Tag.Int64(); ok {
		if id == 0 {
			return nil, false // nil interface: the nil obligation above has failed on this path
		}
		t := x.P.typeByID(id)
		fn := x.P.SSA.LookupMethod(t, c.Method.Pkg(), c.Method.Name())
		if fn == nil {
			x.fail("no method %s on dynamic type %s", c.Method.Name(), t)
		}
		rv := x.unbox(st, recv, t)
		return x.callFunc(st, fn, append([]Val{rv}, args...), nil, pos)
	}
	if recv.Tag.Op == term.OIte {
		cnd := recv.Tag.Args[0]
		s1 := st.clone()
		s1.PC = term.And(st.PC, cnd)
		s2 := st
		pcB := st.PC
		s2.PC = term.And(st.PC, term.Not(cnd))
		d1, d2 := recv.Data, recv.Data
		if recv.Data.Op == term.OIte && recv.Data.Args[0] == cnd {
			d1, d2 = recv.Data.Args[1], recv.Data.Args[2]
		}
		r1, ok1 := x.invoke(s1, c, VIface{recv.Tag.Args[1], d1, recv.Ty}, args, pos)
		r2, ok2 := x.invoke(s2, c, VIface{recv.Tag.Args[2], d2, recv.Ty}, args, pos)
		switch {
		case !ok1 && !ok2:
			return nil, false
		case !ok1:
			*st = *s2
			return r2, true
		case !ok2:
			*st = *s1
			return r1, true
		}
		m := x.mergeStates(cnd, s1, s2, len(s1.Frames))
		m.PC = pcB
		*st = *m
		return iteVal(cnd, r1, r2), true
	}
	// unknown dynamic type: the interface contract
	spec := x.P.ifaceSpec(recv.Ty, c.Method)
	if spec == nil {
		x.fail("call of %s.%s on an unknown dynamic type without an interface contract", recv.Ty, c.Method.Name())
	}
	sig := c.Method.Type().(*types.Signature)
	return x.applyContract(st, nil, spec, sig, append([]Val{recv}, args...), pos, "iface."+c.Method.Name())
}

// ---------------------------------------------------------------- contracts at call sites

func paramNames(fn *ssa.Function, sig *types.Signature, spec *contract.FuncSpec) []string {
	var names []string
	if fn != nil {
		for _, p := range fn.Params {
			names = append(names, p.Name())
		}
		return names
	}
	if sig.Recv() != nil || (spec != nil && spec.Attrs["recv"] != "") {
		n := "self"
		if spec != nil && spec.Attrs["recv"] != "" {
			n = spec.Attrs["recv"]
		}
		names = append(names, n)
	}
	for i := 0; i < sig.Params().Len(); i++ {
		n := sig.Params().At(i).Name()
		if n == "" || n == "_" {
			n = fmt.Sprintf("arg%d", i)
		}
		names = append(names, n)
	}
	return names
}

func (x *Exec) applyContract(st *State, fn *ssa.Function, spec *contract.FuncSpec, sig *types.Signature, args []Val, pos token.Pos, site string) (Val, bool) {
	env := x.newEnv(st, fn, spec)
	names := paramNames(fn, sig, spec)
	if len(names) != len(args) {
		x.fail("contract application %s: %d names for %d arguments", site, len(names), len(args))
	}
	for i, n := range names {
		env.vars[n] = args[i]
		env.vars[n+"0"] = args[i]
	}
	if fn != nil && len(fn.FreeVars) > 0 {
		binds := x.pendingBinds
		if len(binds) != len(fn.FreeVars) {
			x.fail("contract application %s: closure environment unavailable", site)
		}
		for i, fv := range fn.FreeVars {
			elem := fv.Type().(*types.Pointer).Elem()
			env.vars[fv.Name()] = x.load(st, x.ptrAddr(binds[i].(VT).T, elem))
		}
	}
	x.pendingBinds = nil
	// representation-private clauses (#rep) are visible only inside the owning package
	// (encapsulation: the fields are unexported and every function of the package keeps the invariant)
	sameP := true
	if fn != nil && fn.Pkg != nil && len(st.Frames) > 0 && st.top().Fn != nil && st.top().Fn.Pkg != nil {
		sameP = fn.Pkg == st.top().Fn.Pkg
	}
	// 1. preconditions
	for i, r := range spec.Requires {
		if r.Name == "rep" && !sameP {
			continue
		}
		c := env.evalBool(r.E)
		x.oblige(st, "pre", fmt.Sprintf("%s/%s", site, clauseLabel(r, i)), c, pos)
	}
	// 2. frame: what the callee may modify must be allowed for us
	mods := env.evalMods(spec, sameP)
	for _, m := range mods {
		x.checkFrameLoc(st, m, "call "+site, pos)
	}
	old := st.clone()
	// 3. havoc written classes (with frame axioms), apply `sets`
	written := x.P.writtenClasses(fn, spec)
	if !sameP && len(spec.ModRep) > 0 {
		var repMods []modLoc
		for _, m := range spec.ModRep {
			repMods = append(repMods, env.evalLoc(m, false))
		}
		var vis []string
		for _, c := range written {
			hidden := false
			for _, m := range repMods {
				if classMatches(c, m.Class) {
					hidden = true
				}
			}
			for _, m := range mods {
				if classMatches(c, m.Class) {
					hidden = false
				}
			}
			if !hidden {
				vis = append(vis, c)
			}
		}
		written = vis
	}
	allocBefore := st.Alloc
	if x.P.allocates(fn, spec) {
		if _, concrete := st.Alloc.Int64(); concrete && x.Mode == ModeUnwind {
			// keep references concrete while unwinding: reserve a block for the callee's objects
			st.Alloc = term.Add(st.Alloc, term.I(1<<16))
		} else {
			st.Alloc = term.Fresh("alloc", term.Int)
			x.assumeOnce(term.Le(allocBefore, st.Alloc))
		}
	}
	for _, class := range written {
		// classes only touched through `sets` clauses need no havoc: the assignment below is exact
		exact, any := true, false
		for _, m := range mods {
			if classMatches(canon(class), m.Class) {
				any = true
				if !m.Exact {
					exact = false
				}
			}
		}
		if any && exact && !x.spawning {
			continue
		}
		if !any && x.Mode == ModeUnwind {
			// the callee only initialises objects it allocates itself; pre-existing objects of
			// this class are untouched (that is what the frame axiom would say) and the result,
			// if it is a fresh slice, is materialised by `attr fresh_result`
			continue
		}
		x.havocClass(st, old, class, mods, allocBefore)
	}
	env.st = st
	env.old = old
	if x.spawning {
		// `go f(...)`: f runs concurrently; its precondition and frame were checked above, what it
		// may write has been forgotten, and neither its `sets` nor its postcondition hold yet
		return nil, true
	}
	for _, s := range spec.Sets {
		loc := env.evalLoc(s.E, true)
		v := env.eval(s.E2)
		x.assignLoc(st, loc, v)
	}
	// 4. result
	var res Val
	nres := sig.Results().Len()
	if spec.Pure && nres == 1 {
		// a pure function is a mathematical function of its arguments: same symbol everywhere
		if fn == nil && strings.HasPrefix(site, "iface.") {
			res = x.pureCall(st, args[0], strings.TrimPrefix(site, "iface."), args[1:])
		} else {
			res = x.pureFn(st, "pure!"+specKey(fn, spec), sig.Results().At(0).Type(), args)
		}
		env.vars["result"] = res
		nres = -1
	}
	if fr := spec.Attrs["fresh_result"]; fr != "" && nres == 1 && x.Mode == ModeUnwind {
		// `attr fresh_result <len> <lo> <hi>`: the result is a freshly allocated slice of that
		// (concrete) length whose elements are unknown integers in [lo, hi)
		res = x.freshSliceResult(st, env, fr, sig.Results().At(0).Type(), site)
		env.vars["result"] = res
		nres = -1
	}
	if spec.Attrs["fresh_object"] != "" && nres == 1 && x.Mode == ModeUnwind {
		// the result points to a freshly allocated object whose fields are unknown
		rt := sig.Results().At(0).Type()
		elem := rt.Underlying().(*types.Pointer).Elem()
		ref := x.newObject(st, elem)
		x.freshSeq++
		fv := freshVal(fmt.Sprintf("%s!%d", short(site), x.freshSeq), elem)
		x.assumeTyped(st, fv, elem)
		x.storeAt(st, classFor(elem), "", elem, ref, nil, fv)
		res = VT{ref, rt}
		env.vars["result"] = res
		nres = -1
	}
	if fb := spec.Attrs["fresh_bitlist"]; fb != "" && nres == 1 && x.Mode == ModeUnwind {
		// `attr fresh_bitlist <count|?>`: the result is a freshly allocated BitList whose contents
		// are unknown (a new bit-array symbol); its length is the given expression or unknown
		rt := sig.Results().At(0).Type()
		elem := rt.Underlying().(*types.Pointer).Elem()
		ref := x.newObject(st, elem)
		x.freshSeq++
		var cnt *T
		if fb == "?" {
			cnt = term.Var(fmt.Sprintf("%s!%d.count", short(site), x.freshSeq), term.Int)
			x.assumeOnce(term.And(term.Le(term.I(0), cnt), term.Le(cnt, term.I(1<<30))))
		} else {
			e, err := contract.ParseExpr(fb)
			if err != nil {
				x.fail("attr fresh_bitlist: %v", err)
			}
			cnt = env.evalInt(e)
		}
		class := classFor(elem)
		x.storeComp(st, class+".count", term.Int, ref, nil, cnt)
		gs := x.P.ghostField(typeKey(elem), "model")
		if gs == nil {
			x.fail("attr fresh_bitlist on a type without ghost field model")
		}
		x.storeComp(st, class+".$model", gs, ref, nil, term.Var(fmt.Sprintf("%s!%d.model", short(site), x.freshSeq), gs))
		res = VT{ref, rt}
		env.vars["result"] = res
		nres = -1
	}
	if nres == 1 {
		// a defining postcondition `ensures result == E` gives the result directly
		for _, e := range spec.Ensures {
			b, ok := e.E.(*contract.Binary)
			if !ok || b.Op != "==" {
				continue
			}
			id, ok := b.X.(*contract.Ident)
			if !ok || id.Name != "result" || mentions(b.Y, "result") {
				continue
			}
			if e.Name == "rep" && !sameP {
				continue
			}
			v := env.eval(b.Y)
			rt := sig.Results().At(0).Type()
			switch d := v.(type) {
			case VMath:
				if len(comps(rt)) == 1 && comps(rt)[0].sort == d.T.Sort {
					res = VT{d.T, rt}
				}
			case VT:
				if len(comps(rt)) == 1 && comps(rt)[0].sort == d.T.Sort {
					res = VT{d.T, rt}
				}
			default:
				if len(flatten(v)) == len(comps(rt)) {
					res = rebuildLike(zeroVal(rt), flatten(v))
				}
			}
			if res != nil {
				env.vars["result"] = res
				nres = -1
				break
			}
		}
	}
	switch nres {
	case -1, 0:
	case 1:
		res = freshVal("ret."+short(site), sig.Results().At(0).Type())
		x.assumeTyped(st, res, sig.Results().At(0).Type())
		env.vars["result"] = res
	default:
		var tu VTuple
		for i := 0; i < nres; i++ {
			var v Val
			rt := sig.Results().At(i).Type()
			if fr := spec.Attrs[fmt.Sprintf("fresh_result%d", i)]; fr != "" && x.Mode == ModeUnwind {
				v = x.freshSliceResult(st, env, fr, rt, site)
			} else if x.Mode == ModeUnwind {
				// defining postcondition `ensures result<i> == E`
				for _, e := range spec.Ensures {
					b, ok := e.E.(*contract.Binary)
					if !ok || b.Op != "==" {
						continue
					}
					id, ok := b.X.(*contract.Ident)
					if !ok || id.Name != fmt.Sprintf("result%d", i) || mentions(b.Y, "result") {
						continue
					}
					if _, isNil := b.Y.(*contract.Ident); isNil && b.Y.(*contract.Ident).Name == "nil" {
						v = zeroVal(rt)
					}
				}
			}
			if v == nil {
				v = freshVal(fmt.Sprintf("ret%d.%s", i, short(site)), rt)
				x.assumeTyped(st, v, rt)
			}
			tu = append(tu, v)
			env.vars[fmt.Sprintf("result%d", i)] = v
			if n := sig.Results().At(i).Name(); n != "" && n != "_" {
				env.vars[n] = v
			}
		}
		res = tu
		env.vars["result"] = tu
	}
	env.allocBefore = allocBefore
	// 5. postconditions
	for _, e := range spec.Ensures {
		if e.Name == "rep" && !sameP {
			continue
		}
		if x.Mode == ModeUnwind && hasQuantExpr(e.E) && x.Driver != "" {
			// (not even evaluated: reading a merged bit array at a symbolic index is expensive)
			continue
		}
		c := env.evalBool(e.E)
		if x.Mode == ModeUnwind && hasQuant(c) {
			// unwinding keeps its queries quantifier-free: a postcondition that stays quantified
			// (symbolic range) is not used there (dropping an assumption is sound)
			continue
		}
		x.assume(st, c)
	}
	if x.LogCalls {
		rec := CallRec{Fn: specKey(fn, spec), Args: args, Res: res, PC: st.PC, Pre: old}
		for _, a := range args {
			var elems []*T
			if sl, ok := a.(VSlice); ok {
				if n, ok := sl.Len.Int64(); ok && n <= 1<<16 {
					et := sl.Ty.Underlying().(*types.Slice).Elem()
					if cs := comps(et); len(cs) == 1 {
						for i := int64(0); i < n; i++ {
							elems = append(elems, x.loadComp(old, "e:"+typeKey(et), cs[0].sort, sl.Ref, term.Add(sl.Off, term.I(i))))
						}
					}
				}
			}
			rec.ArgElems = append(rec.ArgElems, elems)
		}
		x.Calls = append(x.Calls, rec)
	}
	if spec.Attrs["noreturn"] != "" {
		return nil, false
	}
	for _, d := range strings.Fields(spec.Attrs["noreturn_for"]) {
		if d == x.Driver {
			st.Died = true
			return nil, false // the unwinding driver stops the path here
		}
	}
	return res, true
}

// CallRec records one contract application (unwinding drivers inspect the arguments of
// abstracted callees, e.g. what exactly is handed to the Reed-Solomon encoder).
type CallRec struct {
	Fn       string
	Args     []Val
	ArgElems [][]*T // element terms of slice arguments (at call time)
	Res      Val
	PC       *T     // path condition at the call (after the callee's postconditions were assumed)
	Pre      *State // state in which the call was made
}

func (x *Exec) freshSliceResult(st *State, env *Env, attr string, rt types.Type, site string) Val {
	fields := strings.Fields(attr)
	if len(fields) != 3 {
		x.fail("attr fresh_result needs: <len> <lo> <hi>")
	}
	ev := func(s string) *T {
		if s == "?" {
			return nil
		}
		e, err := contract.ParseExpr(s)
		if err != nil {
			x.fail("attr fresh_result: %v", err)
		}
		return env.evalInt(e)
	}
	lo, hi := ev(fields[1]), ev(fields[2])
	et := rt.Underlying().(*types.Slice).Elem()
	var symLen *T
	if fields[0] != "?" {
		if l := ev(fields[0]); !l.IsConst() {
			symLen = l
		}
	}
	if fields[0] == "?" || symLen != nil {
		// unknown (or symbolic) length, unknown contents (within the element range)
		ref := x.allocRef(st)
		x.freshSeq++
		ln := symLen
		if ln == nil {
			ln = term.Var(fmt.Sprintf("%s!%d.len", short(site), x.freshSeq), term.Int)
			x.assumeOnce(term.And(term.Le(term.I(0), ln), term.Lt(ln, term.I(1<<31))))
		}
		class := "e:" + typeKey(et)
		cs := comps(et)
		a := x.heapArr(st, class, cs[0].sort)
		arr := term.Var(fmt.Sprintf("%s!%d.elems", short(site), x.freshSeq), term.Arr(term.Int, cs[0].sort))
		j := term.Bound("j", term.Int)
		x.assumeOnce(term.ForallPat([]*T{j}, term.And(term.Le(lo, term.Select(arr, j)), term.Lt(term.Select(arr, j), hi)), [][]*T{{term.Select(arr, j)}}))
		st.Heap[class] = term.Store(a, ref, arr)
		return VSlice{ref, term.I(0), ln, ln, rt}
	}
	n, ok := ev(fields[0]).Int64()
	if !ok {
		x.fail("attr fresh_result: length is not concrete at %s", site)
	}
	ref := x.newBacking(st, et)
	class := "e:" + typeKey(et)
	cs := comps(et)
	a := x.heapArr(st, class, cs[0].sort)
	inner := term.Select(a, ref)
	x.freshSeq++
	for i := int64(0); i < n; i++ {
		v := term.Var(fmt.Sprintf("%s!%d[%d]", short(site), x.freshSeq, i), term.Int)
		if lo.IsConst() && hi.IsConst() && lo.Val.Cmp(hi.Val) < 0 {
			// structurally bounded: range facts fold syntactically
			v = term.Add(lo, term.EMod(v, term.Sub(hi, lo)))
		} else {
			x.assumeOnce(term.And(term.Le(lo, v), term.Lt(v, hi)))
		}
		inner = term.Store(inner, term.I(i), v)
	}
	st.Heap[class] = term.Store(a, ref, inner)
	ln := term.I(n)
	return VSlice{ref, term.I(0), ln, ln, rt}
}

func clauseLabel(c *contract.Clause, i int) string {
	if c.Name != "" {
		return c.Name
	}
	return fmt.Sprintf("%d", i+1)
}

// ---------------------------------------------------------------- builtins

func (x *Exec) builtin(st *State, b *ssa.Builtin, c *ssa.CallCommon, args []Val, pos token.Pos) Val {
	switch b.Name() {
	case "len":
		switch a := args[0].(type) {
		case VSlice:
			return VT{a.Len, types.Typ[types.Int]}
		case VStr:
			return VT{a.Len, types.Typ[types.Int]}
		case VArr:
			return VT{term.I(a.Ty.Underlying().(*types.Array).Len()), types.Typ[types.Int]}
		case VT:
			if m, ok := c.Args[0].Type().Underlying().(*types.Map); ok {
				_ = m
				return VT{term.I(int64(len(x.mapObj(a.T).Keys))), types.Typ[types.Int]}
			}
			if p, ok := c.Args[0].Type().Underlying().(*types.Pointer); ok {
				return VT{term.I(p.Elem().Underlying().(*types.Array).Len()), types.Typ[types.Int]}
			}
		case VAddr:
			return VT{term.I(a.Ty.Underlying().(*types.Array).Len()), types.Typ[types.Int]}
		}
		x.fail("len of %T", args[0])
	case "cap":
		switch a := args[0].(type) {
		case VSlice:
			return VT{a.Cap, types.Typ[types.Int]}
		}
		x.fail("cap of %T", args[0])
	case "append":
		return x.doAppend(st, args[0].(VSlice), args[1], c.Args[1].Type(), pos)
	case "copy":
		return x.doCopy(st, args[0].(VSlice), args[1], pos)
	case "close":
		x.doClose(st, args[0])
		return nil
	case "ssa:wrapnilchk":
		return args[0]
	case "ssa:deferstack":
		return VT{term.I(0), b.Type().(*types.Signature).Results().At(0).Type()}
	case "min", "max":
		r := args[0].(VT)
		for _, a := range args[1:] {
			q := a.(VT)
			if b.Name() == "min" {
				r = VT{term.Ite(term.Le(r.T, q.T), r.T, q.T), r.Ty}
			} else {
				r = VT{term.Ite(term.Le(q.T, r.T), r.T, q.T), r.Ty}
			}
		}
		return r
	}
	x.fail("unsupported builtin %s", b.Name())
	return nil
}

// doAppend models append(s, elems...) exactly: in place when capacity suffices, otherwise a
// fresh backing array with the old prefix and an arbitrary larger capacity.
func (x *Exec) doAppend(st *State, s VSlice, more Val, moreT types.Type, pos token.Pos) Val {
	et := s.Ty.Underlying().(*types.Slice).Elem()
	class := "e:" + typeKey(et)
	var mLen *T
	var get func(cs int, c comp, i *T) *T // element i, component c
	cs := comps(et)
	switch m := more.(type) {
	case VSlice:
		mLen = m.Len
		get = func(k int, c comp, i *T) *T {
			return x.loadComp(st, class+c.suffix, c.sort, m.Ref, term.Add(m.Off, i))
		}
	case VStr:
		mLen = m.Len
		get = func(k int, c comp, i *T) *T { return term.Select(m.Arr, i) }
	default:
		x.fail("append of %T", more)
	}
	newLen := term.Add(s.Len, mLen)
	n, isConst := mLen.Int64()
	limit := int64(64)
	if x.Mode != ModeProof {
		limit = 1 << 16
	}
	if !isConst || n > limit {
		// bulk append: fresh backing array described by axioms
		ref := x.allocRef(st)
		for k, c := range cs {
			na := term.Fresh("append", term.Arr(term.Int, c.sort))
			j := term.Bound("j", term.Int)
			oldv := x.loadComp(st, class+c.suffix, c.sort, s.Ref, term.Add(s.Off, j))
			x.assumeOnce(term.ForallPat([]*T{j}, term.Eq(term.Select(na, j),
				term.Ite(term.Lt(j, s.Len), oldv, get(k, c, term.Sub(j, s.Len)))), [][]*T{{term.Select(na, j)}}))
			a := x.heapArr(st, class+c.suffix, c.sort)
			st.Heap[class+c.suffix] = term.Store(a, ref, na)
		}
		ncap := term.Fresh("cap", term.Int)
		x.assumeOnce(term.And(term.Le(newLen, ncap), term.Lt(ncap, term.I(1<<31))))
		return VSlice{ref, term.I(0), newLen, ncap, s.Ty}
	}
	fits := term.Le(newLen, s.Cap)
	// values to append (read before any write)
	vals := make([][]*T, n)
	for i := int64(0); i < n; i++ {
		vals[i] = make([]*T, len(cs))
		for k, c := range cs {
			vals[i][k] = get(k, c, term.I(i))
		}
	}
	build := func(base *State, ref, off *T, copyOld bool) {
		if copyOld {
			for _, c := range cs {
				a := x.heapArr(base, class+c.suffix, c.sort)
				src := term.Select(a, s.Ref)
				if v, ok := x.initObj(class+c.suffix, s.Ref); ok {
					src = v
				}
				var na *T
				if s.Off == term.I(0) {
					na = src // same contents (beyond len is arbitrary anyway)
				} else if ln, ok := s.Len.Int64(); ok && ln <= 64 {
					na = term.ConstArr(term.Arr(term.Int, c.sort), zeroTerm(c.sort))
					for i := int64(0); i < ln; i++ {
						na = term.Store(na, term.I(i), term.Select(src, term.Add(s.Off, term.I(i))))
					}
				} else {
					na = term.Fresh("appendcopy", term.Arr(term.Int, c.sort))
					j := term.Bound("j", term.Int)
					x.assumeOnce(term.ForallPat([]*T{j}, term.Eq(term.Select(na, j), term.Select(src, term.Add(j, s.Off))), [][]*T{{term.Select(na, j)}}))
				}
				base.Heap[class+c.suffix] = term.Store(a, ref, na)
			}
		}
		for i := int64(0); i < n; i++ {
			for k, c := range cs {
				x.storeComp(base, class+c.suffix, c.sort, ref, term.Add(off, s.Len, term.I(i)), vals[i][k])
			}
		}
	}
	if fits == term.True {
		x.checkFrame(st, VAddr{Class: class, Ref: s.Ref, Idx: term.Add(s.Off, s.Len), Ty: et})
		build(st, s.Ref, s.Off, false)
		return VSlice{s.Ref, s.Off, newLen, s.Cap, s.Ty}
	}
	nref := x.allocRef(st)
	ncap := term.Fresh("cap", term.Int)
	if x.Mode != ModeProof {
		// concrete growth policy is irrelevant; pick exactly what is needed doubled
		ncap = term.Add(newLen, newLen)
	} else {
		x.assumeOnce(term.And(term.Le(newLen, ncap), term.Lt(ncap, term.I(1<<31))))
	}
	if fits == term.False {
		build(st, nref, term.I(0), true)
		return VSlice{nref, term.I(0), newLen, ncap, s.Ty}
	}
	s1 := st.clone()
	s1.PC = term.And(st.PC, fits)
	x.checkFrame(s1, VAddr{Class: class, Ref: s.Ref, Idx: term.Add(s.Off, s.Len), Ty: et})
	build(s1, s.Ref, s.Off, false)
	build(st, nref, term.I(0), true)
	pcB := st.PC
	m := x.mergeStates(fits, s1, st, len(st.Frames))
	m.PC = pcB
	*st = *m
	return VSlice{term.Ite(fits, s.Ref, nref), term.Ite(fits, s.Off, term.I(0)), newLen, term.Ite(fits, s.Cap, ncap), s.Ty}
}

func (x *Exec) doCopy(st *State, dst VSlice, src Val, pos token.Pos) Val {
	et := dst.Ty.Underlying().(*types.Slice).Elem()
	class := "e:" + typeKey(et)
	cs := comps(et)
	var sLen *T
	var get func(c comp, i *T) *T
	switch s := src.(type) {
	case VSlice:
		sLen = s.Len
		get = func(c comp, i *T) *T { return x.loadComp(st, class+c.suffix, c.sort, s.Ref, term.Add(s.Off, i)) }
	case VStr:
		sLen = s.Len
		get = func(c comp, i *T) *T { return term.Select(s.Arr, i) }
	default:
		x.fail("copy from %T", src)
	}
	n := term.Ite(term.Le(sLen, dst.Len), sLen, dst.Len)
	if n == term.I(0) {
		return VT{n, types.Typ[types.Int]}
	}
	x.checkFrame(st, VAddr{Class: class, Ref: dst.Ref, Idx: dst.Off, Ty: et})
	if k, ok := n.Int64(); ok && k <= 4096 && x.Mode != ModeProof || ok && k <= 16 {
		vals := make([][]*T, k)
		for i := int64(0); i < k; i++ {
			for _, c := range cs {
				vals[i] = append(vals[i], get(c, term.I(i)))
			}
		}
		for i := int64(0); i < k; i++ {
			for j, c := range cs {
				x.storeComp(st, class+c.suffix, c.sort, dst.Ref, term.Add(dst.Off, term.I(i)), vals[i][j])
			}
		}
		return VT{n, types.Typ[types.Int]}
	}
	for _, c := range cs {
		a := x.heapArr(st, class+c.suffix, c.sort)
		oldInner := term.Select(a, dst.Ref)
		na := term.Fresh("copy", term.Arr(term.Int, c.sort))
		j := term.Bound("j", term.Int)
		in := term.And(term.Le(dst.Off, j), term.Lt(j, term.Add(dst.Off, n)))
		x.assumeOnce(term.ForallPat([]*T{j}, term.Eq(term.Select(na, j),
			term.Ite(in, get(c, term.Sub(j, dst.Off)), term.Select(oldInner, j))), [][]*T{{term.Select(na, j)}}))
		st.Heap[class+c.suffix] = term.Store(a, dst.Ref, na)
	}
	return VT{n, types.Typ[types.Int]}
}

// ---------------------------------------------------------------- external (standard library) models — DESIGN §2.8 [A]

func (x *Exec) external(st *State, fn *ssa.Function, args []Val, pos token.Pos) (Val, bool) {
	name := fn.String()
	switch name {
	case "errors.New", "fmt.Errorf":
		ref := x.allocRef(st)
		return VIface{term.I(x.P.typeID(errTagType)), ref, fn.Signature.Results().At(0).Type()}, true
	case "image.Rect":
		x0, y0, x1, y1 := args[0].(VT).T, args[1].(VT).T, args[2].(VT).T, args[3].(VT).T
		rt := fn.Signature.Results().At(0).Type()
		pt := rt.Underlying().(*types.Struct).Field(0).Type()
		it := types.Typ[types.Int]
		sw := func(a, b *T) (*T, *T) {
			c := term.Lt(b, a)
			return term.Ite(c, b, a), term.Ite(c, a, b)
		}
		x0, x1 = sw(x0, x1)
		y0, y1 = sw(y0, y1)
		return VStruct{[]Val{VStruct{[]Val{VT{x0, it}, VT{y0, it}}, pt}, VStruct{[]Val{VT{x1, it}, VT{y1, it}}, pt}}, rt}, true
	case "image.Pt":
		rt := fn.Signature.Results().At(0).Type()
		return VStruct{[]Val{args[0], args[1]}, rt}, true
	case "math.Min":
		return fltMin(args[0].(VFlt), args[1].(VFlt)), true
	case "math.Abs":
		return fltAbs(args[0].(VFlt)), true
	case "math.Floor":
		return fltFloor(args[0].(VFlt)), true
	case "math.Ceil":
		return fltCeil(args[0].(VFlt)), true
	case "math.Modf":
		f := args[0].(VFlt)
		ip := VFlt{N: fltTrunc(VFlt{N: f.N, D: f.D}), D: term.I(1)}
		fr := normFlt(term.Sub(f.N, term.Mul(ip.N, f.D)), f.D)
		return VTuple{ip, fr}, true
	case "(*sync.Mutex).Lock":
		x.lockOp(st, args[0].(VT).T, true, pos)
		return nil, true
	case "(*sync.Mutex).Unlock":
		x.lockOp(st, args[0].(VT).T, false, pos)
		return nil, true
	case "unicode/utf8.RuneCountInString":
		s := args[0].(VStr)
		if str, ok := constStr(s); ok {
			return VT{term.I(int64(len([]rune(str)))), types.Typ[types.Int]}, true
		}
		sl := x.strToRunes(st, s, types.NewSlice(types.Typ[types.Rune])).(VSlice)
		return VT{sl.Len, types.Typ[types.Int]}, true
	case "strings.ContainsRune":
		if _, isConst := constStr(args[0].(VStr)); !isConst {
			// symbolic string, constant ASCII rune: a byte-level search is exact (UTF-8 lead and
			// continuation bytes are >= 0x80). The result is a fresh boolean with a witness.
			c, ok := args[1].(VT).T.Int64()
			if !ok || c < 0 || c >= 128 {
				x.fail("strings.ContainsRune(s, r) with symbolic s needs a constant ASCII rune")
			}
			sv := args[0].(VStr)
			b := term.Fresh("containsrune", term.Bool)
			w := term.Fresh("containsrune.at", term.Int)
			k := term.Bound("k", term.Int)
			x.assume(st, term.Imp(b, term.And(term.Le(term.I(0), w), term.Lt(w, sv.Len), term.Eq(term.Select(sv.Arr, w), term.I(c)))))
			x.assume(st, term.Or(b, term.Forall([]*T{k}, term.Imp(term.And(term.Le(term.I(0), k), term.Lt(k, sv.Len)), term.Ne(term.Select(sv.Arr, k), term.I(c))))))
			return VT{b, types.Typ[types.Bool]}, true
		}
		idx := x.indexRune(st, args[0].(VStr), args[1].(VT).T)
		return VT{term.Le(term.I(0), idx), types.Typ[types.Bool]}, true
	case "strings.IndexRune":
		return VT{x.indexRune(st, args[0].(VStr), args[1].(VT).T), types.Typ[types.Int]}, true
	case "strconv.Itoa":
		r := freshVal("itoa", types.Typ[types.String]).(VStr)
		x.assumeTyped(st, r, types.Typ[types.String])
		return r, true
	}
	if strings.HasPrefix(name, "fmt.") || strings.HasPrefix(name, "(*bytes.Buffer)") {
		x.fail("call of %s is outside the supported subset", name)
	}
	if spec := x.P.extSpec(fn); spec != nil {
		r, ok := x.applyContract(st, fn, spec, fn.Signature, args, pos, name)
		if !ok {
			return nil, true
		}
		return r, true
	}
	return nil, false
}

var errTagType = types.NewNamed(types.NewTypeName(token.NoPos, nil, "error!dyn", nil), types.NewStruct(nil, nil), nil)

// indexRune models strings.IndexRune(s, r) for a constant, pure-ASCII table s: the index of the
// first occurrence of r, else -1 (runes >= 0x80 never occur in an ASCII table; utf8.RuneError and
// invalid runes map to -1 as well because the table holds no 0xEF 0xBF 0xBD sequence).
func (x *Exec) indexRune(st *State, s VStr, r *T) *T {
	str, ok := constStr(s)
	if !ok {
		x.fail("strings.IndexRune/ContainsRune on a non-constant table is not modelled")
	}
	for i := 0; i < len(str); i++ {
		if str[i] >= 0x80 {
			x.fail("strings.IndexRune/ContainsRune on a non-ASCII table is not modelled")
		}
	}
	if c, ok := r.Int64(); ok {
		return term.I(int64(strings.IndexRune(str, rune(c))))
	}
	res := term.I(-1)
	seen := map[byte]bool{}
	type ent struct {
		b byte
		i int
	}
	var ents []ent
	for i := 0; i < len(str); i++ {
		if !seen[str[i]] {
			seen[str[i]] = true
			ents = append(ents, ent{str[i], i})
		}
	}
	for i := len(ents) - 1; i >= 0; i-- {
		res = term.Ite(term.Eq(r, term.I(int64(ents[i].b))), term.I(int64(ents[i].i)), res)
	}
	return res
}

func specKey(fn *ssa.Function, spec *contract.FuncSpec) string {
	if fn != nil {
		return fnName(fn)
	}
	return spec.Ref
}

// pureFn applies the uninterpreted function that a `pure` contract licenses.
func (x *Exec) pureFn(st *State, key string, rt types.Type, args []Val) Val {
	var in []*T
	for _, a := range args {
		in = append(in, flatten(a)...)
	}
	sorts := make([]*term.Sort, len(in))
	for i, t := range in {
		sorts[i] = t.Sort
	}
	cs := comps(rt)
	ts := make([]*T, len(cs))
	for i, c := range cs {
		f := term.DeclareFun(key+c.suffix, sorts, c.sort)
		ts[i] = term.App(f, in...)
	}
	v := mkVal(rt, ts)
	x.assumeTyped(st, v, rt)
	return v
}
