package exec

import (
	"fmt"
	"go/types"

	"golang.org/x/tools/go/ssa"

	"verif/govc/term"
)

// Conc is a concrete view of the program after package initialisation: it lets table lemmas and
// unwinding drivers read globals, call functions with (partly) concrete arguments and take
// results apart.
type Conc struct {
	X  *Exec
	St *State
	E  *Env
}

func NewConc(p *Program) *Conc {
	x := NewExec(p, nil, ModeUnwind)
	st := &State{PC: term.True, Heap: map[string]*T{}, Alloc: term.I(FreshBase), Open: map[*ssa.BasicBlock]*loopEntry{}, Locks: map[string]bool{}, Ghost: map[string]Val{}}
	x.entryAlloc = st.Alloc
	x.entry = st.clone()
	c := &Conc{X: x, St: st}
	c.E = x.newEnv(st, nil, nil)
	return c
}

func (c *Conc) try(f func()) (err error) {
	defer func() {
		if r := recover(); r != nil {
			if e, ok := r.(*ExecError); ok {
				err = e
				return
			}
			panic(r)
		}
	}()
	f()
	return nil
}

// Global returns the value of package-level variable "pkg.Name".
func (c *Conc) Global(q string) (v Val, err error) {
	err = c.try(func() {
		for i := 0; i < len(q); i++ {
			if q[i] == '.' {
				pk := c.X.P.pkgByName(q[:i])
				if pk == nil {
					c.X.fail("unknown package %s", q[:i])
				}
				obj := pk.Scope().Lookup(q[i+1:])
				if obj == nil {
					c.X.fail("unknown object %s", q)
				}
				e := *c.E
				e.pkg = pk
				v = e.object(obj)
				return
			}
		}
		c.X.fail("bad global reference %q", q)
	})
	return
}

func (c *Conc) Field(v Val, name string) Val { return c.E.field(v, name) }

func (c *Conc) Elem(v Val, i int64) Val { return c.E.index(v, term.I(i), nil) }

func (c *Conc) Len(v Val) int64 {
	switch a := v.(type) {
	case VSlice:
		return c.mustInt(a.Len)
	case VStr:
		return c.mustInt(a.Len)
	case VArr:
		return a.Ty.Underlying().(*types.Array).Len()
	case VT:
		if _, ok := a.Ty.Underlying().(*types.Map); ok {
			return int64(len(c.X.mapObj(a.T).Keys))
		}
	}
	c.X.fail("Len of %T", v)
	return 0
}

func (c *Conc) mustInt(t *T) int64 {
	k, ok := t.Int64()
	if !ok {
		c.X.fail("value is not a concrete integer: %s", t)
	}
	return k
}

func (c *Conc) Int(v Val) int64 {
	t, ok := scalar(v)
	if !ok {
		c.X.fail("Int of %T", v)
	}
	return c.mustInt(t)
}

func (c *Conc) Bool(v Val) bool {
	t, ok := scalar(v)
	if !ok || !t.IsConst() {
		c.X.fail("value is not a concrete bool")
	}
	return t == term.True
}

func (c *Conc) Str(v Val) string {
	s, ok := v.(VStr)
	if !ok {
		c.X.fail("Str of %T", v)
	}
	str, ok := constStr(s)
	if !ok {
		c.X.fail("string is not concrete")
	}
	return str
}

func (c *Conc) Ints(v Val) []int64 {
	n := c.Len(v)
	out := make([]int64, n)
	for i := int64(0); i < n; i++ {
		out[i] = c.Int(c.Elem(v, i))
	}
	return out
}

func (c *Conc) Bools(v Val) []bool {
	n := c.Len(v)
	out := make([]bool, n)
	for i := int64(0); i < n; i++ {
		out[i] = c.Bool(c.Elem(v, i))
	}
	return out
}

// MapEntries returns the keys (as integers; bools as 0/1) and values of a constant map.
func (c *Conc) MapEntries(v Val) (keys []int64, vals []Val) {
	m := c.X.mapObj(v.(VT).T)
	for i, k := range m.Keys {
		if k.Sort == term.Bool {
			if k == term.True {
				keys = append(keys, 1)
			} else {
				keys = append(keys, 0)
			}
		} else {
			keys = append(keys, c.mustInt(k))
		}
		vals = append(vals, m.Vals[i])
	}
	return
}

func (c *Conc) IsNil(v Val) bool {
	switch a := v.(type) {
	case VT:
		return a.T == term.I(0)
	case VSlice:
		return a.Ref == term.I(0)
	case VIface:
		return a.Tag == term.I(0)
	}
	return false
}

// value constructors
func IntV(i int64, t types.Type) Val { return VT{term.I(i), t} }
func BoolV(b bool) Val               { return VT{term.B(b), tyBool} }

// Call runs function "pkg.Ref" on the given arguments (unwinding mode: loops must be concrete,
// callees are inlined unless their contract is `abstract`). The state is updated in place.
func (c *Conc) Call(ref string, args ...Val) (res []Val, err error) {
	err = c.try(func() {
		fn, e := c.X.P.FindFunc(ref)
		if e != nil {
			c.X.fail("%v", e)
		}
		if len(args) != len(fn.Params) {
			c.X.fail("%s: %d arguments for %d parameters", ref, len(args), len(fn.Params))
		}
		if c.X.Fn == nil {
			c.X.Fn = fn // obligation names
		}
		nst, vals := c.X.runFunction(c.St, fn, args, nil)
		if nst == nil {
			c.X.fail("%s does not return", ref)
		}
		*c.St = *nst
		res = vals
	})
	return
}

// ParamType returns the type of parameter i of function ref.
func (c *Conc) ParamType(ref string, i int) types.Type {
	fn, err := c.X.P.FindFunc(ref)
	if err != nil {
		panic(&ExecError{err.Error()})
	}
	return fn.Params[i].Type()
}

// SymString makes a string of concrete length n with symbolic bytes named name[i].
func (c *Conc) SymString(name string, n int) (Val, []*T) {
	arr := term.ConstArr(term.Arr(term.Int, term.Int), term.I(0))
	var bs []*T
	for i := 0; i < n; i++ {
		b := term.Var(fmt.Sprintf("%s[%d]", name, i), term.Int)
		c.X.assumeOnce(term.And(term.Le(term.I(0), b), term.Le(b, term.I(255))))
		arr = term.Store(arr, term.I(int64(i)), b)
		bs = append(bs, b)
	}
	return VStr{term.I(int64(n)), arr}, bs
}

// Errorf wraps engine failures for callers outside the package.
func Errorf(format string, args ...interface{}) error {
	return &ExecError{fmt.Sprintf(format, args...)}
}

// ---- obligations raised by unwinding drivers

func (c *Conc) Assume(t *T)   { c.X.assumeOnce(t) }
func (c *Conc) PC() *T        { return c.St.PC }
func (c *Conc) Term(v Val) *T { t, _ := scalar(v); return t }

// Oblige adds the obligation `under ==> cond` with the given name.
func (c *Conc) Oblige(kind, name string, under, cond *T) {
	c.X.Obls = append(c.X.Obls, &Obligation{Name: name, Kind: kind, PC: term.And(c.St.PC, under), Cond: cond, NAssume: len(c.X.Assumptions)})
}

func (c *Conc) Try(f func()) error { return c.try(f) }

// IfaceParts splits an interface value.
func (c *Conc) IfaceParts(v Val) (tag, data *T) {
	i := v.(VIface)
	return i.Tag, i.Data
}

// PtrAs reinterprets the data word of an interface value as a pointer to named type "pkg.T".
func (c *Conc) PtrAs(v Val, typ string) Val {
	t := c.E.parseType(typ)
	return VT{v.(VIface).Data, t}
}

func (c *Conc) TypeID(typ string) int64 { return c.X.P.typeID(c.E.parseType(typ)) }

// StrParts returns length and byte array of a string value.
func (c *Conc) StrParts(v Val) (n, arr *T) { s := v.(VStr); return s.Len, s.Arr }

// MathArr returns the array term of a ghost field value.
func (c *Conc) MathArr(v Val) *T { return v.(VMath).T }

// Flat exposes the scalar components of a value (for equality obligations).
func (c *Conc) Flat(v Val) []*T { return flatten(v) }

// SymVal creates a symbolic value of the type of parameter i of function ref.
func (c *Conc) SymParam(ref string, i int, name string) Val {
	fn, err := c.X.P.FindFunc(ref)
	if err != nil {
		panic(&ExecError{err.Error()})
	}
	v := freshVal(name, fn.Params[i].Type())
	c.X.assumeParam(c.St, v, fn.Params[i].Type())
	return v
}

// SymBytes makes a []byte of concrete length n with symbolic elements.
func (c *Conc) SymBytes(name string, n int) (Val, []*T) {
	ref := c.X.newBacking(c.St, types.Typ[types.Uint8])
	a := c.X.heapArr(c.St, "e:uint8", term.Int)
	inner := term.Select(a, ref)
	var bs []*T
	for i := 0; i < n; i++ {
		b := term.EMod(term.Var(fmt.Sprintf("%s[%d]", name, i), term.Int), term.I(256))
		inner = term.Store(inner, term.I(int64(i)), b)
		bs = append(bs, b)
	}
	c.St.Heap["e:uint8"] = term.Store(a, ref, inner)
	ln := term.I(int64(n))
	return VSlice{ref, term.I(0), ln, ln, types.NewSlice(types.Typ[types.Uint8])}, bs
}

// PtrConst builds a pointer value to the object with the given concrete reference.
func (c *Conc) PtrConst(ref int64, typ string) Val {
	return VT{term.I(ref), c.E.parseType(typ)}
}

// ExtraTrivial returns the number of syntactically discharged obligations that were counted but
// not stored individually.
func (c *Conc) ExtraTrivial() map[string]int {
	out := map[string]int{}
	for k, n := range c.X.TrivialByKind {
		if n > 50 {
			out[k] = n - 50
		}
	}
	return out
}

// Ret is one return path of a call made with CallRets.
type Ret struct {
	C    *Conc // view on the state at that return (path condition = the path's)
	Vals []Val
}

// CallRets is like Call but also hands back every return path separately (unmerged), so that a
// driver can look at the success path without the error paths' garbage mixed in.
func (c *Conc) CallRets(ref string, args ...Val) (rets []Ret, err error) {
	c.X.keepRets = true
	defer func() { c.X.keepRets = false }()
	_, err = c.Call(ref, args...)
	if err != nil {
		return nil, err
	}
	for _, r := range c.X.lastRets {
		v := &Conc{X: c.X, St: r.st}
		v.E = c.X.newEnv(r.st, nil, nil)
		rets = append(rets, Ret{C: v, Vals: r.vals})
	}
	c.X.lastRets = nil
	return rets, nil
}

// ElemT indexes a slice/array/string with a (possibly symbolic) index term.
func (c *Conc) ElemT(v Val, i *T) Val { return c.E.index(v, i, nil) }

// SetConfig sets a configuration parameter readable by contracts through config("name").
func (c *Conc) SetConfig(name string, v int64) {
	if c.X.Config == nil {
		c.X.Config = map[string]int64{}
	}
	c.X.Config[name] = v
}

// LenOf returns the length of a slice or string value as a scalar value.
func LenOf(v Val) Val {
	switch a := v.(type) {
	case VSlice:
		return VT{a.Len, tyInt}
	case VStr:
		return VT{a.Len, tyInt}
	}
	panic(&ExecError{"LenOf: not a slice or string"})
}

// View returns a Conc looking at another state of the same execution (e.g. CallRec.Pre).
func (c *Conc) View(st *State) *Conc {
	v := &Conc{X: c.X, St: st}
	v.E = c.X.newEnv(st, nil, nil)
	return v
}

// SpecFun returns the signature of a `//@ func specfun` declaration.
func (c *Conc) SpecFun(name string) *term.FunSig { return c.X.P.specFun(name) }
