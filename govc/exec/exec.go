package exec

import (
	"fmt"
	"go/constant"
	"go/token"
	"go/types"
	"math/big"
	"os"
	"strings"

	"golang.org/x/tools/go/ssa"

	"verif/govc/contract"
	"verif/govc/term"
)

type Mode int

const (
	ModeProof  Mode = iota // loops are cut at invariants, callees by contract
	ModeUnwind             // complete unwinding for a finite configuration, callees inlined unless abstract
	ModeInit               // concrete execution of package initialisers
)

// Obligation is one named verification condition: Assumptions[:NAssume] ∧ PC ⇒ Cond.
type Obligation struct {
	Name    string
	Kind    string
	PC      *T
	Cond    *T
	NAssume int
	Pos     token.Pos
	Detail  string
	Cover   bool // must be SAT (vacuity guard) instead of valid
}

type ExecError struct{ Msg string }

func (e *ExecError) Error() string { return e.Msg }

type Exec struct {
	P     *Program
	Fn    *ssa.Function
	Spec  *contract.FuncSpec
	Mode  Mode
	Init  *InitState
	Label string // prefix for obligation names (configuration)

	Assumptions []*T
	assumeSeen  map[*T]bool
	Obls        []*Obligation
	classSorts  map[string]*term.Sort
	classTy     map[string]types.Type
	building    bool

	entry          *State // snapshot at function entry (for old())
	entryAlloc     *T
	params         map[string]Val // entry values of parameters (name and name0)
	mods           []modLoc       // evaluated modifies clause of the function under verification
	oblCount       map[string]int
	retCount       int
	callCount      map[string]int
	depth          int
	steps          int
	MaxSteps       int
	Notes          []string
	coro           *coroSched
	pendingBinds   []Val
	Driver         string
	SplitLoopExits bool
	bounds         []*loopBound
	spawning       bool // applying the contract of a function started with `go` (proof mode)
	Config         map[string]int64
	keepRets       bool
	lastRets       []retRec
	SplitIdx       int
	FoldQueries    int
	LogCalls       bool
	Calls          []CallRec
	freshSeq       int
	TrivialByKind  map[string]int
}

func NewExec(p *Program, fn *ssa.Function, mode Mode) *Exec {
	return &Exec{P: p, Fn: fn, Mode: mode, Init: p.Init, assumeSeen: map[*T]bool{}, classSorts: map[string]*term.Sort{}, classTy: map[string]types.Type{},
		oblCount: map[string]int{}, callCount: map[string]int{}, TrivialByKind: map[string]int{}, MaxSteps: 200_000_000}
}

func (x *Exec) fail(format string, args ...interface{}) {
	panic(&ExecError{fmt.Sprintf(format, args...)})
}

func (x *Exec) note(format string, args ...interface{}) {
	x.Notes = append(x.Notes, fmt.Sprintf(format, args...))
}

func (x *Exec) assumeOnce(t *T) {
	if t == term.True || x.assumeSeen[t] {
		return
	}
	if t.HasBound() && !closed(t) {
		return // a fact about a term under a binder cannot be stated globally
	}
	x.assumeSeen[t] = true
	x.Assumptions = append(x.Assumptions, t)
}

// assume records a fact that holds on the current path.
func (x *Exec) assume(st *State, t *T) {
	x.assumeOnce(term.Imp(st.PC, t))
}

func (x *Exec) oblName(kind, detail string) string {
	base := fnName(x.Fn) + x.Label + "/" + kind
	if detail != "" {
		base += "/" + detail
	}
	x.oblCount[base]++
	if n := x.oblCount[base]; n > 1 {
		return fmt.Sprintf("%s~%d", base, n)
	}
	return base
}

// oblige emits an obligation unless it is trivially true.
func (x *Exec) oblige(st *State, kind, detail string, cond *T, pos token.Pos) {
	if x.Mode == ModeInit {
		if cond == term.False && st.PC == term.True {
			x.fail("package initialisation fails: %s %s", kind, detail)
		}
		return
	}
	if cond == term.True || st.PC == term.False {
		// generated and discharged syntactically (constant folding): counted, not stored, once
		// there are many of them (unwinding produces millions)
		x.TrivialByKind[kind]++
		if x.TrivialByKind[kind] <= 50 {
			x.Obls = append(x.Obls, &Obligation{Name: x.oblName(kind, detail), Kind: kind, PC: st.PC, Cond: term.True, NAssume: len(x.Assumptions), Pos: pos})
		}
		return
	}
	x.Obls = append(x.Obls, &Obligation{Name: x.oblName(kind, detail), Kind: kind, PC: st.PC, Cond: cond, NAssume: len(x.Assumptions), Pos: pos})
	// after checking, the condition may be assumed on this path
	x.assume(st, cond)
}

func (x *Exec) cover(st *State, detail string, cond *T) {
	x.Obls = append(x.Obls, &Obligation{Name: x.oblName("cover", detail), Kind: "cover", PC: st.PC, Cond: cond, NAssume: len(x.Assumptions), Cover: true})
}

func fnName(f *ssa.Function) string {
	if f == nil {
		return "?"
	}
	name := f.Name()
	if f.Parent() != nil {
		return fnName(f.Parent()) + "$" + strings.TrimPrefix(name, f.Parent().Name()+"$")
	}
	pk := ""
	if f.Pkg != nil {
		pk = f.Pkg.Pkg.Name() + "."
	}
	if recv := f.Signature.Recv(); recv != nil {
		t := recv.Type()
		star := ""
		if p, ok := t.(*types.Pointer); ok {
			t = p.Elem()
			star = "*"
		}
		if n, ok := t.(*types.Named); ok {
			return pk + "(" + star + n.Obj().Name() + ")." + name
		}
	}
	return pk + name
}

// ---------------------------------------------------------------- operand evaluation

func (x *Exec) constVal(c *ssa.Const) Val {
	t := c.Type()
	if c.Value == nil {
		return zeroVal(t)
	}
	switch u := t.Underlying().(type) {
	case *types.Basic:
		switch {
		case u.Info()&types.IsBoolean != 0:
			return VT{term.B(constant.BoolVal(c.Value)), t}
		case u.Info()&types.IsString != 0:
			return x.strConst(constant.StringVal(c.Value))
		case u.Info()&types.IsInteger != 0:
			v, ok := constant.Val(constant.ToInt(c.Value)).(*big.Int)
			if !ok {
				i, _ := constant.Int64Val(constant.ToInt(c.Value))
				v = big.NewInt(i)
			}
			return VT{term.Big(v), t}
		case u.Info()&types.IsFloat != 0:
			f, _ := constant.Float64Val(c.Value)
			return x.floatVal(f)
		}
	}
	x.fail("unsupported constant %s of type %s", c, t)
	return nil
}

var strConsts = map[string]VStr{}

func (x *Exec) strConst(s string) VStr {
	if v, ok := strConsts[s]; ok {
		return v
	}
	arr := term.ConstArr(term.Arr(term.Int, term.Int), term.I(0))
	for i := 0; i < len(s); i++ {
		arr = term.Store(arr, term.I(int64(i)), term.I(int64(s[i])))
	}
	v := VStr{term.I(int64(len(s))), arr}
	strConsts[s] = v
	return v
}

func (x *Exec) get(st *State, v ssa.Value) Val {
	switch v := v.(type) {
	case *ssa.Const:
		return x.constVal(v)
	case *ssa.Global:
		return VT{x.P.globalRef(v), v.Type()}
	case *ssa.Function:
		return VFunc{term.I(x.P.funcID(v)), term.I(0), v.Type()}
	case *ssa.Builtin:
		x.fail("builtin %s used as a value", v.Name())
	}
	fr := st.top()
	if r, ok := fr.Regs[v]; ok {
		return r
	}
	x.fail("%s: use of undefined SSA value %s (%T) in %s", fnName(x.Fn), v.Name(), v, fnName(fr.Fn))
	return nil
}

func (x *Exec) getT(st *State, v ssa.Value) *T {
	switch r := x.get(st, v).(type) {
	case VT:
		return r.T
	case VAddr:
		if p, ok := addrToPtr(r); ok {
			return p.T
		}
		x.fail("interior pointer %s used as a first-class value (outside the supported subset)", v.Name())
	default:
		x.fail("expected scalar for %s, got %T", v.Name(), r)
	}
	return nil
}

func (x *Exec) set(st *State, v ssa.Value, val Val) { st.top().Regs[v] = val }

// ---------------------------------------------------------------- function bodies

type arrival struct {
	st   *State
	from *ssa.BasicBlock
}

type retRec struct {
	st   *State
	vals []Val
}

// runFunction executes fn's body in a new frame of st. All return paths are merged.
// It returns the merged state (nil if no path returns) and the results.
func (x *Exec) runFunction(st *State, fn *ssa.Function, args []Val, binds []Val) (*State, []Val) {
	if len(fn.Blocks) == 0 {
		x.fail("function %s has no body", fnName(fn))
	}
	x.depth++
	if x.depth > 200 {
		x.fail("call depth exceeded (recursion?) at %s", fnName(fn))
	}
	defer func() { x.depth-- }()
	fr := &Frame{Fn: fn, Regs: map[ssa.Value]Val{}, Cells: map[*ssa.Alloc]Val{}}
	for i, p := range fn.Params {
		fr.Regs[p] = args[i]
	}
	for i, fv := range fn.FreeVars {
		fr.Regs[fv] = binds[i]
	}
	st.Frames = append(st.Frames, fr)
	depth := len(st.Frames)
	// inlined leaf functions with ghost `sets` clauses: remember the entry state
	var ghostSpec *contract.FuncSpec
	var entrySt *State
	if sp := x.P.Specs[fn]; sp != nil && depth > 1 && len(sp.Sets) > 0 {
		ghostSpec = sp
		entrySt = st.clone()
		entrySt.Frames = entrySt.Frames[:depth-1]
	}
	var rets []retRec
	x.runRegion(st, fn.Blocks[0], nil, nil, &rets, depth)
	if len(rets) == 0 {
		return nil, nil
	}
	if x.keepRets && depth == 1 {
		x.lastRets = rets
	}
	// merge return states
	res := rets[len(rets)-1]
	out := res.st
	vals := res.vals
	for i := len(rets) - 2; i >= 0; i-- {
		r := rets[i]
		c := r.st.PC
		out = x.mergeStates(c, r.st, out, depth-1)
		nv := make([]Val, len(vals))
		for k := range vals {
			nv[k] = iteVal(c, r.vals[k], vals[k])
		}
		vals = nv
	}
	pcs := make([]*T, len(rets))
	for i, r := range rets {
		pcs[i] = r.st.PC
	}
	out.PC = term.Or(pcs...)
	out.Frames = out.Frames[:depth-1]
	if ghostSpec != nil {
		x.applyGhostSets(out, fn, ghostSpec, entrySt, args, vals)
	}
	return out, vals
}

// mergeStates builds ite(c, a, b) over heap and the first nframes frames.
func (x *Exec) mergeStates(c *T, a, b *State, nframes int) *State {
	out := b.clone()
	for k, va := range a.Heap {
		vb, ok := b.Heap[k]
		if !ok {
			vb = x.heapArr(out, k, x.classSorts[k])
		}
		out.Heap[k] = term.Ite(c, va, vb)
	}
	for k, vb := range b.Heap {
		if _, ok := a.Heap[k]; !ok {
			va := x.heapArr(a, k, x.classSorts[k])
			out.Heap[k] = term.Ite(c, va, vb)
		}
	}
	out.Alloc = maxAlloc(c, a.Alloc, b.Alloc)
	for i := 0; i < nframes && i < len(a.Frames) && i < len(out.Frames); i++ {
		fa, fo := a.Frames[i], out.Frames[i]
		if fa == b.Frames[i] {
			out.Frames[i] = fa // shared, unchanged
			continue
		}
		for k, va := range fa.Regs {
			if vb, ok := fo.Regs[k]; ok {
				fo.Regs[k] = iteVal(c, va, vb)
			} else {
				fo.Regs[k] = va
			}
		}
		for k, va := range fa.Cells {
			if vb, ok := fo.Cells[k]; ok {
				fo.Cells[k] = iteVal(c, va, vb)
			} else {
				fo.Cells[k] = va
			}
		}
	}
	for k, va := range a.Ghost {
		if vb, ok := out.Ghost[k]; ok {
			out.Ghost[k] = iteVal(c, va, vb)
		} else {
			out.Ghost[k] = va
		}
	}
	out.Died = a.Died || b.Died
	return out
}

func maxAlloc(c, a, b *T) *T {
	if a == b {
		return a
	}
	d := term.Sub(a, b)
	if d.IsConst() {
		if d.Val.Sign() > 0 {
			return a
		}
		return b
	}
	return term.Ite(c, a, b)
}

// runRegion executes from block b until `stop` is reached (returned as the surviving state), a
// return (recorded in rets) or a dead end. Symbolic branches fork and re-join at the immediate
// post-dominator.
func (x *Exec) runRegion(st *State, b, from, stop *ssa.BasicBlock, rets *[]retRec, depth int) *State {
	fn := b.Parent()
	info := x.P.funcInfo(fn)
	continue2 := false
	for {
		if st.PC == term.False {
			return nil
		}
		if b == stop {
			if from != nil {
				x.prePhi(st, b, from)
			}
			return st
		}
		// boundary of the loop iteration being unwound (see runLoop)
		if lb := x.curBound(); lb != nil && lb.fn == fn && lb.frames == len(st.Frames) {
			if (b == lb.head && !lb.first) || !lb.blocks[b] {
				lb.arrivals = append(lb.arrivals, loopArrival{st, from, b})
				return nil
			}
			lb.first = false
		}
		// loops that are unwound (no invariant): iterate with state merging at the header
		if l := info.headers[b]; l != nil && x.loopCutFor(fn, b) == nil {
			if lb := x.curBound(); lb == nil || lb.head != b || lb.frames != len(st.Frames) {
				nst, next := x.runLoop(st, fn, l, from, stop, rets, depth)
				if nst == nil {
					return nil
				}
				st, b, from = nst, next, nil
				continue
			}
		}
		// loop cut points
		if lc := x.loopCutFor(fn, b); lc != nil && len(st.Frames) == depth {
			if ent, open := st.Open[b]; open {
				x.loopBackEdge(st, fn, b, lc, ent)
				st.Died = true
				return nil
			}
			x.loopEnter(st, fn, b, lc, info)
			if st.PC == term.False {
				return nil
			}
		}
		// phis
		var phiVals []Val
		var phis []*ssa.Phi
		for _, ins := range b.Instrs {
			ph, ok := ins.(*ssa.Phi)
			if !ok {
				break
			}
			if from == nil {
				if _, ok := st.top().Regs[ph]; !ok {
					x.fail("phi without predecessor in %s", fnName(fn))
				}
				continue
			}
			for i, p := range b.Preds {
				if p == from {
					phis = append(phis, ph)
					phiVals = append(phiVals, x.get(st, ph.Edges[i]))
					break
				}
			}
		}
		for i, ph := range phis {
			x.set(st, ph, phiVals[i])
		}
		// body
		for _, ins := range b.Instrs {
			if _, ok := ins.(*ssa.Phi); ok {
				continue
			}
			x.steps++
			if x.steps > x.MaxSteps {
				x.fail("step limit exceeded in %s", fnName(fn))
			}
			switch ins := ins.(type) {
			case *ssa.Jump:
				from, b = b, b.Succs[0]
			case *ssa.If:
				c := x.getT(st, ins.Cond)
				if c == term.True {
					from, b = b, b.Succs[0]
					break
				}
				if c == term.False {
					from, b = b, b.Succs[1]
					break
				}
				if x.Mode != ModeProof || len(st.Frames) > 1 || x.loopCutFor(fn, loopHeadOf(info, b)) == nil {
					if l := info.innermost(b); l != nil && b == l.Head && (l.Blocks[b.Succs[0]] != l.Blocks[b.Succs[1]]) && x.loopCutFor(fn, l.Head) == nil {
						// exit test of a loop that is being unwound: the condition must be decided by
						// the path condition (solver-aided folding); otherwise unwinding is impossible
						if os.Getenv("GOVC_DEBUG") != "" {
							fmt.Fprintf(os.Stderr, "fold: %s loop %d cond=%s\n", fnName(fn), l.N, c)
						}
						switch {
						case x.implied(st, term.False):
							st.Died = true
							return nil
						case x.implied(st, c):
							from, b = b, b.Succs[0]
							continue2 = true
						case x.implied(st, term.Not(c)):
							from, b = b, b.Succs[1]
							continue2 = true
						default:
							// genuinely data-dependent exit: both arms are followed (the exit arm
							// leaves the iteration, the other one continues; runLoop bounds the count)
						}
						if continue2 {
							continue2 = false
							break
						}
					}
				}
				if x.coro != nil {
					for _, co := range x.coro.coros {
						if co.started && !co.done {
							x.fail("%s: data-dependent branch while a goroutine is suspended (outside the supported subset): %s", fnName(fn), c)
						}
					}
				}
				join := info.ipdom[b]
				if lb := x.curBound(); lb != nil && lb.fn == fn && lb.frames == len(st.Frames) {
					if join == nil || !lb.blocks[join] || join == lb.head {
						join = nil // run both arms to the iteration boundary
					}
				}
				sT := st.clone()
				sT.PC = term.And(st.PC, c)
				sT.Died = false
				sF := st
				diedBefore := st.Died
				pcBefore := st.PC
				sF.PC = term.And(st.PC, term.Not(c))
				sF.Died = false
				x.branchCover(sT, sF, ins)
				rT := x.runRegion(sT, b.Succs[0], b, join, rets, depth)
				rF := x.runRegion(sF, b.Succs[1], b, join, rets, depth)
				if join == nil {
					return nil
				}
				switch {
				case rT == nil && rF == nil:
					return nil
				case rT == nil:
					st = rF
					st.Died = true
				case rF == nil:
					st = rT
					st.Died = true
				default:
					died := rT.Died || rF.Died
					pcT := rT.PC
					merged := x.mergeStates(pcT, rT, rF, len(rT.Frames))
					if died {
						merged.PC = term.Or(rT.PC, rF.PC)
					} else {
						merged.PC = pcBefore
					}
					merged.Died = died || diedBefore
					// open-loop bookkeeping: keep what both have
					st = merged
				}
				// phis at the join were evaluated per arrival by the recursive calls (see below)
				from, b = nil, join
				// evaluate join phis: they were set in each arm just before returning
			case *ssa.Return:
				vals := make([]Val, len(ins.Results))
				for i, r := range ins.Results {
					vals[i] = x.get(st, r)
				}
				x.doReturn(st, fn, vals, rets, depth)
				return nil
			case *ssa.Panic:
				x.doPanic(st, ins)
				st.Died = true
				return nil
			default:
				if !x.step(st, ins) {
					st.Died = true
					return nil
				}
				continue
			}
			break
		}
	}
}

// prePhi evaluates the phis of join block b for the edge from->b, so that the merged state
// carries the right values (the merge ites them).
func (x *Exec) prePhi(st *State, b, from *ssa.BasicBlock) {
	var phis []*ssa.Phi
	var vals []Val
	for _, ins := range b.Instrs {
		ph, ok := ins.(*ssa.Phi)
		if !ok {
			break
		}
		for i, p := range b.Preds {
			if p == from {
				phis = append(phis, ph)
				vals = append(vals, x.get(st, ph.Edges[i]))
				break
			}
		}
	}
	for i, ph := range phis {
		x.set(st, ph, vals[i])
	}
}

func (x *Exec) branchCover(sT, sF *State, ins *ssa.If) {}

func (x *Exec) doPanic(st *State, ins *ssa.Panic) {
	msg := ""
	if mi, ok := ins.X.(*ssa.MakeInterface); ok {
		if c, ok := mi.X.(*ssa.Const); ok && c.Value != nil && c.Value.Kind() == constant.String {
			msg = constant.StringVal(c.Value)
		}
	}
	x.oblige(st, "unreachable", "panic("+short(msg)+")", term.False, ins.Pos())
}

func short(s string) string {
	s = strings.Map(func(r rune) rune {
		if r == ' ' || r == '/' {
			return '_'
		}
		return r
	}, s)
	if len(s) > 24 {
		s = s[:24]
	}
	return s
}

func (x *Exec) doReturn(st *State, fn *ssa.Function, vals []Val, rets *[]retRec, depth int) {
	// deferred calls run in LIFO order
	fr := st.top()
	for i := len(fr.Defer) - 1; i >= 0; i-- {
		d := fr.Defer[i]
		x.callValue(st, d.call, d.fn, d.args, nil)
	}
	fr.Defer = nil
	if len(st.Frames) == 1 && fn == x.Fn {
		x.checkPost(st, vals)
	}
	*rets = append(*rets, retRec{st, vals})
}

// ---------------------------------------------------------------- instructions

// step executes one non-control instruction; false means the path ended.
func (x *Exec) step(st *State, ins ssa.Instruction) bool {
	switch ins := ins.(type) {
	case *ssa.DebugRef:
	case *ssa.Alloc:
		x.doAlloc(st, ins)
	case *ssa.Store:
		addr := x.addrOf(st, ins.Addr)
		x.store(st, addr, x.get(st, ins.Val))
	case *ssa.UnOp:
		x.doUnOp(st, ins)
	case *ssa.BinOp:
		a, b := x.get(st, ins.X), x.get(st, ins.Y)
		x.set(st, ins, x.binop(st, ins.Op, a, b, ins.X.Type(), ins.Type(), ins.Pos()))
	case *ssa.FieldAddr:
		x.doFieldAddr(st, ins)
	case *ssa.Field:
		v := x.get(st, ins.X).(VStruct)
		x.set(st, ins, v.F[ins.Field])
	case *ssa.IndexAddr:
		x.doIndexAddr(st, ins)
	case *ssa.Index:
		x.doIndex(st, ins)
	case *ssa.Slice:
		x.doSlice(st, ins)
	case *ssa.MakeSlice:
		n := x.getT(st, ins.Len)
		c := x.getT(st, ins.Cap)
		x.oblige(st, "slice", "makeslice", term.And(term.Le(term.I(0), n), term.Le(n, c)), ins.Pos())
		et := ins.Type().Underlying().(*types.Slice).Elem()
		ref := x.newBacking(st, et)
		x.set(st, ins, VSlice{ref, term.I(0), n, c, ins.Type()})
	case *ssa.Convert:
		x.doConvert(st, ins)
	case *ssa.ChangeType:
		x.set(st, ins, retype(x.get(st, ins.X), ins.Type()))
	case *ssa.ChangeInterface:
		v := x.get(st, ins.X).(VIface)
		x.set(st, ins, VIface{v.Tag, v.Data, ins.Type()})
	case *ssa.MakeInterface:
		x.set(st, ins, x.makeIface(st, x.get(st, ins.X), ins.X.Type(), ins.Type()))
	case *ssa.TypeAssert:
		x.doTypeAssert(st, ins)
	case *ssa.Extract:
		tu := x.get(st, ins.Tuple).(VTuple)
		x.set(st, ins, tu[ins.Index])
	case *ssa.Call:
		res, ok := x.doCall(st, ins, &ins.Call)
		if !ok {
			return false
		}
		if res != nil {
			x.set(st, ins, res)
		}
	case *ssa.Defer:
		fr := st.top()
		args := make([]Val, len(ins.Call.Args))
		for i, a := range ins.Call.Args {
			args[i] = x.get(st, a)
		}
		var fv Val
		if !ins.Call.IsInvoke() {
			if _, isB := ins.Call.Value.(*ssa.Builtin); !isB {
				fv = x.get(st, ins.Call.Value)
			}
		} else {
			fv = x.get(st, ins.Call.Value)
		}
		fr.Defer = append(fr.Defer, deferred{&ins.Call, args, fv})
	case *ssa.RunDefers:
		fr := st.top()
		for i := len(fr.Defer) - 1; i >= 0; i-- {
			d := fr.Defer[i]
			x.callValue(st, d.call, d.fn, d.args, nil)
		}
		fr.Defer = nil
	case *ssa.MakeClosure:
		fn := ins.Fn.(*ssa.Function)
		env := x.allocRef(st)
		for i, b := range ins.Bindings {
			bv := x.get(st, b)
			x.storeAt(st, fmt.Sprintf("c:%s", fnName(fn)), fmt.Sprintf(".%d", i), b.Type(), env, nil, bv)
		}
		x.set(st, ins, VFunc{term.I(x.P.funcID(fn)), env, ins.Type()})
	case *ssa.Lookup:
		x.doLookup(st, ins)
	case *ssa.Range:
		x.doRange(st, ins)
	case *ssa.Next:
		x.doNext(st, ins)
	case *ssa.MakeMap:
		x.doMakeMap(st, ins)
	case *ssa.MapUpdate:
		x.doMapUpdate(st, ins)
	case *ssa.MakeChan:
		x.doMakeChan(st, ins)
	case *ssa.Send:
		return x.doSend(st, ins)
	case *ssa.Go:
		x.doGo(st, ins)
	case *ssa.Select:
		x.fail("select statements are outside the supported subset")
	default:
		x.fail("unsupported instruction %T: %s", ins, ins)
	}
	return true
}

func retype(v Val, t types.Type) Val {
	switch v := v.(type) {
	case VT:
		return VT{v.T, t}
	case VSlice:
		return VSlice{v.Ref, v.Off, v.Len, v.Cap, t}
	case VIface:
		return VIface{v.Tag, v.Data, t}
	case VFunc:
		return VFunc{v.Fn, v.Env, t}
	case VStruct:
		return VStruct{v.F, t}
	case VArr:
		return VArr{v.C, t}
	}
	return v
}

func (x *Exec) doAlloc(st *State, ins *ssa.Alloc) {
	t := ins.Type().(*types.Pointer).Elem()
	_, isArr := t.Underlying().(*types.Array)
	if !ins.Heap && !isArr {
		st.top().Cells[ins] = zeroVal(t)
		x.set(st, ins, VAddr{Alloc: ins, Ty: t})
		return
	}
	if !ins.Heap && isArr {
		st.top().Cells[ins] = zeroVal(t)
		x.set(st, ins, VAddr{Alloc: ins, Ty: t})
		return
	}
	ref := x.newObject(st, t)
	x.set(st, ins, VT{ref, ins.Type()})
}

// addrOf converts a pointer-typed SSA value into an address.
func (x *Exec) addrOf(st *State, v ssa.Value) VAddr {
	val := x.get(st, v)
	switch a := val.(type) {
	case VAddr:
		return a
	case VT:
		t := v.Type().Underlying().(*types.Pointer).Elem()
		return x.ptrAddr(a.T, t)
	}
	x.fail("addrOf: %T", val)
	return VAddr{}
}

// ptrAddr is the address designated by a first-class pointer value.
func (x *Exec) ptrAddr(ref *T, elem types.Type) VAddr {
	if isStruct(elem) {
		return VAddr{Class: classFor(elem), Ref: ref, Ty: elem}
	}
	if _, ok := elem.Underlying().(*types.Array); ok {
		return VAddr{Class: classFor(elem), Ref: ref, Ty: elem} // Idx nil: whole array
	}
	return VAddr{Class: classFor(elem), Ref: ref, Idx: term.I(0), Ty: elem}
}

func (x *Exec) nilCheck(st *State, ref *T, what string, pos token.Pos) {
	if k, ok := ref.Int64(); ok && k != 0 {
		return
	}
	x.oblige(st, "nil", what, term.Ne(ref, term.I(0)), pos)
}

func (x *Exec) doUnOp(st *State, ins *ssa.UnOp) {
	switch ins.Op {
	case token.MUL: // load
		val := x.get(st, ins.X)
		switch a := val.(type) {
		case VAddr:
			if a.Alloc == nil && a.Ref != nil {
				x.nilCheck(st, a.Ref, "deref", ins.Pos())
			}
			if a.Alloc == nil {
				if arr, ok := a.Ty.Underlying().(*types.Array); ok && a.Idx == nil {
					x.set(st, ins, x.loadArray(st, a, arr))
					return
				}
			}
			x.set(st, ins, x.load(st, a))
		case VT:
			x.nilCheck(st, a.T, "deref", ins.Pos())
			elem := ins.X.Type().Underlying().(*types.Pointer).Elem()
			addr := x.ptrAddr(a.T, elem)
			if arr, ok := elem.Underlying().(*types.Array); ok {
				x.set(st, ins, x.loadArray(st, addr, arr))
				return
			}
			x.set(st, ins, x.load(st, addr))
		default:
			x.fail("load from %T", val)
		}
	case token.NOT:
		x.set(st, ins, VT{term.Not(x.getT(st, ins.X)), ins.Type()})
	case token.SUB:
		if isFloat(ins.Type()) {
			f := x.get(st, ins.X).(VFlt)
			x.set(st, ins, VFlt{N: term.Neg(f.N), D: f.D})
			return
		}
		v := x.getT(st, ins.X)
		r := term.Neg(v)
		x.set(st, ins, VT{x.wrapOrCheck(st, r, ins.Type(), "neg", ins.Pos()), ins.Type()})
	case token.XOR:
		v := x.getT(st, ins.X)
		r := x.bitNot(v, ins.Type())
		x.set(st, ins, VT{r, ins.Type()})
	case token.ARROW:
		x.doRecv(st, ins)
	default:
		x.fail("unsupported unary op %s", ins.Op)
	}
}

// loadArray reads a whole array object from the heap as an array value.
func (x *Exec) loadArray(st *State, a VAddr, arr *types.Array) Val {
	et := arr.Elem()
	cs := comps(et)
	ts := make([]*T, len(cs))
	for i, c := range cs {
		class := a.Class + a.Path + c.suffix
		if strings.HasPrefix(a.Class, "f:") {
			// array-typed struct field: component sort is already an array
			ts[i] = x.loadComp(st, a.Class+a.Path+"[]"+c.suffix, term.Arr(term.Int, c.sort), a.Ref, nil)
			continue
		}
		if v, ok := x.initObj(class, a.Ref); ok {
			ts[i] = v
			continue
		}
		ts[i] = term.Select(x.heapArr(st, class, c.sort), a.Ref)
	}
	return VArr{C: ts, Ty: a.Ty}
}

func (x *Exec) doFieldAddr(st *State, ins *ssa.FieldAddr) {
	pt := ins.X.Type().Underlying().(*types.Pointer).Elem()
	stt := pt.Underlying().(*types.Struct)
	f := stt.Field(ins.Field)
	val := x.get(st, ins.X)
	switch a := val.(type) {
	case VAddr:
		na := a
		na.Ty = f.Type()
		if a.Alloc != nil {
			na.Sub = append(append([]int(nil), a.Sub...), ins.Field)
		} else {
			na.Path = a.Path + "." + f.Name()
		}
		x.set(st, ins, na)
	case VT:
		x.nilCheck(st, a.T, "field "+f.Name(), ins.Pos())
		x.set(st, ins, VAddr{Class: classFor(pt), Ref: a.T, Path: "." + f.Name(), Ty: f.Type()})
	default:
		x.fail("FieldAddr on %T", val)
	}
}

func (x *Exec) doIndexAddr(st *State, ins *ssa.IndexAddr) {
	idx := x.getT(st, ins.Index)
	val := x.get(st, ins.X)
	switch a := val.(type) {
	case VSlice:
		et := a.Ty.Underlying().(*types.Slice).Elem()
		x.oblige(st, "bounds", "", term.And(term.Le(term.I(0), idx), term.Lt(idx, a.Len)), ins.Pos())
		x.set(st, ins, VAddr{Class: "e:" + typeKey(et), Ref: a.Ref, Idx: term.Add(a.Off, idx), Ty: et})
	case VAddr: // pointer to array (local or heap)
		arr := a.Ty.Underlying().(*types.Array)
		x.oblige(st, "bounds", "", term.And(term.Le(term.I(0), idx), term.Lt(idx, term.I(arr.Len()))), ins.Pos())
		na := a
		na.Ty = arr.Elem()
		if a.Alloc != nil {
			if a.Idx != nil {
				x.fail("nested local arrays are not supported")
			}
			na.Idx = idx
		} else if strings.HasPrefix(a.Class, "f:") {
			x.fail("address of an element of an array-typed struct field is not supported")
		} else {
			na.Idx = idx
		}
		x.set(st, ins, na)
	case VT: // *[N]T first-class pointer
		arr := ins.X.Type().Underlying().(*types.Pointer).Elem().Underlying().(*types.Array)
		x.nilCheck(st, a.T, "index", ins.Pos())
		x.oblige(st, "bounds", "", term.And(term.Le(term.I(0), idx), term.Lt(idx, term.I(arr.Len()))), ins.Pos())
		x.set(st, ins, VAddr{Class: "e:" + typeKey(arr.Elem()), Ref: a.T, Idx: idx, Ty: arr.Elem()})
	default:
		x.fail("IndexAddr on %T", val)
	}
}

func (x *Exec) doIndex(st *State, ins *ssa.Index) {
	idx := x.getT(st, ins.Index)
	switch a := x.get(st, ins.X).(type) {
	case VStr:
		x.oblige(st, "bounds", "string", term.And(term.Le(term.I(0), idx), term.Lt(idx, a.Len)), ins.Pos())
		x.set(st, ins, VT{x.strByte(a, idx), ins.Type()})
	case VArr:
		arr := a.Ty.Underlying().(*types.Array)
		x.oblige(st, "bounds", "array", term.And(term.Le(term.I(0), idx), term.Lt(idx, term.I(arr.Len()))), ins.Pos())
		ts := make([]*T, len(a.C))
		for i := range a.C {
			ts[i] = term.Select(a.C[i], idx)
		}
		x.set(st, ins, mkVal(arr.Elem(), ts))
	default:
		x.fail("Index on %T", a)
	}
}

// strByte reads byte i of a string (bytes are in 0..255).
func (x *Exec) strByte(s VStr, i *T) *T {
	b := term.Select(s.Arr, i)
	if !b.IsConst() {
		x.assumeOnce(term.And(term.Le(term.I(0), b), term.Le(b, term.I(255))))
	}
	return b
}

func (x *Exec) doSlice(st *State, ins *ssa.Slice) {
	var lo, hi, max *T
	if ins.Low != nil {
		lo = x.getT(st, ins.Low)
	} else {
		lo = term.I(0)
	}
	if ins.High != nil {
		hi = x.getT(st, ins.High)
	}
	if ins.Max != nil {
		max = x.getT(st, ins.Max)
	}
	switch a := x.get(st, ins.X).(type) {
	case VStr:
		if hi == nil {
			hi = a.Len
		}
		x.oblige(st, "slice", "string", term.And(term.Le(term.I(0), lo), term.Le(lo, hi), term.Le(hi, a.Len)), ins.Pos())
		x.set(st, ins, x.substr(a, lo, hi))
	case VSlice:
		if hi == nil {
			hi = a.Len
		}
		capv := a.Cap
		cond := term.And(term.Le(term.I(0), lo), term.Le(lo, hi), term.Le(hi, a.Cap))
		if max != nil {
			cond = term.And(cond, term.Le(hi, max), term.Le(max, a.Cap))
			capv = max
		}
		x.oblige(st, "slice", "", cond, ins.Pos())
		x.set(st, ins, VSlice{a.Ref, term.Add(a.Off, lo), term.Sub(hi, lo), term.Sub(capv, lo), ins.Type()})
	case VAddr, VT: // pointer to array
		var ref *T
		var arr *types.Array
		switch p := a.(type) {
		case VAddr:
			if p.Alloc != nil {
				x.fail("slicing a non-escaping local array is not supported")
			}
			ref = p.Ref
			arr = p.Ty.Underlying().(*types.Array)
		case VT:
			ref = p.T
			arr = ins.X.Type().Underlying().(*types.Pointer).Elem().Underlying().(*types.Array)
		}
		n := term.I(arr.Len())
		if hi == nil {
			hi = n
		}
		x.oblige(st, "slice", "array", term.And(term.Le(term.I(0), lo), term.Le(lo, hi), term.Le(hi, n)), ins.Pos())
		x.set(st, ins, VSlice{ref, lo, term.Sub(hi, lo), term.Sub(n, lo), ins.Type()})
	default:
		x.fail("Slice on %T", a)
	}
}

func (x *Exec) substr(a VStr, lo, hi *T) VStr {
	if lo == term.I(0) {
		return VStr{hi, a.Arr}
	}
	if l, ok := lo.Int64(); ok {
		if h, ok2 := hi.Int64(); ok2 && h-l <= 64 {
			arr := term.ConstArr(term.Arr(term.Int, term.Int), term.I(0))
			for i := l; i < h; i++ {
				arr = term.Store(arr, term.I(i-l), term.Select(a.Arr, term.I(i)))
			}
			return VStr{term.I(h - l), arr}
		}
	}
	// shifted view: fresh array with a defining axiom
	na := term.Fresh("substr", term.Arr(term.Int, term.Int))
	j := term.Bound("j", term.Int)
	x.assumeOnce(term.ForallPat([]*T{j}, term.Eq(term.Select(na, j), term.Select(a.Arr, term.Add(j, lo))), [][]*T{{term.Select(na, j)}}))
	return VStr{term.Sub(hi, lo), na}
}

func (x *Exec) makeIface(st *State, v Val, from, to types.Type) Val {
	if _, ok := from.Underlying().(*types.Interface); ok {
		i := v.(VIface)
		return VIface{i.Tag, i.Data, to}
	}
	tag := term.I(x.P.typeID(from))
	switch a := v.(type) {
	case VT:
		if _, isPtr := from.Underlying().(*types.Pointer); isPtr {
			return VIface{tag, a.T, to}
		}
	}
	// box the value: the box identity is a function of the contents, so that interface
	// equality is value equality (as in Go) and no allocation is involved
	in := flatten(v)
	sorts := make([]*term.Sort, len(in))
	for i, t := range in {
		sorts[i] = t.Sort
	}
	box := term.App(term.DeclareFun("box!"+typeKey(from), sorts, term.Int), in...)
	x.storeAt(st, "b:"+typeKey(from), "", from, box, nil, v)
	return VIface{tag, box, to}
}

func (x *Exec) unbox(st *State, i VIface, t types.Type) Val {
	if _, isPtr := t.Underlying().(*types.Pointer); isPtr {
		return VT{i.Data, t}
	}
	return x.loadAt(st, "b:"+typeKey(t), "", t, i.Data, nil)
}

func (x *Exec) doTypeAssert(st *State, ins *ssa.TypeAssert) {
	v := x.get(st, ins.X).(VIface)
	var ok *T
	var res Val
	if _, isIface := ins.AssertedType.Underlying().(*types.Interface); isIface {
		ok = x.P.implementsTerm(x, v.Tag, ins.AssertedType)
		res = VIface{v.Tag, v.Data, ins.AssertedType}
	} else {
		ok = term.Eq(v.Tag, term.I(x.P.typeID(ins.AssertedType)))
		res = x.unbox(st, v, ins.AssertedType)
	}
	if ins.CommaOk {
		// zero value when !ok
		z := zeroVal(ins.AssertedType)
		x.set(st, ins, VTuple{iteVal(ok, res, z), VT{ok, types.Typ[types.Bool]}})
		return
	}
	x.oblige(st, "typeassert", "", ok, ins.Pos())
	x.set(st, ins, res)
}

// closed reports whether every bound variable of t is bound by a quantifier inside t.
func closed(t *T) bool {
	var rec func(t *T, env map[*T]bool) bool
	rec = func(t *T, env map[*T]bool) bool {
		if !t.HasBound() {
			return true
		}
		if t.Op == term.OBound {
			return env[t]
		}
		if t.Op == term.OForall || t.Op == term.OExists {
			e2 := map[*T]bool{}
			for k := range env {
				e2[k] = true
			}
			for _, b := range t.Bnd {
				e2[b] = true
			}
			return rec(t.Args[0], e2)
		}
		for _, a := range t.Args {
			if !rec(a, env) {
				return false
			}
		}
		return true
	}
	return rec(t, map[*T]bool{})
}

// addrToPtr converts an address to a first-class pointer when it designates a whole heap object
// (or its first embedded struct, which shares the reference).
func addrToPtr(a VAddr) (VT, bool) {
	if a.Alloc != nil || a.Ref == nil || a.Idx != nil {
		return VT{}, false
	}
	if a.Path == "" {
		return VT{a.Ref, types.NewPointer(a.Ty)}, true
	}
	if _, ok := embedCanon[a.Class+a.Path]; ok {
		return VT{a.Ref, types.NewPointer(a.Ty)}, true
	}
	return VT{}, false
}

// ---------------------------------------------------------------- unwinding loops with state merging at the header

type loopArrival struct {
	st     *State
	from   *ssa.BasicBlock
	target *ssa.BasicBlock
}

type loopBound struct {
	fn       *ssa.Function
	head     *ssa.BasicBlock
	blocks   map[*ssa.BasicBlock]bool
	frames   int
	first    bool
	arrivals []loopArrival
}

func (x *Exec) curBound() *loopBound {
	if len(x.bounds) == 0 {
		return nil
	}
	return x.bounds[len(x.bounds)-1]
}

// runLoop unwinds loop l iteration by iteration. All paths that reach the back edge in one
// iteration are merged into one state for the next iteration; paths that leave the loop are
// collected and merged at the (single) exit target. Returns the state at the exit target.
func (x *Exec) runLoop(st *State, fn *ssa.Function, l *Loop, from, stop *ssa.BasicBlock, rets *[]retRec, depth int) (*State, *ssa.BasicBlock) {
	lb := &loopBound{fn: fn, head: l.Head, blocks: l.Blocks, frames: len(st.Frames)}
	savedBounds := x.bounds
	x.bounds = append(x.bounds, lb)
	defer func() { x.bounds = savedBounds }()
	cur, curFrom := st, from
	var exits []loopArrival
	for iter := 0; ; iter++ {
		if iter > 2_000_000 {
			x.fail("%s: loop %d does not terminate while unwinding", fnName(fn), l.N)
		}
		lb.first = true
		lb.arrivals = nil
		x.runRegion(cur, l.Head, curFrom, nil, rets, depth)
		var backs []loopArrival
		for _, a := range lb.arrivals {
			if a.target == l.Head {
				backs = append(backs, a)
			} else {
				exits = append(exits, a)
			}
		}
		if len(backs) == 0 {
			break
		}
		cur = x.mergeArrivals(backs)
		curFrom = nil
		if len(backs) > 1 && iter >= 8 && iter%8 == 0 && x.implied(cur, term.False) {
			break // only infeasible paths are still iterating
		}
	}
	if len(exits) == 0 {
		return nil, nil
	}
	// exits into blocks that only return / panic are finished right away; the remaining exits
	// must agree on one continuation block
	groups := map[*ssa.BasicBlock][]loopArrival{}
	var order []*ssa.BasicBlock
	for _, e := range exits {
		if _, ok := groups[e.target]; !ok {
			order = append(order, e.target)
		}
		groups[e.target] = append(groups[e.target], e)
	}
	var target *ssa.BasicBlock
	for _, t := range order {
		if len(t.Succs) == 0 {
			x.bounds = x.bounds[:len(x.bounds)-1]
			if x.SplitLoopExits {
				for _, a := range groups[t] {
					if a.from != nil {
						x.prePhi(a.st, a.target, a.from)
					}
					x.runRegion(a.st, t, nil, nil, rets, depth)
				}
			} else {
				m := x.mergeArrivals(groups[t])
				x.runRegion(m, t, nil, nil, rets, depth)
			}
			x.bounds = append(x.bounds, lb)
			continue
		}
		if target != nil {
			// several continuation blocks (e.g. a `break` arm with its own statements): carry each
			// group to the point where all ways out of the loop meet again
			join := x.P.funcInfo(fn).ipdom[l.Head]
			if join == nil {
				x.fail("%s: loop %d is left towards several different blocks that never re-join (outside the supported subset)", fnName(fn), l.N)
			}
			x.bounds = x.bounds[:len(x.bounds)-1]
			var joined []loopArrival
			for _, t2 := range order {
				if len(t2.Succs) == 0 {
					continue
				}
				m := x.mergeArrivals(groups[t2])
				var r *State
				if t2 == join {
					r = m
				} else {
					r = x.runRegion(m, t2, nil, join, rets, depth)
				}
				if r != nil {
					joined = append(joined, loopArrival{r, nil, join})
				}
			}
			x.bounds = append(x.bounds, lb)
			if len(joined) == 0 {
				return nil, nil
			}
			return x.mergeArrivals(joined), join
		}
		target = t
	}
	if target == nil {
		return nil, nil
	}
	if x.SplitLoopExits && stop == nil && len(x.bounds) == 1 && len(groups[target]) > 1 {
		// path splitting requested by the driver: every way of leaving the loop is carried on
		// separately (no join is pending, so nothing has to be re-merged)
		x.bounds = x.bounds[:0]
		for _, a := range groups[target] {
			if a.from != nil {
				x.prePhi(a.st, a.target, a.from)
			}
			x.runRegion(a.st, target, nil, nil, rets, depth)
		}
		x.bounds = append(x.bounds, lb)
		return nil, nil
	}
	return x.mergeArrivals(groups[target]), target
}

// mergeArrivals evaluates the target's phis per arrival and merges the states.
func (x *Exec) mergeArrivals(as []loopArrival) *State {
	for _, a := range as {
		if a.from != nil {
			x.prePhi(a.st, a.target, a.from)
		}
	}
	out := as[len(as)-1].st
	if len(as) == 1 {
		return out
	}
	pcs := []*T{out.PC}
	for i := len(as) - 2; i >= 0; i-- {
		a := as[i].st
		out = x.mergeStates(a.PC, a, out, len(a.Frames))
		pcs = append(pcs, a.PC)
	}
	out.PC = term.Or(pcs...)
	out.Died = true
	return out
}
