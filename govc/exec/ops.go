package exec

import (
	"go/token"
	"go/types"
	"math/big"

	"verif/govc/term"
)

// VFlt models a float as an exact rational N/D with D > 0 (assumption FL: rounding never
// changes the comparisons / truncations the code performs; listed in every evidence file that
// depends on it).
type VFlt struct {
	N, D *T
	min  *[2]VFlt // set when the value was produced by math.Min (lemma FL: truncation is monotone)
}

func isFloat(t types.Type) bool {
	b, ok := t.Underlying().(*types.Basic)
	return ok && b.Info()&types.IsFloat != 0
}
func isString(t types.Type) bool {
	b, ok := t.Underlying().(*types.Basic)
	return ok && b.Info()&types.IsString != 0
}
func isInteger(t types.Type) bool {
	b, ok := t.Underlying().(*types.Basic)
	return ok && b.Info()&types.IsInteger != 0
}
func isUnsigned(t types.Type) bool {
	b, ok := t.Underlying().(*types.Basic)
	return ok && b.Info()&types.IsUnsigned != 0
}
func typeBits(t types.Type) int {
	b := t.Underlying().(*types.Basic)
	switch b.Kind() {
	case types.Int8, types.Uint8:
		return 8
	case types.Int16, types.Uint16:
		return 16
	case types.Int32, types.Uint32:
		return 32
	}
	return 64
}

var (
	fBand = term.DeclareFun("band", []*term.Sort{term.Int, term.Int}, term.Int)
	fBor  = term.DeclareFun("bor", []*term.Sort{term.Int, term.Int}, term.Int)
	fBxor = term.DeclareFun("bxor", []*term.Sort{term.Int, term.Int}, term.Int)
	fShl  = term.DeclareFun("shl", []*term.Sort{term.Int, term.Int}, term.Int)
	fShr  = term.DeclareFun("shr", []*term.Sort{term.Int, term.Int}, term.Int)
)

func init() {
	fold := func(f func(a, b *big.Int) *big.Int) func(args []*T) *T {
		return func(args []*T) *T {
			if args[0].IsConst() && args[1].IsConst() {
				return term.Big(f(args[0].Val, args[1].Val))
			}
			return nil
		}
	}
	isZero := func(t *T) bool { return t.IsConst() && t.Val.Sign() == 0 }
	wrap := func(f func(args []*T) *T, pre func(args []*T) *T) func(args []*T) *T {
		return func(args []*T) *T {
			if r := pre(args); r != nil {
				return r
			}
			return f(args)
		}
	}
	term.AppHook["band"] = wrap(fold(func(a, b *big.Int) *big.Int { return new(big.Int).And(a, b) }), func(a []*T) *T {
		if isZero(a[0]) || isZero(a[1]) {
			return term.I(0)
		}
		return nil
	})
	var orName string
	orLike := func(a []*T) *T {
		if isZero(a[0]) {
			return a[1]
		}
		if isZero(a[1]) {
			return a[0]
		}
		return nil
	}
	// x op ite(c, m, 0) = ite(c, x op m, x): the neutral element is only visible inside the branch
	distr := func(name string) func(a []*T) *T {
		return func(a []*T) *T {
			for k := 0; k < 2; k++ {
				it := a[k]
				if it.Op != term.OIte {
					continue
				}
				if isZero(it.Args[1]) || isZero(it.Args[2]) {
					o := a[1-k]
					f := term.FunDecl[name]
					l, r := term.AppH(f, o, it.Args[1]), term.AppH(f, o, it.Args[2])
					return term.Ite(it.Args[0], l, r)
				}
			}
			return nil
		}
	}
	_ = orName
	orWith := func(name string) func(a []*T) *T {
		d := distr(name)
		return func(a []*T) *T {
			if r := orLike(a); r != nil {
				return r
			}
			return d(a)
		}
	}
	term.AppHook["bor"] = wrap(fold(func(a, b *big.Int) *big.Int { return new(big.Int).Or(a, b) }), orWith("bor"))
	term.AppHook["bxor"] = wrap(fold(func(a, b *big.Int) *big.Int { return new(big.Int).Xor(a, b) }), orWith("bxor"))
	shiftLike := func(a []*T) *T {
		if isZero(a[0]) {
			return term.I(0)
		}
		if isZero(a[1]) {
			return a[0]
		}
		return nil
	}
	term.AppHook["shl"] = wrap(fold(func(a, b *big.Int) *big.Int { return new(big.Int).Lsh(a, uint(b.Int64())) }), shiftLike)
	term.AppHook["shr"] = wrap(fold(func(a, b *big.Int) *big.Int { return new(big.Int).Rsh(a, uint(b.Int64())) }), shiftLike)
}

func pow2(k int64) *T { return term.Big(new(big.Int).Lsh(big.NewInt(1), uint(k))) }

// isMask reports whether c == 2^k - 1 for some k >= 1.
func isMask(c *big.Int) (int, bool) {
	if c.Sign() <= 0 {
		return 0, false
	}
	n := new(big.Int).Add(c, big.NewInt(1))
	if n.BitLen() > 0 && new(big.Int).And(n, c).Sign() == 0 {
		return n.BitLen() - 1, true
	}
	return 0, false
}

// wrapConst reduces a constant into the range of integer type t (Go's silent wrap-around).
func wrapConst(v *big.Int, t types.Type) *big.Int {
	bits := typeBits(t)
	m := new(big.Int).Lsh(big.NewInt(1), uint(bits))
	r := new(big.Int).Mod(v, m)
	if !isUnsigned(t) && r.Cmp(new(big.Int).Rsh(m, 1)) >= 0 {
		r.Sub(r, m)
	}
	return r
}

// wrapTerm is the exact modular reduction into t's range.
func wrapTerm(v *T, t types.Type) *T {
	if v.IsConst() {
		return term.Big(wrapConst(v.Val, t))
	}
	bits := int64(typeBits(t))
	if isUnsigned(t) {
		return term.EMod(v, pow2(bits))
	}
	half := pow2(bits - 1)
	return term.Sub(term.EMod(term.Add(v, half), pow2(bits)), half)
}

// wrapOrCheck: arithmetic results must stay in range (obligation `overflow`), so that the
// mathematical integers used in the proof are exactly the machine integers.
func (x *Exec) wrapOrCheck(st *State, r *T, t types.Type, what string, pos token.Pos) *T {
	lo, hi, ok := intRange(t)
	if !ok {
		return r
	}
	if r.IsConst() {
		return term.Big(wrapConst(r.Val, t))
	}
	if x.Mode == ModeInit {
		return r
	}
	x.oblige(st, "overflow", what, term.And(term.Le(lo, r), term.Le(r, hi)), pos)
	return r
}

func (x *Exec) bitNot(v *T, t types.Type) *T {
	// ^x = -x-1 (signed) ; for unsigned: 2^w-1-x
	if isUnsigned(t) {
		return term.Sub(term.Big(pow2m1(typeBits(t))), v)
	}
	return term.Sub(term.I(-1), v)
}

func (x *Exec) rangeAssume(r *T, t types.Type) {
	if r.IsConst() {
		return
	}
	if lo, hi, ok := intRange(t); ok {
		x.assumeOnce(term.And(term.Le(lo, r), term.Le(r, hi)))
	}
}

func (x *Exec) binop(st *State, op token.Token, a, b Val, opndT, resT types.Type, pos token.Pos) Val {
	switch av := a.(type) {
	case VStr:
		bv := b.(VStr)
		switch op {
		case token.ADD:
			return x.strConcat(av, bv)
		case token.EQL:
			return VT{x.strEq(av, bv), resT}
		case token.NEQ:
			return VT{term.Not(x.strEq(av, bv)), resT}
		}
		x.fail("unsupported string operator %s", op)
	case VFlt:
		return x.floatBin(st, op, av, b.(VFlt), resT, pos)
	case VIface:
		bv := b.(VIface)
		eq := term.And(term.Eq(av.Tag, bv.Tag), term.Eq(av.Data, bv.Data))
		if op == token.NEQ {
			eq = term.Not(eq)
		}
		return VT{eq, resT}
	case VSlice:
		// only comparison with nil is legal
		bv := b.(VSlice)
		eq := term.Eq(av.Ref, bv.Ref)
		if op == token.NEQ {
			eq = term.Not(eq)
		}
		return VT{eq, resT}
	case VFunc:
		bv := b.(VFunc)
		eq := term.Eq(av.Fn, bv.Fn)
		if op == token.NEQ {
			eq = term.Not(eq)
		}
		return VT{eq, resT}
	case VStruct, VArr:
		fa, fb := flatten(a), flatten(b)
		var cs []*T
		for i := range fa {
			cs = append(cs, term.Eq(fa[i], fb[i]))
		}
		eq := term.And(cs...)
		if op == token.NEQ {
			eq = term.Not(eq)
		}
		return VT{eq, resT}
	}
	p, q := a.(VT).T, b.(VT).T
	if p.Sort == term.Bool {
		switch op {
		case token.EQL:
			return VT{term.Eq(p, q), resT}
		case token.NEQ:
			return VT{term.Not(term.Eq(p, q)), resT}
		}
		x.fail("unsupported boolean operator %s", op)
	}
	switch op {
	case token.EQL:
		return VT{term.Eq(p, q), resT}
	case token.NEQ:
		return VT{term.Ne(p, q), resT}
	case token.LSS:
		return VT{term.Lt(p, q), resT}
	case token.LEQ:
		return VT{term.Le(p, q), resT}
	case token.GTR:
		return VT{term.Lt(q, p), resT}
	case token.GEQ:
		return VT{term.Le(q, p), resT}
	case token.ADD:
		return VT{x.wrapOrCheck(st, term.Add(p, q), resT, "add", pos), resT}
	case token.SUB:
		return VT{x.wrapOrCheck(st, term.Sub(p, q), resT, "sub", pos), resT}
	case token.MUL:
		return VT{x.wrapOrCheck(st, term.Mul(p, q), resT, "mul", pos), resT}
	case token.QUO:
		x.oblige(st, "div0", "", term.Ne(q, term.I(0)), pos)
		return VT{x.wrapOrCheck(st, term.Div(p, q), resT, "div", pos), resT}
	case token.REM:
		x.oblige(st, "div0", "", term.Ne(q, term.I(0)), pos)
		return VT{term.Mod(p, q), resT}
	case token.AND:
		return VT{x.bitAnd(p, q, resT), resT}
	case token.OR:
		r := term.AppH(fBor, p, q)
		x.rangeAssume(r, resT)
		return VT{r, resT}
	case token.XOR:
		r := term.AppH(fBxor, p, q)
		x.rangeAssume(r, resT)
		return VT{r, resT}
	case token.AND_NOT:
		return VT{x.bitAnd(p, x.bitNot(q, resT), resT), resT}
	case token.SHL:
		if !isUnsigned(b.(VT).Ty) {
			x.oblige(st, "shift", "negative count", term.Le(term.I(0), q), pos)
		}
		if k, ok := q.Int64(); ok {
			if k >= int64(typeBits(resT)) {
				return VT{term.I(0), resT}
			}
			return VT{wrapTerm(term.Mul(p, pow2(k)), resT), resT}
		}
		r := term.AppH(fShl, p, q)
		x.rangeAssume(r, resT)
		return VT{r, resT}
	case token.SHR:
		if !isUnsigned(b.(VT).Ty) {
			x.oblige(st, "shift", "negative count", term.Le(term.I(0), q), pos)
		}
		if k, ok := q.Int64(); ok {
			if k >= 64 {
				k = 64
			}
			return VT{term.EDiv(p, pow2(k)), resT}
		}
		r := term.AppH(fShr, p, q)
		x.rangeAssume(r, resT)
		return VT{r, resT}
	}
	x.fail("unsupported binary operator %s", op)
	return nil
}

func (x *Exec) bitAnd(p, q *T, t types.Type) *T {
	if p.IsConst() && q.IsConst() {
		return term.Big(new(big.Int).And(p.Val, q.Val))
	}
	if p.IsConst() {
		p, q = q, p
	}
	if q.IsConst() {
		if q.Val.Sign() == 0 {
			return term.I(0)
		}
		if k, ok := isMask(q.Val); ok {
			return term.EMod(p, pow2(int64(k)))
		}
	}
	r := term.AppH(fBand, p, q)
	x.rangeAssume(r, t)
	return r
}

// ---------------------------------------------------------------- floats (exact rationals)

func (x *Exec) floatVal(f float64) VFlt {
	r := new(big.Rat)
	if r.SetFloat64(f) == nil {
		x.fail("non-finite float constant")
	}
	return VFlt{N: term.Big(r.Num()), D: term.Big(r.Denom())}
}

func (x *Exec) floatBin(st *State, op token.Token, a, b VFlt, resT types.Type, pos token.Pos) Val {
	switch op {
	case token.ADD:
		return normFlt(term.Add(term.Mul(a.N, b.D), term.Mul(b.N, a.D)), term.Mul(a.D, b.D))
	case token.SUB:
		return normFlt(term.Sub(term.Mul(a.N, b.D), term.Mul(b.N, a.D)), term.Mul(a.D, b.D))
	case token.MUL:
		return normFlt(term.Mul(a.N, b.N), term.Mul(a.D, b.D))
	case token.QUO:
		// x/0 is +-Inf or NaN in Go, not a panic: the result carries denominator 0 and any
		// comparison or integer conversion that uses it raises obligation `fnan`
		n := term.Mul(a.N, b.D)
		d := term.Mul(a.D, b.N)
		neg := term.Lt(b.N, term.I(0))
		return normFlt(term.Ite(neg, term.Neg(n), n), term.Ite(neg, term.Neg(d), d))
	}
	// IEEE comparisons incl. infinities (D == 0, sign of N) and NaN (0/0): NaN compares false
	zero := term.I(0)
	aFin, bFin := term.Ne(a.D, zero), term.Ne(b.D, zero)
	aNaN := term.And(term.Eq(a.D, zero), term.Eq(a.N, zero))
	bNaN := term.And(term.Eq(b.D, zero), term.Eq(b.N, zero))
	nan := term.Or(aNaN, bNaN)
	l := term.Mul(a.N, b.D)
	r := term.Mul(b.N, a.D)
	lt := func(a, b VFlt, aFin, bFin, fin *T) *T {
		// a < b
		return term.Ite(term.And(aFin, bFin), fin,
			term.Ite(aFin, term.Lt(zero, b.N), // b = +Inf ?
				term.Ite(bFin, term.Lt(a.N, zero), // a = -Inf ?
					term.And(term.Lt(a.N, zero), term.Lt(zero, b.N)))))
	}
	eq := term.Ite(term.And(aFin, bFin), term.Eq(l, r), term.And(term.Not(aFin), term.Not(bFin), term.Eq(term.Lt(a.N, zero), term.Lt(b.N, zero))))
	var res *T
	switch op {
	case token.EQL:
		res = term.And(term.Not(nan), eq)
	case token.NEQ:
		res = term.Or(nan, term.Not(eq))
	case token.LSS:
		res = term.And(term.Not(nan), lt(a, b, aFin, bFin, term.Lt(l, r)))
	case token.LEQ:
		res = term.And(term.Not(nan), term.Or(eq, lt(a, b, aFin, bFin, term.Lt(l, r))))
	case token.GTR:
		res = term.And(term.Not(nan), lt(b, a, bFin, aFin, term.Lt(r, l)))
	case token.GEQ:
		res = term.And(term.Not(nan), term.Or(eq, lt(b, a, bFin, aFin, term.Lt(r, l))))
	}
	if res != nil {
		return VT{res, resT}
	}
	x.fail("unsupported float operator %s", op)
	return nil
}

func normFlt(n, d *T) VFlt {
	if n.IsConst() && d.IsConst() && d.Val.Sign() != 0 {
		r := new(big.Rat).SetFrac(n.Val, d.Val)
		return VFlt{N: term.Big(r.Num()), D: term.Big(r.Denom())}
	}
	return VFlt{N: n, D: d}
}

func fltMin(a, b VFlt) VFlt {
	c := term.Le(term.Mul(a.N, b.D), term.Mul(b.N, a.D))
	return VFlt{N: term.Ite(c, a.N, b.N), D: term.Ite(c, a.D, b.D), min: &[2]VFlt{a, b}}
}
func fltAbs(a VFlt) VFlt {
	return VFlt{N: term.Ite(term.Lt(a.N, term.I(0)), term.Neg(a.N), a.N), D: a.D}
}
func fltFloor(a VFlt) VFlt { return VFlt{N: term.EDiv(a.N, a.D), D: term.I(1)} }
func fltCeil(a VFlt) VFlt {
	return VFlt{N: term.Neg(term.EDiv(term.Neg(a.N), a.D)), D: term.I(1)}
}

// fltTrunc is Go's float -> integer conversion (truncation toward zero).
func fltTrunc(a VFlt) *T {
	if a.min != nil {
		p, q := fltTrunc(a.min[0]), fltTrunc(a.min[1])
		return term.Ite(term.Le(p, q), p, q)
	}
	return term.Div(a.N, a.D)
}

// ---------------------------------------------------------------- conversions

func (x *Exec) convertInt(st *State, v *T, from, to types.Type, pos token.Pos) *T {
	if v.IsConst() {
		return term.Big(wrapConst(v.Val, to))
	}
	flo, fhi, _ := intRange(from)
	tlo, thi, _ := intRange(to)
	if flo.Val.Cmp(tlo.Val) >= 0 && fhi.Val.Cmp(thi.Val) <= 0 {
		return v
	}
	if x.Mode == ModeInit {
		return wrapTerm(v, to)
	}
	// EMod(_, 2^k) results and similar are often syntactically in range
	if v.Op == term.OEMod && v.Args[1].IsConst() && tlo.Val.Sign() <= 0 && new(big.Int).Sub(v.Args[1].Val, big.NewInt(1)).Cmp(thi.Val) <= 0 && v.Args[1].Val.Sign() > 0 {
		return v
	}
	x.oblige(st, "conv", typeKey(from)+"->"+typeKey(to), term.And(term.Le(tlo, v), term.Le(v, thi)), pos)
	return v
}
