package exec

// BVAxioms are the bit-vector readings of the integer-level bit-algebra axioms in axiomTerms.
// Each script must be UNSAT (it asserts the negation of the axiom at the stated width); they
// are discharged on every run as obligations axiom/<name>. Integers in the proofs are
// mathematical; Go's two's-complement operators on values that are in range coincide with the
// bit-vector operators at the type's width (sign extension for int32 -> arithmetic shift).
var BVAxioms = []struct{ Name, Script string }{
	{"band-bounds64", `(declare-const x (_ BitVec 64)) (declare-const y (_ BitVec 64))
(assert (and (bvsge x #x0000000000000000) (bvsge y #x0000000000000000)))
(assert (not (and (bvsge (bvand x y) #x0000000000000000) (bvsle (bvand x y) x) (bvsle (bvand x y) y))))
(check-sat)`},
	{"bor-bounds63", `(declare-const x (_ BitVec 64)) (declare-const y (_ BitVec 64))
(assert (and (bvsge x #x0000000000000000) (bvsge y #x0000000000000000) (bvult x #x4000000000000000) (bvult y #x4000000000000000)))
(assert (not (and (bvsle x (bvor x y)) (bvsle y (bvor x y)) (bvsle (bvor x y) (bvadd x y)))))
(check-sat)`},
	{"bxor-bounds63", `(declare-const x (_ BitVec 64)) (declare-const y (_ BitVec 64))
(assert (and (bvsge x #x0000000000000000) (bvsge y #x0000000000000000) (bvult x #x4000000000000000) (bvult y #x4000000000000000)))
(assert (not (and (bvsge (bvxor x y) #x0000000000000000) (bvsle (bvxor x y) (bvadd x y)))))
(check-sat)`},
	{"bor-bxor-pow2", `(declare-const x (_ BitVec 64)) (declare-const y (_ BitVec 64)) (declare-const k (_ BitVec 64))
(assert (and (bvule #x0000000000000001 k) (bvule k #x0000000000000020)))
(define-fun lim () (_ BitVec 64) (bvshl #x0000000000000001 k))
(assert (and (bvult x lim) (bvult y lim)))
(assert (not (and (bvult (bvor x y) lim) (bvult (bvxor x y) lim))))
(check-sat)`},
	{"setbit32", `(declare-const w (_ BitVec 32)) (declare-const s (_ BitVec 32)) (declare-const t (_ BitVec 32))
(assert (and (bvule s #x0000001f) (bvule t #x0000001f)))
(define-fun bit ((v (_ BitVec 32)) (k (_ BitVec 32))) Bool (= ((_ extract 0 0) (bvashr v k)) #b1))
(assert (not (= (bit (bvor w (bvshl #x00000001 s)) t) (or (= s t) (bit w t)))))
(check-sat)`},
	{"bytebit32", `(declare-const w (_ BitVec 32)) (declare-const s (_ BitVec 32)) (declare-const t (_ BitVec 32))
(assert (and (bvule s #x00000018) (bvule t #x00000007)))
(define-fun bit ((v (_ BitVec 32)) (k (_ BitVec 32))) Bool (= ((_ extract 0 0) (bvashr v k)) #b1))
(assert (not (= (bit (bvand (bvashr w s) #x000000ff) t) (bit w (bvadd s t)))))
(check-sat)`},
	{"clrbit32", `(declare-const w (_ BitVec 32)) (declare-const s (_ BitVec 32)) (declare-const t (_ BitVec 32))
(assert (and (bvule s #x0000001f) (bvule t #x0000001f)))
(define-fun bit ((v (_ BitVec 32)) (k (_ BitVec 32))) Bool (= ((_ extract 0 0) (bvashr v k)) #b1))
(assert (not (= (bit (bvand w (bvnot (bvshl #x00000001 s))) t) (and (not (= s t)) (bit w t)))))
(check-sat)`},
	{"bor-add-aligned", `(declare-const x (_ BitVec 64)) (declare-const k (_ BitVec 64))
(assert (bvule k #x000000000000000f))
(define-fun c () (_ BitVec 64) (bvshl #x0000000000000001 k))
(assert (and (bvsge x #x0000000000000000) (bvult x #x4000000000000000) (= (bvurem x (bvshl c #x0000000000000001)) #x0000000000000000)))
(assert (not (= (bvor x c) (bvadd x c))))
(check-sat)`},
}
