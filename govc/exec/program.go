package exec

import (
	"fmt"
	"go/token"
	"go/types"
	"os"
	"path/filepath"
	"sort"
	"strconv"
	"strings"

	"golang.org/x/tools/go/packages"
	"golang.org/x/tools/go/ssa"
	"golang.org/x/tools/go/ssa/ssautil"

	"verif/govc/contract"
	"verif/govc/term"
)

const RepoModule = "github.com/boombuler/barcode"

// InitState is the result of running all package initialisers concretely.
type InitState struct {
	Heap  map[string]map[int64]*T // class -> ref -> component value
	Maps  map[int64]*MapObj
	Extra map[string]*T // classes with non-constant keys (boxed values): initial array term
	Alloc int64
}

type Program struct {
	Dir     string
	Pkgs    []*packages.Package
	SSA     *ssa.Program
	SSAPkgs map[string]*ssa.Package // by import path
	Specs   map[*ssa.Function]*contract.FuncSpec
	SpecSrc []*contract.File
	Defines map[string]*contract.Define
	// SpecDefs: recursive spec functions (`//@ specdef`); each is an SMT function symbol plus its
	// defining equation as a quantified axiom (a definition, not an assumption about the code;
	// recursion must be well-founded: the recursive calls are on a smaller guarded argument)
	SpecDefs   []*contract.Define
	specDefAx  []*T
	specDefSig map[string]*contract.Define
	defPkg     map[*contract.Define]*types.Package
	specPkg    map[*contract.FuncSpec]*types.Package
	Init       *InitState

	ghost     map[string]*term.Sort // "pkg.Type.field"
	specFuns  map[string]*term.FunSig
	ifaceSp   map[string]*contract.FuncSpec // "iface pkg.I.Method"
	ftypeSp   map[string]*contract.FuncSpec
	extSp     map[string]*contract.FuncSpec
	Axioms    []*contract.Clause
	axiomPkg  map[*contract.Clause]*types.Package
	typeIDs   map[string]int64
	typeByIDm map[int64]types.Type
	funcIDs   map[*ssa.Function]int64
	funcByIDm map[int64]*ssa.Function
	globals   map[*ssa.Global]int64
	infos     map[*ssa.Function]*FuncInfo
	wcache    map[*ssa.Function][]string
	acache    map[*ssa.Function]bool
	inprog    map[*ssa.Function]bool
	allNamed  []types.Type
	initSorts map[string]*term.Sort
	axioms    []*T
}

func Load(dir string) (*Program, error) {
	cfg := &packages.Config{Mode: packages.LoadAllSyntax, Dir: dir, BuildFlags: []string{"-tags=verif"}, Env: append(os.Environ(), "GOFLAGS=-mod=mod", "GOPROXY=off", "GOSUMDB=off", "GOTOOLCHAIN=local")}
	pkgs, err := packages.Load(cfg, "./...")
	if err != nil {
		return nil, err
	}
	if packages.PrintErrors(pkgs) > 0 {
		return nil, fmt.Errorf("packages contain errors")
	}
	prog, _ := ssautil.AllPackages(pkgs, ssa.NaiveForm|ssa.InstantiateGenerics)
	prog.Build()
	p := &Program{Dir: dir, Pkgs: pkgs, SSA: prog, SSAPkgs: map[string]*ssa.Package{}, Specs: map[*ssa.Function]*contract.FuncSpec{},
		Defines: map[string]*contract.Define{}, defPkg: map[*contract.Define]*types.Package{}, specPkg: map[*contract.FuncSpec]*types.Package{},
		ghost: map[string]*term.Sort{}, specFuns: map[string]*term.FunSig{}, ifaceSp: map[string]*contract.FuncSpec{}, ftypeSp: map[string]*contract.FuncSpec{}, extSp: map[string]*contract.FuncSpec{},
		axiomPkg: map[*contract.Clause]*types.Package{},
		typeIDs:  map[string]int64{}, typeByIDm: map[int64]types.Type{}, funcIDs: map[*ssa.Function]int64{}, funcByIDm: map[int64]*ssa.Function{},
		globals: map[*ssa.Global]int64{}, infos: map[*ssa.Function]*FuncInfo{}, wcache: map[*ssa.Function][]string{}, acache: map[*ssa.Function]bool{}, inprog: map[*ssa.Function]bool{}}
	for _, sp := range prog.AllPackages() {
		p.SSAPkgs[sp.Pkg.Path()] = sp
	}
	// stable numbering of globals of repo packages (and the external globals they mention lazily)
	var paths []string
	for path := range p.SSAPkgs {
		if p.isRepoPath(path) {
			paths = append(paths, path)
		}
	}
	sort.Strings(paths)
	for _, path := range paths {
		sp := p.SSAPkgs[path]
		var names []string
		for n, m := range sp.Members {
			if _, ok := m.(*ssa.Global); ok {
				names = append(names, n)
			}
			if t, ok := m.(*ssa.Type); ok {
				p.allNamed = append(p.allNamed, t.Type(), types.NewPointer(t.Type()))
			}
		}
		sort.Strings(names)
		for _, n := range names {
			p.globalRef(sp.Members[n].(*ssa.Global))
		}
	}
	for _, t := range p.allNamed {
		if st, ok := t.Underlying().(*types.Struct); ok && st.NumFields() > 0 {
			f := st.Field(0)
			if _, isS := f.Type().Underlying().(*types.Struct); isS && f.Embedded() {
				embedCanon["f:"+typeKey(t)+"."+f.Name()] = "f:" + typeKey(f.Type())
			}
		}
	}
	sort.Slice(p.allNamed, func(i, j int) bool { return typeKey(p.allNamed[i]) < typeKey(p.allNamed[j]) })
	for _, t := range p.allNamed {
		p.typeID(t)
	}
	if err := p.loadContracts(paths); err != nil {
		return nil, err
	}
	return p, nil
}

func (p *Program) isRepoPath(path string) bool {
	return path == RepoModule || strings.HasPrefix(path, RepoModule+"/")
}
func (p *Program) isRepoPkg(pk *types.Package) bool { return pk != nil && p.isRepoPath(pk.Path()) }

func (p *Program) pkgByName(name string) *types.Package {
	for path, sp := range p.SSAPkgs {
		if sp.Pkg.Name() == name && (p.isRepoPath(path) || !strings.Contains(path, "/internal/")) {
			if p.isRepoPath(path) {
				return sp.Pkg
			}
		}
	}
	for _, sp := range p.SSAPkgs {
		if sp.Pkg.Name() == name {
			return sp.Pkg
		}
	}
	return nil
}

// ---------------------------------------------------------------- identifiers

func (p *Program) typeID(t types.Type) int64 {
	k := typeKey(t)
	if id, ok := p.typeIDs[k]; ok {
		return id
	}
	id := int64(len(p.typeIDs) + 1)
	p.typeIDs[k] = id
	p.typeByIDm[id] = t
	return id
}
func (p *Program) typeByID(id int64) types.Type {
	t := p.typeByIDm[id]
	if t == nil {
		panic(&ExecError{fmt.Sprintf("unknown dynamic type id %d", id)})
	}
	return t
}
func (p *Program) funcID(f *ssa.Function) int64 {
	if id, ok := p.funcIDs[f]; ok {
		return id
	}
	id := int64(len(p.funcIDs) + 1)
	p.funcIDs[f] = id
	p.funcByIDm[id] = f
	return id
}
func (p *Program) funcByID(id int64) *ssa.Function {
	f := p.funcByIDm[id]
	if f == nil {
		panic(&ExecError{fmt.Sprintf("unknown function id %d", id)})
	}
	return f
}
func (p *Program) globalRef(g *ssa.Global) *T {
	if r, ok := p.globals[g]; ok {
		return term.I(r)
	}
	r := InitBase + int64(len(p.globals))
	p.globals[g] = r
	return term.I(r)
}
func (p *Program) globalFor(v *types.Var) *ssa.Global {
	sp := p.SSAPkgs[v.Pkg().Path()]
	if sp == nil {
		return nil
	}
	g, _ := sp.Members[v.Name()].(*ssa.Global)
	return g
}

func (p *Program) funcInfo(fn *ssa.Function) *FuncInfo {
	if fi, ok := p.infos[fn]; ok {
		return fi
	}
	fi := buildFuncInfo(fn)
	p.infos[fn] = fi
	return fi
}

// implementsTerm: does the dynamic type with this tag implement iface?
func (p *Program) implementsTerm(x *Exec, tag *T, iface types.Type) *T {
	it := iface.Underlying().(*types.Interface)
	if id, ok := tag.Int64(); ok {
		if id == 0 {
			return term.False
		}
		return term.B(types.Implements(p.typeByID(id), it))
	}
	if tag.Op == term.OIte {
		return term.Ite(tag.Args[0], p.implementsTerm(x, tag.Args[1], iface), p.implementsTerm(x, tag.Args[2], iface))
	}
	var alts []*T
	max := int64(0)
	for id, t := range p.typeByIDm {
		if id > max {
			max = id
		}
		if types.Implements(t, it) {
			alts = append(alts, term.Eq(tag, term.I(id)))
		}
	}
	sort.Slice(alts, func(i, j int) bool { return alts[i].ID < alts[j].ID })
	// dynamic types from outside the module
	f := term.DeclareFun("implements!"+typeKey(iface), []*term.Sort{term.Int}, term.Bool)
	alts = append(alts, term.And(term.Lt(term.I(unknownTypeBase), tag), term.App(f, tag)))
	return term.Or(alts...)
}

const unknownTypeBase = 1 << 20

// ---------------------------------------------------------------- contracts

func (p *Program) loadContracts(paths []string) error {
	for _, path := range paths {
		sp := p.SSAPkgs[path]
		rel := strings.TrimPrefix(strings.TrimPrefix(path, RepoModule), "/")
		file := filepath.Join(p.Dir, rel, "zz_contracts_verif.go")
		if _, err := os.Stat(file); err != nil {
			continue
		}
		cf, err := contract.ParseFile(file)
		if err != nil {
			return err
		}
		p.SpecSrc = append(p.SpecSrc, cf)
		for _, d := range cf.Defines {
			p.defPkg[d] = sp.Pkg
			if d.Rec {
				var args []*term.Sort
				for _, pa := range d.Params {
					so, err := parseGhostSort(pa.Type)
					if err != nil {
						return fmt.Errorf("%s:%d: specdef %s: %v", file, d.Line, d.Name, err)
					}
					args = append(args, so)
				}
				ret, err := parseGhostSort(d.Ret)
				if err != nil {
					return fmt.Errorf("%s:%d: specdef %s: %v", file, d.Line, d.Name, err)
				}
				p.specFuns[d.Name] = term.DeclareFun("spec!"+d.Name, args, ret)
				p.SpecDefs = append(p.SpecDefs, d)
				continue
			}
			p.Defines[sp.Pkg.Name()+"."+d.Name] = d
		}
		for _, a := range cf.Axioms {
			p.Axioms = append(p.Axioms, a)
			p.axiomPkg[a] = sp.Pkg
		}
		for _, fs := range cf.Funcs {
			p.specPkg[fs] = sp.Pkg
			ref := fs.Ref
			switch {
			case strings.HasPrefix(ref, "ghost "):
				// "ghost Type.field sort"
				parts := strings.Fields(ref)
				if len(parts) != 3 {
					return fmt.Errorf("%s:%d: ghost declaration needs 'ghost Type.field sort'", file, fs.Line)
				}
				s, err := parseGhostSort(parts[2])
				if err != nil {
					return fmt.Errorf("%s:%d: %v", file, fs.Line, err)
				}
				p.ghost[sp.Pkg.Name()+"."+parts[1]] = s
			case strings.HasPrefix(ref, "specfun "):
				if err := p.declareSpecFun(strings.TrimPrefix(ref, "specfun ")); err != nil {
					return fmt.Errorf("%s:%d: %v", file, fs.Line, err)
				}
			case strings.HasPrefix(ref, "iface "):
				p.ifaceSp[strings.TrimSpace(strings.TrimPrefix(ref, "iface "))] = fs
			case strings.HasPrefix(ref, "functype "):
				p.ftypeSp[strings.TrimSpace(strings.TrimPrefix(ref, "functype "))] = fs
			case strings.HasPrefix(ref, "extern "):
				p.extSp[strings.TrimSpace(strings.TrimPrefix(ref, "extern "))] = fs
			default:
				fn, err := p.resolveFunc(sp, ref)
				if err != nil {
					return fmt.Errorf("%s:%d: %v", file, fs.Line, err)
				}
				if p.Specs[fn] != nil {
					return fmt.Errorf("%s:%d: duplicate contract for %s", file, fs.Line, ref)
				}
				p.Specs[fn] = fs
			}
		}
	}
	return nil
}

func parseGhostSort(s string) (*term.Sort, error) {
	switch s {
	case "int":
		return term.Int, nil
	case "bool":
		return term.Bool, nil
	case "map[int]bool":
		return term.Arr(term.Int, term.Bool), nil
	case "map[int]int":
		return term.Arr(term.Int, term.Int), nil
	}
	return nil, fmt.Errorf("unsupported ghost sort %q", s)
}

func (p *Program) declareSpecFun(sig string) error {
	// name(int,bool,...) int
	i := strings.Index(sig, "(")
	j := strings.LastIndex(sig, ")")
	if i < 0 || j < i {
		return fmt.Errorf("bad specfun signature %q", sig)
	}
	name := strings.TrimSpace(sig[:i])
	var args []*term.Sort
	if strings.TrimSpace(sig[i+1:j]) != "" {
		for _, a := range strings.Split(sig[i+1:j], ",") {
			s, err := parseGhostSort(strings.TrimSpace(a))
			if err != nil {
				return err
			}
			args = append(args, s)
		}
	}
	ret, err := parseGhostSort(strings.TrimSpace(sig[j+1:]))
	if err != nil {
		return err
	}
	p.specFuns[name] = term.DeclareFun("spec!"+name, args, ret)
	return nil
}

func (p *Program) specFun(name string) *term.FunSig { return p.specFuns[name] }

func (p *Program) ghostField(typeKeyStr, field string) *term.Sort {
	return p.ghost[typeKeyStr+"."+field]
}

func (p *Program) ghostFieldsOf(typeKeyStr string) map[string]*term.Sort {
	var out map[string]*term.Sort
	for k, s := range p.ghost {
		if strings.HasPrefix(k, typeKeyStr+".") && !strings.Contains(k[len(typeKeyStr)+1:], ".") {
			if out == nil {
				out = map[string]*term.Sort{}
			}
			out[k[len(typeKeyStr)+1:]] = s
		}
	}
	return out
}

func (p *Program) lookupDefine(q string) *contract.Define { return p.Defines[q] }
func (p *Program) pkgOfDefine(d *contract.Define) *types.Package {
	return p.defPkg[d]
}
func (p *Program) pkgOfSpec(s *contract.FuncSpec) *types.Package { return p.specPkg[s] }

func (p *Program) ifaceSpec(iface types.Type, m *types.Func) *contract.FuncSpec {
	if s := p.ifaceSp[typeKey(iface)+"."+m.Name()]; s != nil {
		return s
	}
	var keys []string
	for k := range p.ifaceSp {
		if strings.HasSuffix(k, "."+m.Name()) {
			keys = append(keys, k)
		}
	}
	sort.Strings(keys)
	if len(keys) > 0 {
		return p.ifaceSp[keys[0]]
	}
	return nil
}
func (p *Program) funcTypeSpec(t types.Type) *contract.FuncSpec { return p.ftypeSp[typeKey(t)] }
func (p *Program) extSpec(fn *ssa.Function) *contract.FuncSpec  { return p.extSp[fn.String()] }
func (p *Program) inlineExternal(fn *ssa.Function) bool         { return false }

// autoInline: loop-free functions without a contract are inlined in proof mode.
func (p *Program) autoInline(fn *ssa.Function) bool {
	if len(fn.Blocks) == 0 {
		return false
	}
	return len(p.funcInfo(fn).loops) == 0
}

// resolveFunc finds "Name", "(*T).Name", "(T).Name", "Name$1" in package sp.
func (p *Program) resolveFunc(sp *ssa.Package, ref string) (*ssa.Function, error) {
	anon := []int{}
	for {
		i := strings.LastIndex(ref, "$")
		if i < 0 {
			break
		}
		n, err := strconv.Atoi(ref[i+1:])
		if err != nil {
			return nil, fmt.Errorf("bad closure ordinal in %q", ref)
		}
		anon = append([]int{n}, anon...)
		ref = ref[:i]
	}
	var fn *ssa.Function
	if strings.HasPrefix(ref, "(") {
		j := strings.Index(ref, ").")
		if j < 0 {
			return nil, fmt.Errorf("bad method reference %q", ref)
		}
		tn := ref[1:j]
		mn := ref[j+2:]
		ptr := strings.HasPrefix(tn, "*")
		tn = strings.TrimPrefix(tn, "*")
		tm, ok := sp.Members[tn].(*ssa.Type)
		if !ok {
			return nil, fmt.Errorf("no type %s in package %s", tn, sp.Pkg.Name())
		}
		var recv types.Type = tm.Type()
		if ptr {
			recv = types.NewPointer(recv)
		}
		ms := p.SSA.MethodSets.MethodSet(recv)
		for i := 0; i < ms.Len(); i++ {
			if ms.At(i).Obj().Name() == mn {
				fn = p.SSA.MethodValue(ms.At(i))
			}
		}
		if fn == nil {
			return nil, fmt.Errorf("no method %s on %s", mn, recv)
		}
	} else {
		f, ok := sp.Members[ref].(*ssa.Function)
		if !ok {
			return nil, fmt.Errorf("no function %s in package %s", ref, sp.Pkg.Name())
		}
		fn = f
	}
	for _, n := range anon {
		if n < 1 || n > len(fn.AnonFuncs) {
			return nil, fmt.Errorf("%s has no closure #%d", fn.Name(), n)
		}
		fn = fn.AnonFuncs[n-1]
	}
	return fn, nil
}

// FindFunc resolves "pkgname.Ref" (e.g. "utils.(*BitList).SetBit").
func (p *Program) FindFunc(q string) (*ssa.Function, error) {
	i := strings.Index(q, ".")
	if i < 0 {
		return nil, fmt.Errorf("function reference %q needs a package prefix", q)
	}
	pk := p.pkgByName(q[:i])
	if pk == nil {
		return nil, fmt.Errorf("unknown package %q", q[:i])
	}
	return p.resolveFunc(p.SSAPkgs[pk.Path()], q[i+1:])
}

// ---------------------------------------------------------------- static write analysis

func (p *Program) classesOfType(t types.Type, prefix string, out map[string]bool) {
	for _, c := range comps(t) {
		out[canon(prefix+c.suffix)] = true
	}
}

// addrClasses returns the heap classes a store through address value v may touch.
func (p *Program) addrClasses(v ssa.Value, out map[string]bool) {
	pt, ok := v.Type().Underlying().(*types.Pointer)
	if !ok {
		return
	}
	elem := pt.Elem()
	switch a := v.(type) {
	case *ssa.Alloc:
		if !a.Heap {
			return
		}
	case *ssa.FieldAddr:
		if root := rootAlloc(a); root != nil && !root.Heap {
			return
		}
		// class of the outermost struct + path
		path := ""
		var cur ssa.Value = a
		for {
			fa, ok := cur.(*ssa.FieldAddr)
			if !ok {
				break
			}
			st := fa.X.Type().Underlying().(*types.Pointer).Elem().Underlying().(*types.Struct)
			path = "." + st.Field(fa.Field).Name() + path
			cur = fa.X
		}
		base := cur.Type().Underlying().(*types.Pointer).Elem()
		if ia, ok := cur.(*ssa.IndexAddr); ok {
			var et types.Type
			switch xt := ia.X.Type().Underlying().(type) {
			case *types.Slice:
				et = xt.Elem()
			case *types.Pointer:
				et = xt.Elem().Underlying().(*types.Array).Elem()
			}
			p.classesOfType(elem, "e:"+typeKey(et)+path, out)
			return
		}
		p.classesOfType(elem, classFor(base)+path, out)
		return
	case *ssa.IndexAddr:
		if root := rootAlloc(a); root != nil && !root.Heap {
			return
		}
		p.classesOfType(elem, "e:"+typeKey(elem), out)
		return
	}
	if isStruct(elem) {
		p.classesOfType(elem, classFor(elem), out)
		return
	}
	if arr, ok := elem.Underlying().(*types.Array); ok {
		p.classesOfType(arr.Elem(), "e:"+typeKey(arr.Elem()), out)
		return
	}
	p.classesOfType(elem, "e:"+typeKey(elem), out)
}

func (p *Program) instrWrites(ins ssa.Instruction) []string {
	out := map[string]bool{}
	switch i := ins.(type) {
	case *ssa.Store:
		p.addrClasses(i.Addr, out)
	case *ssa.Alloc:
		if i.Heap {
			p.addrClasses(i, out)
		}
	case *ssa.Send:
		out[clChanSent] = true
		out[clChanN] = true
	case *ssa.MakeChan:
		out[clChanSent] = true
		out[clChanN] = true
		out[clChanClosed] = true
		out[clChanRecv] = true
	case *ssa.UnOp:
		if i.Op == token.ARROW {
			out[clChanRecv] = true
		}
	case *ssa.MakeSlice:
		et := i.Type().Underlying().(*types.Slice).Elem()
		p.classesOfType(et, "e:"+typeKey(et), out)
	case *ssa.MakeInterface:
		if _, isPtr := i.X.Type().Underlying().(*types.Pointer); !isPtr {
			if _, isI := i.X.Type().Underlying().(*types.Interface); !isI {
				p.classesOfType(i.X.Type(), "b:"+typeKey(i.X.Type()), out)
			}
		}
	case *ssa.MakeClosure:
		fn := i.Fn.(*ssa.Function)
		for k, b := range i.Bindings {
			p.classesOfType(b.Type(), fmt.Sprintf("c:%s.%d", fnName(fn), k), out)
		}
	case *ssa.Convert:
		if isString(i.X.Type()) && isByteSlice(i.Type()) {
			out["e:uint8"] = true
		}
		if isString(i.X.Type()) && isRuneSlice(i.Type()) {
			out["e:int32"] = true
		}
	case ssa.CallInstruction:
		c := i.Common()
		if b, ok := c.Value.(*ssa.Builtin); ok {
			switch b.Name() {
			case "close":
				out[clChanClosed] = true
			case "append", "copy":
				if sl, ok := c.Args[0].Type().Underlying().(*types.Slice); ok {
					p.classesOfType(sl.Elem(), "e:"+typeKey(sl.Elem()), out)
				}
			}
			break
		}
		for _, callee := range p.callees(c) {
			for _, w := range p.writtenClasses(callee, p.Specs[callee]) {
				out[w] = true
			}
		}
	}
	var res []string
	for k := range out {
		res = append(res, k)
	}
	sort.Strings(res)
	return res
}

// callees resolves the possible static targets of a call (closed world).
func (p *Program) callees(c *ssa.CallCommon) []*ssa.Function {
	if c.IsInvoke() {
		var out []*ssa.Function
		it := c.Value.Type().Underlying().(*types.Interface)
		for _, t := range p.allNamed {
			if types.Implements(t, it) {
				if fn := p.SSA.LookupMethod(t, c.Method.Pkg(), c.Method.Name()); fn != nil {
					out = append(out, fn)
				}
			}
		}
		return out
	}
	switch v := c.Value.(type) {
	case *ssa.Function:
		return []*ssa.Function{v}
	case *ssa.MakeClosure:
		return []*ssa.Function{v.Fn.(*ssa.Function)}
	}
	// function values: every function / closure of that signature in the module
	var out []*ssa.Function
	sig, _ := c.Value.Type().Underlying().(*types.Signature)
	if sig == nil {
		return nil
	}
	for fn := range ssautil.AllFunctions(p.SSA) {
		if fn.Pkg != nil && p.isRepoPkg(fn.Pkg.Pkg) && types.Identical(fn.Signature, sig) && fn.Signature.Recv() == nil {
			out = append(out, fn)
		}
	}
	sort.Slice(out, func(i, j int) bool { return fnName(out[i]) < fnName(out[j]) })
	return out
}

// addressTaken: functions / closures of the given signature that are used as values in the module.
func (p *Program) addressTaken(sig *types.Signature) []*ssa.Function {
	seen := map[*ssa.Function]bool{}
	var out []*ssa.Function
	for fn := range ssautil.AllFunctions(p.SSA) {
		if fn.Pkg == nil || !p.isRepoPkg(fn.Pkg.Pkg) {
			continue
		}
		for _, b := range fn.Blocks {
			for _, ins := range b.Instrs {
				var cand *ssa.Function
				switch i := ins.(type) {
				case *ssa.MakeClosure:
					cand = i.Fn.(*ssa.Function)
				default:
					for _, op := range ins.Operands(nil) {
						if f, ok := (*op).(*ssa.Function); ok {
							if ci, isCall := ins.(ssa.CallInstruction); isCall && ci.Common().Value == f {
								continue
							}
							cand = f
						}
					}
				}
				if cand != nil && !seen[cand] && types.Identical(stripRecv(cand.Signature), stripRecv(sig)) {
					seen[cand] = true
					out = append(out, cand)
				}
			}
		}
	}
	sort.Slice(out, func(i, j int) bool { return fnName(out[i]) < fnName(out[j]) })
	return out
}

func stripRecv(s *types.Signature) *types.Signature {
	return types.NewSignatureType(nil, nil, nil, s.Params(), s.Results(), s.Variadic())
}

// writtenClasses: every heap class the function (transitively) may store to, including the
// initialisation of objects it allocates and ghost `sets`.
func (p *Program) writtenClasses(fn *ssa.Function, spec *contract.FuncSpec) []string {
	if fn == nil {
		return p.specClasses(spec)
	}
	if w, ok := p.wcache[fn]; ok {
		return w
	}
	if p.inprog[fn] {
		return nil
	}
	p.inprog[fn] = true
	defer delete(p.inprog, fn)
	out := map[string]bool{}
	if fn.Pkg == nil || !p.isRepoPkg(fn.Pkg.Pkg) || len(fn.Blocks) == 0 {
		for _, c := range p.specClasses(spec) {
			out[c] = true
		}
	} else {
		for _, b := range fn.Blocks {
			for _, ins := range b.Instrs {
				for _, w := range p.instrWrites(ins) {
					out[w] = true
				}
			}
		}
		for _, af := range fn.AnonFuncs {
			_ = af
		}
		for _, c := range p.specClasses(spec) {
			out[c] = true
		}
	}
	var res []string
	for k := range out {
		res = append(res, k)
	}
	sort.Strings(res)
	p.wcache[fn] = res
	return res
}

// specClasses: classes named by a contract's modifies/sets clauses (syntactic approximation:
// resolved at application time by evalMods; here only ghost classes need to be predicted).
func (p *Program) specClasses(spec *contract.FuncSpec) []string {
	if spec == nil {
		return nil
	}
	var out []string
	if v := spec.Attrs["writes"]; v != "" {
		out = append(out, strings.Fields(v)...)
	}
	for _, s := range spec.Sets {
		if sel, ok := s.E.(*contract.Sel); ok {
			for k := range p.ghost {
				// k = "pkg.Type.field"
				i := strings.LastIndex(k, ".")
				if k[i+1:] == sel.Name {
					out = append(out, "f:"+k[:i]+".$"+sel.Name)
				}
			}
		}
	}
	sort.Strings(out)
	return out
}

func (p *Program) instrAllocates(ins ssa.Instruction) bool {
	switch i := ins.(type) {
	case *ssa.Alloc:
		return i.Heap
	case *ssa.MakeSlice, *ssa.MakeClosure, *ssa.MakeMap, *ssa.MakeChan:
		return true
	case *ssa.MakeInterface:
		_, isPtr := i.X.Type().Underlying().(*types.Pointer)
		return !isPtr
	case *ssa.Convert:
		return isString(i.X.Type()) && (isByteSlice(i.Type()) || isRuneSlice(i.Type()))
	case ssa.CallInstruction:
		c := i.Common()
		if b, ok := c.Value.(*ssa.Builtin); ok {
			return b.Name() == "append"
		}
		for _, callee := range p.callees(c) {
			if p.allocates(callee, p.Specs[callee]) {
				return true
			}
		}
		if fn, ok := c.Value.(*ssa.Function); ok && (fn.Pkg == nil || !p.isRepoPkg(fn.Pkg.Pkg)) {
			return true // errors.New etc.
		}
	}
	return false
}

func (p *Program) allocates(fn *ssa.Function, spec *contract.FuncSpec) bool {
	if fn == nil || len(fn.Blocks) == 0 || fn.Pkg == nil || !p.isRepoPkg(fn.Pkg.Pkg) {
		return true
	}
	if v, ok := p.acache[fn]; ok {
		return v
	}
	p.acache[fn] = false
	res := false
	for _, b := range fn.Blocks {
		for _, ins := range b.Instrs {
			if p.instrAllocates(ins) {
				res = true
			}
		}
	}
	p.acache[fn] = res
	return res
}

// bodyTouchesGhost: does fn call anything whose contract `sets` ghost class?
func (p *Program) bodyTouchesGhost(fn *ssa.Function, class string) bool {
	for _, b := range fn.Blocks {
		for _, ins := range b.Instrs {
			ci, ok := ins.(ssa.CallInstruction)
			if !ok {
				continue
			}
			for _, callee := range p.callees(ci.Common()) {
				if sp := p.Specs[callee]; sp != nil {
					for _, w := range p.specClasses(sp) {
						if w == class {
							return true
						}
					}
				}
				if callee != fn && len(callee.Blocks) > 0 && p.isRepoPkg(callee.Pkg.Pkg) && p.bodyTouchesGhostRec(callee, class, map[*ssa.Function]bool{fn: true}) {
					return true
				}
			}
		}
	}
	return false
}

func (p *Program) bodyTouchesGhostRec(fn *ssa.Function, class string, seen map[*ssa.Function]bool) bool {
	if seen[fn] {
		return false
	}
	seen[fn] = true
	if sp := p.Specs[fn]; sp != nil {
		for _, w := range p.specClasses(sp) {
			if w == class {
				return true
			}
		}
	}
	for _, b := range fn.Blocks {
		for _, ins := range b.Instrs {
			if ci, ok := ins.(ssa.CallInstruction); ok {
				for _, callee := range p.callees(ci.Common()) {
					if callee.Pkg != nil && p.isRepoPkg(callee.Pkg.Pkg) && p.bodyTouchesGhostRec(callee, class, seen) {
						return true
					}
				}
			}
		}
	}
	return false
}
