package exec

import (
	"fmt"
	"go/token"
	"go/types"
	"sort"

	"golang.org/x/tools/go/ssa"

	"verif/govc/contract"
	"verif/govc/term"
)

// FuncInfo caches CFG facts of one function.
type FuncInfo struct {
	ipdom   map[*ssa.BasicBlock]*ssa.BasicBlock // immediate post-dominator (nil = exit)
	loops   []*Loop                             // natural loops in source order
	headers map[*ssa.BasicBlock]*Loop
}

type Loop struct {
	N      int // ordinal (1-based, source order)
	Head   *ssa.BasicBlock
	Blocks map[*ssa.BasicBlock]bool
}

func buildFuncInfo(fn *ssa.Function) *FuncInfo {
	fi := &FuncInfo{ipdom: map[*ssa.BasicBlock]*ssa.BasicBlock{}, headers: map[*ssa.BasicBlock]*Loop{}}
	n := len(fn.Blocks)
	if n == 0 {
		return fi
	}
	// ---- post-dominators: iterative set intersection over the reverse CFG with a virtual exit
	exit := n
	succs := make([][]int, n+1)
	// joins are computed with respect to the function's main exit (the last return): early
	// returns / panics inside loops are dead ends, so that the arm which continues is re-joined
	// at the continuation point instead of being carried separately to the end of the function
	mainExit := -1
	var mainPos token.Pos = -1
	for _, b := range fn.Blocks {
		if len(b.Succs) == 0 && len(b.Instrs) > 0 {
			if r, ok := b.Instrs[len(b.Instrs)-1].(*ssa.Return); ok {
				// the return that comes last in the source text (an implicit return at the end of
				// the body has no position and counts as last)
				pos := r.Pos()
				if pos == token.NoPos {
					pos = token.Pos(1 << 30)
				}
				if pos > mainPos {
					mainPos, mainExit = pos, b.Index
				}
			}
		}
	}
	for _, b := range fn.Blocks {
		if len(b.Succs) == 0 && (b.Index == mainExit || mainExit < 0) {
			succs[b.Index] = []int{exit}
		}
		for _, s := range b.Succs {
			succs[b.Index] = append(succs[b.Index], s.Index)
		}
	}
	// pdom sets as bitsets
	words := (n + 1 + 63) / 64
	full := make([]uint64, words)
	for i := 0; i <= n; i++ {
		full[i/64] |= 1 << uint(i%64)
	}
	pd := make([][]uint64, n+1)
	for i := 0; i <= n; i++ {
		pd[i] = append([]uint64(nil), full...)
	}
	pd[exit] = make([]uint64, words)
	pd[exit][exit/64] |= 1 << uint(exit%64)
	changed := true
	for changed {
		changed = false
		for i := n - 1; i >= 0; i-- {
			nw := append([]uint64(nil), full...)
			if len(succs[i]) == 0 {
				continue
			}
			for _, s := range succs[i] {
				for w := range nw {
					nw[w] &= pd[s][w]
				}
			}
			nw[i/64] |= 1 << uint(i%64)
			for w := range nw {
				if nw[w] != pd[i][w] {
					changed = true
				}
			}
			pd[i] = nw
		}
	}
	has := func(set []uint64, k int) bool { return set[k/64]&(1<<uint(k%64)) != 0 }
	count := func(set []uint64) int {
		c := 0
		for k := 0; k <= n; k++ {
			if has(set, k) {
				c++
			}
		}
		return c
	}
	for i := 0; i < n; i++ {
		// immediate post-dominator: the strict post-dominator with the largest pdom set
		best, bestC := -1, -1
		for k := 0; k <= n; k++ {
			if k == i || !has(pd[i], k) {
				continue
			}
			c := count(pd[k])
			if c > bestC {
				best, bestC = k, c
			}
		}
		if best >= 0 && best != exit {
			fi.ipdom[fn.Blocks[i]] = fn.Blocks[best]
		}
	}
	// ---- natural loops via dominators (ssa provides Dominates)
	byHead := map[*ssa.BasicBlock]*Loop{}
	for _, b := range fn.Blocks {
		for _, s := range b.Succs {
			if s.Dominates(b) { // back edge b -> s
				l := byHead[s]
				if l == nil {
					l = &Loop{Head: s, Blocks: map[*ssa.BasicBlock]bool{s: true}}
					byHead[s] = l
				}
				// collect body: nodes that reach b without passing s
				stack := []*ssa.BasicBlock{b}
				for len(stack) > 0 {
					t := stack[len(stack)-1]
					stack = stack[:len(stack)-1]
					if l.Blocks[t] {
						continue
					}
					l.Blocks[t] = true
					stack = append(stack, t.Preds...)
				}
			}
		}
	}
	for _, l := range byHead {
		fi.loops = append(fi.loops, l)
	}
	sort.Slice(fi.loops, func(i, j int) bool { return loopPos(fi.loops[i]) < loopPos(fi.loops[j]) })
	for i, l := range fi.loops {
		l.N = i + 1
		fi.headers[l.Head] = l
	}
	return fi
}

// loopPos orders loops in source order. Block indices follow creation order in the SSA
// builder, which creates a loop's blocks when it reaches the statement; the smallest index of the
// blocks belonging only to this loop's header group is a stable proxy.
func loopPos(l *Loop) int {
	min := l.Head.Index
	for b := range l.Blocks {
		if b.Index < min {
			min = b.Index
		}
	}
	return min
}

func (x *Exec) loopCutFor(fn *ssa.Function, b *ssa.BasicBlock) *contract.LoopSpec {
	if fn != x.Fn || x.Spec == nil {
		return nil
	}
	l := x.P.funcInfo(fn).headers[b]
	if l == nil {
		return nil
	}
	ls := x.Spec.Loops[l.N]
	if ls == nil || ls.Unroll || len(ls.Invariants) == 0 {
		return nil
	}
	return ls
}

func (x *Exec) invEnv(st *State, head *ssa.BasicBlock) *Env {
	env := x.newEnv(st, x.Fn, x.Spec)
	env.old = x.entry
	env.allocBefore = x.entryAlloc
	env.locals = true
	env.loopHead = head
	for k, v := range x.params {
		if _, shadow := env.vars[k]; !shadow {
			// only the entry-value names (x0) are bound; plain names resolve to the current cells
			if len(k) > 0 && k[len(k)-1] == '0' {
				env.vars[k] = v
			}
		}
	}
	// parameters that are not spilled to cells (none in NaiveForm) fall back to entry values
	for k, v := range x.params {
		if _, ok := env.vars[k]; ok {
			continue
		}
		found := false
		if len(st.Frames) > 0 {
			for a := range st.Frames[0].Cells {
				if a.Comment == k {
					found = true
				}
			}
		}
		if !found {
			env.vars[k] = v
		}
	}
	return env
}

func (x *Exec) loopEnter(st *State, fn *ssa.Function, head *ssa.BasicBlock, ls *contract.LoopSpec, info *FuncInfo) {
	l := info.headers[head]
	// a `for k, v := range someMap` loop: the iterator's ghost state is visible to the invariant
	// from the start (nothing visited yet)
	for b := range l.Blocks {
		for _, ins := range b.Instrs {
			if nx, ok := ins.(*ssa.Next); ok && len(st.Frames) > 0 {
				if it, ok := st.Frames[0].Regs[nx.Iter].(VRange); ok && it.Str == nil && it.Vis != nil {
					st.Ghost["visited"] = VMath{it.Vis}
					st.Ghost["nvisited"] = VMath{it.Pos}
				}
			}
		}
	}
	// 1. invariant holds on entry
	env := x.invEnv(st, head)
	for i, inv := range ls.Invariants {
		x.oblige(st, "inv", fmt.Sprintf("loop%d#%s/init", l.N, clauseLabel(inv, i)), env.evalBool(inv.E), token.NoPos)
	}
	// 2. havoc everything the body may change
	fr := st.Frames[0]
	written := map[string]bool{}
	allocs := false
	for b := range l.Blocks {
		for _, ins := range b.Instrs {
			switch ins := ins.(type) {
			case *ssa.Store:
				if root := rootAlloc(ins.Addr); root != nil && !root.Heap {
					if v, ok := fr.Cells[root]; ok {
						nv := freshVal("l."+root.Comment, root.Type().(*types.Pointer).Elem())
						x.assumeTyped(st, nv, root.Type().(*types.Pointer).Elem())
						_ = v
						fr.Cells[root] = nv
					}
					continue
				}
			case *ssa.Next:
				if it, ok := fr.Regs[ins.Iter].(VRange); ok {
					nit := it
					nit.Pos = term.Fresh("l.iterpos", term.Int)
					if it.Str != nil {
						x.assumeOnce(term.And(term.Le(term.I(0), nit.Pos), term.Le(nit.Pos, it.Str.Len)))
					} else {
						nit.Vis = term.Fresh("l.visited", term.Arr(term.Int, term.Bool))
						x.assumeOnce(term.Le(term.I(0), nit.Pos))
					}
					fr.Regs[ins.Iter] = nit
					if it.Str == nil {
						st.Ghost["visited"] = VMath{nit.Vis}
						st.Ghost["nvisited"] = VMath{nit.Pos}
					}
				}
			}
			for _, c := range x.P.instrWrites(ins) {
				written[c] = true
			}
			if x.P.instrAllocates(ins) {
				allocs = true
			}
		}
	}
	old := st.clone()
	allocBefore := st.Alloc
	if allocs {
		st.Alloc = term.Fresh("alloc", term.Int)
		x.assumeOnce(term.Le(allocBefore, st.Alloc))
	}
	var classes []string
	for c := range written {
		classes = append(classes, c)
	}
	sort.Strings(classes)
	for _, c := range classes {
		x.havocLoopClass(st, old, c, allocBefore)
	}
	// 3. assume the invariant for an arbitrary iteration
	env = x.invEnv(st, head)
	for _, inv := range ls.Invariants {
		x.assume(st, env.evalBool(inv.E))
	}
	ent := &loopEntry{}
	for _, d := range ls.Decreases {
		ent.variant = append(ent.variant, env.evalInt(d))
	}
	st.Open[head] = ent
	x.cover(st, fmt.Sprintf("loop%d/inv", l.N), term.True)
}

// havocLoopClass: inside a loop only objects the function may modify (its own modifies clause)
// and objects allocated since function entry can change.
func (x *Exec) havocLoopClass(st, old *State, class string, allocBefore *T) {
	class = canon(class)
	s := x.classSorts[class]
	if s == nil {
		return
	}
	oldArr := x.heapArr(st, class, s)
	entryArr := x.heapArr(x.entry, class, s)
	newArr := term.Fresh("L."+class, oldArr.Sort)
	x.rangeAxiom(class, newArr)
	r := term.Bound("r", term.Int)
	// objects that existed at function entry and are not in the modifies clause keep their entry value
	conds := []*T{term.Lt(r, x.entryAlloc)}
	type part struct{ ref, lo, hi *T }
	var parts []part
	for _, m := range x.mods {
		if !classMatches(class, m.Class) {
			continue
		}
		conds = append(conds, term.Ne(r, m.Ref))
		if m.Lo != nil && len(class) > 2 && class[:2] == "e:" {
			parts = append(parts, part{m.Ref, m.Lo, m.Hi})
		}
	}
	x.assumeOnce(term.ForallPat([]*T{r}, term.Imp(term.And(conds...), term.Eq(term.Select(newArr, r), term.Select(entryArr, r))), [][]*T{{term.Select(newArr, r)}}))
	for _, p := range parts {
		i := term.Bound("i", term.Int)
		x.assumeOnce(term.ForallPat([]*T{i}, term.Imp(term.Or(term.Lt(i, p.lo), term.Le(p.hi, i)),
			term.Eq(term.Select(term.Select(newArr, p.ref), i), term.Select(term.Select(entryArr, p.ref), i))),
			[][]*T{{term.Select(term.Select(newArr, p.ref), i)}}))
	}
	st.Heap[class] = newArr
}

func rootAlloc(v ssa.Value) *ssa.Alloc {
	for {
		switch a := v.(type) {
		case *ssa.Alloc:
			return a
		case *ssa.FieldAddr:
			v = a.X
		case *ssa.IndexAddr:
			v = a.X
		default:
			return nil
		}
	}
}

func (x *Exec) loopBackEdge(st *State, fn *ssa.Function, head *ssa.BasicBlock, ls *contract.LoopSpec, ent *loopEntry) {
	l := x.P.funcInfo(fn).headers[head]
	env := x.invEnv(st, head)
	for i, inv := range ls.Invariants {
		x.oblige(st, "inv", fmt.Sprintf("loop%d#%s/step", l.N, clauseLabel(inv, i)), env.evalBool(inv.E), token.NoPos)
	}
	if len(ls.Decreases) > 0 {
		// lexicographic decrease, bounded below by 0
		var now []*T
		for _, d := range ls.Decreases {
			now = append(now, env.evalInt(d))
		}
		dec := term.False
		for i := len(now) - 1; i >= 0; i-- {
			lt := term.And(term.Le(term.I(0), ent.variant[i]), term.Lt(now[i], ent.variant[i]))
			dec = term.Or(lt, term.And(term.Eq(now[i], ent.variant[i]), dec))
		}
		x.oblige(st, "variant", fmt.Sprintf("loop%d", l.N), dec, token.NoPos)
	} else {
		x.note("loop %d of %s has no decreases clause: termination not proved", l.N, fnName(fn))
	}
}

// innermost returns the innermost natural loop containing b (nil if none).
func (fi *FuncInfo) innermost(b *ssa.BasicBlock) *Loop {
	var best *Loop
	for _, l := range fi.loops {
		if l.Blocks[b] && (best == nil || len(l.Blocks) < len(best.Blocks)) {
			best = l
		}
	}
	return best
}

func loopHeadOf(fi *FuncInfo, b *ssa.BasicBlock) *ssa.BasicBlock {
	if l := fi.innermost(b); l != nil {
		return l.Head
	}
	return b
}
