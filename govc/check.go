package main

import (
	"bytes"
	"crypto/sha256"
	"encoding/hex"
	"encoding/json"
	"flag"
	"fmt"
	"os"
	osexec "os/exec"
	"path/filepath"
	"regexp"
	"sort"
	"strconv"
	"strings"
	"time"

	"verif/govc/exec"
)

const verifDir = "/verif"

// Harness is a bounded stand-in / replay search: an in-package Go test injected with -overlay.
type Harness struct {
	Pkg   string // package directory relative to the repo root, e.g. "utils"
	File  string // file under /verif/harness
	Run   string // test name regexp
	Bound string // stated bound (for evidence)
}

// PropDef says which machinery decides one property.
type PropDef struct {
	ID          string
	Funcs       []string // functions verified against their contracts (proof mode)
	Unwind      []*Unwinder
	Only        map[string]string // unwinder name -> regexp: only the family's obligations with a matching name belong to this property
	Tables      []string          // names of table lemmas (see tables.go)
	Harness     []Harness
	BV          bool // re-prove the bit-algebra axioms
	Assumptions []string
	Trusted     []string
	Note        string
	Level       string // evidence level; default "proof"
}

// Unwinder is a family of complete-unwinding jobs (one per finite configuration). Jobs are
// independent and run in parallel worker processes (the term store is not thread safe).
type Unwinder struct {
	Name string
	Jobs func(tier string) []string
	Run  func(c *checkCtx, job string) []oblRes
}

type oblRes struct {
	Name    string
	Kind    string
	Proved  bool
	Solver  string
	Seconds float64
	Output  string
	Model   string
	Size    int
	Trivial bool
	Count   int // >1: this entry stands for Count syntactically discharged obligations of one kind
}

type checkCtx struct {
	P     *exec.Program
	Tier  string
	Seed  int64
	Repo  string
	Notes []string
	cfg   *exec.SolverCfg
}

type knownFinding struct {
	Property   string `json:"property"`
	Obligation string `json:"obligation"`
	What       string `json:"what"`
	Status     string `json:"status"` // "known" or "fixed"
	Commit     string `json:"commit,omitempty"`
}

func loadKnown() []knownFinding {
	var out struct {
		Findings []knownFinding `json:"findings"`
	}
	data, err := os.ReadFile(filepath.Join(verifDir, "known_findings.json"))
	if err != nil {
		return nil
	}
	if err := json.Unmarshal(data, &out); err != nil {
		fmt.Fprintln(os.Stderr, "known_findings.json:", err)
		os.Exit(2)
	}
	return out.Findings
}

func cmdCheck(args []string) {
	fs := flag.NewFlagSet("check", flag.ExitOnError)
	tier := fs.String("tier", "", "quick|thorough")
	repo := fs.String("repo", "/repo", "repository")
	fs.Parse(args)
	if fs.NArg() != 1 {
		fmt.Fprintln(os.Stderr, "usage: govc check [--tier quick|thorough] <property id>")
		os.Exit(2)
	}
	id := fs.Arg(0)
	if *tier == "" {
		*tier = os.Getenv("VERIF_TIER")
	}
	if *tier == "" {
		*tier = "quick"
	}
	seed := int64(1)
	if s := os.Getenv("VERIF_SEED"); s != "" {
		if v, err := strconv.ParseInt(s, 10, 64); err == nil {
			seed = v
		}
	}
	def := findProp(id)
	if def == nil {
		fmt.Fprintln(os.Stderr, "unknown property", id)
		os.Exit(2)
	}
	t0 := time.Now()
	p, err := exec.Load(*repo)
	if err != nil {
		fmt.Fprintln(os.Stderr, "ENGINE: load:", err)
		os.Exit(2)
	}
	if err := p.RunInit(); err != nil {
		fmt.Fprintln(os.Stderr, "ENGINE:", err)
		os.Exit(2)
	}
	to := 10 * time.Second
	if *tier == "thorough" {
		to = 60 * time.Second
	}
	c := &checkCtx{P: p, Tier: *tier, Seed: seed, Repo: *repo, cfg: &exec.SolverCfg{Timeout: to, Workers: 12, Confirm: *tier == "thorough"}}
	var all []oblRes
	var funcsDone []string
	engineFault := false
	// 1. contracts
	for _, ref := range def.Funcs {
		fn, err := p.FindFunc(ref)
		if err != nil {
			fmt.Fprintln(os.Stderr, "ENGINE:", err)
			os.Exit(2)
		}
		spec := p.Specs[fn]
		if spec == nil {
			fmt.Fprintf(os.Stderr, "ENGINE: %s has no contract\n", ref)
			os.Exit(2)
		}
		for ci := 0; ci < exec.SplitCases(spec); ci++ {
			x := exec.NewExec(p, fn, exec.ModeProof)
			x.Spec = spec
			x.SplitIdx = ci
			if err := x.Run(); err != nil {
				// the function left the supported subset or the contract no longer fits the code:
				// reported as an undischarged obligation of that function, never as a silent pass
				all = append(all, oblRes{Name: ref + "/vcgen", Kind: "vcgen", Proved: false, Output: err.Error()})
				continue
			}
			rs := x.Discharge(c.cfg)
			n := 0
			for _, r := range rs {
				all = append(all, oblRes{Name: r.Obl.Name, Kind: r.Obl.Kind, Proved: r.Verdict == exec.Proved, Solver: r.Solver, Seconds: r.Seconds, Output: r.Output, Model: r.Model, Size: r.Size, Trivial: r.Trivial})
				n++
			}
			if n == 0 {
				all = append(all, oblRes{Name: ref + "/vacuous", Kind: "vacuity", Proved: false, Output: "no obligations generated"})
			}
			c.Notes = append(c.Notes, x.Notes...)
			failed := false
			for _, r := range rs {
				if r.Verdict != exec.Proved {
					failed = true
				}
			}
			if failed {
				break // the remaining cases of the split would fail the same way: keep the check time bounded
			}
		}
		funcsDone = append(funcsDone, ref)
	}
	// 2. complete unwinding families and table lemmas
	for _, u := range def.Unwind {
		rs := runUnwinder(c, u)
		if pat := def.Only[u.Name]; pat != "" {
			re := regexp.MustCompile(pat)
			kept := rs[:0:0]
			for _, r := range rs {
				// engine-level failures (unwinding did not complete, worker died) always count
				if re.MatchString(r.Name) || strings.HasSuffix(r.Name, "/unwinding") || strings.Contains(r.Name, "/worker") {
					kept = append(kept, r)
				}
			}
			rs = kept
		}
		all = append(all, rs...)
	}
	for _, t := range def.Tables {
		all = append(all, runTableLemma(c, t)...)
	}
	// 3. bit-algebra axioms re-proved in QF_BV
	if def.BV {
		all = append(all, runBVAxioms()...)
	}
	_ = engineFault
	// 4. bounded stand-ins / search on the real code
	var bounded []map[string]interface{}
	var harnessFail []harnessFailure
	for _, h := range def.Harness {
		res := runHarness(c, def.ID, h)
		bounded = append(bounded, map[string]interface{}{"harness": h.File, "test": h.Run, "bound": h.Bound, "cases": res.Cases, "passed": res.OK, "seconds": res.Seconds})
		if !res.OK {
			harnessFail = append(harnessFail, res.Failures...)
			if len(res.Failures) == 0 {
				harnessFail = append(harnessFail, harnessFailure{Check: h.Run, Input: "", Detail: "harness did not complete: " + res.Output})
			}
		}
	}
	// ---- verdict
	known := loadKnown()
	isKnown := func(name string) *knownFinding {
		for i := range known {
			k := &known[i]
			if k.Property == def.ID && k.Status == "known" && wildMatch(k.Obligation, name) {
				return k
			}
		}
		return nil
	}
	os.MkdirAll(filepath.Join(verifDir, "replay", def.ID), 0o755)
	violations := 0
	discharged := 0
	knownSeen := []string{}
	byKind := map[string]int{}
	byBackend := map[string]int{}
	var lines []string
	total := 0
	knownPrinted := map[string]bool{}
	var proofLost []string
	for _, r := range all {
		n := 1
		if r.Count > 1 {
			n = r.Count
		}
		total += n
		byKind[r.Kind] += n
		if r.Proved {
			discharged += n
			byBackend[strings.Split(r.Solver, "(")[0]] += n
			continue
		}
		if k := isKnown(r.Name); k != nil {
			if !knownPrinted[k.What] {
				lines = append(lines, fmt.Sprintf("KNOWN-FINDING: property=%s %s (%s)", def.ID, k.What, r.Name))
				knownPrinted[k.What] = true
			}
			knownSeen = append(knownSeen, r.Name)
			total -= n // a recorded finding is reported separately, not as an (un)discharged obligation
			byKind[r.Kind] -= n
			continue
		}
		// The engine could not even generate conditions for the changed code (the contract's loop
		// invariants name locals that no longer exist, a construct outside the subset appeared, a
		// worker died). That is "undecided", not a refuted obligation: the verdict then rests on the
		// bounded stand-ins of the property. If they all pass, the loss of the proof is reported
		// (PROOF-LOST, evidence) but no violation is claimed; if one fails, both are reported.
		if engineFailure(r.Name) && len(def.Harness) > 0 && len(harnessFail) == 0 {
			proofLost = append(proofLost, r.Name)
			lines = append(lines, fmt.Sprintf("PROOF-LOST: property=%s obligation=%s undecided (%s); verdict rests on the bounded stand-ins, which passed", def.ID, r.Name, clip(firstLine(strings.TrimSpace(r.Output)), 200)))
			continue
		}
		violations++
		file := filepath.Join(verifDir, "replay", def.ID, sanitize(r.Name)+".json")
		rep := map[string]interface{}{"property": def.ID, "obligation": r.Name, "kind": r.Kind, "solver_output": r.Output, "model": r.Model}
		suffix := " no-failing-input-found"
		for _, hf := range harnessFail {
			rep["failing_input"] = hf
			suffix = ""
			break
		}
		writeJSON(file, rep)
		lines = append(lines, fmt.Sprintf("VIOLATION property=%s replay=%s obligation=%s%s", def.ID, file, r.Name, suffix))
	}
	for _, hf := range harnessFail {
		name := "bounded/" + hf.Check
		if k := isKnown(name); k != nil && (k.What == "" || strings.Contains(hf.Detail+hf.Input, kInput(k))) {
			lines = append(lines, fmt.Sprintf("KNOWN-FINDING: property=%s %s (%s)", def.ID, k.What, name))
			knownSeen = append(knownSeen, name)
			continue
		}
		violations++
		file := filepath.Join(verifDir, "replay", def.ID, sanitize(name)+".json")
		writeJSON(file, map[string]interface{}{"property": def.ID, "obligation": name, "failing_input": hf})
		lines = append(lines, fmt.Sprintf("VIOLATION property=%s replay=%s obligation=%s", def.ID, file, name))
	}
	sort.Strings(lines)
	for _, l := range lines {
		fmt.Println(l)
	}
	// ---- evidence
	var samples []map[string]interface{}
	for i, r := range all {
		if len(samples) >= 6 {
			break
		}
		if !r.Trivial && (i%7 == 0 || !r.Proved) {
			samples = append(samples, map[string]interface{}{"obligation": r.Name, "kind": r.Kind, "proved": r.Proved, "backend": r.Solver, "seconds": round3(r.Seconds), "smt_terms": r.Size})
		}
	}
	if len(samples) == 0 && len(all) > 0 {
		r := all[0]
		samples = append(samples, map[string]interface{}{"obligation": r.Name, "kind": r.Kind, "proved": r.Proved, "backend": r.Solver})
	}
	secBy := map[string]float64{}
	for k, v := range c.cfg.TimeBySol {
		secBy[k] = round3(v)
	}
	trusted := append([]string{
		"go/packages+go/types+go/ssa (x/tools v0.29.0) as front end of Go 1.23 semantics",
		"govc symbolic executor and VC generator (/verif/govc), guarded by the must-fail corpus (/verif/selftest/run.sh and the 51 seeded changes under /verif/seeded)",
		"z3 5.1.0 (z3-new), cvc5 1.0.3, z3 4.8.12",
	}, def.Trusted...)
	assumptions := append([]string{
		"len(string|slice) < 2^31; make/new/append never fail",
		"objects reachable from arguments do not alias objects built by package initialisers unless a contract says so",
	}, def.Assumptions...)
	assumptions = append(assumptions, uniq(c.Notes)...)
	ev := map[string]interface{}{
		"property_id": def.ID,
		"tier":        *tier,
		"seed":        seed,
		"level":       levelOf(def),
		"wall_s":      round3(time.Since(t0).Seconds()),
		"violations":  violations,
		"assumptions": assumptions,
		"coverage": map[string]interface{}{
			"obligations":              total,
			"discharged":               discharged,
			"undecided":                total - discharged,
			"proof_lost":               proofLost,
			"functions_under_contract": funcsDone,
			"by_kind":                  byKind,
			"by_backend":               byBackend,
			"solver_seconds":           secBy,
			"bounded":                  bounded,
			"known_findings_seen":      knownSeen,
			"samples":                  samples,
			"checker_cmd":              fmt.Sprintf("./check.sh %s --tier %s", def.ID, *tier),
			"trusted_base":             trusted,
			"explanation":              def.Note,
		},
	}
	// runs against a scratch copy (-repo, e.g. a seeded change) must not overwrite the evidence of
	// the real tree
	evDir := filepath.Join(verifDir, "evidence")
	if c.Repo != "/repo" {
		evDir = filepath.Join(verifDir, "build", "evidence-scratch")
	}
	os.MkdirAll(evDir, 0o755)
	writeJSON(filepath.Join(evDir, def.ID+".json"), ev)
	fmt.Printf("%s: %d obligations, %d discharged, %d violations, %d known findings (%.1fs)\n", def.ID, total, discharged, violations, len(knownSeen), time.Since(t0).Seconds())
	if violations > 0 {
		os.Exit(1)
	}
}

func kInput(k *knownFinding) string { return "" }

func uniq(in []string) []string {
	seen := map[string]bool{}
	var out []string
	for _, s := range in {
		if !seen[s] {
			seen[s] = true
			out = append(out, s)
		}
	}
	return out
}

func round3(f float64) float64 { return float64(int(f*1000+0.5)) / 1000 }

func sanitize(s string) string {
	return strings.Map(func(r rune) rune {
		if r >= 'a' && r <= 'z' || r >= 'A' && r <= 'Z' || r >= '0' && r <= '9' || r == '.' || r == '-' || r == '_' {
			return r
		}
		return '_'
	}, s)
}

func writeJSON(file string, v interface{}) {
	data, err := json.MarshalIndent(v, "", " ")
	if err != nil {
		panic(err)
	}
	if err := os.WriteFile(file, append(data, '\n'), 0o644); err != nil {
		panic(err)
	}
}

// ---------------------------------------------------------------- BV axioms

func runBVAxioms() []oblRes {
	var out []oblRes
	for _, a := range exec.BVAxioms {
		f, _ := os.CreateTemp("", "bvax*.smt2")
		f.WriteString("(set-logic QF_BV)\n" + a.Script + "\n")
		f.Close()
		t0 := time.Now()
		cmd := osexec.Command("z3-new", "-T:20", f.Name())
		o, _ := cmd.CombinedOutput()
		os.Remove(f.Name())
		first := strings.TrimSpace(strings.SplitN(string(o), "\n", 2)[0])
		out = append(out, oblRes{Name: "axiom/" + a.Name, Kind: "axiom", Proved: first == "unsat", Solver: "z3-new(QF_BV)", Seconds: time.Since(t0).Seconds(), Output: string(o)})
	}
	return out
}

// ---------------------------------------------------------------- harness runner

type harnessFailure struct {
	Check  string `json:"check"`
	Input  string `json:"input"`
	Detail string `json:"detail"`
}

type harnessResult struct {
	OK       bool
	Cases    int
	Seconds  float64
	Failures []harnessFailure
	Output   string
}

func ensureModfile() (string, error) {
	dir := filepath.Join(verifDir, "build")
	os.MkdirAll(dir, 0o755)
	gomod, err := os.ReadFile("/repo/go.mod")
	if err != nil {
		return "", err
	}
	mod := string(gomod) + "\nrequire verif v0.0.0\n\nreplace verif => " + verifDir + "\n"
	file := filepath.Join(dir, "repo.mod")
	if err := os.WriteFile(file, []byte(mod), 0o644); err != nil {
		return "", err
	}
	sum, _ := os.ReadFile(filepath.Join(verifDir, "go.sum"))
	os.WriteFile(filepath.Join(dir, "repo.sum"), sum, 0o644)
	return file, nil
}

func runHarness(c *checkCtx, id string, h Harness) harnessResult {
	t0 := time.Now()
	modfile, err := ensureModfile()
	if err != nil {
		return harnessResult{Output: err.Error()}
	}
	ov := map[string]map[string]string{"Replace": {filepath.Join(c.Repo, h.Pkg, "zz_verif_"+strings.ToLower(id)+"_"+filepath.Base(h.File)): filepath.Join(verifDir, "harness", h.File)}}
	ovFile := filepath.Join(verifDir, "build", "ov_"+id+"_"+sanitize(h.Run)+".json")
	writeJSON(ovFile, ov)
	outFile := filepath.Join(verifDir, "build", "out_"+id+"_"+sanitize(h.Run)+".json")
	os.Remove(outFile)
	timeout := "300s"
	if c.Tier == "thorough" {
		timeout = "1500s"
	}
	cmd := osexec.Command("go", "test", "-modfile="+modfile, "-overlay="+ovFile, "-vet=off", "-count=1", "-timeout="+timeout, "-run", h.Run, "./"+h.Pkg)
	cmd.Dir = c.Repo
	cmd.Env = append(os.Environ(), "GOFLAGS=-mod=mod", "GOPROXY=off", "GOSUMDB=off", "GOTOOLCHAIN=local",
		"VERIF_SEED="+strconv.FormatInt(c.Seed, 10), "VERIF_TIER="+c.Tier, "VERIF_OUT="+outFile)
	var buf bytes.Buffer
	cmd.Stdout = &buf
	cmd.Stderr = &buf
	runErr := cmd.Run()
	res := harnessResult{Seconds: round3(time.Since(t0).Seconds()), Output: tail(buf.String(), 2000)}
	var rep struct {
		Cases    int              `json:"cases"`
		Failures []harnessFailure `json:"failures"`
	}
	if data, err := os.ReadFile(outFile); err == nil {
		json.Unmarshal(data, &rep)
	}
	res.Cases = rep.Cases
	res.Failures = rep.Failures
	res.OK = runErr == nil && len(rep.Failures) == 0 && rep.Cases > 0
	return res
}

func tail(s string, n int) string {
	if len(s) > n {
		return s[len(s)-n:]
	}
	return s
}

// runUnwinder distributes the jobs of u over worker processes (`govc jobs <unwinder> <job>...`).
func runUnwinder(c *checkCtx, u *Unwinder) []oblRes {
	// results are cached under a key derived from the CURRENT sources of /repo (and of the
	// verifier itself): several properties share one unwinding family
	key := treeKey(c.Repo)
	cacheFile := filepath.Join(verifDir, "build", "cache", key, u.Name+"-"+c.Tier+".json")
	if os.Getenv("GOVC_NOCACHE") == "" && os.Getenv("GOVC_QRV") == "" {
		if data, err := os.ReadFile(cacheFile); err == nil {
			var out []oblRes
			if json.Unmarshal(data, &out) == nil && len(out) > 0 {
				c.Notes = append(c.Notes, "unwinding family "+u.Name+": results reused from this tree's cache (same source hash "+key[:12]+")")
				return out
			}
		}
	}
	out := runUnwinder0(c, u)
	if os.Getenv("GOVC_QRV") == "" {
		os.MkdirAll(filepath.Dir(cacheFile), 0o755)
		if data, err := json.Marshal(out); err == nil {
			os.WriteFile(cacheFile, data, 0o644)
		}
	}
	return out
}

var treeKeyMemo = map[string]string{}

// treeKey hashes every .go file and go.mod of the repository working tree plus the verifier binary.
func treeKey(repo string) string {
	if k, ok := treeKeyMemo[repo]; ok {
		return k
	}
	h := sha256.New()
	filepath.Walk(repo, func(path string, info os.FileInfo, err error) error {
		if err != nil {
			return nil
		}
		if info.IsDir() {
			if info.Name() == ".git" {
				return filepath.SkipDir
			}
			return nil
		}
		if strings.HasSuffix(path, ".go") || info.Name() == "go.mod" {
			data, _ := os.ReadFile(path)
			fmt.Fprintf(h, "%s %d\n", strings.TrimPrefix(path, repo), len(data))
			h.Write(data)
		}
		return nil
	})
	if self, err := os.Executable(); err == nil {
		if data, err := os.ReadFile(self); err == nil {
			h.Write(data)
		}
	}
	k := hex.EncodeToString(h.Sum(nil))
	treeKeyMemo[repo] = k
	return k
}

func runUnwinder0(c *checkCtx, u *Unwinder) []oblRes {
	jobs := u.Jobs(c.Tier)
	nw := 14
	if len(jobs) < nw {
		nw = len(jobs)
	}
	if nw <= 1 || os.Getenv("GOVC_NOPAR") != "" {
		var out []oblRes
		for _, j := range jobs {
			out = append(out, u.Run(c, j)...)
		}
		return out
	}
	batches := make([][]string, nw)
	for i, j := range jobs {
		batches[i%nw] = append(batches[i%nw], j)
	}
	type res struct {
		out []oblRes
		err string
	}
	ch := make(chan res, nw)
	self, _ := os.Executable()
	for _, b := range batches {
		go func(b []string) {
			args := append([]string{"jobs", "-repo", c.Repo, "-tier", c.Tier, u.Name}, b...)
			cmd := osexec.Command(self, args...)
			var stdout, stderr bytes.Buffer
			cmd.Stdout = &stdout
			cmd.Stderr = &stderr
			err := cmd.Run()
			var out []oblRes
			if jerr := json.Unmarshal(stdout.Bytes(), &out); jerr != nil || err != nil {
				ch <- res{err: fmt.Sprintf("worker failed for jobs %v: %v %v: %s", b, err, jerr, tail(stderr.String(), 500))}
				return
			}
			ch <- res{out: out}
		}(b)
	}
	var out []oblRes
	for range batches {
		r := <-ch
		if r.err != "" {
			out = append(out, oblRes{Name: "config/" + u.Name + "/worker", Kind: "config", Proved: false, Output: r.err})
		}
		out = append(out, r.out...)
	}
	sort.SliceStable(out, func(i, j int) bool { return out[i].Name < out[j].Name })
	return out
}

func cmdJobs(args []string) {
	fs := flag.NewFlagSet("jobs", flag.ExitOnError)
	repo := fs.String("repo", "/repo", "repository")
	tier := fs.String("tier", "quick", "tier")
	fs.Parse(args)
	u := unwinders[fs.Arg(0)]
	if u == nil {
		fmt.Fprintln(os.Stderr, "unknown unwinder", fs.Arg(0))
		os.Exit(2)
	}
	p, err := exec.Load(*repo)
	if err != nil {
		fmt.Fprintln(os.Stderr, "load:", err)
		os.Exit(2)
	}
	if err := p.RunInit(); err != nil {
		fmt.Fprintln(os.Stderr, err)
		os.Exit(2)
	}
	to := 10 * time.Second
	if *tier == "thorough" {
		to = 60 * time.Second
	}
	c := &checkCtx{P: p, Repo: *repo, Tier: *tier, cfg: &exec.SolverCfg{Timeout: to, Workers: 3}}
	var out []oblRes
	for _, j := range fs.Args()[1:] {
		out = append(out, u.Run(c, j)...)
	}
	data, _ := json.Marshal(out)
	os.Stdout.Write(data)
}

// wildMatch: pattern with '*' wildcards (each matches any run of characters).
func wildMatch(pat, s string) bool {
	parts := strings.Split(pat, "*")
	if len(parts) == 1 {
		return pat == s
	}
	if !strings.HasPrefix(s, parts[0]) {
		return false
	}
	s = s[len(parts[0]):]
	for _, p := range parts[1 : len(parts)-1] {
		i := strings.Index(s, p)
		if i < 0 {
			return false
		}
		s = s[i+len(p):]
	}
	return strings.HasSuffix(s, parts[len(parts)-1])
}

func levelOf(d *PropDef) string {
	if d.Level != "" {
		return d.Level
	}
	return "proof"
}

// engineFailure: obligation names that stand for "conditions could not be generated".
func engineFailure(name string) bool {
	return strings.HasSuffix(name, "/vcgen") || strings.HasSuffix(name, "/unwinding") || strings.HasSuffix(name, "/worker")
}

func clip(s string, n int) string {
	if len(s) > n {
		return s[:n]
	}
	return s
}
