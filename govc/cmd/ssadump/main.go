package main

import (
	"fmt"
	"go/types"
	"os"

	"golang.org/x/tools/go/packages"
	"golang.org/x/tools/go/ssa"
	"golang.org/x/tools/go/ssa/ssautil"
)

func main() {
	cfg := &packages.Config{Mode: packages.LoadAllSyntax, Dir: "/repo", BuildFlags: []string{"-tags=verif"}}
	pkgs, err := packages.Load(cfg, os.Args[1])
	if err != nil {
		panic(err)
	}
	prog, spkgs := ssautil.AllPackages(pkgs, ssa.NaiveForm|ssa.GlobalDebug)
	prog.Build()
	for _, p := range spkgs {
		for _, m := range p.Members {
			if f, ok := m.(*ssa.Function); ok && (len(os.Args) < 3 || f.Name() == os.Args[2]) {
				f.WriteTo(os.Stdout)
				for _, af := range f.AnonFuncs {
					af.WriteTo(os.Stdout)
				}
			}
		}
		if len(os.Args) >= 3 {
			for _, m := range p.Members {
				if t, ok := m.(*ssa.Type); ok {
					for _, typ := range []interface{ String() string }{t.Type()} {
						_ = typ
					}
					ms := prog.MethodSets.MethodSet(t.Type())
					for i := 0; i < ms.Len(); i++ {
						if f := prog.MethodValue(ms.At(i)); f != nil && f.Name() == os.Args[2] {
							f.WriteTo(os.Stdout)
						}
					}
					ms = prog.MethodSets.MethodSet(ptrTo(t))
					for i := 0; i < ms.Len(); i++ {
						if f := prog.MethodValue(ms.At(i)); f != nil && f.Name() == os.Args[2] {
							f.WriteTo(os.Stdout)
							for _, af := range f.AnonFuncs {
								af.WriteTo(os.Stdout)
							}
						}
					}
				}
			}
		}
	}
	fmt.Println("done")
}

func ptrTo(t *ssa.Type) *types.Pointer { return types.NewPointer(t.Type()) }
