package main

// [C] complete unwinding for EAN-8/EAN-13 (C06, C14): for each input length 7, 8, 12, 13 and each
// position of the first non-ASCII byte (or none) the real ean.EncodeWithColor is executed
// symbolically with all bytes left symbolic; the result is compared, module by module, with the
// GS1 symbol built here from the standard's tables.

import (
	"fmt"
	"os"
	"time"

	"verif/govc/exec"
	"verif/govc/term"
)

type T = term.Term

var eanL = []string{"0001101", "0011001", "0010011", "0111101", "0100011", "0110001", "0101111", "0111011", "0110111", "0001011"}
var eanParity = []string{"LLLLLL", "LLGLGG", "LLGGLG", "LLGGGL", "LGLLGG", "LGGLLG", "LGGGLL", "LGLGLG", "LGLGGL", "LGGLGL"}

func eanSet(set byte, d int) string {
	l := eanL[d]
	r := ""
	for _, ch := range l {
		if ch == '0' {
			r += "1"
		} else {
			r += "0"
		}
	}
	switch set {
	case 'L':
		return l
	case 'R':
		return r
	}
	g := ""
	for j := len(r) - 1; j >= 0; j-- {
		g += string(r[j])
	}
	return g
}

// sel10 builds ite(d==0, f(0), ite(d==1, f(1), ...)) for a digit value term d in 0..9.
func sel10(d *T, f func(k int) *T) *T {
	r := f(9)
	for k := 8; k >= 0; k-- {
		r = term.Ite(term.Eq(d, term.I(int64(k))), f(k), r)
	}
	return r
}

// eanSpecBars returns the expected module terms for digit-value terms ds (8 or 13 of them).
func eanSpecBars(ds []*T) []*T {
	var out []*T
	lit := func(s string) {
		for _, ch := range s {
			out = append(out, term.B(ch == '1'))
		}
	}
	digit := func(d *T, set func(k int) string) {
		for m := 0; m < 7; m++ {
			m := m
			out = append(out, sel10(d, func(k int) *T { return term.B(set(k)[m] == '1') }))
		}
	}
	lit("101")
	if len(ds) == 8 {
		for i := 0; i < 4; i++ {
			digit(ds[i], func(k int) string { return eanSet('L', k) })
		}
		lit("01010")
		for i := 4; i < 8; i++ {
			digit(ds[i], func(k int) string { return eanSet('R', k) })
		}
	} else {
		first := ds[0]
		for i := 1; i < 7; i++ {
			i := i
			// the set (L or G) of position i is chosen by the first digit's parity pattern
			for m := 0; m < 7; m++ {
				m := m
				out = append(out, sel10(first, func(f int) *T {
					return sel10(ds[i], func(k int) *T { return term.B(eanSet(eanParity[f][i-1], k)[m] == '1') })
				}))
			}
		}
		lit("01010")
		for i := 7; i < 13; i++ {
			digit(ds[i], func(k int) string { return eanSet('R', k) })
		}
	}
	lit("101")
	return out
}

// unwindEANOther: every other length is rejected (the length stays symbolic; the paths into the
// digit loops are infeasible and die at the loop tests by solver-aided folding).
func unwindEANOther(cc *checkCtx) []oblRes {
	label := "config/ean.EncodeWithColor[len=other]"
	c := exec.NewConc(cc.P)
	n := term.Var("ean.len", term.Int)
	c.Assume(term.And(term.Le(term.I(0), n), term.Lt(n, term.I(1<<31)), term.Ne(n, term.I(7)), term.Ne(n, term.I(8)), term.Ne(n, term.I(12)), term.Ne(n, term.I(13))))
	code := exec.VStr{Len: n, Arr: term.Var("ean.bytes", term.Arr(term.Int, term.Int))}
	var res []exec.Val
	err := c.Try(func() {
		color := c.SymParam("ean.EncodeWithColor", 1, "color")
		var e error
		res, e = c.Call("ean.EncodeWithColor", code, color)
		if e != nil {
			panic(&exec.ExecError{Msg: e.Error()})
		}
	})
	if err != nil {
		return []oblRes{{Name: label + "/unwinding", Kind: "config", Proved: false, Output: err.Error()}}
	}
	errTag, _ := c.IfaceParts(res[1])
	resTag, _ := c.IfaceParts(res[0])
	c.Oblige("config", label+"/rejected", term.True, term.And(term.Ne(errTag, term.I(0)), term.Eq(resTag, term.I(0))))
	var out []oblRes
	for _, o := range c.X.Obls {
		if o.Kind != "config" {
			o.Name = label + "/" + o.Name
		}
	}
	for _, r := range c.X.Discharge(cc.cfg) {
		out = append(out, oblRes{Name: r.Obl.Name, Kind: r.Obl.Kind, Proved: r.Verdict == exec.Proved, Solver: r.Solver, Seconds: r.Seconds, Output: r.Output, Model: r.Model, Size: r.Size, Trivial: r.Trivial})
	}
	return out
}

var unwEAN = &Unwinder{
	Name: "ean",
	Jobs: func(tier string) []string {
		jobs := []string{"other"}
		for _, n := range []int{13, 12, 8, 7} {
			for p := -1; p < n; p++ {
				jobs = append(jobs, fmt.Sprintf("len:%d:%d", n, p))
			}
		}
		return jobs
	},
	Run: func(c *checkCtx, job string) []oblRes {
		if job == "other" {
			return unwindEANOther(c)
		}
		var n, p int
		if _, err := fmt.Sscanf(job, "len:%d:%d", &n, &p); err != nil {
			return []oblRes{{Name: "config/ean/" + job, Kind: "config", Output: "bad job"}}
		}
		return unwindEANCase(c, n, p)
	},
}

func unwindEANCase(cc *checkCtx, n, p int) []oblRes {
	label := fmt.Sprintf("config/ean.EncodeWithColor[len=%d,nonascii@%d]", n, p)
	t0 := time.Now()
	c := exec.NewConc(cc.P)
	fail := func(err error) []oblRes {
		return []oblRes{{Name: label + "/unwinding", Kind: "config", Proved: false, Output: err.Error()}}
	}
	// symbolic input: bytes before p are ASCII, byte p is >= 0x80, the rest arbitrary
	arr := term.ConstArr(term.Arr(term.Int, term.Int), term.I(0))
	var bs []*T
	for i := 0; i < n; i++ {
		v := term.Var(fmt.Sprintf("ean.code[%d]", i), term.Int)
		var b *T
		switch {
		case p < 0 || i < p:
			b = term.EMod(v, term.I(128))
		case i == p:
			b = term.Add(term.I(128), term.EMod(v, term.I(128)))
		default:
			b = term.EMod(v, term.I(256))
		}
		bs = append(bs, b)
		arr = term.Store(arr, term.I(int64(i)), b)
	}
	code := exec.VStr{Len: term.I(int64(n)), Arr: arr}
	var color exec.Val
	var res []exec.Val
	err := c.Try(func() {
		color = c.SymParam("ean.EncodeWithColor", 1, "color")
		var e error
		res, e = c.Call("ean.EncodeWithColor", code, color)
		if e != nil {
			panic(&exec.ExecError{Msg: e.Error()})
		}
	})
	if err != nil {
		return fail(err)
	}
	_, errTag := 0, (*T)(nil)
	errTag, _ = c.IfaceParts(res[1])
	ok := term.Eq(errTag, term.I(0))
	resTag, _ := c.IfaceParts(res[0])
	// ---- specification side
	isDigit := func(b *T) *T { return term.And(term.Le(term.I('0'), b), term.Le(b, term.I('9'))) }
	nd := n
	if n == 8 || n == 13 {
		nd = n - 1
	}
	var allDigits []*T
	for i := 0; i < n; i++ {
		allDigits = append(allDigits, isDigit(bs[i]))
	}
	// GS1 check digit over the first nd digits: weights 3,1,3,... from the rightmost data digit
	sum := term.I(0)
	for i := 0; i < nd; i++ {
		w := int64(1)
		if (nd-1-i)%2 == 0 {
			w = 3
		}
		sum = term.Add(sum, term.Mul(term.I(w), term.Sub(bs[i], term.I('0'))))
	}
	chk := term.Mod(term.Sub(term.I(10), term.Mod(sum, term.I(10))), term.I(10))
	accept := term.And(allDigits...)
	if n == 8 || n == 13 {
		accept = term.And(accept, term.Eq(bs[n-1], term.Add(term.I('0'), chk)))
	}
	if p >= 0 {
		accept = term.False // a byte >= 0x80 is never a digit
	}
	c.Oblige("config", label+"/accept-iff-valid", term.True, term.Eq(ok, accept))
	c.Oblige("config", label+"/result-xor-error", term.True, term.Eq(ok, term.Ne(resTag, term.I(0))))
	if p < 0 {
		full := n
		if n == 7 || n == 12 {
			full = n + 1
		}
		err := c.Try(func() {
			obj := c.PtrAs(res[0], "*utils.base1DCodeIntCS")
			c.Oblige("config", label+"/dynamic-type", ok, term.Eq(resTag, term.I(c.TypeID("*utils.base1DCodeIntCS"))))
			base := c.Field(obj, "base1DCode")
			// checksum = the check digit (C14)
			c.Oblige("config", label+"/checksum", ok, term.Eq(c.Term(c.Field(obj, "checksum")), chk))
			// content = the full number
			cl, ca := c.StrParts(c.Field(base, "content"))
			conds := []*T{term.Eq(cl, term.I(int64(full)))}
			var ds []*T
			for i := 0; i < full; i++ {
				want := term.Add(term.I('0'), chk)
				if i < n {
					want = bs[i]
				}
				conds = append(conds, term.Eq(term.Select(ca, term.I(int64(i))), want))
				ds = append(ds, term.Sub(want, term.I('0')))
			}
			c.Oblige("config", label+"/content", ok, term.And(conds...))
			kind := "EAN 8"
			if full == 13 {
				kind = "EAN 13"
			}
			kl, ka := c.StrParts(c.Field(base, "kind"))
			kc := []*T{term.Eq(kl, term.I(int64(len(kind))))}
			for i := 0; i < len(kind); i++ {
				kc = append(kc, term.Eq(term.Select(ka, term.I(int64(i))), term.I(int64(kind[i]))))
			}
			c.Oblige("config", label+"/kind", ok, term.And(kc...))
			// colour scheme is the caller's
			got, want := c.Flat(c.Field(base, "color")), c.Flat(color)
			var cc2 []*T
			for i := range got {
				cc2 = append(cc2, term.Eq(got[i], want[i]))
			}
			c.Oblige("config", label+"/color", ok, term.And(cc2...))
			// bars
			bl := c.Field(base, "BitList")
			spec := eanSpecBars(ds)
			c.Oblige("config", label+"/modules", ok, term.Eq(c.Term(c.Field(bl, "count")), term.I(int64(len(spec)))))
			model := c.MathArr(c.Field(bl, "model"))
			var mc []*T
			for k, s := range spec {
				mc = append(mc, term.Eq(term.Select(model, term.I(int64(k))), s))
			}
			c.Oblige("config", label+"/bars", ok, term.And(mc...))
		})
		if err != nil {
			return fail(err)
		}
	}
	var out []oblRes
	tExec := time.Since(t0)
	defer func() {
		if os.Getenv("GOVC_TIMING") != "" {
			fmt.Printf("   timing %s exec=%.2fs total=%.2fs obls=%d folds=%d terms=%d\n", label, tExec.Seconds(), time.Since(t0).Seconds(), len(c.X.Obls), c.X.FoldQueries, term.NumTerms())
		}
	}()
	for _, o := range c.X.Obls {
		if o.Kind != "config" {
			o.Name = label + "/" + o.Name
		}
	}
	for _, r := range c.X.Discharge(cc.cfg) {
		out = append(out, oblRes{Name: r.Obl.Name, Kind: r.Obl.Kind, Proved: r.Verdict == exec.Proved, Solver: r.Solver, Seconds: r.Seconds, Output: r.Output, Model: r.Model, Size: r.Size, Trivial: r.Trivial})
	}
	cc.Notes = append(cc.Notes, c.X.Notes...)
	return out
}
