package main

// [C] complete unwinding of qr.splitToBlocks + blockList.interleave for each of the 160 rows of
// the current versionInfos table, with a symbolic data byte stream: every block receives exactly
// the ISO slice of the stream, gets the row's number of check words from calcECC, and the
// interleaved output is data words column by column then check words column by column.

import (
	"fmt"
	"go/types"

	"verif/govc/exec"
	"verif/govc/term"
	"verif/spec/qrspec"
)

func unwindQRBlocks(cc *checkCtx, row int) []oblRes {
	version, level := row/4+1, row%4
	label := fmt.Sprintf("config/qr.blocks[v%d,%s]", version, qrspec.Level(level))
	c := exec.NewConc(cc.P)
	c.X.LogCalls = true
	var out []oblRes
	nfail := 0
	bad := func(name, msg string) {
		nfail++
		if nfail <= 5 {
			out = append(out, oblRes{Name: label + "/" + name, Kind: "config", Proved: false, Output: msg})
		}
	}
	err := c.Try(func() {
		vis := must(c.Global("qr.versionInfos"))
		vi := c.Elem(vis, int64(row))
		ec, n1, d1, n2, d2 := qrspec.BlockInfo(version, qrspec.Level(level))
		nData := n1*d1 + n2*d2
		// symbolic data stream (a few extra bytes: the consumer must take exactly nData)
		var stream []exec.Val
		var bytes []*T
		for i := 0; i < nData+3; i++ {
			b := term.EMod(term.Var(fmt.Sprintf("qr.data[%d]", i), term.Int), term.I(256))
			bytes = append(bytes, b)
			stream = append(stream, exec.IntV(0, types.Typ[types.Uint8]))
			stream[i] = exec.VT{T: b, Ty: types.Typ[types.Uint8]}
		}
		ch, taken := c.NativeChan(types.Typ[types.Uint8], stream)
		res, e := c.Call("qr.splitToBlocks", ch, vi)
		if e != nil {
			panic(&exec.ExecError{Msg: e.Error()})
		}
		if taken() != nData {
			bad("consumed", fmt.Sprintf("splitToBlocks takes %d bytes from the stream, the row holds %d data codewords", taken(), nData))
		}
		blocks := res[0]
		if int(c.Len(blocks)) != n1+n2 {
			bad("block-count", fmt.Sprintf("%d blocks, ISO table 9 says %d", c.Len(blocks), n1+n2))
			return
		}
		// expected block contents
		var eccCalls []exec.CallRec
		for _, cr := range c.X.Calls {
			if cr.Fn == "qr.(*errorCorrection).calcECC" {
				eccCalls = append(eccCalls, cr)
			}
		}
		if len(eccCalls) != n1+n2 {
			bad("ecc-calls", fmt.Sprintf("%d calcECC calls for %d blocks", len(eccCalls), n1+n2))
			return
		}
		pos := 0
		var blockData [][]*T
		var blockECC [][]*T
		for b := 0; b < n1+n2; b++ {
			d := d1
			if b >= n1 {
				d = d2
			}
			blk := c.Elem(blocks, int64(b))
			data := c.Field(blk, "data")
			if int(c.Len(data)) != d {
				bad("block-size", fmt.Sprintf("block %d has %d data codewords, want %d", b, c.Len(data), d))
				return
			}
			var ds []*T
			for k := 0; k < d; k++ {
				got := c.Term(c.Elem(data, int64(k)))
				if got != bytes[pos] {
					bad("block-data", fmt.Sprintf("block %d codeword %d is not stream byte %d", b, k, pos))
					return
				}
				ds = append(ds, got)
				pos++
			}
			blockData = append(blockData, ds)
			cr := eccCalls[b]
			if c.Int(cr.Args[2]) != int64(ec) {
				bad("ecc-count", fmt.Sprintf("block %d asks for %d check words, ISO says %d (C12)", b, c.Int(cr.Args[2]), ec))
			}
			if len(cr.ArgElems[1]) != d {
				bad("ecc-input", fmt.Sprintf("block %d: calcECC sees %d codewords", b, len(cr.ArgElems[1])))
				return
			}
			for k := 0; k < d; k++ {
				if cr.ArgElems[1][k] != ds[k] {
					bad("ecc-input", fmt.Sprintf("block %d: calcECC input %d differs from the block's data", b, k))
					return
				}
			}
			eccSl := c.Field(blk, "ecc")
			var es []*T
			for k := 0; k < ec; k++ {
				got := c.Term(c.Elem(eccSl, int64(k)))
				if got != c.Term(c.Elem(cr.Res, int64(k))) {
					bad("block-ecc", fmt.Sprintf("block %d check word %d is not calcECC's result", b, k))
					return
				}
				es = append(es, got)
			}
			blockECC = append(blockECC, es)
		}
		// interleave
		res2, e := c.Call("qr.(blockList).interleave", blocks, vi)
		if e != nil {
			panic(&exec.ExecError{Msg: e.Error()})
		}
		final := res2[0]
		var want []*T
		maxD := d1
		if n2 > 0 && d2 > maxD {
			maxD = d2
		}
		for k := 0; k < maxD; k++ {
			for b := 0; b < n1+n2; b++ {
				if k < len(blockData[b]) {
					want = append(want, blockData[b][k])
				}
			}
		}
		for k := 0; k < ec; k++ {
			for b := 0; b < n1+n2; b++ {
				want = append(want, blockECC[b][k])
			}
		}
		if int(c.Len(final)) != len(want) || len(want) != qrspec.TotalCodewords(version) {
			bad("final-length", fmt.Sprintf("interleaved stream has %d codewords, the symbol holds %d", c.Len(final), qrspec.TotalCodewords(version)))
			return
		}
		for i := range want {
			if c.Term(c.Elem(final, int64(i))) != want[i] {
				bad("interleave", fmt.Sprintf("final codeword %d is not the ISO interleaving", i))
				return
			}
		}
	})
	if err != nil {
		return []oblRes{{Name: label + "/unwinding", Kind: "config", Proved: false, Output: err.Error()}}
	}
	out = append(out, dischargeConc(cc, c, label)...)
	if nfail == 0 {
		out = append(out, oblRes{Name: label + "/blocks+interleave", Kind: "config", Proved: true, Solver: "syntactic"})
	}
	return out
}

var unwQRBlocks = &Unwinder{
	Name: "qrblocks",
	Jobs: func(tier string) []string {
		var jobs []string
		for r := 159; r >= 0; r-- {
			jobs = append(jobs, fmt.Sprintf("row:%d", r))
		}
		return jobs
	},
	Run: func(c *checkCtx, job string) []oblRes {
		var r int
		if _, err := fmt.Sscanf(job, "row:%d", &r); err != nil {
			return []oblRes{{Name: "config/qrblocks/" + job, Kind: "config", Output: "bad job"}}
		}
		return unwindQRBlocks(c, r)
	},
}
