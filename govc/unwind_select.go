package main

// [C] first-fit searches over the constant size tables, unwound over the table with symbolic
// requests: every return path is checked against the capacity predicate built from the spec
// tables (C13 smallest symbol, C10 capacity limits, C12 level of the chosen row).

import (
	"fmt"

	"verif/govc/exec"
	"verif/govc/term"
	"verif/spec/dmspec"
	"verif/spec/qrspec"
)

// qr.findSmallestVersionInfo(ecl, mode, dataBits) for all ecl in L..H, mode in {numeric,
// alphanumeric, byte}, all dataBits >= 0.
func unwindQRSelect(cc *checkCtx) []oblRes {
	label := "config/qr.findSmallestVersionInfo"
	c := exec.NewConc(cc.P)
	c.X.SplitLoopExits = true
	var out []oblRes
	err := c.Try(func() {
		ref := "qr.findSmallestVersionInfo"
		ecl := c.SymParam(ref, 0, "ecl")
		mode := c.SymParam(ref, 1, "mode")
		bits := c.SymParam(ref, 2, "dataBits")
		e, m, b := c.Term(ecl), c.Term(mode), c.Term(bits)
		c.Assume(term.And(term.Le(term.I(0), e), term.Le(e, term.I(3))))
		c.Assume(term.Or(term.Eq(m, term.I(1)), term.Eq(m, term.I(2)), term.Eq(m, term.I(4))))
		c.Assume(term.And(term.Le(term.I(0), b), term.Le(b, term.I(1<<40))))
		rets, err := c.CallRets(ref, ecl, mode, bits)
		if err != nil {
			panic(&exec.ExecError{Msg: err.Error()})
		}
		vis := must(c.Global("qr.versionInfos"))
		rowOf := map[*T]int{}
		for i := int64(0); i < c.Len(vis); i++ {
			rowOf[c.Term(c.Elem(vis, i))] = int(i)
		}
		// fits(row): the row has the requested level and holds mode indicator + count + data bits
		fits := func(row int) *T {
			v, l := row/4+1, row%4
			cap8 := int64(8 * qrspec.DataCodewords(v, qrspec.Level(l)))
			need := func(md qrspec.Mode) *T {
				return term.Le(term.Add(b, term.I(int64(4+qrspec.CharCountBits(v, md)))), term.I(cap8))
			}
			byMode := term.Ite(term.Eq(m, term.I(1)), need(qrspec.ModeNumeric), term.Ite(term.Eq(m, term.I(2)), need(qrspec.ModeAlpha), need(qrspec.ModeByte)))
			return term.And(term.Eq(e, term.I(int64(l))), byMode)
		}
		for i, r := range rets {
			t := r.C.Term(r.Vals[0])
			if t == term.I(0) {
				var none []*T
				for row := 0; row < 160; row++ {
					none = append(none, term.Not(fits(row)))
				}
				r.C.Oblige("config", fmt.Sprintf("%s/nil-iff-nothing-fits#%d", label, i), term.True, term.And(none...))
				continue
			}
			row, ok := rowOf[t]
			if !ok {
				r.C.Oblige("config", fmt.Sprintf("%s/result-is-a-table-row#%d", label, i), term.True, term.False)
				continue
			}
			conds := []*T{fits(row)}
			for j := 0; j < row; j++ {
				conds = append(conds, term.Not(fits(j)))
			}
			r.C.Oblige("config", fmt.Sprintf("%s/first-fit[row %d]", label, row), term.True, term.And(conds...))
		}
		if len(rets) < 161 {
			c.Oblige("config", label+"/all-rows-reachable", term.True, term.B(len(rets) >= 161))
		}
	})
	if err != nil {
		return []oblRes{{Name: label + "/unwinding", Kind: "config", Proved: false, Output: err.Error()}}
	}
	out = append(out, dischargeConc(cc, c, label)...)
	return out
}

// datamatrix.EncodeWithColor with encodeText/addPadding/calcECC/render abstracted: the size
// loop picks the first (= smallest, [T]) size whose capacity holds the codewords, and refuses
// exactly when there are more than the largest size holds.
func unwindDMSelect(cc *checkCtx) []oblRes {
	label := "config/datamatrix.EncodeWithColor/size-selection"
	c := exec.NewConc(cc.P)
	c.X.LogCalls = true
	c.X.Driver = "select"
	var out []oblRes
	err := c.Try(func() {
		ref := "datamatrix.EncodeWithColor"
		content := c.SymParam(ref, 0, "content")
		color := c.SymParam(ref, 1, "color")
		rets, err := c.CallRets(ref, content, color)
		if err != nil {
			panic(&exec.ExecError{Msg: err.Error()})
		}
		var n *T
		for _, cr := range c.X.Calls {
			if cr.Fn == "datamatrix.encodeText" {
				n = c.Term(exec.LenOf(cr.Res))
			}
		}
		if n == nil {
			panic(&exec.ExecError{Msg: "encodeText not called"})
		}
		sizes := must(c.Global("datamatrix.codeSizes"))
		spec := dmspec.Sizes()
		rowOf := map[*T]int{}
		for i := int64(0); i < c.Len(sizes); i++ {
			rowOf[c.Term(c.Elem(sizes, i))] = int(i)
		}
		for i, r := range rets {
			errTag, _ := r.C.IfaceParts(r.Vals[1])
			resTag, _ := r.C.IfaceParts(r.Vals[0])
			if errTag != term.I(0) {
				// refused: more codewords than the largest size holds (or the renderer failed: excluded by its contract)
				r.C.Oblige("config", fmt.Sprintf("%s/refused-iff-too-long#%d", label, i), term.True,
					term.And(term.Eq(resTag, term.I(0)), term.Lt(term.I(int64(spec[len(spec)-1].DataCodewords)), n)))
				continue
			}
			// one merged success path: the chosen size is an ite over table rows
			obj := r.C.PtrAs(r.Vals[0], "*datamatrix.datamatrixCode")
			size := r.C.Term(r.C.Field(obj, "dmCodeSize"))
			var isRow []*T
			for i := int64(0); i < c.Len(sizes); i++ {
				ref := c.Term(c.Elem(sizes, i))
				row := int(i)
				isRow = append(isRow, term.Eq(size, ref))
				conds := []*T{term.Le(n, term.I(int64(spec[row].DataCodewords))), term.Ne(resTag, term.I(0))}
				if row > 0 {
					conds = append(conds, term.Lt(term.I(int64(spec[row-1].DataCodewords)), n))
				}
				r.C.Oblige("config", fmt.Sprintf("%s/smallest-size[%dx%d]", label, spec[row].Rows, spec[row].Cols), term.Eq(size, ref), term.And(conds...))
			}
			r.C.Oblige("config", label+"/size-is-a-table-row", term.True, term.Or(isRow...))
			// every size is reachable (vacuity guard): n == capacity of the row selects it
			gl, ga := r.C.StrParts(r.C.Field(obj, "content"))
			dl, da := r.C.StrParts(content)
			r.C.Oblige("config", label+"/content", term.True, term.And(term.Eq(gl, dl), term.Eq(ga, da)))
		}
		c.Oblige("config", label+"/paths", term.True, term.B(len(rets) >= 2))
	})
	if err != nil {
		return []oblRes{{Name: label + "/unwinding", Kind: "config", Proved: false, Output: err.Error()}}
	}
	out = append(out, dischargeConc(cc, c, label)...)
	return out
}

var unwSelect = &Unwinder{
	Name: "select",
	Jobs: func(tier string) []string { return []string{"qr", "dm"} },
	Run: func(c *checkCtx, job string) []oblRes {
		if job == "qr" {
			return unwindQRSelect(c)
		}
		return unwindDMSelect(c)
	},
}
