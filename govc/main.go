package main

import (
	"flag"
	"fmt"
	"os"
	"os/signal"
	"runtime"
	"runtime/pprof"
	"sort"
	"syscall"
	"time"

	"verif/govc/exec"
)

func main() {
	if pf := os.Getenv("GOVC_PROF"); pf != "" {
		f, _ := os.Create(pf)
		pprof.StartCPUProfile(f)
		defer pprof.StopCPUProfile()
	}
	if os.Getenv("GOVC_STACK") != "" {
		// debugging aid: on SIGTERM (e.g. from `timeout`) dump all goroutine stacks
		ch := make(chan os.Signal, 1)
		signal.Notify(ch, syscall.SIGTERM)
		go func() {
			<-ch
			pprof.StopCPUProfile()
			buf := make([]byte, 1<<20)
			n := runtime.Stack(buf, true)
			os.Stderr.Write(buf[:n])
			os.Exit(3)
		}()
	}
	if len(os.Args) < 2 {
		fmt.Fprintln(os.Stderr, "usage: govc <verify|check|...> ...")
		os.Exit(2)
	}
	switch os.Args[1] {
	case "verify":
		cmdVerify(os.Args[2:])
	case "check":
		cmdCheck(os.Args[2:])
	case "tables":
		cmdTables(os.Args[2:])
	case "unwind":
		cmdUnwind(os.Args[2:])
	case "jobs":
		cmdJobs(os.Args[2:])
	default:
		fmt.Fprintln(os.Stderr, "unknown command", os.Args[1])
		os.Exit(2)
	}
}

func cmdVerify(args []string) {
	fs := flag.NewFlagSet("verify", flag.ExitOnError)
	repo := fs.String("repo", "/repo", "repository")
	to := fs.Int("timeout", 10, "per-obligation timeout (s)")
	keep := fs.String("keep", "", "directory for failed queries")
	verbose := fs.Bool("v", false, "list every obligation")
	fs.Parse(args)
	t0 := time.Now()
	p, err := exec.Load(*repo)
	if err != nil {
		fmt.Fprintln(os.Stderr, "load:", err)
		os.Exit(2)
	}
	if err := p.RunInit(); err != nil {
		fmt.Fprintln(os.Stderr, err)
		os.Exit(2)
	}
	fmt.Printf("loaded in %.1fs\n", time.Since(t0).Seconds())
	bad := 0
	for _, ref := range fs.Args() {
		fn, err := p.FindFunc(ref)
		if err != nil {
			fmt.Fprintln(os.Stderr, err)
			os.Exit(2)
		}
		ncase := 1
		if sp := p.Specs[fn]; sp != nil {
			ncase = exec.SplitCases(sp)
		}
		for ci := 0; ci < ncase; ci++ {
			x := exec.NewExec(p, fn, exec.ModeProof)
			x.Spec = p.Specs[fn]
			x.SplitIdx = ci
			t1 := time.Now()
			if err := x.Run(); err != nil {
				fmt.Printf("%s: ENGINE: %v\n", ref, err)
				bad++
				continue
			}
			cfg := &exec.SolverCfg{Timeout: time.Duration(*to) * time.Second, Workers: 16, KeepDir: *keep}
			rs := x.Discharge(cfg)
			proved, failed, byKind := exec.Summary(rs)
			fmt.Printf("%s: %d obligations, %d proved, %d not proved (%.1fs exec+solve) kinds=%v\n", ref, len(rs), proved, failed, time.Since(t1).Seconds(), byKind)
			sort.Slice(rs, func(i, j int) bool { return rs[i].Obl.Name < rs[j].Obl.Name })
			for _, r := range rs {
				if r.Verdict != exec.Proved || *verbose || r.Seconds > 2 {
					fmt.Printf("   %-9s %-60s %s %.2fs size=%d\n", r.Verdict, r.Obl.Name, r.Solver, r.Seconds, r.Size)
				}
			}
			for _, n := range x.Notes {
				fmt.Println("   note:", n)
			}
			bad += failed
		}
	}
	if bad > 0 {
		os.Exit(1)
	}
}

func cmdTables(args []string) {
	fs := flag.NewFlagSet("tables", flag.ExitOnError)
	repo := fs.String("repo", "/repo", "repository")
	fs.Parse(args)
	p, err := exec.Load(*repo)
	if err != nil {
		fmt.Fprintln(os.Stderr, "load:", err)
		os.Exit(2)
	}
	if err := p.RunInit(); err != nil {
		fmt.Fprintln(os.Stderr, err)
		os.Exit(2)
	}
	c := &checkCtx{P: p, Repo: *repo}
	names := fs.Args()
	if len(names) == 0 {
		names = sortedLemmaNames()
	}
	bad := 0
	for _, n := range names {
		for _, r := range runTableLemma(c, n) {
			fmt.Printf("%-8v %-28s %6d checks %.2fs %s\n", r.Proved, r.Name, r.Size, r.Seconds, r.Output)
			if !r.Proved {
				bad++
			}
		}
	}
	if bad > 0 {
		os.Exit(1)
	}
}

var unwinders = map[string]*Unwinder{"ean": unwEAN, "qr": unwQR, "dm": unwDM, "aztec": unwAztec, "pdf": unwPDF, "qrblocks": unwQRBlocks, "select": unwSelect}

func cmdUnwind(args []string) {
	fs := flag.NewFlagSet("unwind", flag.ExitOnError)
	repo := fs.String("repo", "/repo", "repository")
	tier := fs.String("tier", "quick", "tier")
	fs.Parse(args)
	p, err := exec.Load(*repo)
	if err != nil {
		fmt.Fprintln(os.Stderr, "load:", err)
		os.Exit(2)
	}
	if err := p.RunInit(); err != nil {
		fmt.Fprintln(os.Stderr, err)
		os.Exit(2)
	}
	c := &checkCtx{P: p, Repo: *repo, Tier: *tier, cfg: &exec.SolverCfg{Timeout: 10 * time.Second, Workers: 12}}
	bad := 0
	for _, n := range fs.Args() {
		t0 := time.Now()
		rs := runUnwinder(c, unwinders[n])
		np := 0
		kinds := map[string]int{}
		ksec := map[string]float64{}
		for _, r := range rs {
			if !r.Trivial {
				kinds[r.Kind]++
				ksec[r.Kind] += r.Seconds
			}
		}
		if os.Getenv("GOVC_TIMING") != "" {
			fmt.Println("   non-trivial by kind:", kinds, ksec)
		}
		for _, r := range rs {
			if r.Proved {
				np++
			} else {
				bad++
				fmt.Printf("   NOT PROVED %s %s\n", r.Name, firstLine(r.Output))
			}
		}
		fmt.Printf("%s: %d obligations, %d proved (%.1fs)\n", n, len(rs), np, time.Since(t0).Seconds())
	}
	if bad > 0 {
		os.Exit(1)
	}
}

func firstLine(s string) string {
	for i := 0; i < len(s); i++ {
		if s[i] == '\n' {
			return s[:i]
		}
	}
	return s
}
