package main

// [C] complete unwinding of the drawing part of aztec.EncodeWithColor for each of the 36
// explicit sizes (compact 1..4, full range 1..32): high-level encoding, stuffing, check words and
// mode message are abstracted to fresh bit lists (their bits stay symbolic), everything after is
// the real code; the symbol is compared module by module with the ISO 24778 layout written
// independently in verif/spec/aztecspec (bullseye, orientation marks, reference grid, mode
// message ring, data spiral).

import (
	"fmt"
	"time"

	"verif/govc/exec"
	"verif/govc/term"
	"verif/spec/aztecspec"
)

func unwindAztecDraw(cc *checkCtx, compact bool, layers int) []oblRes {
	kind := "full"
	user := int64(layers)
	if compact {
		kind = "compact"
		user = -int64(layers)
	}
	label := fmt.Sprintf("config/aztec.draw[%s,%d]", kind, layers)
	t0 := time.Now()
	c := exec.NewConc(cc.P)
	c.X.LogCalls = true
	var out []oblRes
	nfail, compared := 0, 0
	bad := func(name, msg string) {
		nfail++
		if nfail <= 5 {
			out = append(out, oblRes{Name: label + "/" + name, Kind: "config", Proved: false, Output: msg})
		}
	}
	err := c.Try(func() {
		ref := "aztec.EncodeWithColor"
		data := c.SymParam(ref, 0, "data")
		pct := c.SymParam(ref, 1, "pct")
		// C10's parameter domain: any non-negative percentage (however large); for an empty payload
		// (no data bits, known finding F6) the answer is left open
		c.Assume(term.Le(term.I(0), c.Term(pct)))
		color := c.SymParam(ref, 3, "color")
		rets, e := c.CallRets(ref, data, pct, exec.IntV(user, c.ParamType(ref, 2)), color)
		if e != nil {
			panic(&exec.ExecError{Msg: e.Error()})
		}
		// error paths: nil barcode and non-nil error; exactly one success path
		var succ *exec.Ret
		var errPaths []*exec.Ret
		for i := range rets {
			r := &rets[i]
			errTag, _ := r.C.IfaceParts(r.Vals[1])
			resTag, _ := r.C.IfaceParts(r.Vals[0])
			if errTag == term.I(0) {
				if succ != nil {
					panic(&exec.ExecError{Msg: "more than one success path"})
				}
				succ = r
				if resTag == term.I(0) {
					bad("result-xor-error", "success path returns a nil barcode")
				}
				continue
			}
			r.C.Oblige("config", fmt.Sprintf("%s/result-xor-error#%d", label, i), term.True, term.And(term.Ne(errTag, term.I(0)), term.Eq(resTag, term.I(0))))
			errPaths = append(errPaths, r)
		}
		if succ == nil {
			panic(&exec.ExecError{Msg: "no success path"})
		}
		c = succ.C
		res := succ.Vals
		ok := term.True
		resTag, _ := c.IfaceParts(res[0])
		// the abstract stages: which bit lists were drawn?
		var msgBits, modeBits exec.Val
		for _, cr := range c.X.Calls {
			switch cr.Fn {
			case "aztec.generateCheckWords":
				msgBits = cr.Res
				if c.Int(cr.Args[1]) != int64(aztecspec.TotalBits(compact, layers)) {
					bad("totalbits", fmt.Sprintf("generateCheckWords is asked for %d bits, the symbol holds %d", c.Int(cr.Args[1]), aztecspec.TotalBits(compact, layers)))
				}
				if c.Int(cr.Args[2]) != int64(aztecspec.WordSize(compact, layers)) {
					bad("wordsize", fmt.Sprintf("codeword size %d, ISO 24778 says %d", c.Int(cr.Args[2]), aztecspec.WordSize(compact, layers)))
				}
			case "aztec.generateModeMessage":
				modeBits = cr.Res
				if c.Term(cr.Args[0]) != term.B(compact) || c.Int(cr.Args[1]) != int64(layers) {
					bad("modemessage-args", "mode message is generated for a different format/layer count than requested")
				}
			}
		}
		if msgBits == nil || modeBits == nil {
			panic(&exec.ExecError{Msg: "generateCheckWords / generateModeMessage were not called"})
		}
		// C12/C10: the explicit size is accepted iff the stuffed data plus the requested check bits
		// eccBits = bits*pct/100 + 11 fit its usable bits (and the compact 64-word limit)
		var hlRes, stRes exec.Val
		for _, cr := range c.X.Calls {
			switch cr.Fn {
			case "aztec.highlevelEncode":
				hlRes = cr.Res
			case "aztec.stuffBits":
				stRes = cr.Res
				if c.Int(cr.Args[1]) != int64(aztecspec.WordSize(compact, layers)) {
					bad("stuff-wordsize", "stuffBits is called with a different word size than ISO 24778 prescribes for this size")
				}
			}
		}
		if hlRes == nil || stRes == nil {
			panic(&exec.ExecError{Msg: "highlevelEncode / stuffBits were not called"})
		}
		{
			ws := aztecspec.WordSize(compact, layers)
			tb := aztecspec.TotalBits(compact, layers)
			ecc := term.Add(term.Div(term.Mul(c.Term(c.Field(hlRes, "count")), c.Term(pct)), term.I(100)), term.I(11))
			stuffed := c.Term(c.Field(stRes, "count"))
			fits := term.Le(term.Add(stuffed, ecc), term.I(int64(tb-tb%ws)))
			if compact {
				fits = term.And(fits, term.Le(stuffed, term.I(int64(64*ws))))
			}
			c.Oblige("config", label+"/ecc-honoured", ok, fits)
			for i, r := range errPaths {
				r.C.Oblige("config", fmt.Sprintf("%s/refused-only-if-too-large#%d", label, i), term.True,
					term.Or(term.Not(fits), term.Eq(c.Term(c.Field(hlRes, "count")), term.I(0))))
			}
		}
		msg := c.MathArr(c.Field(msgBits, "model"))
		mode := c.MathArr(c.Field(modeBits, "model"))
		obj := c.PtrAs(res[0], "*aztec.aztecCode")
		c.Oblige("config", label+"/dynamic-type", ok, term.Eq(resTag, term.I(c.TypeID("*aztec.aztecCode"))))
		dim := aztecspec.SymbolSize(compact, layers)
		c.Oblige("config", label+"/size", ok, term.Eq(c.Term(c.Field(obj, "size")), term.I(int64(dim))))
		got, want := c.Flat(c.Field(obj, "color")), c.Flat(color)
		var cc2 []*T
		for i := range got {
			cc2 = append(cc2, term.Eq(got[i], want[i]))
		}
		c.Oblige("config", label+"/color", ok, term.And(cc2...))
		// C15/C11: the stored payload is a private copy of the caller's bytes (fresh backing array,
		// same length, same bytes), so overwriting the input afterwards cannot reach the barcode
		if cs, isSl := c.Field(obj, "content").(exec.VSlice); !isSl {
			bad("content-snapshot", "aztecCode.content is not a slice")
		} else {
			ds := data.(exec.VSlice)
			k := term.Var("aztec.k", term.Int)
			inb := term.And(term.Le(term.I(0), k), term.Lt(k, ds.Len))
			c.Oblige("config", label+"/content-snapshot", ok, term.And(
				term.Le(term.I(exec.FreshBase), cs.Ref),
				term.Ne(cs.Ref, ds.Ref),
				term.Eq(cs.Len, ds.Len),
				term.Or(term.Not(inb), term.Eq(c.Term(c.ElemT(cs, k)), c.Term(c.ElemT(ds, k))))))
		}
		bl := c.Field(obj, "BitList")
		c.Oblige("config", label+"/modules", ok, term.Eq(c.Term(c.Field(bl, "count")), term.I(int64(dim*dim))))
		model := c.MathArr(c.Field(bl, "model"))
		layout := aztecspec.Layout(compact, layers)
		var conj []*T
		for x := 0; x < dim; x++ {
			for y := 0; y < dim; y++ {
				m := layout[x][y]
				var want *T
				switch m.Kind {
				case aztecspec.KLight:
					want = term.False
				case aztecspec.KDark:
					want = term.True
				case aztecspec.KMode:
					want = term.Select(mode, term.I(int64(m.Index)))
				default:
					want = term.Select(msg, term.I(int64(m.Index)))
				}
				got := term.Select(model, term.I(int64(x*dim+y)))
				compared++
				if got == want {
					continue
				}
				// on the error paths the object does not exist; compare under `ok`
				conj = append(conj, term.Eq(got, want))
				if len(conj) >= 200 {
					c.Oblige("config", fmt.Sprintf("%s/modules-upto(%d,%d)", label, x, y), ok, term.And(conj...))
					conj = nil
				}
			}
		}
		if len(conj) > 0 {
			c.Oblige("config", label+"/modules-rest", ok, term.And(conj...))
		}
	})
	if err != nil {
		return []oblRes{{Name: label + "/unwinding", Kind: "config", Proved: false, Output: err.Error()}}
	}
	out = append(out, dischargeConc(cc, c, label)...)
	if nfail == 0 {
		out = append(out, oblRes{Name: label + "/layout", Kind: "config", Proved: true, Solver: "syntactic+smt", Size: compared, Seconds: time.Since(t0).Seconds()})
	}
	return out
}

// unwindAztecAuto: automatic layer selection (userSpecifiedLayers == 0) with abstract stages,
// unwound over the 33 candidate sizes; every path is cut at generateModeMessage. Obligations:
//   - the preconditions of generateCheckWords and generateModeMessage (room for at least one check
//     word, word count within the mode message field);
//   - fits: the chosen (format, layers) really holds the stuffed data plus the requested check
//     bits eccBits = bits*pct/100 + 11, within the compact 64-word limit (C12: the requested
//     percentage is honoured);
//   - smallest: no ISO 24778 symbol (of all 36, sizes and capacities from aztecspec) with a
//     smaller side length fits (C13);
//   - too-large: the error is returned only if none of the 36 symbols fits (C10).
//
// The stuffed length for word size w is the uninterpreted spec function azStuffLen(bits, w)
// constrained by the contract of stuffBits.
func unwindAztecAuto(cc *checkCtx) []oblRes {
	label := "config/aztec.auto-selection"
	c := exec.NewConc(cc.P)
	c.X.Driver = "azauto"
	c.X.SplitLoopExits = true
	c.X.LogCalls = true
	err := c.Try(func() {
		ref := "aztec.EncodeWithColor"
		data := c.SymParam(ref, 0, "data")
		pct := c.SymParam(ref, 1, "pct")
		// C10's parameter domain: any non-negative percentage (however large); for an empty payload
		// (no data bits, known finding F6) the answer is left open
		c.Assume(term.Le(term.I(0), c.Term(pct)))
		color := c.SymParam(ref, 3, "color")
		rets, e := c.CallRets(ref, data, pct, exec.IntV(0, c.ParamType(ref, 2)), color)
		if e != nil && e.Error() != "aztec.EncodeWithColor does not return" {
			panic(&exec.ExecError{Msg: e.Error()})
		}
		sf := c.SpecFun("azStuffLen")
		if sf == nil {
			panic(&exec.ExecError{Msg: "spec function azStuffLen is not declared (aztec contracts)"})
		}
		var hl exec.Val
		for _, cr := range c.X.Calls {
			if cr.Fn == "aztec.highlevelEncode" {
				if hl != nil {
					panic(&exec.ExecError{Msg: "highlevelEncode is called more than once"})
				}
				hl = cr.Res
			}
		}
		if hl == nil {
			panic(&exec.ExecError{Msg: "highlevelEncode is not called"})
		}
		// read the bit count in a state in which the list exists (a selection path), not in the merged
		// state of the error returns (the illegal-percentage path never calls highlevelEncode)
		var hlCount *T
		for _, cr := range c.X.Calls {
			if cr.Fn == "aztec.generateModeMessage" {
				hlCount = c.View(cr.Pre).Term(c.View(cr.Pre).Field(hl, "count"))
				break
			}
		}
		if hlCount == nil {
			panic(&exec.ExecError{Msg: "no selection path reaches generateModeMessage"})
		}
		S := func(ws int) *T { return term.App(sf, c.Term(hl), term.I(int64(ws))) }
		// the contract of stuffBits, instantiated for the four word sizes in use
		for _, ws := range []int{6, 8, 10, 12} {
			w := term.I(int64(ws))
			c.Assume(term.And(term.Le(hlCount, S(ws)), term.Eq(term.Mod(S(ws), w), term.I(0)),
				term.Le(S(ws), term.Mul(term.Div(term.Add(hlCount, term.I(int64(ws-2))), term.I(int64(ws-1))), w))))
		}
		ecc := term.Add(term.Div(term.Mul(hlCount, c.Term(pct)), term.I(100)), term.I(11))
		type cand struct {
			compact bool
			layers  int
		}
		var cands []cand
		for l := 1; l <= 4; l++ {
			cands = append(cands, cand{true, l})
		}
		for l := 1; l <= 32; l++ {
			cands = append(cands, cand{false, l})
		}
		fits := func(k cand) *T {
			ws := aztecspec.WordSize(k.compact, k.layers)
			tb := aztecspec.TotalBits(k.compact, k.layers)
			f := term.Le(term.Add(S(ws), ecc), term.I(int64(tb-tb%ws)))
			if k.compact {
				f = term.And(f, term.Le(S(ws), term.I(int64(64*ws))))
			}
			return f
		}
		nsel := 0
		for _, cr := range c.X.Calls {
			if cr.Fn != "aztec.generateModeMessage" {
				continue
			}
			nsel++
			v := c.View(cr.Pre)
			compact, okc := cr.Args[0].(exec.VT)
			if !okc || !compact.T.IsConst() {
				panic(&exec.ExecError{Msg: "selected format is not concrete on a selection path"})
			}
			k := cand{compact.T == term.True, int(c.Int(cr.Args[1]))}
			name := fmt.Sprintf("%s/selected[%s]", label, map[bool]string{true: "compact", false: "full"}[k.compact]+fmt.Sprint(k.layers))
			ws := aztecspec.WordSize(k.compact, k.layers)
			// the word count handed to the mode message is the stuffed length in words
			v.Oblige("config", name+"/words", term.True, term.Eq(v.Term(cr.Args[2]), term.Div(S(ws), term.I(int64(ws)))))
			v.Oblige("config", name+"/fits", term.True, fits(k))
			var none []*T
			for _, j := range cands {
				if aztecspec.SymbolSize(j.compact, j.layers) < aztecspec.SymbolSize(k.compact, k.layers) {
					none = append(none, term.Not(fits(j)))
				}
			}
			v.Oblige("config", name+"/smallest", term.True, term.And(none...))
		}
		if nsel == 0 {
			panic(&exec.ExecError{Msg: "no selection path reaches generateModeMessage"})
		}
		for i := range rets {
			r := &rets[i]
			errTag, _ := r.C.IfaceParts(r.Vals[1])
			var none []*T
			for _, j := range cands {
				none = append(none, term.Not(fits(j)))
			}
			r.C.Oblige("config", fmt.Sprintf("%s/too-large#%d", label, i), term.True,
				term.And(term.Ne(errTag, term.I(0)), term.Or(term.And(none...), term.Eq(hlCount, term.I(0)))))
		}
	})
	if err != nil {
		return []oblRes{{Name: label + "/unwinding", Kind: "config", Proved: false, Output: err.Error()}}
	}
	return dischargeConc(cc, c, label)
}

var unwAztec = &Unwinder{
	Name: "aztec",
	Jobs: func(tier string) []string {
		jobs := []string{"auto"}
		for l := 32; l >= 1; l-- {
			jobs = append(jobs, fmt.Sprintf("full:%d", l))
		}
		for l := 4; l >= 1; l-- {
			jobs = append(jobs, fmt.Sprintf("compact:%d", l))
		}
		return jobs
	},
	Run: func(c *checkCtx, job string) []oblRes {
		var l int
		if job == "auto" {
			return unwindAztecAuto(c)
		}
		if _, err := fmt.Sscanf(job, "full:%d", &l); err == nil {
			return unwindAztecDraw(c, false, l)
		}
		if _, err := fmt.Sscanf(job, "compact:%d", &l); err == nil {
			return unwindAztecDraw(c, true, l)
		}
		return []oblRes{{Name: "config/aztec/" + job, Kind: "config", Output: "bad job"}}
	},
}
