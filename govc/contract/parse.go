// Package contract parses the Gobra-style contract files (comment-only Go files,
// //go:build verif) that live next to the code in /repo.
package contract

import (
	"fmt"
	"go/scanner"
	"go/token"
	"math/big"
	"os"
	"strconv"
	"strings"
)

// ---------------------------------------------------------------- AST

type Expr interface{ exprNode() }

type (
	Ident   struct{ Name string }
	IntLit  struct{ Val *big.Int }
	BoolLit struct{ Val bool }
	StrLit  struct{ Val string }
	Unary   struct {
		Op string
		X  Expr
	}
	Binary struct {
		Op   string
		X, Y Expr
	}
	Cond struct{ C, A, B Expr }
	Call struct {
		Fun  Expr
		Args []Expr
	}
	Index struct{ X, I Expr }
	Slice struct{ X, Lo, Hi Expr }
	Sel   struct {
		X    Expr
		Name string
	}
	Quant struct {
		Forall bool
		Vars   []Param
		Body   Expr
	}
	Old struct{ X Expr }
)

func (*Ident) exprNode()   {}
func (*IntLit) exprNode()  {}
func (*BoolLit) exprNode() {}
func (*StrLit) exprNode()  {}
func (*Unary) exprNode()   {}
func (*Binary) exprNode()  {}
func (*Cond) exprNode()    {}
func (*Call) exprNode()    {}
func (*Index) exprNode()   {}
func (*Slice) exprNode()   {}
func (*Sel) exprNode()     {}
func (*Quant) exprNode()   {}
func (*Old) exprNode()     {}

type Param struct {
	Name string
	Type string
}

type Clause struct {
	Kind string // requires ensures modifies sets assert assume ...
	Name string // optional label (ensures#name)
	E    Expr   // main expression
	E2   Expr   // sets: value
	Es   []Expr // modifies / decreases lists
	Text string
	Line int
	At   string // anchor for assert/assume/ghost
}

type LoopSpec struct {
	N          int
	Invariants []*Clause
	Decreases  []Expr
	Unroll     bool
	Line       int
}

type FuncSpec struct {
	Ref      string // e.g. "(*BitList).SetBit", "Scale", "scale2DCode$1"
	Requires []*Clause
	Ensures  []*Clause
	Modifies []Expr
	ModRep   []Expr // modifies#rep: representation-private locations (invisible outside the package)
	Sets     []*Clause
	Loops    map[int]*LoopSpec
	Asserts  []*Clause
	Pure     bool
	Inline   bool
	Abstract bool // callers always use the contract, even in unwinding mode
	Trusted  bool // body not verified (assumed contract) — reported in evidence
	NoBody   bool
	Attrs    map[string]string
	File     string
	Line     int
}

type Define struct {
	Rec    bool // `specdef`: a (possibly recursive) spec function, emitted as an SMT function + defining axiom
	Name   string
	Params []Param
	Ret    string
	Body   Expr
	File   string
	Line   int
}

type File struct {
	Path    string
	Package string
	Funcs   []*FuncSpec
	Defines []*Define
	Axioms  []*Clause
}

// ---------------------------------------------------------------- file level

var clauseKW = map[string]bool{
	"func": true, "define": true, "requires": true, "ensures": true, "modifies": true, "sets": true,
	"pure": true, "inline": true, "abstract": true, "trusted": true, "loop": true, "assert": true, "assume": true,
	"axiom": true, "attr": true, "specdef": true,
}

func ParseFile(path string) (*File, error) {
	data, err := os.ReadFile(path)
	if err != nil {
		return nil, err
	}
	f := &File{Path: path}
	type rawClause struct {
		text string
		line int
	}
	var raws []rawClause
	for i, ln := range strings.Split(string(data), "\n") {
		s := strings.TrimSpace(ln)
		if strings.HasPrefix(s, "package ") {
			f.Package = strings.TrimSpace(strings.TrimPrefix(s, "package "))
			continue
		}
		if !strings.HasPrefix(s, "//@") {
			continue
		}
		s = strings.TrimSpace(s[3:])
		if s == "" {
			continue
		}
		if i := strings.Index(s, " //"); i >= 0 { // trailing comment
			s = strings.TrimSpace(s[:i])
		}
		first := s
		if j := strings.IndexAny(s, " \t("); j >= 0 {
			first = s[:j]
		}
		if k := strings.Index(first, "#"); k >= 0 {
			first = first[:k]
		}
		if clauseKW[first] {
			raws = append(raws, rawClause{s, i + 1})
		} else if len(raws) > 0 {
			raws[len(raws)-1].text += " " + s
		} else {
			return nil, fmt.Errorf("%s:%d: continuation line without clause", path, i+1)
		}
	}
	var cur *FuncSpec
	for _, rc := range raws {
		kw, rest := splitKW(rc.text)
		label := ""
		if k := strings.Index(kw, "#"); k >= 0 {
			label = kw[k+1:]
			kw = kw[:k]
		}
		fail := func(err error) error { return fmt.Errorf("%s:%d: %v (in %q)", path, rc.line, err, rc.text) }
		switch kw {
		case "func":
			cur = &FuncSpec{Ref: strings.TrimSpace(rest), Loops: map[int]*LoopSpec{}, File: path, Line: rc.line, Attrs: map[string]string{}}
			f.Funcs = append(f.Funcs, cur)
			continue
		case "define":
			d, err := parseDefine(rest)
			if err != nil {
				return nil, fail(err)
			}
			d.File, d.Line = path, rc.line
			f.Defines = append(f.Defines, d)
			continue
		case "specdef":
			d, err := parseDefine(rest)
			if err != nil {
				return nil, fail(err)
			}
			d.File, d.Line, d.Rec = path, rc.line, true
			f.Defines = append(f.Defines, d)
			continue
		case "axiom":
			e, err := ParseExpr(rest)
			if err != nil {
				return nil, fail(err)
			}
			f.Axioms = append(f.Axioms, &Clause{Kind: "axiom", Name: label, E: e, Text: rest, Line: rc.line})
			continue
		}
		if cur == nil {
			return nil, fail(fmt.Errorf("clause outside of a func block"))
		}
		switch kw {
		case "requires", "ensures":
			e, err := ParseExpr(rest)
			if err != nil {
				return nil, fail(err)
			}
			c := &Clause{Kind: kw, Name: label, E: e, Text: rest, Line: rc.line}
			if kw == "requires" {
				cur.Requires = append(cur.Requires, c)
			} else {
				cur.Ensures = append(cur.Ensures, c)
			}
		case "modifies":
			es, err := ParseExprList(rest)
			if err != nil {
				return nil, fail(err)
			}
			if label == "rep" {
				cur.ModRep = append(cur.ModRep, es...)
			} else {
				cur.Modifies = append(cur.Modifies, es...)
			}
		case "sets":
			i := topLevelAssign(rest)
			if i < 0 {
				return nil, fail(fmt.Errorf("sets needs 'loc = expr'"))
			}
			l, err := ParseExpr(rest[:i])
			if err != nil {
				return nil, fail(err)
			}
			r, err := ParseExpr(rest[i+1:])
			if err != nil {
				return nil, fail(err)
			}
			cur.Sets = append(cur.Sets, &Clause{Kind: "sets", Name: label, E: l, E2: r, Text: rest, Line: rc.line})
		case "pure":
			cur.Pure = true
		case "inline":
			cur.Inline = true
		case "abstract":
			cur.Abstract = true
		case "trusted":
			cur.Trusted = true
		case "attr":
			k, v := splitKW(rest)
			cur.Attrs[k] = v
		case "assert", "assume":
			at := ""
			if i := strings.LastIndex(rest, " at "); i >= 0 {
				at = strings.TrimSpace(rest[i+4:])
				rest = rest[:i]
			}
			e, err := ParseExpr(rest)
			if err != nil {
				return nil, fail(err)
			}
			cur.Asserts = append(cur.Asserts, &Clause{Kind: kw, Name: label, E: e, Text: rest, Line: rc.line, At: at})
		case "loop":
			ns, r2 := splitKW(rest)
			n, err := strconv.Atoi(ns)
			if err != nil {
				return nil, fail(fmt.Errorf("loop needs an ordinal"))
			}
			ls := cur.Loops[n]
			if ls == nil {
				ls = &LoopSpec{N: n, Line: rc.line}
				cur.Loops[n] = ls
			}
			sub, r3 := splitKW(r2)
			sublabel := ""
			if k := strings.Index(sub, "#"); k >= 0 {
				sublabel = sub[k+1:]
				sub = sub[:k]
			}
			switch sub {
			case "invariant":
				e, err := ParseExpr(r3)
				if err != nil {
					return nil, fail(err)
				}
				ls.Invariants = append(ls.Invariants, &Clause{Kind: "invariant", Name: sublabel, E: e, Text: r3, Line: rc.line})
			case "decreases":
				es, err := ParseExprList(r3)
				if err != nil {
					return nil, fail(err)
				}
				ls.Decreases = es
			case "unroll":
				ls.Unroll = true
			default:
				return nil, fail(fmt.Errorf("unknown loop clause %q", sub))
			}
		default:
			return nil, fail(fmt.Errorf("unknown clause %q", kw))
		}
	}
	return f, nil
}

func splitKW(s string) (string, string) {
	s = strings.TrimSpace(s)
	i := strings.IndexAny(s, " \t")
	if i < 0 {
		return s, ""
	}
	return s[:i], strings.TrimSpace(s[i:])
}

func topLevelAssign(s string) int {
	depth := 0
	for i := 0; i < len(s); i++ {
		switch s[i] {
		case '(', '[':
			depth++
		case ')', ']':
			depth--
		case '=':
			if depth == 0 {
				if i+1 < len(s) && (s[i+1] == '=') {
					i++
					continue
				}
				if i > 0 && strings.ContainsRune("!<>=", rune(s[i-1])) {
					continue
				}
				return i
			}
		}
	}
	return -1
}

func parseDefine(s string) (*Define, error) {
	// name(p1 T1, p2 T2) RetType = expr
	i := strings.Index(s, "(")
	if i < 0 {
		return nil, fmt.Errorf("define: missing (")
	}
	d := &Define{Name: strings.TrimSpace(s[:i])}
	depth := 0
	j := i
	for ; j < len(s); j++ {
		if s[j] == '(' {
			depth++
		} else if s[j] == ')' {
			depth--
			if depth == 0 {
				break
			}
		}
	}
	if j >= len(s) {
		return nil, fmt.Errorf("define: unbalanced (")
	}
	ps := strings.TrimSpace(s[i+1 : j])
	if ps != "" {
		for _, p := range strings.Split(ps, ",") {
			n, t := splitKW(p)
			if t == "" {
				return nil, fmt.Errorf("define: parameter %q needs a type", p)
			}
			d.Params = append(d.Params, Param{n, t})
		}
	}
	rest := s[j+1:]
	k := topLevelAssign(rest)
	if k < 0 {
		return nil, fmt.Errorf("define: missing =")
	}
	d.Ret = strings.TrimSpace(rest[:k])
	e, err := ParseExpr(rest[k+1:])
	if err != nil {
		return nil, err
	}
	d.Body = e
	return d, nil
}

// ---------------------------------------------------------------- expression parser

type tok struct {
	t   token.Token
	lit string
	s   string // operator text for our extra tokens
}

type parser struct {
	toks []tok
	p    int
	src  string
}

func lex(src string) ([]tok, error) {
	// pre-tokenise our non-Go operators by replacing them with private idents
	src2 := strings.ReplaceAll(src, "<==>", " __IFF__ ")
	src2 = strings.ReplaceAll(src2, "==>", " __IMPLIES__ ")
	src2 = strings.ReplaceAll(src2, "::", " __DCOLON__ ")
	src2 = strings.ReplaceAll(src2, "?", " __QUEST__ ")
	fset := token.NewFileSet()
	file := fset.AddFile("", fset.Base(), len(src2))
	var s scanner.Scanner
	var errs []string
	s.Init(file, []byte(src2), func(pos token.Position, msg string) { errs = append(errs, msg) }, 0)
	var out []tok
	for {
		_, t, lit := s.Scan()
		if t == token.EOF {
			break
		}
		if t == token.SEMICOLON && lit == "\n" {
			continue
		}
		tk := tok{t: t, lit: lit}
		if t == token.IDENT {
			switch lit {
			case "__IMPLIES__":
				tk = tok{t: token.ILLEGAL, s: "==>"}
			case "__IFF__":
				tk = tok{t: token.ILLEGAL, s: "<==>"}
			case "__DCOLON__":
				tk = tok{t: token.ILLEGAL, s: "::"}
			case "__QUEST__":
				tk = tok{t: token.ILLEGAL, s: "?"}
			}
		}
		out = append(out, tk)
	}
	if len(errs) > 0 {
		return nil, fmt.Errorf("lex: %s", strings.Join(errs, "; "))
	}
	return out, nil
}

func ParseExpr(src string) (Expr, error) {
	toks, err := lex(src)
	if err != nil {
		return nil, err
	}
	p := &parser{toks: toks, src: src}
	e, err := p.expr()
	if err != nil {
		return nil, err
	}
	if p.p < len(p.toks) {
		return nil, fmt.Errorf("unexpected %q after expression", p.peekText())
	}
	return e, nil
}

func ParseExprList(src string) ([]Expr, error) {
	toks, err := lex(src)
	if err != nil {
		return nil, err
	}
	p := &parser{toks: toks, src: src}
	var out []Expr
	for {
		e, err := p.expr()
		if err != nil {
			return nil, err
		}
		out = append(out, e)
		if p.isTok(token.COMMA) {
			p.p++
			continue
		}
		break
	}
	if p.p < len(p.toks) {
		return nil, fmt.Errorf("unexpected %q after expression list", p.peekText())
	}
	return out, nil
}

func (p *parser) peek() *tok {
	if p.p < len(p.toks) {
		return &p.toks[p.p]
	}
	return nil
}
func (p *parser) peekText() string {
	t := p.peek()
	if t == nil {
		return "<eof>"
	}
	if t.s != "" {
		return t.s
	}
	if t.lit != "" {
		return t.lit
	}
	return t.t.String()
}
func (p *parser) isTok(t token.Token) bool { k := p.peek(); return k != nil && k.t == t && k.s == "" }
func (p *parser) isX(s string) bool        { k := p.peek(); return k != nil && k.s == s }
func (p *parser) isIdent(s string) bool {
	k := p.peek()
	return k != nil && k.t == token.IDENT && k.lit == s
}
func (p *parser) expect(t token.Token) error {
	if !p.isTok(t) {
		return fmt.Errorf("expected %s, got %q", t, p.peekText())
	}
	p.p++
	return nil
}

// expr := quant | cond
func (p *parser) expr() (Expr, error) {
	if p.isIdent("forall") || p.isIdent("exists") {
		fa := p.isIdent("forall")
		p.p++
		var vars []Param
		for {
			k := p.peek()
			if k == nil || k.t != token.IDENT {
				return nil, fmt.Errorf("quantifier: expected variable name")
			}
			name := k.lit
			p.p++
			// type: sequence of tokens up to ',' or '::'
			var ty strings.Builder
			for !p.isX("::") && !p.isTok(token.COMMA) {
				k := p.peek()
				if k == nil {
					return nil, fmt.Errorf("quantifier: missing ::")
				}
				if k.lit != "" {
					ty.WriteString(k.lit)
				} else {
					ty.WriteString(k.t.String())
				}
				p.p++
			}
			vars = append(vars, Param{name, ty.String()})
			if p.isTok(token.COMMA) {
				p.p++
				continue
			}
			break
		}
		p.p++ // ::
		body, err := p.expr()
		if err != nil {
			return nil, err
		}
		return &Quant{Forall: fa, Vars: vars, Body: body}, nil
	}
	return p.cond()
}

func (p *parser) cond() (Expr, error) {
	c, err := p.implies()
	if err != nil {
		return nil, err
	}
	if p.isX("?") {
		p.p++
		a, err := p.expr()
		if err != nil {
			return nil, err
		}
		if err := p.expect(token.COLON); err != nil {
			return nil, err
		}
		b, err := p.expr()
		if err != nil {
			return nil, err
		}
		return &Cond{c, a, b}, nil
	}
	return c, nil
}

func (p *parser) implies() (Expr, error) {
	l, err := p.binary(1)
	if err != nil {
		return nil, err
	}
	if p.isX("==>") {
		p.p++
		var r Expr
		if p.isIdent("forall") || p.isIdent("exists") {
			r, err = p.expr()
		} else {
			r, err = p.implies()
		}
		if err != nil {
			return nil, err
		}
		return &Binary{"==>", l, r}, nil
	}
	if p.isX("<==>") {
		p.p++
		r, err := p.binary(1)
		if err != nil {
			return nil, err
		}
		return &Binary{"<==>", l, r}, nil
	}
	return l, nil
}

func prec(t token.Token) int {
	switch t {
	case token.LOR:
		return 1
	case token.LAND:
		return 2
	case token.EQL, token.NEQ, token.LSS, token.LEQ, token.GTR, token.GEQ:
		return 3
	case token.ADD, token.SUB, token.OR, token.XOR:
		return 4
	case token.MUL, token.QUO, token.REM, token.SHL, token.SHR, token.AND, token.AND_NOT:
		return 5
	}
	return 0
}

func (p *parser) binary(min int) (Expr, error) {
	l, err := p.unary()
	if err != nil {
		return nil, err
	}
	for {
		k := p.peek()
		if k == nil || k.s != "" {
			return l, nil
		}
		pr := prec(k.t)
		if pr == 0 || pr < min {
			return l, nil
		}
		p.p++
		var r Expr
		if (k.t == token.LAND || k.t == token.LOR) && (p.isIdent("forall") || p.isIdent("exists")) {
			r, err = p.expr()
		} else {
			r, err = p.binary(pr + 1)
		}
		if err != nil {
			return nil, err
		}
		l = &Binary{k.t.String(), l, r}
	}
}

func (p *parser) unary() (Expr, error) {
	k := p.peek()
	if k == nil {
		return nil, fmt.Errorf("unexpected end of expression")
	}
	if k.s == "" {
		switch k.t {
		case token.NOT, token.SUB, token.XOR, token.ADD:
			p.p++
			x, err := p.unary()
			if err != nil {
				return nil, err
			}
			return &Unary{k.t.String(), x}, nil
		}
	}
	return p.postfix()
}

func (p *parser) postfix() (Expr, error) {
	x, err := p.primary()
	if err != nil {
		return nil, err
	}
	for {
		switch {
		case p.isTok(token.PERIOD):
			p.p++
			k := p.peek()
			if k == nil || k.t != token.IDENT {
				return nil, fmt.Errorf("expected field name after '.'")
			}
			p.p++
			x = &Sel{x, k.lit}
		case p.isTok(token.LBRACK):
			p.p++
			var lo, hi Expr
			isSlice := false
			if !p.isTok(token.COLON) {
				lo, err = p.expr()
				if err != nil {
					return nil, err
				}
			}
			if p.isTok(token.COLON) {
				isSlice = true
				p.p++
				if !p.isTok(token.RBRACK) {
					hi, err = p.expr()
					if err != nil {
						return nil, err
					}
				}
			}
			if err := p.expect(token.RBRACK); err != nil {
				return nil, err
			}
			if isSlice {
				x = &Slice{x, lo, hi}
			} else {
				x = &Index{x, lo}
			}
		case p.isTok(token.LPAREN):
			p.p++
			var args []Expr
			for !p.isTok(token.RPAREN) {
				a, err := p.expr()
				if err != nil {
					return nil, err
				}
				args = append(args, a)
				if p.isTok(token.COMMA) {
					p.p++
				} else {
					break
				}
			}
			if err := p.expect(token.RPAREN); err != nil {
				return nil, err
			}
			if id, ok := x.(*Ident); ok && id.Name == "old" && len(args) == 1 {
				x = &Old{args[0]}
			} else {
				x = &Call{x, args}
			}
		default:
			return x, nil
		}
	}
}

func (p *parser) primary() (Expr, error) {
	k := p.peek()
	if k == nil {
		return nil, fmt.Errorf("unexpected end of expression")
	}
	if k.s != "" {
		return nil, fmt.Errorf("unexpected %q", k.s)
	}
	switch k.t {
	case token.IDENT:
		p.p++
		switch k.lit {
		case "true":
			return &BoolLit{true}, nil
		case "false":
			return &BoolLit{false}, nil
		}
		return &Ident{k.lit}, nil
	case token.INT:
		p.p++
		v, ok := new(big.Int).SetString(k.lit, 0)
		if !ok {
			return nil, fmt.Errorf("bad integer %q", k.lit)
		}
		return &IntLit{v}, nil
	case token.CHAR:
		p.p++
		s, err := strconv.Unquote(k.lit)
		if err != nil {
			return nil, err
		}
		r := []rune(s)
		return &IntLit{big.NewInt(int64(r[0]))}, nil
	case token.STRING:
		p.p++
		s, err := strconv.Unquote(k.lit)
		if err != nil {
			return nil, err
		}
		return &StrLit{s}, nil
	case token.LPAREN:
		p.p++
		e, err := p.expr()
		if err != nil {
			return nil, err
		}
		if err := p.expect(token.RPAREN); err != nil {
			return nil, err
		}
		return e, nil
	case token.MUL: // *p deref
		p.p++
		x, err := p.unary()
		if err != nil {
			return nil, err
		}
		return &Unary{"*", x}, nil
	}
	return nil, fmt.Errorf("unexpected token %q", p.peekText())
}

// String renders an expression back to source form (for obligation names and reports).
func String(e Expr) string {
	switch n := e.(type) {
	case *Ident:
		return n.Name
	case *IntLit:
		return n.Val.String()
	case *BoolLit:
		return fmt.Sprint(n.Val)
	case *StrLit:
		return strconv.Quote(n.Val)
	case *Unary:
		return n.Op + String(n.X)
	case *Binary:
		return "(" + String(n.X) + " " + n.Op + " " + String(n.Y) + ")"
	case *Cond:
		return "(" + String(n.C) + " ? " + String(n.A) + " : " + String(n.B) + ")"
	case *Call:
		var as []string
		for _, a := range n.Args {
			as = append(as, String(a))
		}
		return String(n.Fun) + "(" + strings.Join(as, ", ") + ")"
	case *Index:
		return String(n.X) + "[" + String(n.I) + "]"
	case *Slice:
		lo, hi := "", ""
		if n.Lo != nil {
			lo = String(n.Lo)
		}
		if n.Hi != nil {
			hi = String(n.Hi)
		}
		return String(n.X) + "[" + lo + ":" + hi + "]"
	case *Sel:
		return String(n.X) + "." + n.Name
	case *Quant:
		q := "exists"
		if n.Forall {
			q = "forall"
		}
		var vs []string
		for _, v := range n.Vars {
			vs = append(vs, v.Name+" "+v.Type)
		}
		return "(" + q + " " + strings.Join(vs, ", ") + " :: " + String(n.Body) + ")"
	case *Old:
		return "old(" + String(n.X) + ")"
	}
	return "?"
}

func (f *FuncSpec) GetAttr(k string) string { return f.Attrs[k] }
