package main

// [C] complete unwinding of qr.render for a fixed (version, level): the codewords stay symbolic,
// all loops (function patterns, zig-zag placement through the two producer goroutines, 8 masks)
// are unwound, and each of the 8 candidate grids is compared module by module with the layout
// that the independent ISO 18004 transcription (verif/spec/qrspec) prescribes.

import (
	"fmt"
	"os"
	"sort"
	"strconv"
	"strings"
	"time"

	"verif/govc/exec"
	"verif/govc/term"
	"verif/spec/qrspec"
)

func iteLeaves(t *T, out map[int64]bool) bool {
	if k, ok := t.Int64(); ok {
		out[k] = true
		return true
	}
	if t.Op == term.OIte {
		return iteLeaves(t.Args[1], out) && iteLeaves(t.Args[2], out)
	}
	return false
}

func unwindQRRender(cc *checkCtx, version int, level int) []oblRes {
	label := fmt.Sprintf("config/qr.render[v%d,%s]", version, qrspec.Level(level))
	t0 := time.Now()
	c := exec.NewConc(cc.P)
	fail := func(what string, err error) []oblRes {
		return []oblRes{{Name: label + "/" + what, Kind: "config", Proved: false, Output: err.Error()}}
	}
	var out []oblRes
	nfail := 0
	bad := func(name, msg string) {
		nfail++
		if nfail <= 5 {
			out = append(out, oblRes{Name: label + "/" + name, Kind: "config", Proved: false, Output: msg})
		}
	}
	var grids int
	var compared int
	err := c.Try(func() {
		vis := must(c.Global("qr.versionInfos"))
		vi := c.Elem(vis, int64((version-1)*4+level))
		if int(c.Int(c.Field(vi, "Version"))) != version || int(c.Int(c.Field(vi, "Level"))) != level {
			panic(&exec.ExecError{Msg: "versionInfos is not ordered by version and level (see table/qr/versionInfos)"})
		}
		total := qrspec.TotalCodewords(version)
		// symbolic codewords
		data, bytes := c.SymBytes("qr.cw", total)
		color := c.SymParam("qr.render", 2, "color")
		res, e := c.Call("qr.render", data, vi, color)
		if e != nil {
			panic(&exec.ExecError{Msg: e.Error()})
		}
		if leaks := c.X.DrainCheck(c.St); len(leaks) > 0 {
			bad("chan/drain", leaks[0])
		}
		leaves := map[int64]bool{}
		ok := iteLeaves(c.Term(res[0]), leaves)
		delete(leaves, 0) // index -1 (no mask chosen) is excluded by the bounds obligation of results[lowestPenaltyIdx]
		if !ok || len(leaves) != 8 {
			panic(&exec.ExecError{Msg: fmt.Sprintf("render does not return one of 8 candidate grids (%d distinct results)", len(leaves))})
		}
		var refs []int64
		for r := range leaves {
			refs = append(refs, r)
		}
		sort.Slice(refs, func(i, j int) bool { return refs[i] < refs[j] })
		layout := qrspec.Layout(version)
		dim := 17 + 4*version
		dataBit := func(k int) *T {
			if k >= 8*total {
				return term.False // remainder bits
			}
			return term.Eq(term.EMod(term.EDiv(bytes[k/8], term.I(1<<uint(7-k%8))), term.I(2)), term.I(1))
		}
		for m, ref := range refs {
			grids++
			q := c.PtrConst(ref, "*qr.qrcode")
			if c.Int(c.Field(q, "dimension")) != int64(dim) {
				bad(fmt.Sprintf("mask%d/dimension", m), fmt.Sprintf("dimension %d, want %d", c.Int(c.Field(q, "dimension")), dim))
				continue
			}
			got, want := c.Flat(c.Field(q, "color")), c.Flat(color)
			for i := range got {
				if got[i] != want[i] {
					bad(fmt.Sprintf("mask%d/color", m), "grid does not carry the caller's colour scheme")
					break
				}
			}
			bl := c.Field(q, "data")
			if c.Int(c.Field(bl, "count")) != int64(dim*dim) {
				bad(fmt.Sprintf("mask%d/size", m), "bit list length is not dim*dim")
				continue
			}
			model := c.MathArr(c.Field(bl, "model"))
			fw := qrspec.FormatWord(qrspec.Level(level), m)
			vw := qrspec.VersionWord(version)
			for x := 0; x < dim; x++ {
				for y := 0; y < dim; y++ {
					mod := layout[x][y]
					var want *T
					switch mod.Kind {
					case qrspec.KFixedLight:
						want = term.False
					case qrspec.KFixedDark:
						want = term.True
					case qrspec.KFormat:
						want = term.B((fw>>uint(mod.Index))&1 == 1)
					case qrspec.KVersion:
						want = term.B((vw>>uint(mod.Index))&1 == 1)
					case qrspec.KData:
						want = dataBit(mod.Index)
						if qrspec.MaskBit(m, x, y) {
							want = term.Not(want)
						}
					}
					got := term.Select(model, term.I(int64(x*dim+y)))
					compared++
					if got != want {
						// not syntactically equal: leave it to the solver
						c.Oblige("config", fmt.Sprintf("%s/mask%d/module(%d,%d)", label, m, x, y), term.True, term.Eq(got, want))
					}
				}
			}
		}
	})
	if err != nil {
		return fail("unwinding", err)
	}
	// obligations raised during execution (bounds, pre, frame ...) + residual module comparisons
	for _, o := range c.X.Obls {
		if o.Kind != "config" {
			o.Name = label + "/" + o.Name
		}
	}
	for _, r := range c.X.Discharge(cc.cfg) {
		out = append(out, oblRes{Name: r.Obl.Name, Kind: r.Obl.Kind, Proved: r.Verdict == exec.Proved, Solver: r.Solver, Seconds: r.Seconds, Output: r.Output, Model: r.Model, Size: r.Size, Trivial: r.Trivial})
	}
	for k, n := range c.ExtraTrivial() {
		out = append(out, oblRes{Name: fmt.Sprintf("%s/%s(x%d)", label, k, n), Kind: k, Proved: true, Solver: "syntactic", Trivial: true, Count: n})
	}
	if nfail == 0 {
		out = append(out, oblRes{Name: label + "/layout", Kind: "config", Proved: true, Solver: "syntactic", Size: compared, Trivial: false, Seconds: time.Since(t0).Seconds()})
	}
	cc.Notes = append(cc.Notes, c.X.Notes...)
	return out
}

var unwQR = &Unwinder{
	Name: "qr",
	Jobs: func(tier string) []string {
		versions := []int{27, 20, 14, 7, 6, 2, 1}
		if tier == "thorough" {
			versions = nil
			for v := 40; v >= 1; v-- {
				versions = append(versions, v)
			}
		}
		if e := os.Getenv("GOVC_QRV"); e != "" {
			versions = nil
			for _, f := range strings.Fields(e) {
				n, _ := strconv.Atoi(f)
				versions = append(versions, n)
			}
		}
		var jobs []string
		for i, v := range versions {
			levels := []int{i % 4}
			if tier == "thorough" || v <= 2 {
				levels = []int{0, 1, 2, 3}
			}
			for _, l := range levels {
				jobs = append(jobs, fmt.Sprintf("render:%d:%d", v, l))
			}
		}
		return jobs
	},
	Run: func(c *checkCtx, job string) []oblRes {
		var v, l int
		if _, err := fmt.Sscanf(job, "render:%d:%d", &v, &l); err != nil {
			return []oblRes{{Name: "config/qr/" + job, Kind: "config", Output: "bad job"}}
		}
		return unwindQRRender(c, v, l)
	},
}
