#!/bin/sh
# ./replay.sh <replay file>: show the failed obligation and re-run the property's bounded search on the real code
cd "$(dirname "$0")"
f=$1
[ -f "$f" ] || { echo "no such replay file: $f"; exit 2; }
cat "$f"
id=$(python3 -c "import json,sys; print(json.load(open(sys.argv[1]))['property'])" "$f")
exec ./check.sh "$id" --tier quick
